// Package bip32lib holds the Go side of the C14 check (BIP-32 key derivation):
//
//   - the TRUSTED primitives the TLA+ specification spec/Bip32.tla leaves
//     uninterpreted (HMAC-SHA512, secp256k1 point multiplication/addition via
//     btcec, "x lies on the curve" via math/big, RIPEMD160(SHA256), double
//     SHA-256, base-58), each recorded as a question/answer pair in the
//     oracle list of a trace line;
//   - an UNTRUSTED reference walk (Ref*) whose only purpose is to pose the
//     questions the specification is going to ask.  TLC forms every question
//     itself from the spec's own byte layout; a question that was not posed
//     here stops TLC (inconclusive), so a mistake in this file can never turn
//     into a pass.
//
// Nothing in this package decides conformance.
package bip32lib

import (
	"bytes"
	"crypto/hmac"
	"crypto/sha256"
	"crypto/sha512"
	"encoding/binary"
	"math/big"
	"strconv"

	"github.com/btcsuite/btcd/btcec"
	"golang.org/x/crypto/ripemd160"
)

// Bytes is a byte string that is written to JSON as an array of numbers
// (TLC reads it as a tuple of integers).
type Bytes []byte

func (b Bytes) MarshalJSON() ([]byte, error) {
	out := make([]byte, 0, 2+4*len(b))
	out = append(out, '[')
	for i, x := range b {
		if i > 0 {
			out = append(out, ',')
		}
		out = strconv.AppendInt(out, int64(x), 10)
	}
	return append(out, ']'), nil
}

// Q is one question to a trusted primitive and its answer.
type Q struct {
	F    string  `json:"f"`
	In   []Bytes `json:"in"`
	Sin  string  `json:"sin"`
	Ok   bool    `json:"ok"`
	Out  Bytes   `json:"out"`
	Sout string  `json:"sout"`
}

// Oracle collects the questions posed while one trace line is prepared.
type Oracle struct {
	Qs   []Q
	seen map[string]bool
}

func NewOracle() *Oracle { return &Oracle{Qs: []Q{}, seen: map[string]bool{}} }

func (o *Oracle) add(q Q) {
	key := q.F + "|" + q.Sin
	for _, b := range q.In {
		key += "|" + string(b)
	}
	if o.seen[key] {
		return
	}
	o.seen[key] = true
	if q.In == nil {
		q.In = []Bytes{}
	}
	if q.Out == nil {
		q.Out = Bytes{}
	}
	o.Qs = append(o.Qs, q)
}

func cp(b []byte) Bytes { return append(Bytes{}, b...) }

// ---------------------------------------------------------------- trusted primitives

var curve = btcec.S256()

func (o *Oracle) HMAC(key, data []byte) []byte {
	h := hmac.New(sha512.New, key)
	h.Write(data)
	out := h.Sum(nil)
	o.add(Q{F: "hmac-sha512", In: []Bytes{cp(key), cp(data)}, Ok: true, Out: cp(out)})
	return out
}

// Point answers serP(k*G) for a 32-byte scalar 0 < k < n.
func (o *Oracle) Point(k []byte) []byte {
	x, y := curve.ScalarBaseMult(k)
	pk := btcec.PublicKey{Curve: curve, X: x, Y: y}
	out := pk.SerializeCompressed()
	o.add(Q{F: "point", In: []Bytes{cp(k)}, Ok: true, Out: cp(out)})
	return out
}

// PointAdd answers serP(il*G + K); ok=false stands for the point at infinity.
func (o *Oracle) PointAdd(il, K []byte) ([]byte, bool) {
	pk, err := btcec.ParsePubKey(K, curve)
	if err != nil {
		o.add(Q{F: "point-add", In: []Bytes{cp(il), cp(K)}, Ok: false})
		return nil, false
	}
	ix, iy := curve.ScalarBaseMult(il)
	neg := new(big.Int).Sub(curve.P, pk.Y)
	if ix.Cmp(pk.X) == 0 && iy.Cmp(neg) == 0 {
		o.add(Q{F: "point-add", In: []Bytes{cp(il), cp(K)}, Ok: false})
		return nil, false
	}
	x, y := curve.Add(ix, iy, pk.X, pk.Y)
	r := btcec.PublicKey{Curve: curve, X: x, Y: y}
	out := r.SerializeCompressed()
	o.add(Q{F: "point-add", In: []Bytes{cp(il), cp(K)}, Ok: true, Out: cp(out)})
	return out, true
}

func (o *Oracle) Hash160(x []byte) []byte {
	s := sha256.Sum256(x)
	r := ripemd160.New()
	r.Write(s[:])
	out := r.Sum(nil)
	o.add(Q{F: "hash160", In: []Bytes{cp(x)}, Ok: true, Out: cp(out)})
	return out
}

func (o *Oracle) Sha256d(x []byte) []byte {
	a := sha256.Sum256(x)
	b := sha256.Sum256(a[:])
	o.add(Q{F: "sha256d", In: []Bytes{cp(x)}, Ok: true, Out: cp(b[:])})
	return b[:]
}

// Liftable: x (32 bytes, x < p) is the abscissa of a curve point, i.e. x^3+7 is a square mod p.
// Computed with math/big only (independent of btcec's key parser, which the implementation uses).
func (o *Oracle) Liftable(x []byte) bool {
	ok := IsLiftable(x)
	o.add(Q{F: "liftable-x", In: []Bytes{cp(x)}, Ok: ok})
	return ok
}

func IsLiftable(x []byte) bool {
	p := curve.P
	xv := new(big.Int).SetBytes(x)
	y2 := new(big.Int).Exp(xv, big.NewInt(3), p)
	y2.Add(y2, big.NewInt(7))
	y2.Mod(y2, p)
	return new(big.Int).ModSqrt(y2, p) != nil
}

const alphabet = "123456789ABCDEFGHJKLMNPQRSTUVWXYZabcdefghijkmnopqrstuvwxyz"

// B58Encode / B58Decode: plain base-58 (Bitcoin alphabet), written here with math/big so that the
// oracle does not share code with the implementation under test.
func B58Encode(b []byte) string {
	x := new(big.Int).SetBytes(b)
	radix := big.NewInt(58)
	mod := new(big.Int)
	var out []byte
	for x.Sign() > 0 {
		x.DivMod(x, radix, mod)
		out = append(out, alphabet[mod.Int64()])
	}
	for _, c := range b {
		if c != 0 {
			break
		}
		out = append(out, alphabet[0])
	}
	for i, j := 0, len(out)-1; i < j; i, j = i+1, j-1 {
		out[i], out[j] = out[j], out[i]
	}
	return string(out)
}

func B58Decode(s string) ([]byte, bool) {
	x := new(big.Int)
	radix := big.NewInt(58)
	for i := 0; i < len(s); i++ {
		d := bytes.IndexByte([]byte(alphabet), s[i])
		if d < 0 {
			return nil, false
		}
		x.Mul(x, radix)
		x.Add(x, big.NewInt(int64(d)))
	}
	body := x.Bytes()
	nz := 0
	for nz < len(s) && s[nz] == alphabet[0] {
		nz++
	}
	out := make([]byte, nz+len(body))
	copy(out[nz:], body)
	return out, true
}

func (o *Oracle) B58Enc(b []byte) string {
	s := B58Encode(b)
	o.add(Q{F: "base58-encode", In: []Bytes{cp(b)}, Ok: true, Sout: s})
	return s
}

func (o *Oracle) B58Dec(s string) ([]byte, bool) {
	b, ok := B58Decode(s)
	o.add(Q{F: "base58-decode", In: []Bytes{}, Sin: s, Ok: ok, Out: cp(b)})
	return b, ok
}

// ---------------------------------------------------------------- untrusted reference walk

// Key mirrors the record of spec/Bip32.tla.
type Key struct {
	Ver   []byte
	Depth byte
	FP    []byte
	Num   uint32
	CC    []byte
	Priv  bool
	Key   []byte // 32-byte scalar if Priv, else 33-byte compressed point
}

type Net struct {
	Prv Bytes `json:"prv"`
	Pub Bytes `json:"pub"`
}

const Hardened = 0x80000000

func ser32(i uint32) []byte {
	var b [4]byte
	binary.BigEndian.PutUint32(b[:], i)
	return b[:]
}

func pad32(b []byte) []byte {
	out := make([]byte, 32)
	copy(out[32-len(b):], b)
	return out
}

func validScalar(b []byte) bool {
	v := new(big.Int).SetBytes(b)
	return v.Sign() != 0 && v.Cmp(curve.N) < 0
}

func (o *Oracle) RefPub(k *Key) []byte {
	if k.Priv {
		return o.Point(k.Key)
	}
	return k.Key
}

func (o *Oracle) RefMaster(seed []byte, net Net) (*Key, bool) {
	I := o.HMAC([]byte("Bitcoin seed"), seed)
	if !validScalar(I[:32]) {
		return nil, false
	}
	return &Key{Ver: net.Prv, Depth: 0, FP: []byte{0, 0, 0, 0}, Num: 0, CC: I[32:], Priv: true, Key: I[:32]}, true
}

// DeviantData is the HMAC input of known finding K-C14-1 (scalar stripped of its leading zero
// bytes, hence left-aligned in the 33-byte field).
func DeviantData(k *Key, i uint32) []byte {
	data := make([]byte, 37)
	copy(data[1:], bytes.TrimLeft(k.Key, "\x00"))
	copy(data[33:], ser32(i))
	return data
}

// RefChild poses the questions of CKDpriv / CKDpub.  data==nil: the BIP-32 Data string.
func (o *Oracle) RefChild(k *Key, i uint32, data []byte) (*Key, bool) {
	if !k.Priv && i >= Hardened {
		return nil, false
	}
	K := o.RefPub(k)
	if data == nil {
		if i >= Hardened {
			data = append(append([]byte{0}, k.Key...), ser32(i)...)
		} else {
			data = append(append([]byte{}, K...), ser32(i)...)
		}
	}
	I := o.HMAC(k.CC, data)
	il := I[:32]
	fp := o.Hash160(K)[:4]
	if new(big.Int).SetBytes(il).Cmp(curve.N) >= 0 {
		return nil, false
	}
	c := &Key{Ver: k.Ver, Depth: k.Depth + 1, FP: fp, Num: i, CC: I[32:], Priv: k.Priv}
	if k.Priv {
		v := new(big.Int).SetBytes(il)
		v.Add(v, new(big.Int).SetBytes(k.Key))
		v.Mod(v, curve.N)
		if v.Sign() == 0 {
			return nil, false
		}
		c.Key = pad32(v.Bytes())
	} else {
		ck, ok := o.PointAdd(il, k.Key)
		if !ok {
			return nil, false
		}
		c.Key = ck
	}
	return c, true
}

func (o *Oracle) RefNeuter(k *Key, net Net) *Key {
	if !k.Priv {
		return k
	}
	n := *k
	if bytes.Equal(k.Ver, net.Prv) {
		n.Ver = net.Pub
	}
	n.Priv = false
	n.Key = o.Point(k.Key)
	return &n
}

func Ser(k *Key) []byte {
	out := append([]byte{}, k.Ver...)
	out = append(out, k.Depth)
	out = append(out, k.FP...)
	out = append(out, ser32(k.Num)...)
	out = append(out, k.CC...)
	if k.Priv {
		out = append(out, 0)
	}
	return append(out, k.Key...)
}

func Unser(p []byte) *Key {
	k := &Key{Ver: p[0:4], Depth: p[4], FP: p[5:9], Num: binary.BigEndian.Uint32(p[9:13]), CC: p[13:45]}
	if p[45] == 0 {
		k.Priv = true
		k.Key = p[46:78]
	} else {
		k.Key = p[45:78]
	}
	return k
}

func (o *Oracle) WithCheck(p []byte) []byte {
	return append(append([]byte{}, p...), o.Sha256d(p)[:4]...)
}

func (o *Oracle) RefStr(k *Key) string { return o.B58Enc(o.WithCheck(Ser(k))) }

// RefObs poses every question ObsDiff may ask about key k.
func (o *Oracle) RefObs(k *Key, net Net) {
	o.RefStr(k)
	K := o.RefPub(k)
	o.Hash160(K)
	o.RefStr(o.RefNeuter(k, net))
}

// RefParse poses the questions of ParseClass / VerdictParse for the text s.
func (o *Oracle) RefParse(s string, net Net) {
	b, ok := o.B58Dec(s)
	if !ok || len(b) != 82 {
		return
	}
	pay := b[:78]
	ck := o.Sha256d(pay)
	if !bytes.Equal(ck[:4], b[78:]) {
		return
	}
	k := Unser(pay)
	switch pay[45] {
	case 0:
		if !validScalar(k.Key) {
			return
		}
	case 2, 3:
		x := pay[46:78]
		if xv := new(big.Int).SetBytes(x); xv.Cmp(curve.P) >= 0 {
			// classifier of known finding K-C14-2 asks whether x-p is on the curve
			o.Liftable(pad32(xv.Sub(xv, curve.P).Bytes()))
			return
		}
		if !o.Liftable(x) {
			return
		}
	default:
		return
	}
	o.RefObs(k, net)
}

// N and P of secp256k1 as btcec has them (cross-check of the constants typed into the spec).
func CurveN() []byte  { return pad32(curve.N.Bytes()) }
func CurveP() []byte  { return pad32(curve.P.Bytes()) }
func CurveGx() []byte { return pad32(curve.Gx.Bytes()) }
