package keystorelib

import (
	"crypto/sha256"
	"encoding/hex"
	"fmt"
	"strings"
	"time"

	"github.com/massnetorg/mass-core/massutil"
	mwdb "massnet.org/mass-wallet/masswallet/db"
	"massnet.org/mass-wallet/masswallet/keystore"
)

// Run executes the job's history; every operation (and every expansion of a "wrong" one) is
// recorded as one line.  An error return is an infrastructure failure of the driver itself.
func (d *Driver) Run() error {
	d.emit(&Line{T: "reset", ID: d.Job.ID, U: &d.Job.U})
	for n, op := range d.Job.H {
		in := d.Inst[op.I]
		if in == nil {
			return fmt.Errorf("harness: step %d: unknown instance %q", n, op.I)
		}
		classes := []string{"-"}
		if op.A == "hold" {
			classes = []string{"right"}
		}
		if op.A == "export" || op.A == "impks" || op.A == "sign" || op.A == "getmn" || op.A == "remove" {
			switch {
			case op.CC != "":
				classes = []string{op.CC}
			case op.C == "right":
				classes = []string{"right"}
			default:
				var pool []string
				for _, c := range WrongClasses {
					skip := false
					for _, s := range d.Job.Skip {
						skip = skip || s == c
					}
					if !skip {
						pool = append(pool, c)
					}
				}
				k := d.Job.Wrong
				if k <= 0 || k > len(pool) {
					k = len(pool)
				}
				perm := d.Rnd.Perm(len(pool))
				classes = nil
				for _, x := range perm[:k] {
					classes = append(classes, pool[x])
				}
			}
		}
		for _, cc := range classes {
			if err := d.step(in, op, cc); err != nil {
				return fmt.Errorf("step %d (%s %s %s %s %d / %s): %v", n, op.A, op.I, op.W, op.C, op.K, cc, err)
			}
		}
	}
	return nil
}

func (d *Driver) step(in *Instance, op Op, cc string) error {
	t0 := time.Now()
	d.Ops++
	l := &Line{T: "op", A: op.A, I: op.I, W: op.W, C: op.C, K: op.K, CC: cc, Got: &Got{Int: []IntObs{}}}
	pre, err := d.view(in)
	if err != nil {
		return fmt.Errorf("harness: view before: %v", err)
	}
	l.Pre = pre
	dig0, _, err := d.digest(in)
	if err != nil {
		return err
	}
	c0 := in.DB.Commits()
	outs := map[string]string{}
	var opErr error
	wd, hasW := d.Job.U.Wal[op.W]
	if !hasW && op.A != "restart" && op.A != "chpub" && op.A != "lock" {
		return fmt.Errorf("harness: unknown wallet %q", op.W)
	}
	ref := d.Ref[op.W]
	needRef := func() error {
		if ref == nil {
			return fmt.Errorf("cut: wallet %s addressed before its mnemonic is known", op.W)
		}
		return nil
	}
	restarted := false
	cand := ""
	if cc != "-" {
		cand = d.candidate(in, op.W, cc)
		if op.CH != "" {
			if b, err := hex.DecodeString(op.CH); err == nil {
				cand = string(b)
			}
		}
		l.CH = hex.EncodeToString([]byte(cand))
	}
	switch op.A {
	case "create":
		id, mn, _, err := in.W.CreateWallet(d.Pass[wd.Pass], d.canary, op.K)
		opErr = err
		if err == nil {
			if err := d.bind(op.W, mn); err != nil {
				return err
			}
			ref = d.Ref[op.W]
			l.Got.ID, l.Got.Words, l.Got.MnH = id, len(strings.Fields(mn)), sha(mn)
			outs["id"] = id // the mnemonic is the sanctioned return value of create; everything else is searched
		}
	case "newaddr":
		if err := needRef(); err != nil {
			return err
		}
		if _, err := in.W.UseWallet(ref.ID); err != nil {
			opErr = err
			break
		}
		class := uint16(massutil.AddressClassWitnessV0)
		if op.C == "stk" {
			class = massutil.AddressClassWitnessStaking
		}
		a, err := in.W.NewAddress(class)
		opErr = err
		l.Got.Addr = a
		outs["addr"] = a
	case "export":
		if err := needRef(); err != nil {
			return err
		}
		js, err := in.W.ExportWallet(ref.ID, cand)
		opErr = err
		outs["export"] = js
		if err == nil {
			l.Got.JSON = isKeystoreJSON(js)
			n := -1
			for _, v := range pre {
				if v.ID == ref.ID {
					n = len(v.Std) + len(v.Stk)
				}
			}
			d.Exp[fmt.Sprintf("%s/%d", op.W, n)] = js
		}
	case "impks":
		if err := needRef(); err != nil {
			return err
		}
		js, ok := d.Exp[fmt.Sprintf("%s/%d", op.W, op.K)]
		if !ok {
			return fmt.Errorf("cut: no keystore of %s exported with %d addresses", op.W, op.K)
		}
		seq := seqOf(in.W.VerifHandler())
		ws, err := in.W.ImportWallet(js, cand)
		opErr = err
		if err == nil {
			l.Got.ID = ws.WalletID
			outs["id"] = ws.WalletID
			if err := d.waitIdle(in, seq); err != nil {
				return err
			}
		}
	case "impmn":
		mn, err := d.mnemonicOf(op.W)
		if err != nil {
			return err
		}
		ref = d.Ref[op.W]
		seq := seqOf(in.W.VerifHandler())
		ws, err := in.W.ImportWalletWithMnemonic(&keystore.WalletParams{
			Version: keystore.KeystoreVersionLatest, Mnemonic: mn, PrivatePassphrase: []byte(d.Pass[wd.Pass]),
			Remarks: d.canary, ExternalIndex: uint32(op.K), InternalIndex: IntN,
			AddressGapLimit: d.Cfg.Wallet.Settings.AddressGapLimit})
		opErr = err
		if err == nil {
			l.Got.ID = ws.WalletID
			outs["id"] = ws.WalletID
			if err := d.waitIdle(in, seq); err != nil {
				return err
			}
			// the change addresses the import restored: managed, committed to by their key, signable
			l.Got.Int = []IntObs{}
			for k, target := range ref.IntAddrs {
				o := IntObs{K: k}
				if ma, err := in.W.VerifKeystoreManager().GetManagedAddressByStdAddress(target); err == nil {
					o.Managed = true
					pub := ma.PubKey()
					if std, _, err := AddrOfPub(pub); err == nil && std == target {
						o.Commit = true
					}
					var sb [8]byte
					d.Rnd.Read(sb[:])
					hash := sha256.Sum256(sb[:])
					if sig, err := in.W.SignHash(pub, hash[:], []byte(d.Pass[wd.Pass])); err == nil && sig != nil {
						o.SigOK = sig.Verify(hash[:], pub)
					}
				}
				l.Got.Int = append(l.Got.Int, o)
			}
		}
	case "restart":
		done := make(chan struct{})
		go func() { in.W.Stop(); close(done) }()
		select {
		case <-done:
		case <-time.After(20 * time.Second):
			return fmt.Errorf("harness: Stop did not return within 20s")
		}
		in.W = nil
		inner, err := mwdb.OpenDB("leveldb", in.Dir)
		if err != nil {
			return fmt.Errorf("harness: OpenDB: %v", err)
		}
		restarted = true
		if err := d.open(in, inner); err != nil {
			// the instance is gone: the history cannot go on; recorded, then the trace ends
			l.Res, l.Err = "err", err.Error()
			l.Ms = int(time.Since(t0) / time.Millisecond)
			d.emit(l)
			return fmt.Errorf("dead-instance: %v", err)
		}
	case "chpub":
		np := d.Pass[op.C]
		km := in.W.VerifKeystoreManager()
		opErr = mwdb.Update(in.DB, func(tx mwdb.DBTransaction) error {
			return km.ChangePubPassphrase(tx, []byte(in.Pub), []byte(np), &keystore.DefaultScryptOptions)
		})
		if opErr == nil {
			in.Pub, in.PubTok = np, op.C
		}
	case "sign":
		if err := needRef(); err != nil {
			return err
		}
		if op.K < 0 || op.K >= len(ref.Addrs) {
			return fmt.Errorf("harness: index %d beyond the reference table", op.K)
		}
		target := ref.Addrs[op.K].Std
		l.Got.Addr = target
		ma, err := in.W.VerifKeystoreManager().GetManagedAddressByStdAddress(target)
		if err != nil {
			opErr = err
			break
		}
		pub := ma.PubKey()
		l.Got.Pub = hex.EncodeToString(pub.SerializeCompressed())
		if std, _, err := AddrOfPub(pub); err == nil {
			l.Got.Commit = std
		}
		var seedb [8]byte
		d.Rnd.Read(seedb[:])
		hash := sha256.Sum256(seedb[:])
		sig, err := in.W.SignHash(pub, hash[:], []byte(cand))
		opErr = err
		if err == nil && sig != nil {
			l.Got.SigOK = sig.Verify(hash[:], pub)
			outs["sig"] = hex.EncodeToString(sig.Serialize())
		}
	case "hold":
		// the wallet signs and stays unlocked (the keystore manager's SignHash, as signWitnessTx calls it
		// for every input of a transaction before it locks the wallet again)
		if err := needRef(); err != nil {
			return err
		}
		if op.K < 0 || op.K >= len(ref.Addrs) {
			return fmt.Errorf("harness: index %d beyond the reference table", op.K)
		}
		target := ref.Addrs[op.K].Std
		l.Got.Addr = target
		km := in.W.VerifKeystoreManager()
		ma, err := km.GetManagedAddressByStdAddress(target)
		if err != nil {
			opErr = err
			break
		}
		pub := ma.PubKey()
		l.Got.Pub = hex.EncodeToString(pub.SerializeCompressed())
		if std, _, err := AddrOfPub(pub); err == nil {
			l.Got.Commit = std
		}
		var hb [8]byte
		d.Rnd.Read(hb[:])
		hash := sha256.Sum256(hb[:])
		sig, err := km.SignHash(pub, hash[:], []byte(cand))
		opErr = err
		if err == nil && sig != nil {
			l.Got.SigOK = sig.Verify(hash[:], pub)
			outs["sig"] = hex.EncodeToString(sig.Serialize())
		}
	case "lock":
		in.W.VerifKeystoreManager().ClearPrivKey()
	case "getmn":
		if err := needRef(); err != nil {
			return err
		}
		mn, _, err := in.W.GetMnemonic(ref.ID, cand)
		opErr = err
		if err == nil {
			l.Got.MnH, l.Got.Words = sha(mn), len(strings.Fields(mn))
		} else {
			outs["mnemonic-on-error"] = mn
		}
		if cc != "right" {
			outs["mnemonic"] = mn // must be empty; anything returned to a wrong candidate is searched
		}
	case "remove":
		if err := needRef(); err != nil {
			return err
		}
		seq := seqOf(in.W.VerifHandler())
		opErr = in.W.RemoveWallet(ref.ID, cand)
		if opErr == nil {
			// the removal is accepted and now runs in the background: until it is done the wallet is still there, and a
			// wrong passphrase must not be granted anything in that window either (whatever the answer is - passphrase
			// error or "no such wallet" - it carries no secret: what it returns is searched like every other output)
			mn, _, perr := in.W.GetMnemonic(ref.ID, cand+"x")
			outs["mnemonic-while-removing"] = mn
			if perr != nil {
				outs["err-while-removing"] = perr.Error()
			}
			if err := d.waitIdle(in, seq); err != nil {
				return err
			}
		}
	default:
		return fmt.Errorf("harness: unknown action %q", op.A)
	}
	l.Res = classify(opErr)
	if opErr != nil {
		l.Err = opErr.Error()
		outs["err"] = l.Err
	}
	if restarted {
		l.DBW = 0 // a fresh handle: commits are counted per handle; the digest below tells whether anything changed
	} else {
		l.DBW = int(in.DB.Commits() - c0)
	}
	post, err := d.view(in)
	if err != nil {
		return fmt.Errorf("harness: view after: %v", err)
	}
	l.View = post
	dig1, kv, err := d.digest(in)
	if err != nil {
		return err
	}
	l.Same = dig0 == dig1
	l.Leaks, l.Canary = d.scan(in, kv, outs)
	l.Ms = int(time.Since(t0) / time.Millisecond)
	d.emit(l)
	return nil
}
