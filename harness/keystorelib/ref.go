package keystorelib

import (
	"bytes"
	"crypto/sha256"
	"encoding/base64"
	"encoding/hex"
	"fmt"
	"strings"

	"github.com/btcsuite/btcd/btcec"
	"github.com/massnetorg/mass-core/massutil"
	"github.com/massnetorg/mass-core/massutil/base58"
	"github.com/massnetorg/mass-core/massutil/bech32"
	"github.com/massnetorg/mass-core/txscript"
	"massnet.org/mass-wallet/config"
	"massnet.org/mass-wallet/masswallet/keystore"
	"massnet.org/mass-wallet/masswallet/keystore/hdkeychain"
)

const (
	RefN     = 10 // external indexes derived for the reference table
	SecretsN = 10 // external / internal child keys whose private material is searched for
	IntN     = 2  // internal (change) indexes a mnemonic import restores in the harness (InternalIndex)
)

// AddrOfPub is the address a public key is committed to by: witness script hash of the 1-of-1
// multisig redeem script, in its standard and staking form (mass-core primitives only).
func AddrOfPub(pub *btcec.PublicKey) (std, stk string, err error) {
	apk, err := massutil.NewAddressPubKey(pub.SerializeCompressed(), config.ChainParams)
	if err != nil {
		return "", "", err
	}
	script, err := txscript.MultiSigScript([]*massutil.AddressPubKey{apk}, 1)
	if err != nil {
		return "", "", err
	}
	h := sha256.Sum256(script)
	a, err := massutil.NewAddressWitnessScriptHash(h[:], config.ChainParams)
	if err != nil {
		return "", "", err
	}
	s, err := massutil.NewAddressStakingScriptHash(h[:], config.ChainParams)
	if err != nil {
		return "", "", err
	}
	return a.EncodeAddress(), s.EncodeAddress(), nil
}

// accountID: bech32 "ac" + version 15 + hash160(account public key), as keystore/util.go does.
func accountID(pub *btcec.PublicKey) (string, error) {
	conv, err := bech32.ConvertBits(massutil.Hash160(pub.SerializeCompressed()), 8, 5, true)
	if err != nil {
		return "", err
	}
	return bech32.Encode("ac", append([]byte{15}, conv...))
}

// Secret is one byte string that must never show up in clear.
type Secret struct {
	Owner string // wallet or token
	Kind  string
	Bytes []byte
	Text  bool // textual secret (searched as is and encoded); binary secrets are searched raw and encoded
}

// Reference is everything the trusted derivation says about a wallet = (mnemonic, private passphrase).
type Reference struct {
	ID      string
	Addrs   []RefAddr
	IntAddrs []string // standard addresses of the first IntN internal-branch keys
	Pubs    []*btcec.PublicKey
	MnHash  string
	Bits    int
	Secrets []Secret
}

// hardened child index
const hard = hdkeychain.HardenedKeyStart

// Derive computes wallet id, address table and the secrets of (mnemonic, pass) with the
// repository's own primitives (keystore.NewSeed, hdkeychain; path m/44'/coin'/1'/branch/index).
func Derive(owner, mnemonic, pass string) (*Reference, error) {
	r := &Reference{}
	entropy, err := keystore.EntropyFromMnemonic(mnemonic)
	if err != nil {
		return nil, fmt.Errorf("EntropyFromMnemonic: %v", err)
	}
	r.Bits = len(entropy) * 8
	mh := sha256.Sum256([]byte(mnemonic))
	r.MnHash = hex.EncodeToString(mh[:])
	seed := keystore.NewSeed(mnemonic, pass)
	add := func(kind string, b []byte, text bool) {
		r.Secrets = append(r.Secrets, Secret{Owner: owner, Kind: kind, Bytes: append([]byte{}, b...), Text: text})
	}
	add("entropy", entropy, false)
	add("seed", seed, false)
	add("mnemonic", []byte(mnemonic), true)
	// word runs: every three consecutive words (pairs would give false alarms: the passphrase error text
	// "... for master private key" is itself a run of three BIP-39 words, so a mnemonic containing
	// "master private" - about one wallet in 200,000 - would be "found" in it)
	words := strings.Fields(mnemonic)
	for i := 0; i+2 < len(words); i++ {
		add(fmt.Sprintf("words%d-%d", i, i+2), []byte(words[i]+" "+words[i+1]+" "+words[i+2]), true)
	}
	master, err := hdkeychain.NewMaster(seed, config.ChainParams)
	if err != nil {
		return nil, fmt.Errorf("NewMaster: %v", err)
	}
	xk := func(kind string, k *hdkeychain.ExtendedKey) error {
		pk, err := k.ECPrivKey()
		if err != nil {
			return err
		}
		sc := pk.D.Bytes()
		if len(sc) >= 16 {
			add(kind+"-scalar", sc, false)
			pad := make([]byte, 32)
			copy(pad[32-len(sc):], sc)
			if len(sc) < 32 {
				add(kind+"-scalar32", pad, false)
			}
		}
		add(kind+"-xprv", []byte(k.String()), true)
		return nil
	}
	if err := xk("master", master); err != nil {
		return nil, err
	}
	purpose, err := master.Child(44 + hard)
	if err != nil {
		return nil, err
	}
	coin, err := purpose.Child(config.ChainParams.HDCoinType + hard)
	if err != nil {
		return nil, err
	}
	acct, err := coin.Child(uint32(keystore.WalletUsage) + hard)
	if err != nil {
		return nil, err
	}
	for _, p := range []struct {
		n string
		k *hdkeychain.ExtendedKey
	}{{"purpose", purpose}, {"coin", coin}, {"account", acct}} {
		if err := xk(p.n, p.k); err != nil {
			return nil, err
		}
	}
	apub, err := acct.ECPubKey()
	if err != nil {
		return nil, err
	}
	if r.ID, err = accountID(apub); err != nil {
		return nil, err
	}
	for br := uint32(0); br < 2; br++ {
		bk, err := acct.Child(br)
		if err != nil {
			return nil, err
		}
		bn := "ext"
		if br == 1 {
			bn = "int"
		}
		if err := xk(bn+"-branch", bk); err != nil {
			return nil, err
		}
		for k := uint32(0); k < SecretsN; k++ {
			ck, err := bk.Child(k)
			if err != nil {
				if br == 0 {
					return nil, fmt.Errorf("child %d: %v", k, err)
				}
				continue
			}
			ck.SetNet(config.ChainParams)
			if err := xk(fmt.Sprintf("%s-key%d", bn, k), ck); err != nil {
				return nil, err
			}
			if br == 1 && k < IntN {
				pub, err := ck.ECPubKey()
				if err != nil {
					return nil, err
				}
				std, _, err := AddrOfPub(pub)
				if err != nil {
					return nil, err
				}
				r.IntAddrs = append(r.IntAddrs, std)
			}
			if br == 0 && k < RefN {
				pub, err := ck.ECPubKey()
				if err != nil {
					return nil, err
				}
				std, stk, err := AddrOfPub(pub)
				if err != nil {
					return nil, err
				}
				r.Pubs = append(r.Pubs, pub)
				r.Addrs = append(r.Addrs, RefAddr{Std: std, Stk: stk, Pub: hex.EncodeToString(pub.SerializeCompressed())})
			}
		}
	}
	return r, nil
}

// pattern is one encoded form of a secret.
type pattern struct {
	label string
	b     []byte
}

// Patterns lists the byte strings searched for: the secret as is, lower / upper case hex,
// base58, standard and URL base64 (binary secrets shorter than 16 bytes are not searched raw:
// none exists here; textual ones are at least 6 characters).
func Patterns(secrets []Secret) []pattern {
	var ps []pattern
	for _, s := range secrets {
		if len(s.Bytes) < 6 {
			continue
		}
		l := s.Owner + ":" + s.Kind + ":"
		ps = append(ps, pattern{l + "raw", s.Bytes})
		hx := hex.EncodeToString(s.Bytes)
		ps = append(ps, pattern{l + "hex", []byte(hx)}, pattern{l + "HEX", []byte(strings.ToUpper(hx))})
		ps = append(ps, pattern{l + "base58", []byte(base58.Encode(s.Bytes))})
		// base64 of an embedded secret depends on alignment; the three alignments of the unpadded core
		b64 := base64.RawStdEncoding.EncodeToString(s.Bytes)
		ps = append(ps, pattern{l + "base64", []byte(b64)})
		if u := base64.RawURLEncoding.EncodeToString(s.Bytes); u != b64 {
			ps = append(ps, pattern{l + "base64url", []byte(u)})
		}
		// a part of a long binary secret: every aligned 16-byte block, as is and in hex
		if !s.Text && len(s.Bytes) >= 32 {
			for o := 0; o+16 <= len(s.Bytes); o += 16 {
				blk := s.Bytes[o : o+16]
				bl := fmt.Sprintf("%spart%d-", l, o)
				bh := hex.EncodeToString(blk)
				ps = append(ps, pattern{bl + "raw", blk}, pattern{bl + "hex", []byte(bh)}, pattern{bl + "HEX", []byte(strings.ToUpper(bh))})
			}
		}
	}
	return ps
}

// Scan returns the labels of the patterns that occur in data.
func Scan(where string, data []byte, ps []pattern) []string {
	var out []string
	for _, p := range ps {
		if bytes.Contains(data, p.b) {
			out = append(out, where+":"+p.label)
		}
	}
	return out
}
