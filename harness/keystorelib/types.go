// Package keystorelib drives real WalletManager instances (each with its own LevelDB wallet
// database and its own public passphrase) through operation sequences of spec/Keystore.tla and
// records, per operation, what the implementation answered and what trusted primitives say about
// it (signature verification, address of a public key, byte search).  Nothing is compared here:
// spec/KeystoreTrace.tla judges every recorded line (properties C04 and C05).
package keystorelib

// Op is one operation of spec/Keystore.tla (same field names as the TLA+ record).
//
//	a      i  w   c                k
//	create A  w1  -                entropy bits (128..256)
//	newaddr A w1  "std"|"stk"      -
//	export A  w1  cand             -
//	impks  B  w1  cand             n = issued count of the exported keystore to import
//	impmn  B  w1  -                hint (ExternalIndex)
//	restart A -   -                -
//	chpub  A  -   public-pass token -
//	sign   A  w1  cand             address index
//	getmn  A  w1  cand             -
//	remove A  w1  cand             -
//
// cand is "right" or "wrong"; a "wrong" operation is expanded by the driver into several
// attempts, one per concrete class of wrong candidate (field cc of the recorded line).
type Op struct {
	A  string `json:"a"`
	I  string `json:"i"`
	W  string `json:"w"`
	C  string `json:"c"`
	K  int    `json:"k"`
	CC string `json:"cc,omitempty"` // replay files may pin the concrete candidate class ...
	CH string `json:"ch,omitempty"` // ... and the candidate itself (hex)
}

// WalDef says which mnemonic and which private passphrase (abstract tokens) make up a wallet.
type WalDef struct {
	Mn   string `json:"mn"`
	Pass string `json:"pass"`
}

// Universe is printed by the generator (KeystoreGen!Universe).
type Universe struct {
	Wal  map[string]WalDef `json:"wal"`
	Inst []string          `json:"inst"`
	Pub0 map[string]string `json:"pub0"` // initial public-passphrase token per instance
}

// Job is one behaviour to replay.
type Job struct {
	ID    string   `json:"id"`
	U     Universe `json:"u"`
	H     []Op     `json:"h"`
	Seed  int64    `json:"seed"`
	Wrong int      `json:"wrong"` // number of concrete wrong candidates tried per "wrong" operation (0 = all classes)
	Src   string   `json:"src"`
	Skip  []string `json:"skip"` // wrong-candidate classes not to be drawn by the expansion (classes of a recorded known finding)
	// Pinned concrete values (replay of a stored violation): token -> passphrase, mnemonic token -> words
	PinPass map[string]string `json:"pin_pass,omitempty"`
	PinMn   map[string]string `json:"pin_mn,omitempty"`
}

// RefAddr is the reference derivation of one external index.
type RefAddr struct {
	Std string `json:"std"`
	Stk string `json:"stk"`
	Pub string `json:"pub"`
}

// WView is what an instance shows of one wallet.
type WView struct {
	ID     string   `json:"id"`
	Std    []string `json:"std"`    // listed with the standard class
	Stk    []string `json:"stk"`    // listed with the staking class (staking form)
	Cached int      `json:"cached"` // managed addresses whose private key is held in memory
	Ready  bool     `json:"ready"`
}

// Got holds the operation-specific answers (all fields always present).
type Got struct {
	ID     string `json:"id"`     // create / import: wallet id returned
	Words  int    `json:"words"`  // create: number of words of the mnemonic returned
	MnH    string `json:"mnh"`    // create / getmn: sha256 of the mnemonic returned
	Addr   string `json:"addr"`   // newaddr: address returned; sign: address signed for
	SigOK  bool   `json:"sigok"`  // sign: btcec verification of the signature under Pub
	Pub    string `json:"pub"`    // sign: public key the wallet manages for the address (hex, compressed)
	Commit string `json:"commit"` // sign: standard address of the 1-of-1 script of Pub (trusted primitives)
	JSON   bool   `json:"json"`   // export: returned text parses as a keystore JSON object
	// impmn: the internal-branch (change) addresses the import restores (InternalIndex = IntN): for index k,
	// is the reference address managed, and does a SignHash signature (right passphrase) verify under the
	// key whose 1-of-1 script hash is that address
	Int []IntObs `json:"int"`
}

// IntObs is the observation of one internal-branch address after a mnemonic import.
type IntObs struct {
	K       int  `json:"k"`
	Managed bool `json:"managed"`
	Commit  bool `json:"commit"`
	SigOK   bool `json:"sigok"`
}

// Line is one recorded trace line.
type Line struct {
	T string `json:"t"` // "reset" | "bind" | "op"
	// reset
	ID string    `json:"id,omitempty"`
	U  *Universe `json:"u,omitempty"`
	// bind: reference derivation of a wallet (trusted primitives on the mnemonic the wallet was made from)
	W     string    `json:"w"`
	RefID string    `json:"refid,omitempty"`
	Ref   []RefAddr `json:"ref,omitempty"`
	RefMn string    `json:"refmn,omitempty"` // sha256 of the mnemonic
	Bits  int       `json:"bits,omitempty"`
	// op
	A      string   `json:"a,omitempty"`
	I      string   `json:"i,omitempty"`
	C      string   `json:"c"`
	K      int      `json:"k"`
	CC     string   `json:"cc,omitempty"`
	CH     string   `json:"ch"` // the candidate byte string tried (hex)
	Res    string   `json:"res,omitempty"` // "ok" | "pass" (passphrase error) | "err" (any other error)
	Err    string   `json:"err"`
	DBW    int      `json:"dbw"`   // write transactions committed on the instance's database by this operation
	Same   bool     `json:"same"`  // logical content of the instance's database is the same as before the operation
	Leaks  []string `json:"leaks"` // secrets found in clear: "<where>:<wallet/token>:<kind>:<form>"
	Canary bool     `json:"canary"`
	Got    *Got     `json:"got,omitempty"`
	View   []WView  `json:"view"`
	Pre    []WView  `json:"pre"` // view of the instance before the operation
	Ms     int      `json:"ms"`
}

// Result is what the child process reports per job.
type Result struct {
	Index int    `json:"index"`
	ID    string `json:"id"`
	OK    bool   `json:"ok"`
	Err   string `json:"err,omitempty"`
	Lines int    `json:"lines"`
	Ops   int    `json:"ops"`
	Cut   string `json:"cut,omitempty"` // the history could not go on because an earlier operation was not answered as demanded
	// concrete values, so that a violation can be replayed with the same ones
	Pass map[string]string `json:"pass,omitempty"`
	Mn   map[string]string `json:"mn,omitempty"`
}
