package keystorelib

import (
	"crypto/sha256"
	"encoding/hex"
	"encoding/json"
	"fmt"
	"math"
	"math/rand"
	"os"
	"path/filepath"
	"sort"
	"strings"
	"sync"
	"time"

	"github.com/massnetorg/mass-core/massutil"
	"massnet.org/mass-wallet/config"
	"massnet.org/mass-wallet/masswallet"
	mwdb "massnet.org/mass-wallet/masswallet/db"
	_ "massnet.org/mass-wallet/masswallet/db/ldb"
	"massnet.org/mass-wallet/masswallet/keystore"
	"verif/harness/dbwrap"
	"verif/harness/env"
)

// ---- worker idleness (the background worker of a manager imports / removes wallets) ----

var (
	idleMu  sync.Mutex
	idleSeq = map[*masswallet.NtfnsHandler]int{}
)

func init() {
	masswallet.VerifGate = func(h *masswallet.NtfnsHandler, point string) {
		if point == "worker.top" {
			idleMu.Lock()
			idleSeq[h]++
			idleMu.Unlock()
		}
	}
}

func seqOf(h *masswallet.NtfnsHandler) int {
	idleMu.Lock()
	defer idleMu.Unlock()
	return idleSeq[h]
}

// Instance is one wallet manager with its own database directory and public passphrase.
type Instance struct {
	Name   string
	Dir    string
	Pub    string // concrete public passphrase
	PubTok string
	DB     *dbwrap.DB
	W      *masswallet.WalletManager
}

// Driver executes one job.
type Driver struct {
	Job   *Job
	Dir   string
	E     *env.Env
	Cfg   *config.Config
	Inst  map[string]*Instance
	Rnd   *rand.Rand
	Pass  map[string]string     // token -> concrete passphrase (private p*, public q*)
	Mn    map[string]string     // mnemonic token -> words (bound ones)
	Ref   map[string]*Reference // wallet -> reference (bound ones)
	Exp   map[string]string     // "w/n" -> exported keystore JSON
	Out   func(*Line)
	Lines int
	Ops   int
	canary string
	internal map[string]bool // standard addresses of the bound wallets' internal-branch reference keys
}

const passChars = "0123456789abcdefghijklmnopqrstuvwxyzABCDEFGHIJKLMNOPQRSTUVWXYZ@#$%^&"
const nonHex = "ghijklmnopqrstuvwxyzGHIJKLMNOPQRSTUVWXYZ@#$%^&"

// genPass draws a legal passphrase (^[0-9a-zA-Z@#$%^&]{6,40}$) with at least one character that
// is no hex digit (so that it cannot occur by accident inside the hex strings of an export).
func genPass(r *rand.Rand, n int) string {
	b := make([]byte, n)
	for i := range b {
		b[i] = passChars[r.Intn(len(passChars))]
	}
	b[r.Intn(n)] = nonHex[r.Intn(len(nonHex))]
	b[r.Intn(n)] = nonHex[r.Intn(len(nonHex))]
	return string(b)
}

func passLen(r *rand.Rand) int {
	switch r.Intn(6) {
	case 0:
		return 6
	case 1:
		return 40
	default:
		return 7 + r.Intn(33)
	}
}

// NewDriver builds the node environment (shared by the instances, never advanced) and the instances.
func NewDriver(job *Job, dir string, out func(*Line)) (*Driver, error) {
	keystore.DefaultScryptOptions = keystore.ScryptOptions{N: 16, R: 8, P: 1}
	if err := os.MkdirAll(dir, 0700); err != nil {
		return nil, err
	}
	if err := os.Chdir(dir); err != nil {
		return nil, err
	}
	e, err := env.New(filepath.Join(dir, "node"))
	if err != nil {
		return nil, err
	}
	d := &Driver{Job: job, Dir: dir, E: e, Inst: map[string]*Instance{}, Rnd: rand.New(rand.NewSource(job.Seed)),
		Pass: map[string]string{}, Mn: map[string]string{}, Ref: map[string]*Reference{}, Exp: map[string]string{}, Out: out}
	d.Cfg = &config.Config{Core: config.NewDefCoreConfig(), Wallet: config.NewDefWalletConfig()}
	// concrete passphrases for every token, all different
	toks := map[string]bool{}
	for _, wd := range job.U.Wal {
		toks[wd.Pass] = true
	}
	for _, q := range job.U.Pub0 {
		toks[q] = true
	}
	for _, op := range job.H {
		if op.A == "chpub" {
			toks[op.C] = true
		}
	}
	// a passphrase given to CreateWallet (or used as public passphrase) must come from the wallet's own alphabet; the
	// import paths accept any passphrase of legal length - wallets that are only ever imported get one with
	// characters outside that alphabet every other time
	narrow := map[string]bool{}
	for _, q := range job.U.Pub0 {
		narrow[q] = true
	}
	for _, op := range job.H {
		if op.A == "chpub" {
			narrow[op.C] = true
		}
		if op.A == "create" {
			if wd, ok := job.U.Wal[op.W]; ok {
				narrow[wd.Pass] = true
			}
		}
	}
	names := make([]string, 0, len(toks))
	for t := range toks {
		names = append(names, t)
	}
	sort.Strings(names)
	for _, t := range names {
		if p, ok := job.PinPass[t]; ok {
			d.Pass[t] = p
			continue
		}
		for {
			p := genPass(d.Rnd, passLen(d.Rnd))
			if !narrow[t] && d.Rnd.Intn(2) == 0 {
				const wide = " -_!.,:+*/=~"
				b := []byte(p)
				for k := 0; k < 1+d.Rnd.Intn(2); k++ {
					b[d.Rnd.Intn(len(b))] = wide[d.Rnd.Intn(len(wide))]
				}
				p = string(b)
			}
			clash := false
			for _, q := range d.Pass {
				if strings.Contains(q, p) || strings.Contains(p, q) {
					clash = true
				}
			}
			if !clash {
				d.Pass[t] = p
				break
			}
		}
	}
	d.canary = "canary" + genPass(d.Rnd, 18)
	for _, n := range job.U.Inst {
		in := &Instance{Name: n, Dir: filepath.Join(dir, "wallet-"+n+".db"), PubTok: job.U.Pub0[n]}
		in.Pub = d.Pass[in.PubTok]
		inner, err := mwdb.CreateDB("leveldb", in.Dir)
		if err != nil {
			return nil, fmt.Errorf("CreateDB: %v", err)
		}
		if err := d.open(in, inner); err != nil {
			return nil, err
		}
		d.Inst[n] = in
	}
	return d, nil
}

func (d *Driver) open(in *Instance, inner mwdb.DB) error {
	in.DB = dbwrap.Wrap(inner)
	m, err := masswallet.NewWalletManager(d.E, in.DB, d.Cfg, config.ChainParams, in.Pub)
	if err != nil {
		inner.Close()
		return fmt.Errorf("NewWalletManager: %v", err)
	}
	if err := m.Start(); err != nil {
		inner.Close()
		return fmt.Errorf("Start: %v", err)
	}
	in.W = m
	return d.waitIdle(in, 0)
}

// waitIdle waits until the background worker has come back to the top of its loop more than
// `since` times and has nothing queued.
func (d *Driver) waitIdle(in *Instance, since int) error {
	h := in.W.VerifHandler()
	dl := time.Now().Add(30 * time.Second)
	for time.Now().Before(dl) {
		if seqOf(h) > since && h.VerifTaskQueueLen() == 0 {
			return nil
		}
		time.Sleep(200 * time.Microsecond)
	}
	return fmt.Errorf("harness: background worker of instance %s not idle after 30s", in.Name)
}

// Close stops every instance.
func (d *Driver) Close() {
	for _, in := range d.Inst {
		if in.W != nil {
			done := make(chan struct{})
			go func(w *masswallet.WalletManager) { w.Stop(); close(done) }(in.W)
			select {
			case <-done:
			case <-time.After(10 * time.Second):
			}
			in.W = nil
		}
	}
	d.E.Close()
}

func (d *Driver) emit(l *Line) {
	if l.Leaks == nil {
		l.Leaks = []string{}
	}
	if l.View == nil {
		l.View = []WView{}
	}
	if l.Pre == nil {
		l.Pre = []WView{}
	}
	for _, v := range [][]WView{l.View, l.Pre} {
		for i := range v {
			if v[i].Std == nil {
				v[i].Std = []string{}
			}
			if v[i].Stk == nil {
				v[i].Stk = []string{}
			}
		}
	}
	d.Lines++
	d.Out(l)
}

// bind makes the (mnemonic, passphrase) of wallet w known: reference derivation + secrets.
func (d *Driver) bind(w, mnemonic string) error {
	wd := d.Job.U.Wal[w]
	if old, ok := d.Mn[wd.Mn]; ok && old != mnemonic {
		return fmt.Errorf("harness: mnemonic token %s bound twice", wd.Mn)
	}
	d.Mn[wd.Mn] = mnemonic
	// every wallet over this mnemonic becomes derivable
	ws := make([]string, 0)
	for x, xd := range d.Job.U.Wal {
		if xd.Mn == wd.Mn {
			ws = append(ws, x)
		}
	}
	sort.Strings(ws)
	for _, x := range ws {
		if d.Ref[x] != nil {
			continue
		}
		r, err := Derive(x, mnemonic, d.Pass[d.Job.U.Wal[x].Pass])
		if err != nil {
			return fmt.Errorf("harness: reference derivation: %v", err)
		}
		d.Ref[x] = r
		if d.internal == nil {
			d.internal = map[string]bool{}
		}
		for _, a := range r.IntAddrs {
			d.internal[a] = true
		}
		d.emit(&Line{T: "bind", W: x, RefID: r.ID, Ref: r.Addrs, RefMn: r.MnHash, Bits: r.Bits})
	}
	return nil
}

// mnemonicOf returns the words of wallet w's mnemonic, drawing seeded entropy if it is not bound yet.
func (d *Driver) mnemonicOf(w string) (string, error) {
	wd := d.Job.U.Wal[w]
	if m, ok := d.Mn[wd.Mn]; ok {
		return m, nil
	}
	m, ok := d.Job.PinMn[wd.Mn]
	if !ok {
		sizes := []int{16, 20, 24, 28, 32}
		ent := make([]byte, sizes[d.Rnd.Intn(len(sizes))])
		d.Rnd.Read(ent)
		var err error
		if m, err = keystore.NewMnemonic(ent); err != nil {
			return "", fmt.Errorf("harness: NewMnemonic: %v", err)
		}
	}
	return m, d.bind(w, m)
}

// ---- observation ----

func (d *Driver) view(in *Instance) ([]WView, error) {
	sums, err := in.W.Wallets()
	if err != nil {
		return nil, fmt.Errorf("Wallets: %v", err)
	}
	km := in.W.VerifKeystoreManager()
	var out []WView
	for _, s := range sums {
		v := WView{ID: s.WalletID, Ready: s.Status != nil && s.Status.Ready() && !s.Status.IsRemoved()}
		if am, err := km.GetAddrManagerByAccountID(s.WalletID); err == nil {
			for _, ma := range am.ManagedAddresses() {
				if ma.PrivKey() != nil {
					v.Cached++
				}
			}
		}
		if v.Ready {
			if _, err := in.W.UseWallet(s.WalletID); err != nil {
				return nil, fmt.Errorf("UseWallet: %v", err)
			}
			ads, err := in.W.GetAddresses(math.MaxUint16)
			if err != nil {
				return nil, fmt.Errorf("GetAddresses: %v", err)
			}
			for _, a := range ads {
				if d.internal[a.Address] {
					continue // change addresses restored by a mnemonic import: observed by the impmn operation itself
				}
				if a.AddressClass == massutil.AddressClassWitnessStaking {
					v.Stk = append(v.Stk, a.Address)
				} else {
					v.Std = append(v.Std, a.Address)
				}
			}
			sort.Strings(v.Std)
			sort.Strings(v.Stk)
		}
		out = append(out, v)
	}
	sort.Slice(out, func(i, j int) bool { return out[i].ID < out[j].ID })
	return out, nil
}

// walk feeds every bucket name, key and value of the instance's database to f.
func walk(db mwdb.DB, f func(b []byte)) error {
	return mwdb.View(db, func(tx mwdb.ReadTransaction) error {
		names, err := tx.BucketNames()
		if err != nil {
			return err
		}
		sort.Strings(names)
		var rec func(b mwdb.Bucket, depth int) error
		rec = func(b mwdb.Bucket, depth int) error {
			if depth > 12 {
				return fmt.Errorf("bucket nesting deeper than 12")
			}
			es, err := b.GetByPrefix(nil)
			if err != nil {
				return err
			}
			for _, e := range es {
				f([]byte{0xfe})
				f(e.Key)
				f([]byte{0xfd})
				f(e.Value)
			}
			subs, err := b.BucketNames()
			if err != nil {
				return err
			}
			sort.Strings(subs)
			for _, s := range subs {
				f([]byte{0xfc})
				f([]byte(s))
				sb := b.Bucket(s)
				if sb == nil {
					continue
				}
				if err := rec(sb, depth+1); err != nil {
					return err
				}
			}
			f([]byte{0xfb})
			return nil
		}
		for _, n := range names {
			f([]byte{0xfc})
			f([]byte(n))
			b := tx.TopLevelBucket(n)
			if b == nil {
				continue
			}
			if err := rec(b, 1); err != nil {
				return err
			}
		}
		return nil
	})
}

func (d *Driver) digest(in *Instance) (string, []byte, error) {
	var all []byte
	err := walk(in.DB, func(b []byte) { all = append(all, b...) })
	if err != nil {
		return "", nil, fmt.Errorf("harness: database walk: %v", err)
	}
	h := sha256.Sum256(all)
	return hex.EncodeToString(h[:]), all, nil
}

func (d *Driver) patterns() []pattern {
	var secrets []Secret
	ws := make([]string, 0, len(d.Ref))
	for w := range d.Ref {
		ws = append(ws, w)
	}
	sort.Strings(ws)
	for _, w := range ws {
		secrets = append(secrets, d.Ref[w].Secrets...)
	}
	ts := make([]string, 0, len(d.Pass))
	for t := range d.Pass {
		ts = append(ts, t)
	}
	sort.Strings(ts)
	for _, t := range ts {
		secrets = append(secrets, Secret{Owner: t, Kind: "passphrase", Bytes: []byte(d.Pass[t]), Text: true})
	}
	return Patterns(secrets)
}

// scan searches the raw bytes of every file of the instance's database directory, the logical
// key/value content read through the store, and the texts returned by the operation.
func (d *Driver) scan(in *Instance, kv []byte, outs map[string]string) (leaks []string, canary bool) {
	ps := d.patterns()
	cp := []pattern{{"canary", []byte(d.canary)}}
	filepath.Walk(in.Dir, func(p string, fi os.FileInfo, err error) error {
		if err != nil || fi.IsDir() {
			return nil
		}
		data, err := os.ReadFile(p)
		if err != nil {
			return nil
		}
		leaks = append(leaks, Scan("file/"+filepath.Base(p), data, ps)...)
		return nil
	})
	leaks = append(leaks, Scan("kv", kv, ps)...)
	canary = len(Scan("kv", kv, cp)) > 0
	keys := make([]string, 0, len(outs))
	for k := range outs {
		keys = append(keys, k)
	}
	sort.Strings(keys)
	for _, k := range keys {
		leaks = append(leaks, Scan("out/"+k, []byte(outs[k]), ps)...)
	}
	return leaks, canary
}

// ---- candidates ----

var WrongClasses = []string{"other", "pub", "prefix", "ext", "case", "empty", "space", "nul", "utf8", "long", "short", "rand", "randlegal"}

// candidate returns the concrete byte string of a candidate class for wallet w on instance in.
func (d *Driver) candidate(in *Instance, w, class string) string {
	right := d.Pass[d.Job.U.Wal[w].Pass]
	switch class {
	case "right":
		return right
	case "other": // the private passphrase of another wallet (legal, right elsewhere)
		ts := []string{}
		for _, wd := range d.Job.U.Wal {
			if d.Pass[wd.Pass] != right {
				ts = append(ts, d.Pass[wd.Pass])
			}
		}
		sort.Strings(ts)
		if len(ts) > 0 {
			return ts[0]
		}
		return right + "x"
	case "pub":
		return in.Pub
	case "prefix":
		return right[:len(right)-1]
	case "ext":
		return right + "0"
	case "case":
		b := []byte(right)
		for i, c := range b {
			if c >= 'a' && c <= 'z' {
				b[i] = c - 32
				return string(b)
			}
			if c >= 'A' && c <= 'Z' {
				b[i] = c + 32
				return string(b)
			}
		}
		b[0] ^= 1
		return string(b)
	case "empty":
		return ""
	case "space":
		return right + " "
	case "nul": // one to three NUL bytes appended (HMAC pads its key with zero bytes)
		return right + strings.Repeat("\x00", 1+d.Rnd.Intn(3))
	case "utf8":
		return right[:len(right)-1] + "é"
	case "long":
		return right + strings.Repeat("Z", 64-len(right)%64)
	case "short":
		return right[:5]
	case "randlegal":
		for {
			p := genPass(d.Rnd, passLen(d.Rnd))
			if p != right {
				return p
			}
		}
	default: // "rand": arbitrary bytes, at least one (the empty string is a class of its own)
		n := 1 + d.Rnd.Intn(48)
		b := make([]byte, n)
		d.Rnd.Read(b)
		if string(b) == right || b[n-1] == 0 {
			b[n-1] = 0xff
		}
		return string(b)
	}
}

// classify maps an error to the outcome class the specification talks about.
func classify(err error) string {
	switch {
	case err == nil:
		return "ok"
	case err == keystore.ErrInvalidPassphrase || err == keystore.ErrIllegalPassphrase:
		return "pass"
	default:
		return "err"
	}
}

func sha(s string) string {
	h := sha256.Sum256([]byte(s))
	return hex.EncodeToString(h[:])
}

func isKeystoreJSON(s string) bool {
	var m map[string]interface{}
	return json.Unmarshal([]byte(s), &m) == nil && m["crypto"] != nil
}
