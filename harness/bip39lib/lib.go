package bip39lib

import (
	"bytes"
	"crypto/hmac"
	"crypto/sha256"
	"crypto/sha512"
	"encoding/hex"
	"fmt"
	"strings"
	"unicode"
)

// EnglishSha256 pins the word list: SHA-256 of the canonical english.txt.
const EnglishSha256 = "2f5eed53a4727b4bf8880d8f3f199efc90e58503646d9ff8eff3a2ed3b24dbda"

// Words is the canonical list, index -> word.
var Words = strings.Split(strings.TrimSuffix(EnglishTxt, "\n"), "\n")

var wordSet = func() map[string]bool {
	m := map[string]bool{}
	for _, w := range Words {
		m[w] = true
	}
	return m
}()

// ListSha256 is the pinning hash of a word list: SHA-256 of the words, a newline after each.
func ListSha256(list []string) string {
	h := sha256.New()
	for _, w := range list {
		h.Write([]byte(w))
		h.Write([]byte{'\n'})
	}
	return hex.EncodeToString(h.Sum(nil))
}

// Sha0 is the trusted primitive "first byte of SHA-256".
func Sha0(b []byte) int {
	s := sha256.Sum256(b)
	return int(s[0])
}

// Pbkdf2Sha512 is PBKDF2 (RFC 8018) with HMAC-SHA512 written out over crypto/hmac; it does not use
// golang.org/x/crypto/pbkdf2 (which the implementation under test uses).
func Pbkdf2Sha512(password, salt []byte, iter, keyLen int) []byte {
	mac := hmac.New(sha512.New, password)
	hLen := mac.Size()
	var out []byte
	for block := 1; len(out) < keyLen; block++ {
		mac.Reset()
		mac.Write(salt)
		mac.Write([]byte{byte(block >> 24), byte(block >> 16), byte(block >> 8), byte(block)})
		u := mac.Sum(nil)
		t := make([]byte, hLen)
		copy(t, u)
		for i := 1; i < iter; i++ {
			mac.Reset()
			mac.Write(u)
			u = mac.Sum(u[:0])
			for j := range t {
				t[j] ^= u[j]
			}
		}
		out = append(out, t...)
	}
	return out[:keyLen]
}

// Bip39Kdf is the key derivation BIP-39 prescribes once password and salt strings are fixed.
func Bip39Kdf(sentence, passphrase []byte) []byte {
	return Pbkdf2Sha512(sentence, append([]byte("mnemonic"), passphrase...), 2048, 64)
}

// Atom is one atom of an input string (spec/Bip39.tla, layer 2).
type Atom struct {
	K string `json:"k"`
	I int    `json:"i"`
	F string `json:"f"`
}

var sepRune = map[string]string{
	"sp": " ", "tab": "\t", "lf": "\n", "cr": "\r", "vt": "\v", "ff": "\f",
	"nel": "\u0085", "nbsp": "\u00a0", "emsp": "\u2003", "ideo": "\u3000",
}

// Spell turns atoms into the string they describe.  It refuses spellings that would not be what
// the atom says (a "garbage" or "near" token that happens to be a list word, an unknown kind).
func Spell(atoms []Atom) (string, error) {
	var b strings.Builder
	for _, a := range atoms {
		if a.I < 0 || a.I > 2047 {
			return "", fmt.Errorf("atom index %d", a.I)
		}
		w := Words[a.I]
		switch a.K {
		case "w":
			b.WriteString(w)
		case "n":
			var s string
			switch a.F {
			case "upper":
				s = strings.ToUpper(w)
			case "cap":
				s = strings.ToUpper(w[:1]) + w[1:]
			default:
				return "", fmt.Errorf("near form %q", a.F)
			}
			if wordSet[s] {
				return "", fmt.Errorf("near-word %q is a list word", s)
			}
			b.WriteString(s)
		case "x":
			var s string
			switch a.F {
			case "zzzz":
				s = "zzzz"
			case "suffix":
				s = w + "x"
			case "digit":
				s = fmt.Sprint(a.I)
			case "joined":
				s = w + w
			case "dash":
				s = w + "-"
			default:
				return "", fmt.Errorf("garbage kind %q", a.F)
			}
			if wordSet[s] || wordSet[strings.ToLower(s)] || strings.IndexFunc(s, unicode.IsSpace) >= 0 {
				return "", fmt.Errorf("garbage token %q is not garbage", s)
			}
			b.WriteString(s)
		case "s":
			r, ok := sepRune[a.F]
			if !ok {
				return "", fmt.Errorf("separator kind %q", a.F)
			}
			b.WriteString(r)
		default:
			return "", fmt.Errorf("atom kind %q", a.K)
		}
	}
	return b.String(), nil
}

// CanonicalSentence is the word sequence of the atoms (near-words folded) joined by single spaces.
func CanonicalSentence(atoms []Atom) string {
	var ws []string
	for _, a := range atoms {
		if a.K == "w" || a.K == "n" {
			ws = append(ws, Words[a.I])
		}
	}
	return strings.Join(ws, " ")
}

// SelfTest checks the pinned constants and the trusted primitives against published values.
func SelfTest() error {
	if len(Words) != 2048 {
		return fmt.Errorf("canonical list has %d words", len(Words))
	}
	s := sha256.Sum256([]byte(EnglishTxt))
	if hex.EncodeToString(s[:]) != EnglishSha256 || ListSha256(Words) != EnglishSha256 {
		return fmt.Errorf("canonical word list does not hash to the pinned value")
	}
	// trezor/python-mnemonic vectors.json, first vector (entropy 00*16, passphrase TREZOR)
	want, _ := hex.DecodeString("c55257c360c07c72029aebc1b53c05ed0362ada38ead3e3e9efa3708e53495531f09a6987599d18264c1e1c92f2cf141630c7a3c4ab7c81b2f001698e7463b04")
	got := Bip39Kdf([]byte("abandon abandon abandon abandon abandon abandon abandon abandon abandon abandon abandon about"), []byte("TREZOR"))
	if !bytes.Equal(got, want) {
		return fmt.Errorf("own PBKDF2-HMAC-SHA512 does not reproduce the published BIP-39 vector")
	}
	if Sha0(make([]byte, 16)) != 0x37 {
		return fmt.Errorf("sha256 self-test")
	}
	return nil
}
