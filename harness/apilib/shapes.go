package apilib

import (
	"bytes"
	"context"
	"crypto/sha256"
	"encoding/hex"
	"encoding/json"
	"fmt"
	"strings"

	"github.com/golang/protobuf/proto"
	"github.com/golang/protobuf/ptypes/empty"
	"github.com/massnetorg/mass-core/massutil"
	"github.com/massnetorg/mass-core/massutil/base58"
	"github.com/massnetorg/mass-core/massutil/bech32"
	"github.com/massnetorg/mass-core/txscript"
	"github.com/massnetorg/mass-core/wire"
	pb "massnet.org/mass-wallet/api/proto"
	"massnet.org/mass-wallet/config"
	"massnet.org/mass-wallet/masswallet/keystore"
	"verif/harness/replay"
)

// A Call is one concrete request: Do issues it against the handler (the request has been
// through the protobuf wire format, as every request a client can send has).
type Call struct {
	Req  proto.Message
	Do   func(ctx context.Context, req proto.Message) (proto.Message, error)
	Note string // concretisation, for the evidence samples
	w    *W
}

// ErrUnsendable: the protobuf wire format cannot carry this request (nil element of a repeated field).
var ErrUnsendable = fmt.Errorf("unsendable")

// ErrNoShape: the specification named a shape this harness does not know (infrastructure error).
type ErrNoShape struct{ M, Sh string }

func (e ErrNoShape) Error() string {
	return fmt.Sprintf("harness knows no shape %q of method %s", e.Sh, e.M)
}

func split(sh string) (dim, val string) {
	if i := strings.IndexByte(sh, '='); i >= 0 {
		return sh[:i], sh[i+1:]
	}
	return sh, ""
}

// ---------------------------------------------------------------- concrete values

func (w *W) wid(v string) (string, bool) {
	switch v {
	case "w1", "w2", "w3":
		return w.Wals[v].ID, true
	case "unknown": // well formed, never existed
		id := w.Wals["w1"].ID
		b := []byte(id)
		for i := len(b) - 8; i < len(b); i++ {
			if b[i] == 'q' {
				b[i] = 'p'
			} else {
				b[i] = 'q'
			}
		}
		return string(b), true
	case "short":
		return w.Wals["w1"].ID[:41], true
	case "long":
		return w.Wals["w1"].ID + "q", true
	case "empty":
		return "", true
	case "garbage":
		return strings.Repeat("\xff\x00", 21), true
	case "long10k":
		return strings.Repeat("a", 10000), true
	}
	return "", false
}

func pass(v, wallet string) (string, bool) {
	switch v {
	case "right":
		return replay.PrivPass(wallet), true
	case "wrong":
		return "wrongPass" + wallet + "9", true
	case "short":
		return "abc12", true
	case "long":
		return strings.Repeat("p", 41), true
	case "empty":
		return "", true
	case "pubpass":
		return replay.PubPass, true
	case "nonutf8":
		return "pass\xff\xfe\x00word", true
	}
	return "", false
}

func strangerHash(tag string) []byte {
	h := sha256.Sum256([]byte("c19-stranger-" + tag))
	return h[:]
}

// addr concretises an address shape.
func (w *W) addr(v string) (string, bool) {
	k1, k2 := w.Wals["w1"].Keys, w.Wals["w2"].Keys
	switch v {
	case "own": // key 1 of w1 holds free confirmed coins in every scripted history
		return k1[1].Std, true
	case "own1":
		return k1[0].Std, true
	case "ownstk":
		return k1[2].Staking, true
	case "w2":
		return k2[0].Std, true
	case "w2stk":
		return k2[2].Staking, true
	case "stranger":
		a, _ := massutil.NewAddressWitnessScriptHash(strangerHash("std"), config.ChainParams)
		return a.EncodeAddress(), true
	case "strangerstk":
		a, _ := massutil.NewAddressStakingScriptHash(strangerHash("stk"), config.ChainParams)
		return a.EncodeAddress(), true
	case "p2pkh": // a valid old-style binding target
		a, _ := massutil.NewAddressPubKeyHash(strangerHash("pkh")[:20], config.ChainParams)
		return a.EncodeAddress(), true
	case "target22": // a valid new-style binding target (MASS, bit length 32)
		return w.target22(0, 32), true
	case "target22chia":
		return w.target22(1, 32), true
	case "target22badtype":
		return w.target22(7, 32), true
	case "pubkeyhex":
		return "02" + hex.EncodeToString(strangerHash("pk")), true
	case "btc":
		return "bc1qw508d6qejxtdg4y5r3zarvary0c5xw7kv8f3t4", true
	case "testnet58":
		return base58.CheckEncode(strangerHash("tn")[:20], 0x6f), true
	case "empty":
		return "", true
	case "long":
		return k1[0].Std + strings.Repeat("q", 101-len(k1[0].Std)+20), true
	case "long10k":
		return strings.Repeat("ms1q", 2500), true
	case "garbage":
		return "not-an-address", true
	case "badsum":
		s := []byte(k1[0].Std)
		if s[len(s)-1] == 'q' {
			s[len(s)-1] = 'p'
		} else {
			s[len(s)-1] = 'q'
		}
		return string(s), true
	case "upper":
		return strings.ToUpper(k1[0].Std), true
	case "spaces":
		return "  " + k1[0].Std + "  ", true
	case "bech0": // right prefix, valid checksum, no data at all
		s, err := bech32.Encode("ms", []byte{})
		return s, err == nil
	case "bech1": // right prefix, valid checksum, witness version only
		s, err := bech32.Encode("ms", []byte{0})
		return s, err == nil
	case "bech2": // witness version and extend version, empty program
		s, err := bech32.Encode("ms", []byte{0, 0})
		return s, err == nil
	case "bechver": // unsupported witness version
		conv, _ := bech32.ConvertBits(strangerHash("v"), 8, 5, true)
		s, err := bech32.Encode("ms", append([]byte{5, 0}, conv...))
		return s, err == nil
	case "bechext": // unsupported extend version
		conv, _ := bech32.ConvertBits(strangerHash("e"), 8, 5, true)
		s, err := bech32.Encode("ms", append([]byte{0, 9}, conv...))
		return s, err == nil
	case "bechlen20": // witness program of 20 bytes
		conv, _ := bech32.ConvertBits(strangerHash("l")[:20], 8, 5, true)
		s, err := bech32.Encode("ms", append([]byte{0, 0}, conv...))
		return s, err == nil
	case "nul":
		return "ms1q\x00\x00", true
	case "unicode":
		return "ms1qé中文", true
	}
	return "", false
}

func (w *W) target22(typ, size byte) string {
	t := append([]byte{}, strangerHash("t22")[:22]...)
	t[20], t[21] = typ, size
	return base58.CheckEncode(t, config.ChainParams.PubKeyHashAddrID)
}

// AddrShapes lists every address shape (kept in step with Api.tla AddrShapes by the generator:
// an unknown shape is an infrastructure error).
func (w *W) outpoint(v string) (txid string, vout uint32, ok bool) {
	h := func(t string) (string, bool) {
		m, ok := w.Tx[t]
		if !ok {
			return "", false
		}
		x := m.TxHash()
		return x.String(), true
	}
	pick := func(t string, n uint32) (string, uint32, bool) {
		s, ok := h(t)
		return s, n, ok
	}
	unknown := hex.EncodeToString(strangerHash("txid"))
	switch v {
	case "confirmed":
		return pick("p1", 1)
	case "confirmed2":
		return pick("bn", 1)
	case "staking":
		return pick("s1", 0)
	case "binding":
		return pick("bn", 0)
	case "spent":
		return pick("c1", 0)
	case "s1change": // confirmed and free, spent by the unconfirmed pp, or spent by the mined pp
		return pick("s1", 1)
	case "ppout": // output 0 of pp: unknown (pp never announced), pending, or confirmed
		return w.ppHash(), 0, true
	case "ppbind": // the binding output of pp
		return w.ppHash(), 2, true
	case "ppoor": // an output index pp does not have
		return w.ppHash(), 7, true
	case "foreign":
		return pick("c2", 0)
	case "stranger":
		return pick("c5", 0)
	case "unknown":
		return unknown, 0, true
	case "voutoor":
		return pick("p1", 2)
	case "voutmax":
		return pick("p1", 4294967295)
	case "nonhex":
		return strings.Repeat("zz", 32), 0, true
	case "short":
		return unknown[:62], 0, true
	case "long":
		return unknown + "00", 0, true
	case "empty":
		return "", 0, true
	case "spaces":
		s, _ := h("p1")
		return " " + s[:62] + " ", 1, true
	case "upper":
		s, _ := h("p1")
		return strings.ToUpper(s), 1, true
	}
	return "", 0, false
}

// ppHash is the id of the universe transaction pp; in histories that never announce it, an id
// nobody knows stands in for it.
func (w *W) ppHash() string {
	if m, ok := w.Tx["pp"]; ok {
		x := m.TxHash()
		return x.String()
	}
	return hex.EncodeToString(strangerHash("pp-never-announced"))
}

func amount(v string) (string, bool) {
	switch v {
	case "one":
		return "1", true
	case "frac":
		return "0.5", true
	case "zero":
		return "0", true
	case "neg":
		return "-1", true
	case "huge":
		return "999999999999", true
	case "overflow":
		return "99999999999999999999999999", true
	case "nonnum":
		return "abc", true
	case "empty":
		return "", true
	case "exceeds":
		return "5000", true
	case "dust":
		return "0.00000001", true
	case "precise":
		return "0.123456789", true
	case "exp":
		return "1e3", true
	case "long10k":
		return strings.Repeat("9", 10000), true
	}
	return "", false
}

// rawTx builds an unsigned transaction spending the given outpoint shape and paying w2.
func (w *W) rawTx(v string) (string, bool) {
	mk := func(ops [][2]interface{}, outs int, script []byte) string {
		m := wire.NewMsgTx()
		for _, op := range ops {
			h, err := wire.NewHashFromStr(op[0].(string))
			if err != nil {
				return ""
			}
			m.AddTxIn(wire.NewTxIn(wire.NewOutPoint(h, op[1].(uint32)), nil))
		}
		if script == nil {
			script, _ = txscript.PayToWitnessScriptHashScript(w.Wals["w2"].Keys[0].ScriptHash)
		}
		for i := 0; i < outs; i++ {
			m.AddTxOut(wire.NewTxOut(int64(1+i)*replay.Unit, script))
		}
		b, err := m.Bytes(wire.Packet)
		if err != nil {
			return ""
		}
		return hex.EncodeToString(b)
	}
	one := func(o string) (string, bool) {
		t, n, ok := w.outpoint(o)
		if !ok {
			return "", false
		}
		s := mk([][2]interface{}{{t, n}}, 1, nil)
		return s, s != ""
	}
	valid, _ := one("confirmed")
	switch v {
	case "confirmed", "confirmed2", "staking", "binding", "spent", "s1change", "ppout", "ppbind", "ppoor", "foreign", "stranger", "unknown", "voutoor", "voutmax":
		return one(v)
	case "twoin": // two own confirmed coins
		t1, n1, _ := w.outpoint("confirmed")
		t2, n2, _ := w.outpoint("confirmed2")
		return mk([][2]interface{}{{t1, n1}, {t2, n2}}, 2, nil), true
	case "dupin": // the same coin twice
		t1, n1, _ := w.outpoint("confirmed")
		return mk([][2]interface{}{{t1, n1}, {t1, n1}}, 1, nil), true
	case "mixedin": // an own coin and an unknown one
		t1, n1, _ := w.outpoint("confirmed")
		t2, n2, _ := w.outpoint("unknown")
		return mk([][2]interface{}{{t1, n1}, {t2, n2}}, 1, nil), true
	case "noin":
		return mk(nil, 1, nil), true
	case "noout":
		t1, n1, _ := w.outpoint("confirmed")
		return mk([][2]interface{}{{t1, n1}}, 0, nil), true
	case "opreturn":
		t1, n1, _ := w.outpoint("confirmed")
		return mk([][2]interface{}{{t1, n1}}, 1, []byte{txscript.OP_RETURN, 4, 1, 2, 3, 4}), true
	case "emptyscript":
		t1, n1, _ := w.outpoint("confirmed")
		return mk([][2]interface{}{{t1, n1}}, 1, []byte{}), true
	case "bind22bad":
		t1, n1, _ := w.outpoint("confirmed")
		return mk([][2]interface{}{{t1, n1}}, 1, bindingScript(w.Wals["w1"].Keys[0].ScriptHash, 9, 200)), true
	case "empty":
		return "", true
	case "nonhex":
		return "zz" + valid[2:], true
	case "odd":
		return valid[:len(valid)-1], true
	case "truncated":
		return valid[:len(valid)/2&^1], true
	case "garbage":
		return hex.EncodeToString(bytes.Repeat([]byte{0xde, 0xad, 0xbe, 0xef}, 16)), true
	case "trailing":
		return valid + "00ff", true
	case "huge":
		return strings.Repeat("ab", 1<<20), true
	case "upper":
		return strings.ToUpper(valid), true
	}
	return "", false
}

// bindingScript is the binding template with an arbitrary 22-byte target (type and size byte free).
func bindingScript(holder []byte, typ, size byte) []byte {
	t := append([]byte{}, strangerHash("bs")[:22]...)
	t[20], t[21] = typ, size
	s := []byte{txscript.OP_0, 32}
	s = append(s, holder...)
	s = append(s, 22)
	s = append(s, t...)
	return s
}

// signedTx: a transaction spending an own confirmed coin, built and signed through the manager
// itself (no reservation left behind).
func (w *W) signedTx() (string, bool) {
	if w.W.CurrentWallet() != w.Wals["w1"].ID {
		return "", false
	}
	raw, ok := w.rawTx("confirmed")
	if !ok {
		return "", false
	}
	b, _ := hex.DecodeString(raw)
	var m wire.MsgTx
	if m.SetBytes(b, wire.Packet) != nil {
		return "", false
	}
	sb, err := w.W.SignRawTx([]byte(replay.PrivPass("w1")), "ALL", &m)
	if err != nil {
		return "", false
	}
	return hex.EncodeToString(sb), true
}

// ---------------------------------------------------------------- requests

type handler func(ctx context.Context, req proto.Message) (proto.Message, error)

func addrList(w *W, v string) ([]string, bool) {
	switch v {
	case "none":
		return nil, true
	case "many":
		var l []string
		for i := 0; i < 1000; i++ {
			a, _ := massutil.NewAddressWitnessScriptHash(strangerHash(fmt.Sprint("m", i)), config.ChainParams)
			l = append(l, a.EncodeAddress())
		}
		return l, true
	case "owndup":
		a, _ := w.addr("own")
		return []string{a, a}, true
	case "ownall":
		var l []string
		for _, k := range w.Wals["w1"].Keys {
			l = append(l, k.Std)
		}
		return l, true
	}
	a, ok := w.addr(v)
	return []string{a}, ok
}

// Build concretises (method, shape) in the current world.  ok=false: the shape has no
// concretisation in this world (recorded as "skipped", which the specification must agree with).
func (w *W) Build(m, sh string) (c *Call, ok bool, err error) {
	s := w.API
	dim, val := split(sh)
	bad := func() (*Call, bool, error) { return nil, false, ErrNoShape{m, sh} }
	mkc := func(req proto.Message, h handler, note string) (*Call, bool, error) {
		return &Call{Req: req, Do: h, Note: note, w: w}, true, nil
	}
	w2, _ := w.addr("w2")
	switch m {
	case "GetClientStatus", "QuitClient", "Wallets":
		if sh != "base" {
			return bad()
		}
		return mkc(&empty.Empty{}, func(ctx context.Context, r proto.Message) (proto.Message, error) {
			switch m {
			case "GetClientStatus":
				return s.GetClientStatus(ctx, r.(*empty.Empty))
			case "QuitClient":
				return s.QuitClient(ctx, r.(*empty.Empty))
			}
			return s.Wallets(ctx, r.(*empty.Empty))
		}, "")

	case "UseWallet":
		if dim != "wid" {
			return bad()
		}
		id, ok := w.wid(val)
		if !ok {
			return bad()
		}
		return mkc(&pb.UseWalletRequest{WalletId: id}, func(ctx context.Context, r proto.Message) (proto.Message, error) {
			return s.UseWallet(ctx, r.(*pb.UseWalletRequest))
		}, "")

	case "ExportWallet", "GetWalletMnemonic", "RemoveWallet":
		wn, pv := "w1", "right"
		if m == "RemoveWallet" {
			wn = "w2"
		}
		switch dim {
		case "wid":
			wn = val
		case "pass":
			pv = val
		default:
			return bad()
		}
		id, ok := w.wid(wn)
		if !ok {
			return bad()
		}
		owner := wn
		if _, known := w.Wals[wn]; !known {
			owner = "w1"
		}
		p, ok := pass(pv, owner)
		if !ok {
			return bad()
		}
		switch m {
		case "ExportWallet":
			return mkc(&pb.ExportWalletRequest{WalletId: id, Passphrase: p}, func(ctx context.Context, r proto.Message) (proto.Message, error) {
				return s.ExportWallet(ctx, r.(*pb.ExportWalletRequest))
			}, "")
		case "GetWalletMnemonic":
			return mkc(&pb.GetWalletMnemonicRequest{WalletId: id, Passphrase: p}, func(ctx context.Context, r proto.Message) (proto.Message, error) {
				return s.GetWalletMnemonic(ctx, r.(*pb.GetWalletMnemonicRequest))
			}, "")
		}
		return mkc(&pb.RemoveWalletRequest{WalletId: id, Passphrase: p}, func(ctx context.Context, r proto.Message) (proto.Message, error) {
			return s.RemoveWallet(ctx, r.(*pb.RemoveWalletRequest))
		}, "")

	case "CreateWallet":
		req := &pb.CreateWalletRequest{Passphrase: "createPass01", Remarks: "c19", BitSize: 128}
		switch dim {
		case "base":
		case "bits":
			n, ok := map[string]int32{"256": 256, "0": 0, "127": 127, "neg": -1, "huge": 1 << 30, "64": 64, "8": 8, "512": 512}[val]
			if !ok {
				return bad()
			}
			req.BitSize = n
		case "pass":
			p, ok := pass(val, "w1")
			if !ok {
				return bad()
			}
			req.Passphrase = p
		case "remarks":
			switch val {
			case "long10k":
				req.Remarks = strings.Repeat("r", 10000)
			case "nonutf8":
				req.Remarks = "r\xff\xfe\x00"
			case "empty":
				req.Remarks = ""
			case "unicode":
				req.Remarks = strings.Repeat("中", 30)
			default:
				return bad()
			}
		default:
			return bad()
		}
		return mkc(req, func(ctx context.Context, r proto.Message) (proto.Message, error) {
			return s.CreateWallet(ctx, r.(*pb.CreateWalletRequest))
		}, "")

	case "ImportMnemonic":
		req := &pb.ImportMnemonicRequest{Mnemonic: w.Wals["w3"].Mnemonic, Passphrase: replay.PrivPass("w3"), Remarks: "w3", ExternalIndex: replay.NumAddrs}
		fresh := func() { req.Mnemonic = w.freshMnemonic(); req.Remarks = "fresh" }
		switch dim {
		case "base":
		case "mn":
			switch val {
			case "w1":
				req.Mnemonic, req.Passphrase = w.Wals["w1"].Mnemonic, replay.PrivPass("w1")
			case "fresh":
				fresh()
			case "badsum":
				// another last word; one in sixteen has the right checksum by chance, so ask the decoder
				ws := strings.Fields(req.Mnemonic)
				for _, cand := range []string{"zoo", "abandon", "ability", "able", "about", "above"} {
					ws[len(ws)-1] = cand
					if _, err := keystore.EntropyFromMnemonic(strings.Join(ws, " ")); err != nil {
						break
					}
				}
				req.Mnemonic = strings.Join(ws, " ")
			case "unknownword":
				ws := strings.Fields(req.Mnemonic)
				ws[3] = "notaword"
				req.Mnemonic = strings.Join(ws, " ")
			case "elevenwords":
				ws := strings.Fields(req.Mnemonic)
				req.Mnemonic = strings.Join(ws[:11], " ")
			case "short":
				req.Mnemonic = "abandon abandon abandon"
			case "long":
				req.Mnemonic = strings.Repeat("abandon ", 40)
			case "long10k":
				req.Mnemonic = strings.Repeat("abandon ", 1300)
			case "empty":
				req.Mnemonic = ""
			case "upper":
				req.Mnemonic = strings.ToUpper(req.Mnemonic)
			case "doublespace":
				req.Mnemonic = strings.Replace(req.Mnemonic, " ", "  ", -1)
			case "nonutf8":
				req.Mnemonic = strings.Repeat("\xff\xfe ", 20)
			default:
				return bad()
			}
		case "pass":
			p, ok := pass(val, "w3")
			if !ok {
				return bad()
			}
			req.Passphrase = p
		case "ext":
			fresh()
			n, ok := map[string]uint32{"0": 0, "1": 1, "100": 100, "big": BigIndex}[val]
			if !ok {
				return bad()
			}
			req.ExternalIndex = n
		case "int":
			fresh()
			n, ok := map[string]uint32{"1": 1, "100": 100, "big": BigIndex}[val]
			if !ok {
				return bad()
			}
			req.InternalIndex = n
		case "remarks":
			if val != "long10k" {
				return bad()
			}
			fresh()
			req.Remarks = strings.Repeat("r", 10000)
		default:
			return bad()
		}
		return mkc(req, func(ctx context.Context, r proto.Message) (proto.Message, error) {
			return s.ImportMnemonic(ctx, r.(*pb.ImportMnemonicRequest))
		}, "")

	case "ImportWallet":
		req := &pb.ImportWalletRequest{Keystore: w.KsW1, Passphrase: replay.PrivPass("w1")}
		switch dim {
		case "ks":
			switch val {
			case "w1":
			case "fresh":
				ks, p, ok := w.freshKeystore()
				if !ok {
					return nil, false, nil
				}
				req.Keystore, req.Passphrase = ks, p
			case "empty":
				req.Keystore = ""
			case "notjson":
				req.Keystore = "this is not json"
			case "emptyobj":
				req.Keystore = "{}"
			case "null":
				req.Keystore = "null"
			case "array":
				req.Keystore = "[1,2,3]"
			case "truncated":
				req.Keystore = w.KsW1[:len(w.KsW1)/2]
			case "huge":
				req.Keystore = "{\"remarks\":\"" + strings.Repeat("x", 1<<20) + "\"}"
			case "nested":
				req.Keystore = strings.Repeat("[", 100000) + strings.Repeat("]", 100000)
			case "nullfields":
				req.Keystore = mutateJSON(w.KsW1, func(string) interface{} { return nil })
			case "emptyfields":
				req.Keystore = mutateJSON(w.KsW1, func(string) interface{} { return "" })
			case "shortfields":
				req.Keystore = mutateJSON(w.KsW1, func(x string) interface{} {
					if len(x) > 4 {
						return x[:4]
					}
					return x
				})
			case "nonhexfields":
				req.Keystore = mutateJSON(w.KsW1, func(x string) interface{} { return "zz" + x })
			case "othercoin":
				req.Keystore = setJSON(w.KsW1, "hdPath", "Coin", 1)
			case "bigindex":
				ks, p, ok := w.freshKeystore()
				if !ok {
					return nil, false, nil
				}
				req.Keystore, req.Passphrase = setJSON(ks, "hdPath", "ExternalChildNum", BigIndex), p
			default:
				return bad()
			}
		case "pass":
			p, ok := pass(val, "w1")
			if !ok {
				return bad()
			}
			req.Passphrase = p
		default:
			return bad()
		}
		return mkc(req, func(ctx context.Context, r proto.Message) (proto.Message, error) {
			return s.ImportWallet(ctx, r.(*pb.ImportWalletRequest))
		}, "")

	case "GetWalletBalance":
		req := &pb.GetWalletBalanceRequest{}
		switch sh {
		case "base":
		case "detail=true":
			req.Detail = true
		case "conf=1":
			req.RequiredConfirmations, req.Detail = 1, true
		case "conf=max":
			req.RequiredConfirmations, req.Detail = 2147483647, true
		case "conf=neg":
			req.RequiredConfirmations = -1
		case "conf=min":
			req.RequiredConfirmations = -2147483648
		default:
			return bad()
		}
		return mkc(req, func(ctx context.Context, r proto.Message) (proto.Message, error) {
			return s.GetWalletBalance(ctx, r.(*pb.GetWalletBalanceRequest))
		}, "")

	case "GetAddressBalance", "GetUtxo":
		var addrs []string
		conf := int32(0)
		switch dim {
		case "base":
		case "addr":
			l, ok := addrList(w, val)
			if !ok {
				return bad()
			}
			addrs = l
		case "conf":
			if m != "GetAddressBalance" {
				return bad()
			}
			n, ok := map[string]int32{"neg": -1, "max": 2147483647, "1": 1}[val]
			if !ok {
				return bad()
			}
			conf = n
		default:
			return bad()
		}
		if m == "GetUtxo" {
			return mkc(&pb.GetUtxoRequest{Addresses: addrs}, func(ctx context.Context, r proto.Message) (proto.Message, error) {
				return s.GetUtxo(ctx, r.(*pb.GetUtxoRequest))
			}, "")
		}
		return mkc(&pb.GetAddressBalanceRequest{RequiredConfirmations: conf, Addresses: addrs}, func(ctx context.Context, r proto.Message) (proto.Message, error) {
			return s.GetAddressBalance(ctx, r.(*pb.GetAddressBalanceRequest))
		}, "")

	case "CreateAddress", "GetAddresses":
		if dim != "ver" {
			return bad()
		}
		n, ok := map[string]int32{"0": 0, "1": 1, "2": 2, "neg": -1, "65536": 65536, "max": 2147483647}[val]
		if !ok {
			return bad()
		}
		if m == "CreateAddress" {
			return mkc(&pb.CreateAddressRequest{Version: n}, func(ctx context.Context, r proto.Message) (proto.Message, error) {
				return s.CreateAddress(ctx, r.(*pb.CreateAddressRequest))
			}, "")
		}
		return mkc(&pb.GetAddressesRequest{Version: n}, func(ctx context.Context, r proto.Message) (proto.Message, error) {
			return s.GetAddresses(ctx, r.(*pb.GetAddressesRequest))
		}, "")

	case "ValidateAddress":
		if dim != "addr" {
			return bad()
		}
		a, ok := w.addr(val)
		if !ok {
			return bad()
		}
		return mkc(&pb.ValidateAddressRequest{Address: a}, func(ctx context.Context, r proto.Message) (proto.Message, error) {
			return s.ValidateAddress(ctx, r.(*pb.ValidateAddressRequest))
		}, a)

	case "TxHistory":
		req := &pb.TxHistoryRequest{}
		switch dim {
		case "base":
		case "count":
			n, ok := map[string]uint32{"1": 1, "1000": 1000, "1001": 1001, "max": 4294967295}[val]
			if !ok {
				return bad()
			}
			req.Count = n
		case "addr":
			a, ok := w.addr(val)
			if !ok {
				return bad()
			}
			req.Address = a
		default:
			return bad()
		}
		return mkc(req, func(ctx context.Context, r proto.Message) (proto.Message, error) {
			return s.TxHistory(ctx, r.(*pb.TxHistoryRequest))
		}, "")

	case "GetStakingHistory", "GetBindingHistory":
		if dim != "type" {
			return bad()
		}
		t, ok := map[string]string{"default": "", "all": "all", "garbage": "\xff\x00garbage", "long10k": strings.Repeat("a", 10000)}[val]
		if !ok {
			return bad()
		}
		if m == "GetStakingHistory" {
			return mkc(&pb.GetStakingHistoryRequest{Type: t}, func(ctx context.Context, r proto.Message) (proto.Message, error) {
				return s.GetStakingHistory(ctx, r.(*pb.GetStakingHistoryRequest))
			}, "")
		}
		return mkc(&pb.GetBindingHistoryRequest{Type: t}, func(ctx context.Context, r proto.Message) (proto.Message, error) {
			return s.GetBindingHistory(ctx, r.(*pb.GetBindingHistoryRequest))
		}, "")

	case "GetTxStatus", "GetRawTransaction":
		if dim != "txid" {
			return bad()
		}
		var id string
		if strings.HasPrefix(val, "ev") {
			// the event transactions of the "afterevents" history
			var k int
			if _, err := fmt.Sscanf(val, "ev%d", &k); err != nil {
				return bad()
			}
			if k >= len(w.EvTx) || w.EvTx[k] == "" {
				return nil, false, nil
			}
			id = w.EvTx[k]
		} else {
			switch val {
			case "coinbase":
				x := w.Tx["c1"].TxHash()
				id = x.String()
			case "pending":
				id = w.ppHash()
			default:
				t, _, ok := w.outpoint(val)
				if !ok {
					return bad()
				}
				id = t
			}
		}
		if m == "GetTxStatus" {
			return mkc(&pb.GetTxStatusRequest{TxId: id}, func(ctx context.Context, r proto.Message) (proto.Message, error) {
				return s.GetTxStatus(ctx, r.(*pb.GetTxStatusRequest))
			}, id)
		}
		return mkc(&pb.GetRawTransactionRequest{TxId: id}, func(ctx context.Context, r proto.Message) (proto.Message, error) {
			return s.GetRawTransaction(ctx, r.(*pb.GetRawTransactionRequest))
		}, id)

	case "DecodeRawTransaction", "SendRawTransaction":
		if dim != "hex" {
			return bad()
		}
		var hx string
		if strings.HasPrefix(val, "ev") {
			var k int
			if _, err := fmt.Sscanf(val, "ev%d", &k); err != nil {
				return bad()
			}
			if k >= len(w.EvHex) || w.EvHex[k] == "" {
				return nil, false, nil
			}
			hx = w.EvHex[k]
		} else if val == "signed" {
			x, ok := w.signedTx()
			if !ok {
				return nil, false, nil
			}
			hx = x
		} else {
			x, ok := w.rawTx(val)
			if !ok {
				return bad()
			}
			hx = x
		}
		if m == "DecodeRawTransaction" {
			return mkc(&pb.DecodeRawTransactionRequest{Hex: hx}, func(ctx context.Context, r proto.Message) (proto.Message, error) {
				return s.DecodeRawTransaction(ctx, r.(*pb.DecodeRawTransactionRequest))
			}, "")
		}
		w.drainPool()
		return mkc(&pb.SendRawTransactionRequest{Hex: hx}, func(ctx context.Context, r proto.Message) (proto.Message, error) {
			return s.SendRawTransaction(ctx, r.(*pb.SendRawTransactionRequest))
		}, "")

	case "SignRawTransaction":
		req := &pb.SignRawTransactionRequest{Passphrase: replay.PrivPass("w1"), Flags: "ALL"}
		txv := "confirmed"
		switch dim {
		case "tx":
			txv = val
		case "pass":
			p, ok := pass(val, "w1")
			if !ok {
				return bad()
			}
			req.Passphrase = p
		case "flags":
			f, ok := map[string]string{"default": "", "NONE": "NONE", "SINGLE": "SINGLE", "ALLANY": "ALL|ANYONECANPAY", "NONEANY": "NONE|ANYONECANPAY",
				"SINGLEANY": "SINGLE|ANYONECANPAY", "bogus": "BOGUS", "lower": "all", "long10k": strings.Repeat("A", 10000)}[val]
			if !ok {
				return bad()
			}
			req.Flags = f
		default:
			return bad()
		}
		if txv == "signed" {
			x, ok := w.signedTx()
			if !ok {
				return nil, false, nil
			}
			req.RawTx = x
		} else {
			x, ok := w.rawTx(txv)
			if !ok {
				return bad()
			}
			req.RawTx = x
		}
		return mkc(req, func(ctx context.Context, r proto.Message) (proto.Message, error) {
			return s.SignRawTransaction(ctx, r.(*pb.SignRawTransactionRequest))
		}, "")

	case "CreateRawTransaction":
		t, n, _ := w.outpoint("confirmed")
		req := &pb.CreateRawTransactionRequest{Inputs: []*pb.TransactionInput{{TxId: t, Vout: n}}, Amounts: map[string]string{w2: "1"}}
		switch dim {
		case "base":
		case "in":
			switch val {
			case "none":
				req.Inputs = nil
			case "nil":
				req.Inputs = []*pb.TransactionInput{nil}
			case "two":
				t2, n2, _ := w.outpoint("confirmed2")
				req.Inputs = append(req.Inputs, &pb.TransactionInput{TxId: t2, Vout: n2})
			case "dup":
				req.Inputs = append(req.Inputs, &pb.TransactionInput{TxId: t, Vout: n})
			case "mixed":
				t2, n2, _ := w.outpoint("unknown")
				req.Inputs = append(req.Inputs, &pb.TransactionInput{TxId: t2, Vout: n2})
			default:
				t2, n2, ok := w.outpoint(val)
				if !ok {
					return bad()
				}
				req.Inputs = []*pb.TransactionInput{{TxId: t2, Vout: n2}}
			}
		case "to":
			a, ok := w.addr(val)
			if !ok {
				return bad()
			}
			req.Amounts = map[string]string{a: "1"}
		case "amt":
			if val == "emptymap" {
				req.Amounts = map[string]string{}
			} else {
				a, ok := amount(val)
				if !ok {
					return bad()
				}
				req.Amounts = map[string]string{w2: a}
			}
		case "lock":
			n, ok := map[string]uint64{"100": 100, "max63": 1<<63 - 1, "over63": 1 << 63, "max": 1<<64 - 1}[val]
			if !ok {
				return bad()
			}
			req.LockTime = n
		case "change":
			a, ok := w.addr(val)
			if !ok {
				return bad()
			}
			req.ChangeAddress = a
		case "subfee":
			switch val {
			case "valid":
				req.Subtractfeefrom = []string{w2}
			case "unknown":
				a, _ := w.addr("stranger")
				req.Subtractfeefrom = []string{a}
			case "garbage":
				req.Subtractfeefrom = []string{"garbage", "", "  "}
			default:
				return bad()
			}
		default:
			return bad()
		}
		return mkc(req, func(ctx context.Context, r proto.Message) (proto.Message, error) {
			return s.CreateRawTransaction(ctx, r.(*pb.CreateRawTransactionRequest))
		}, "")

	case "AutoCreateTransaction":
		req := &pb.AutoCreateTransactionRequest{Amounts: map[string]string{w2: "1"}}
		switch dim {
		case "base":
		case "to":
			a, ok := w.addr(val)
			if !ok {
				return bad()
			}
			req.Amounts = map[string]string{a: "1"}
		case "amt":
			if val == "emptymap" {
				req.Amounts = map[string]string{}
			} else {
				a, ok := amount(val)
				if !ok {
					return bad()
				}
				req.Amounts = map[string]string{w2: a}
			}
		case "fee":
			a, ok := amount(val)
			if !ok {
				return bad()
			}
			req.Fee = a
		case "from":
			a, ok := w.addr(val)
			if !ok {
				return bad()
			}
			req.FromAddress = a
		case "change":
			a, ok := w.addr(val)
			if !ok {
				return bad()
			}
			req.ChangeAddress = a
		case "lock":
			n, ok := map[string]uint64{"100": 100, "over63": 1 << 63}[val]
			if !ok {
				return bad()
			}
			req.LockTime = n
		default:
			return bad()
		}
		return mkc(req, func(ctx context.Context, r proto.Message) (proto.Message, error) {
			return s.AutoCreateTransaction(ctx, r.(*pb.AutoCreateTransactionRequest))
		}, "")

	case "CreateStakingTransaction":
		stk, _ := w.addr("ownstk")
		// the smallest legal deposit and period are consensus variables, scaled in Reach
		req := &pb.CreateStakingTransactionRequest{StakingAddress: stk, Amount: StakingAmount, FrozenPeriod: StakingPeriod}
		switch dim {
		case "base":
		case "staking":
			a, ok := w.addr(val)
			if !ok {
				return bad()
			}
			req.StakingAddress = a
		case "from":
			a, ok := w.addr(val)
			if !ok {
				return bad()
			}
			req.FromAddress = a
		case "amt":
			a, ok := amount(val)
			if !ok {
				return bad()
			}
			req.Amount = a
		case "fee":
			a, ok := amount(val)
			if !ok {
				return bad()
			}
			req.Fee = a
		case "frozen":
			n, ok := map[string]uint32{"0": 0, "max": 4294967295, "65536": 65536}[val]
			if !ok {
				return bad()
			}
			req.FrozenPeriod = n
		default:
			return bad()
		}
		return mkc(req, func(ctx context.Context, r proto.Message) (proto.Message, error) {
			return s.CreateStakingTransaction(ctx, r.(*pb.CreateStakingTransactionRequest))
		}, "")

	case "CreateBindingTransaction":
		own, _ := w.addr("own")
		tgt, _ := w.addr("p2pkh")
		o := &pb.CreateBindingTransactionRequest_Output{HolderAddress: own, BindingAddress: tgt, Amount: "1"}
		req := &pb.CreateBindingTransactionRequest{Outputs: []*pb.CreateBindingTransactionRequest_Output{o}}
		switch dim {
		case "base":
		case "outs":
			switch val {
			case "none":
				req.Outputs = nil
			case "nil":
				req.Outputs = []*pb.CreateBindingTransactionRequest_Output{nil}
			case "two":
				t22, _ := w.addr("target22")
				req.Outputs = append(req.Outputs, &pb.CreateBindingTransactionRequest_Output{HolderAddress: own, BindingAddress: t22, Amount: "2"})
			default:
				return bad()
			}
		case "holder":
			a, ok := w.addr(val)
			if !ok {
				return bad()
			}
			o.HolderAddress = a
		case "target":
			a, ok := w.addr(val)
			if !ok {
				return bad()
			}
			o.BindingAddress = a
		case "amt":
			a, ok := amount(val)
			if !ok {
				return bad()
			}
			o.Amount = a
		case "from":
			a, ok := w.addr(val)
			if !ok {
				return bad()
			}
			req.FromAddress = a
		case "fee":
			a, ok := amount(val)
			if !ok {
				return bad()
			}
			req.Fee = a
		default:
			return bad()
		}
		return mkc(req, func(ctx context.Context, r proto.Message) (proto.Message, error) {
			return s.CreateBindingTransaction(ctx, r.(*pb.CreateBindingTransactionRequest))
		}, "")

	case "CreatePoolPkCoinbaseTransaction":
		own, _ := w.addr("own")
		req := &pb.CreatePoolPkCoinbaseTransactionRequest{FromAddress: own, Payload: "0001" + strings.Repeat("00", 180)}
		switch dim {
		case "base":
		case "from":
			a, ok := w.addr(val)
			if !ok {
				return bad()
			}
			req.FromAddress = a
		case "payload":
			p, ok := map[string]string{"empty": "", "nonhex": "zz", "short": "0001", "method0": "0000" + strings.Repeat("00", 180),
				"ones": "0001" + strings.Repeat("ff", 180), "odd": "000", "huge": strings.Repeat("00", 1<<20)}[val]
			if !ok {
				return bad()
			}
			req.Payload = p
		default:
			return bad()
		}
		return mkc(req, func(ctx context.Context, r proto.Message) (proto.Message, error) {
			return s.CreatePoolPkCoinbaseTransaction(ctx, r.(*pb.CreatePoolPkCoinbaseTransactionRequest))
		}, "")

	case "GetTransactionFee":
		req := &pb.GetTransactionFeeRequest{Amounts: map[string]string{w2: "1"}}
		switch dim {
		case "base":
		case "binding":
			req.HasBinding = true
		case "in":
			switch val {
			case "nil":
				req.Inputs = []*pb.TransactionInput{nil}
			default:
				t2, n2, ok := w.outpoint(val)
				if !ok {
					return bad()
				}
				req.Inputs = []*pb.TransactionInput{{TxId: t2, Vout: n2}}
			}
		case "to":
			a, ok := w.addr(val)
			if !ok {
				return bad()
			}
			req.Amounts = map[string]string{a: "1"}
		case "bto": // with has_binding the keys are holder addresses
			a, ok := w.addr(val)
			if !ok {
				return bad()
			}
			req.Amounts = map[string]string{a: "1"}
			req.HasBinding = true
		case "amt":
			if val == "emptymap" {
				req.Amounts = map[string]string{}
			} else {
				a, ok := amount(val)
				if !ok {
					return bad()
				}
				req.Amounts = map[string]string{w2: a}
			}
		case "bamt":
			a, ok := amount(val)
			if !ok {
				return bad()
			}
			req.Amounts = map[string]string{w2: a}
			req.HasBinding = true
		default:
			return bad()
		}
		return mkc(req, func(ctx context.Context, r proto.Message) (proto.Message, error) {
			return s.GetTransactionFee(ctx, r.(*pb.GetTransactionFeeRequest))
		}, "")

	case "GetNetworkBinding":
		if dim != "h" {
			return bad()
		}
		n, ok := map[string]uint64{"0": 0, "1": 1, "tip": w.E.BestHeight(), "beyond": w.E.BestHeight() + 5, "max": 1<<64 - 1}[val]
		if !ok {
			return bad()
		}
		return mkc(&pb.GetNetworkBindingRequest{Height: n}, func(ctx context.Context, r proto.Message) (proto.Message, error) {
			return s.GetNetworkBinding(ctx, r.(*pb.GetNetworkBindingRequest))
		}, "")

	case "CheckPoolPkCoinbase":
		if dim != "keys" {
			return bad()
		}
		l, ok := map[string][]string{"none": nil, "nonhex": {"zz"}, "empty": {""}, "short": {"00ff"}, "zeros48": {strings.Repeat("00", 48)},
			"ones48": {strings.Repeat("ff", 48)}, "many": strings.Split(strings.Repeat("ab,", 999)+"ab", ",")}[val]
		if !ok {
			return bad()
		}
		return mkc(&pb.CheckPoolPkCoinbaseRequest{PoolPubkeys: l}, func(ctx context.Context, r proto.Message) (proto.Message, error) {
			return s.CheckPoolPkCoinbase(ctx, r.(*pb.CheckPoolPkCoinbaseRequest))
		}, "")

	case "CheckTargetBinding":
		if dim != "target" {
			return bad()
		}
		l, ok := addrList(w, val)
		if !ok {
			return bad()
		}
		return mkc(&pb.CheckTargetBindingRequest{Targets: l}, func(ctx context.Context, r proto.Message) (proto.Message, error) {
			return s.CheckTargetBinding(ctx, r.(*pb.CheckTargetBindingRequest))
		}, "")
	}
	return nil, false, ErrNoShape{m, sh}
}

// Wire sends the request through the protobuf wire format (what any client transport does) and
// returns the message a handler would receive.
func Wire(req proto.Message) (proto.Message, error) {
	b, err := proto.Marshal(req)
	if err != nil {
		return nil, ErrUnsendable
	}
	out := proto.Clone(req)
	out.Reset()
	if err := proto.Unmarshal(b, out); err != nil {
		return nil, ErrUnsendable
	}
	return out, nil
}

// mutateJSON rewrites every string leaf of a JSON document.
func mutateJSON(doc string, f func(s string) interface{}) string {
	var v interface{}
	if json.Unmarshal([]byte(doc), &v) != nil {
		return doc
	}
	var walk func(x interface{}) interface{}
	walk = func(x interface{}) interface{} {
		switch t := x.(type) {
		case map[string]interface{}:
			for k, e := range t {
				t[k] = walk(e)
			}
			return t
		case []interface{}:
			for i, e := range t {
				t[i] = walk(e)
			}
			return t
		case string:
			return f(t)
		}
		return x
	}
	b, _ := json.Marshal(walk(v))
	return string(b)
}

// setJSON sets one nested numeric field (path a.b) of a JSON document.
func setJSON(doc string, a, b string, val interface{}) string {
	var v map[string]interface{}
	if json.Unmarshal([]byte(doc), &v) != nil {
		return doc
	}
	if m, ok := v[a].(map[string]interface{}); ok {
		m[b] = val
	}
	out, _ := json.Marshal(v)
	return string(out)
}
