package apilib

import (
	"bytes"
	"encoding/binary"
	"fmt"

	"github.com/massnetorg/mass-core/blockchain"
	"github.com/massnetorg/mass-core/massutil"
	"github.com/massnetorg/mass-core/txscript"
	"github.com/massnetorg/mass-core/wire"
	"verif/harness/replay"
)

// EventScripts lists the output-script shapes (Api.tla ScriptShapes).
var EventScripts = []string{"std", "bind20", "opreturn", "opreturnbare", "empty", "multisigbad", "truncpush", "nonstd", "witv1",
	"std31", "huge", "bind22bad", "bind21", "bind22", "stk0", "stkmax", "stk7", "stktrail"}

// eventScript concretises an output-script shape.  own = key 0 of w1 where the template has a holder.
func (w *W) eventScript(sh string) ([]byte, bool) {
	own := w.Wals["w1"].Keys[0].ScriptHash
	push := func(b []byte) []byte { return append([]byte{byte(len(b))}, b...) }
	switch sh {
	case "std": // control: a plain payment to w1
		s, _ := txscript.PayToWitnessScriptHashScript(own)
		return s, true
	case "bind20": // control: old-style binding held by w1
		s, _ := txscript.PayToBindingScriptHashScript(own, replay.BindTarget("c19-ev", 20))
		return s, true
	case "opreturn":
		return append([]byte{txscript.OP_RETURN}, push([]byte("c19 null data"))...), true
	case "opreturnbare":
		return []byte{txscript.OP_RETURN}, true
	case "empty":
		return []byte{}, true
	case "multisigbad": // 1-of-1 bare multisig whose key does not parse
		return append(append([]byte{txscript.OP_1}, push(bytes.Repeat([]byte{0x05}, 33))...), txscript.OP_1, txscript.OP_CHECKMULTISIG), true
	case "truncpush": // push of 32 bytes with only 5 present
		return []byte{txscript.OP_0, 32, 1, 2, 3, 4, 5}, true
	case "nonstd":
		return []byte{txscript.OP_1, txscript.OP_1, txscript.OP_ADD, txscript.OP_2, txscript.OP_EQUAL}, true
	case "witv1": // witness version 1 program
		return append([]byte{txscript.OP_1}, push(own)...), true
	case "std31": // witness v0 with a 31-byte program
		return append([]byte{txscript.OP_0}, push(own[:31])...), true
	case "huge":
		return bytes.Repeat([]byte{txscript.OP_NOP}, 10000), true
	case "bind22bad": // binding template, holder w1, 22-byte target of unknown type and size
		return bindingScript(own, 9, 200), true
	case "bind21": // binding-like, 21-byte target
		s := append([]byte{txscript.OP_0}, push(own)...)
		return append(s, push(bytes.Repeat([]byte{7}, 21))...), true
	case "bind22": // well-formed new-style binding held by w1 (before the fork height)
		return bindingScript(own, 0, 32), true
	case "stk0": // staking template, holder w1, frozen period 0
		return stakingScript(own, 0), true
	case "stkmax":
		return stakingScript(own, 1<<64-1), true
	case "stk7": // staking-like with a 7-byte period
		s := append([]byte{txscript.OP_0}, push(own)...)
		return append(s, push([]byte{1, 2, 3, 4, 5, 6, 7})...), true
	case "stktrail": // staking template followed by a trailing opcode
		return append(stakingScript(own, 3), txscript.OP_NOP), true
	}
	return nil, false
}

func stakingScript(holder []byte, frozen uint64) []byte {
	var p [8]byte
	binary.LittleEndian.PutUint64(p[:], frozen)
	s := []byte{txscript.OP_0, 32}
	s = append(s, holder...)
	s = append(s, 8)
	return append(s, p[:]...)
}

// EventResult is what happened to one chain event.
type EventResult struct {
	Outcome  string `json:"outcome"` // processed | stalled | undeliverable    (died is written by the supervisor)
	Synced   uint64 `json:"synced"`
	Tip      uint64 `json:"tip"`
	After    uint64 `json:"aftersynced"` // after the plain block that follows the event
	AfterTip uint64 `json:"aftertip"`
	Err      string `json:"err,omitempty"`
	TxId     string `json:"txid,omitempty"`
}

// Event delivers one crafted transaction, in a block (ev = "block") or unconfirmed (ev = "tx",
// then mined by the next block), followed by a plain block.  rel: "irrelevant" (spends a stranger's
// coinbase, pays nobody the wallet knows beyond the shaped output), "credit" (also pays w1),
// "debit" (spends a coin of w1 and returns change to w1).
func (w *W) Event(ev, rel, sh string, n int) EventResult {
	var r EventResult
	script, ok := w.eventScript(sh)
	if !ok {
		r.Outcome, r.Err = "undeliverable", "harness: unknown script shape"
		return r
	}
	m := wire.NewMsgTx()
	var inVal int64
	switch rel {
	case "debit":
		if w.chainCoin == nil {
			h := w.Tx["bn"].TxHash()
			w.chainCoin, w.chainVal = wire.NewOutPoint(&h, 2), 20*replay.Unit
		}
		m.AddTxIn(wire.NewTxIn(w.chainCoin, nil))
		inVal = w.chainVal
	default:
		// the coinbase of the block before the tip: a stranger's, mature (maturity 1)
		cb := w.Blk[w.nblk-1].MsgBlock().Transactions[0]
		h := cb.TxHash()
		m.AddTxIn(wire.NewTxIn(wire.NewOutPoint(&h, 0), nil))
		inVal = cb.TxOut[0].Value
	}
	shaped := inVal / 4
	m.AddTxOut(wire.NewTxOut(shaped, script))
	if rel != "irrelevant" {
		own, _ := txscript.PayToWitnessScriptHashScript(w.Wals["w1"].Keys[0].ScriptHash)
		m.AddTxOut(wire.NewTxOut(inVal-shaped-inVal/100, own))
	}
	m.SetPayload([]byte(fmt.Sprintf("c19-event-%d", n)))
	if err := blockchain.CheckTransactionSanity(massutil.NewTx(m)); err != nil {
		r.Outcome, r.Err = "undeliverable", "consensus sanity: "+err.Error()
		return r
	}
	name := fmt.Sprintf("ev%d", n)
	w.Tx[name] = m
	h := m.TxHash()
	w.TxName[h] = name
	r.TxId = h.String()
	fail := func(err error) EventResult {
		// a harness-side failure to attach the block is not the wallet's doing
		if len(err.Error()) >= 8 && err.Error()[:8] == "harness:" {
			r.Outcome = "undeliverable"
		} else {
			r.Outcome = "stalled"
		}
		r.Err = err.Error()
		r.Tip = w.E.BestHeight()
		r.Synced, _ = w.W.SyncedTo()
		return r
	}
	if ev == "tx" {
		if err := w.do(replay.Step{A: "Announce", T: name}); err != nil {
			return fail(err)
		}
		if err := w.do(replay.Step{A: "HandleTx", T: name}); err != nil {
			return fail(err)
		}
		// relays repeat themselves: every other unconfirmed transaction is announced a second time
		if n%2 == 0 {
			if err := w.do(replay.Step{A: "Announce", T: name}); err != nil {
				return fail(err)
			}
			if err := w.do(replay.Step{A: "HandleTx", T: name}); err != nil {
				return fail(err)
			}
		}
		r.Tip = w.E.BestHeight()
		r.Synced, _ = w.W.SyncedTo()
	}
	// the block that carries it
	if err := w.Block(name); err != nil {
		return fail(err)
	}
	if ev == "block" {
		r.Tip = w.E.BestHeight()
		r.Synced, _ = w.W.SyncedTo()
	}
	if rel == "debit" {
		w.chainCoin, w.chainVal = wire.NewOutPoint(&h, 1), m.TxOut[1].Value
	}
	// a plain block after it
	if err := w.Block(); err != nil {
		return fail(err)
	}
	r.AfterTip = w.E.BestHeight()
	r.After, _ = w.W.SyncedTo()
	r.Outcome = "processed"
	if r.Synced != r.Tip || r.After != r.AfterTip {
		r.Outcome = "stalled"
	}
	return r
}
