package apilib

import (
	"context"
	"encoding/hex"
	"fmt"
	"path/filepath"
	"reflect"
	"runtime"
	"runtime/debug"
	"strings"
	"time"

	"github.com/golang/protobuf/proto"
	"github.com/massnetorg/mass-core/consensus"
	"github.com/massnetorg/mass-core/wire"
	"github.com/sirupsen/logrus"
	"google.golang.org/grpc/status"
	pb "massnet.org/mass-wallet/api/proto"
	"massnet.org/mass-wallet/config"
	"massnet.org/mass-wallet/masswallet"
	mwdb "massnet.org/mass-wallet/masswallet/db"
	"massnet.org/mass-wallet/masswallet/keystore"
	"verif/harness/replay"
)

// Scaled consensus values of the C19 worlds and the size of a "huge" derivation index.
var (
	StakingAmount        = "3"
	StakingPeriod uint32 = 3
	BigIndex      uint32 = 4000000
)

// CallTimeout is the patience of the harness with one request.
var CallTimeout = 20 * time.Second

func scaleConsensus() {
	consensus.MinStakingValue = 2 * consensus.MaxwellPerMass
}

// Outcome of one request.
type Outcome struct {
	Outcome string `json:"outcome"` // returned | panicked | timeout | unsendable | skipped   (died is written by the supervisor)
	Class   string `json:"class"`   // ok | e<code>  (returned only)
	Code    uint32 `json:"code"`
	Msg     string `json:"msg,omitempty"`
	Panic   string `json:"panic,omitempty"`
	Where   string `json:"where,omitempty"` // first frames of the panic inside the wallet code
	Ms      int64  `json:"ms"`
}

func panicText(r interface{}) string {
	if en, ok := r.(*logrus.Entry); ok {
		return fmt.Sprintf("log-panic: %s %v", en.Message, en.Data)
	}
	return fmt.Sprint(r)
}

// frames keeps the wallet / mass-core frames of a stack (up to n), for the classifier of known findings.
func frames(stack string, n int) string {
	var out []string
	lines := strings.Split(stack, "\n")
	for i := 0; i+1 < len(lines); i++ {
		l := lines[i]
		if strings.HasPrefix(l, "\t") || !strings.Contains(l, "(") {
			continue
		}
		if strings.Contains(l, "massnet.org/mass-wallet/") || strings.Contains(l, "massnetorg/mass-core/") {
			fn := l[:strings.LastIndex(l, "(")]
			fn = fn[strings.LastIndex(fn, "/")+1:]
			out = append(out, fn)
			if len(out) == n {
				break
			}
		}
	}
	return strings.Join(out, " < ")
}

// Invoke issues the call in its own goroutine under recover() and waits at most CallTimeout.
func Invoke(c *Call) Outcome {
	t0 := time.Now()
	req, err := Wire(c.Req)
	if err != nil {
		return Outcome{Outcome: "unsendable"}
	}
	type res struct {
		resp  proto.Message
		err   error
		pv    interface{}
		stack string
	}
	ch := make(chan res, 1)
	go func() {
		var r res
		defer func() {
			if p := recover(); p != nil {
				r.pv, r.stack = p, string(debug.Stack())
			}
			ch <- r
		}()
		r.resp, r.err = c.Do(context.Background(), req)
	}()
	select {
	case r := <-ch:
		o := Outcome{Ms: time.Since(t0).Milliseconds()}
		switch {
		case r.pv != nil:
			o.Outcome, o.Panic, o.Where = "panicked", panicText(r.pv), frames(r.stack, 4)
		case r.err != nil:
			st, _ := status.FromError(r.err)
			o.Outcome, o.Code, o.Msg = "returned", uint32(st.Code()), st.Message()
			o.Class = fmt.Sprintf("e%d", o.Code)
		case r.resp == nil || reflect.ValueOf(r.resp).IsNil():
			// neither a response nor an error: not an answer
			o.Outcome, o.Class = "returned", "nil"
		default:
			o.Outcome, o.Class = "returned", "ok"
			// the answer must itself be deliverable
			if _, merr := proto.Marshal(r.resp); merr != nil {
				o.Class, o.Msg = "unmarshalable", merr.Error()
			}
		}
		// transaction-building calls reserve the coins they selected for five minutes; every case is
		// judged without reservations left by earlier cases (reservation is C02's subject)
		if x, ok := r.resp.(*pb.CreateRawTransactionResponse); ok && x != nil {
			clearMarks(c.w, x.Hex)
		}
		return o
	case <-time.After(CallTimeout):
		return Outcome{Outcome: "timeout", Ms: time.Since(t0).Milliseconds(), Where: stuckAt()}
	}
}

// stuckAt: where the goroutine of the unanswered request is (wallet / mass-core frames).
func stuckAt() string {
	buf := make([]byte, 1<<20)
	buf = buf[:runtime.Stack(buf, true)]
	for _, g := range strings.Split(string(buf), "\n\n") {
		if strings.Contains(g, "apilib.Invoke.func1") {
			return frames(g, 6)
		}
	}
	return ""
}

func clearMarks(w *W, hx string) {
	if w == nil {
		return
	}
	b, err := hex.DecodeString(hx)
	if err != nil {
		return
	}
	var m wire.MsgTx
	if m.SetBytes(b, wire.Packet) == nil {
		w.W.ClearUsedUTXOMark(&m)
	}
}

// ---------------------------------------------------------------- fresh wallets for import shapes

var freshCtr int

func (w *W) freshMnemonic() string {
	freshCtr++
	ent := strangerHash(fmt.Sprintf("fresh-mnemonic-%d-%s", freshCtr, w.Dir))[:16]
	m, err := keystore.NewMnemonic(ent)
	if err != nil {
		panic(err)
	}
	return m
}

// freshKeystore creates a wallet in a throw-away manager and exports its keystore file.
func (w *W) freshKeystore() (string, string, bool) {
	freshCtr++
	dir := filepath.Join(w.Dir, fmt.Sprintf("fresh-%d", freshCtr))
	inner, err := mwdb.CreateDB("leveldb", dir)
	if err != nil {
		return "", "", false
	}
	defer inner.Close()
	m, err := masswallet.NewWalletManager(w.E, inner, w.Cfg, config.ChainParams, replay.PubPass)
	if err != nil {
		return "", "", false
	}
	p := "freshPass123"
	id, _, _, err := m.CreateWallet(p, "fresh", 128)
	if err != nil {
		return "", "", false
	}
	ks, err := m.ExportWallet(id, p)
	if err != nil {
		return "", "", false
	}
	return ks, p, true
}
