package apilib

import (
	"bufio"
	"encoding/json"
	"fmt"
	"io"
	"os"
	"os/exec"
	"path/filepath"
	"sort"
	"strings"
	"sync"
	"sync/atomic"
	"time"

	"github.com/massnetorg/mass-core/wire"
	"verif/harness/dbwrap"
	"verif/harness/replay"
)

// Case is one line of the plan that TLC printed (spec/ApiGen.tla).  Only the identifying fields
// are used here; the contract (rule) is re-derived by TLC when it judges the trace.
type Case struct {
	Id    int    `json:"id"`
	Kind  string `json:"kind"`  // call | event | start
	State string `json:"state"` // initial state class
	M     string `json:"m"`     // call: method
	Sh    string `json:"sh"`    // call: shape;  event: output-script shape;  start: fault shape
	Ev    string `json:"ev"`    // event: block | tx
	Rel   string `json:"rel"`   // event: irrelevant | credit | debit
	Mut   bool   `json:"mut"`   // the specification says the call may change the abstract state
	Grp   string `json:"grp"`   // cases with different grp run in different child processes (confirmation runs)
	Via   string `json:"via"`   // call: "" / "direct" = the handler method is called; "grpc" = through the wallet's own
	// gRPC server on a local port and a generated client (a handler panic then ends the process)
}

// Line is one trace record.
type Line struct {
	Case
	Seq    int           `json:"seq"` // position in its child run
	Pre    *Abs          `json:"pre,omitempty"`
	Post   *Abs          `json:"post,omitempty"`
	Out    *Outcome      `json:"out,omitempty"`
	Event  *EventResult  `json:"event,omitempty"`
	Marker *MarkerResult `json:"marker,omitempty"`
	Start  *StartResult  `json:"start,omitempty"`
	Note   string        `json:"note,omitempty"`
	Exit   int           `json:"exit,omitempty"`
	Tail   string        `json:"tail,omitempty"`
	Script []string      `json:"script,omitempty"`
}

func emit(w io.Writer, tag string, v interface{}) {
	b, _ := json.Marshal(v)
	fmt.Fprintf(w, "%s %s\n", tag, b)
}

// exit codes of a child
const (
	exitDone    = 0
	exitRestart = 3 // the run cannot go on in this process (a request timed out or panicked): restart after the last line
	exitSetup   = 4 // the scripted history itself failed: infrastructure
)

// Child runs cases[skip:] (all of one initial state class and kind) in one world.
func Child(cases []Case, skip int, dir string, out io.Writer, markerEvery int) int {
	if len(cases) == 0 {
		return exitDone
	}
	bw := bufio.NewWriter(out)
	defer bw.Flush()
	flush := func() { bw.Flush() }
	state, kind := cases[0].State, cases[0].Kind
	if kind == "start" {
		return childStart(cases, skip, dir, bw)
	}
	w, err := Reach(state, filepath.Join(dir, "world"))
	if err != nil {
		emit(bw, "SETUPFAIL", map[string]string{"state": state, "err": err.Error()})
		return exitSetup
	}
	emit(bw, "REACHED", map[string]interface{}{"state": state, "script": w.Script})
	flush()
	seq := skip
	for i := skip; i < len(cases); i++ {
		c := cases[i]
		l := Line{Case: c, Seq: seq}
		seq++
		switch c.Kind {
		case "call":
			pre, err := w.Observe()
			if err != nil {
				emit(bw, "SETUPFAIL", map[string]string{"state": state, "err": err.Error()})
				return exitSetup
			}
			l.Pre = &pre
			call, ok, berr := w.Build(c.M, c.Sh)
			if berr != nil {
				emit(bw, "SETUPFAIL", map[string]string{"state": state, "err": berr.Error()})
				return exitSetup
			}
			if !ok {
				l.Out = &Outcome{Outcome: "skipped"}
				l.Post = &pre
				emit(bw, "LINE", l)
				continue
			}
			l.Note = call.Note
			emit(bw, "BEGIN", l)
			flush()
			var o Outcome
			if c.Via == "grpc" {
				if err := w.startGRPC(); err != nil {
					emit(bw, "SETUPFAIL", map[string]string{"state": state, "err": "grpc: " + err.Error()})
					return exitSetup
				}
				o = w.InvokeGRPC(c.M, call)
			} else {
				o = Invoke(call)
			}
			l.Out = &o
			if o.Outcome == "timeout" || o.Outcome == "panicked" {
				emit(bw, "LINE", l)
				flush()
				return exitRestart
			}
			post, err := w.Observe()
			if err != nil {
				l.Note += " observe-after: " + err.Error()
			} else {
				l.Post = &post
			}
			emit(bw, "LINE", l)
			// keep the task queue below the refusal threshold (IsBusy at 3)
			if post.Tasks >= 3 {
				for k := 0; k < 6 && w.H.VerifTaskQueueLen() > 0; k++ {
					if err := w.do(replay.Step{A: "RemoveStep"}); err != nil {
						break
					}
				}
			}
			if markerEvery > 0 && (i+1)%markerEvery == 0 && i+1 < len(cases) {
				mr := w.MarkerKeep()
				emit(bw, "LINE", Line{Case: Case{Id: -1, Kind: "marker", State: state}, Seq: seq, Marker: &mr})
				flush()
			}
		case "event":
			emit(bw, "BEGIN", l)
			flush()
			er := w.Event(c.Ev, c.Rel, c.Sh, c.Id)
			l.Event = &er
			emit(bw, "LINE", l)
			flush()
		}
	}
	// follower and worker alive?
	emit(bw, "BEGIN", Line{Case: Case{Id: -1, Kind: "marker", State: state}, Seq: seq})
	flush()
	mr := w.Marker()
	emit(bw, "LINE", Line{Case: Case{Id: -1, Kind: "marker", State: state}, Seq: seq, Marker: &mr, Script: w.Script})
	flush()
	done := make(chan struct{})
	go func() { w.Close(); close(done) }()
	select {
	case <-done:
	case <-time.After(15 * time.Second):
	}
	return exitDone
}

// MarkerKeep is Marker without draining the worker (the initial state class is kept).
func (w *W) MarkerKeep() MarkerResult {
	r := MarkerResult{WorkerOK: true}
	err := w.Block()
	r.Tip = w.E.BestHeight()
	s, serr := w.W.SyncedTo()
	r.Synced = s
	if err != nil {
		r.Err = "follower: " + err.Error()
	} else if serr != nil {
		r.Err = "SyncedTo: " + serr.Error()
	} else {
		r.Alive = r.Synced == r.Tip
	}
	return r
}

// ---------------------------------------------------------------- start with a failing first read of the worker

// StartResult: what a wallet start did when a storage read of its start-up failed.
type StartResult struct {
	Outcome  string `json:"outcome"` // started | refused      (died is written by the supervisor)
	Reads    int64  `json:"reads"`   // begin-read calls of a fault-free start (the worker's is the last)
	FailedAt int64  `json:"failedat"`
	Alive    bool   `json:"alive"`  // a block delivered afterwards was applied
	Worker   bool   `json:"worker"` // a wallet import queued afterwards completed
	Err      string `json:"err,omitempty"`
}

func childStart(cases []Case, skip int, dir string, bw *bufio.Writer) int {
	for i := skip; i < len(cases); i++ {
		c := cases[i]
		l := Line{Case: c, Seq: i}
		w, err := Reach("ready", filepath.Join(dir, fmt.Sprintf("world%d", i)))
		if err != nil {
			emit(bw, "SETUPFAIL", map[string]string{"state": "start", "err": err.Error()})
			return exitSetup
		}
		// clean stop of the scripted instance
		w.G.Open()
		stopped := make(chan struct{})
		go func() { w.W.Stop(); close(stopped) }()
		select {
		case <-stopped:
		case <-time.After(20 * time.Second):
			emit(bw, "SETUPFAIL", map[string]string{"state": "start", "err": "scripted instance did not stop"})
			return exitSetup
		}
		// 1. fault-free start, counting the read transactions until the worker is in its loop
		var reads int64
		m, db, err := reopen(w.World, dbwrap.Hooks{OnCall: func(idx int64, kind string) error {
			if kind == "beginread" {
				atomic.AddInt64(&reads, 1)
			}
			return nil
		}})
		if err != nil {
			emit(bw, "SETUPFAIL", map[string]string{"state": "start", "err": "reopen: " + err.Error()})
			return exitSetup
		}
		base := atomic.LoadInt64(&reads) // reads of NewWalletManager
		if err := m.Start(); err != nil {
			emit(bw, "SETUPFAIL", map[string]string{"state": "start", "err": "fault-free start: " + err.Error()})
			return exitSetup
		}
		for k := 0; k < 200 && m.VerifHandler().VerifTaskQueueLen() < 0; k++ {
			time.Sleep(10 * time.Millisecond)
		}
		time.Sleep(50 * time.Millisecond)
		total := atomic.LoadInt64(&reads)
		_ = db
		st := make(chan struct{})
		go func() { m.Stop(); close(st) }()
		select {
		case <-st:
		case <-time.After(20 * time.Second):
			emit(bw, "SETUPFAIL", map[string]string{"state": "start", "err": "fault-free instance did not stop"})
			return exitSetup
		}
		// 2. the same start with one failing read
		failAt := total // the worker's read is the last one
		switch c.Sh {
		case "worker-read-fails":
		case "first-read-fails":
			failAt = base + 1
		case "second-read-fails":
			failAt = base + 2
		default:
			emit(bw, "SETUPFAIL", map[string]string{"state": "start", "err": "unknown start shape " + c.Sh})
			return exitSetup
		}
		res := StartResult{Reads: total - base, FailedAt: failAt - base}
		var n int64
		m2, _, err := reopen(w.World, dbwrap.Hooks{OnCall: func(idx int64, kind string) error {
			if kind == "beginread" && atomic.AddInt64(&n, 1) == failAt {
				return dbwrap.ErrInjected
			}
			return nil
		}})
		if err != nil {
			emit(bw, "SETUPFAIL", map[string]string{"state": "start", "err": "reopen 2: " + err.Error()})
			return exitSetup
		}
		l.Start = &res
		emit(bw, "BEGIN", l)
		bw.Flush()
		if err := m2.Start(); err != nil {
			res.Outcome, res.Err = "refused", err.Error()
			emit(bw, "LINE", l)
			bw.Flush()
			continue
		}
		time.Sleep(300 * time.Millisecond) // a dying worker takes the process down through the FATAL log
		res.Outcome = "started"
		// follower alive: deliver a block
		w.World.W, w.World.H = m2, m2.VerifHandler()
		b := w.nblk + 1
		if err := w.Do(&replay.Step{A: "Extend", B: b, P: w.nblk}); err == nil {
			w.nblk = b
			m2.VerifHandler().OnBlockConnected(w.Blk[b].MsgBlock())
			for k := 0; k < 500; k++ {
				if s, _ := m2.SyncedTo(); s == w.E.BestHeight() {
					res.Alive = true
					break
				}
				time.Sleep(10 * time.Millisecond)
			}
		} else {
			res.Err = err.Error()
		}
		// worker alive: queue an import and wait for it
		if err := w.Do(&replay.Step{A: "Import", W: "w3"}); err == nil {
			for k := 0; k < 1000; k++ {
				if ok, _ := m2.CheckReady(w.Wals["w3"].ID); ok {
					res.Worker = true
					break
				}
				time.Sleep(10 * time.Millisecond)
			}
		} else {
			res.Err += " import: " + err.Error()
		}
		emit(bw, "LINE", l)
		bw.Flush()
		done := make(chan struct{})
		go func() { m2.Stop(); close(done) }()
		select {
		case <-done:
		case <-time.After(10 * time.Second):
		}
	}
	return exitDone
}

// ---------------------------------------------------------------- supervisor

// Supervise runs one child process per (initial state class, kind) group of the plan, restarts a
// child after the case during which it ended, and writes the complete trace (including "died"
// lines, which no child can write itself).
func Supervise(self string, plan []Case, scratch string, traceOut, fullOut io.Writer, procs int, markerEvery int, logLevel string) (infra []string) {
	groups := map[string][]Case{}
	var keys []string
	for _, c := range plan {
		k := c.State + "/" + c.Kind + "/" + c.Via
		if c.Grp != "" {
			k += "/" + c.Grp
		}
		if _, ok := groups[k]; !ok {
			keys = append(keys, k)
		}
		groups[k] = append(groups[k], c)
	}
	sort.Strings(keys)
	var mu sync.Mutex
	write := func(l *Line) {
		b, _ := json.Marshal(JudgeForm(l))
		f, _ := json.Marshal(l)
		mu.Lock()
		traceOut.Write(append(b, '\n'))
		fullOut.Write(append(f, '\n'))
		mu.Unlock()
	}
	addInfra := func(s string) { mu.Lock(); infra = append(infra, s); mu.Unlock() }
	sem := make(chan struct{}, procs)
	var wg sync.WaitGroup
	for gi, k := range keys {
		wg.Add(1)
		go func(gi int, k string) {
			defer wg.Done()
			sem <- struct{}{}
			defer func() { <-sem }()
			cases := groups[k]
			gdir := filepath.Join(scratch, fmt.Sprintf("g%d", gi))
			os.MkdirAll(gdir, 0700)
			pf := filepath.Join(gdir, "plan.ndjson")
			f, _ := os.Create(pf)
			for _, c := range cases {
				b, _ := json.Marshal(c)
				f.Write(append(b, '\n'))
			}
			f.Close()
			skip, restarts := 0, 0
			for skip <= len(cases) {
				rdir := filepath.Join(gdir, fmt.Sprintf("r%d", restarts))
				os.MkdirAll(rdir, 0700)
				cmd := exec.Command(self, "-child", "-plan", pf, "-skip", fmt.Sprint(skip), "-scratch", rdir,
					"-marker-every", fmt.Sprint(markerEvery), "-log", logLevel,
					"-call-timeout", fmt.Sprint(int(CallTimeout.Seconds())), "-big-index", fmt.Sprint(BigIndex))
				cmd.Dir = rdir
				stdout, _ := cmd.StdoutPipe()
				var errb strings.Builder
				cmd.Stderr = &limitWriter{w: &errb, n: 1 << 16}
				if err := cmd.Start(); err != nil {
					addInfra(fmt.Sprintf("%s: cannot start child: %v", k, err))
					return
				}
				var begun *Line
				done := skip
				markerDone := false
				setupFail := ""
				lastOut := time.Now()
				var lmu sync.Mutex
				finished := make(chan struct{})
				go func() {
					sc := bufio.NewScanner(stdout)
					sc.Buffer(make([]byte, 1<<20), 64<<20)
					for sc.Scan() {
						t := sc.Text()
						lmu.Lock()
						lastOut = time.Now()
						switch {
						case strings.HasPrefix(t, "BEGIN "):
							var l Line
							if json.Unmarshal([]byte(t[6:]), &l) == nil {
								begun = &l
							}
						case strings.HasPrefix(t, "LINE "):
							var l Line
							if json.Unmarshal([]byte(t[5:]), &l) == nil {
								write(&l)
								if l.Kind == "marker" {
									if begun != nil && begun.Kind == "marker" {
										markerDone = true
									}
								} else {
									done++
								}
								begun = nil
							}
						case strings.HasPrefix(t, "SETUPFAIL "):
							setupFail = t[10:]
						}
						lmu.Unlock()
					}
					close(finished)
				}()
				// watchdog: a child that prints nothing for a long time is stuck
				killed := false
				waitc := make(chan error, 1)
				go func() { <-finished; waitc <- cmd.Wait() }()
				var werr error
			wait:
				for {
					select {
					case werr = <-waitc:
						break wait
					case <-time.After(time.Second):
						lmu.Lock()
						idle := time.Since(lastOut)
						lmu.Unlock()
						if idle > 150*time.Second {
							killed = true
							cmd.Process.Kill()
						}
					}
				}
				code := 0
				if werr != nil {
					code = -1
					if ee, ok := werr.(*exec.ExitError); ok {
						code = ee.ExitCode()
					}
				}
				lmu.Lock()
				b, sf := begun, setupFail
				lmu.Unlock()
				if sf != "" || code == exitSetup {
					addInfra(fmt.Sprintf("%s: %s", k, sf))
					return
				}
				if b != nil {
					// the process ended (or hung) during this case
					b.Exit = code
					b.Tail = tail(rdir, errb.String())
					oc := "died"
					if killed {
						oc = "hung"
					}
					switch b.Kind {
					case "call":
						b.Out = &Outcome{Outcome: oc}
					case "event":
						b.Event = &EventResult{Outcome: oc}
					case "marker":
						b.Marker = &MarkerResult{Err: oc}
						markerDone = true
					case "start":
						if b.Start == nil {
							b.Start = &StartResult{}
						}
						b.Start.Outcome = oc
					}
					write(b)
					if b.Kind != "marker" {
						done++
					}
				} else if code != exitDone && code != exitRestart {
					addInfra(fmt.Sprintf("%s: child ended with code %d outside any case: %s", k, code, tail(rdir, errb.String())))
					return
				}
				skip = done
				restarts++
				if markerDone || (cases[0].Kind == "start" && skip >= len(cases)) {
					return
				}
				if restarts > len(cases)+3 {
					addInfra(fmt.Sprintf("%s: too many restarts", k))
					return
				}
			}
		}(gi, k)
	}
	wg.Wait()
	return infra
}

func absForm(a *Abs) map[string]interface{} {
	if a == nil || a.St == nil {
		return map[string]interface{}{"sel": "?", "st": map[string]string{"w1": "?", "w2": "?", "w3": "?"}, "tasks": 0, "coins": "?", "extra": 0}
	}
	return map[string]interface{}{"sel": a.Sel, "st": a.St, "tasks": a.Tasks, "coins": a.Coins, "extra": a.Extra}
}

// JudgeForm is the part of a line that spec/ApiTrace.tla reads, with every field present.
func JudgeForm(l *Line) map[string]interface{} {
	m := map[string]interface{}{"kind": l.Kind, "id": l.Id, "state": l.State}
	switch l.Kind {
	case "call":
		o := l.Out
		if o == nil {
			o = &Outcome{Outcome: "?"}
		}
		m["m"], m["sh"], m["via"] = l.M, l.Sh, "direct"
		if l.Via != "" {
			m["via"] = l.Via
		}
		m["outcome"], m["class"] = o.Outcome, o.Class
		m["pre"], m["post"], m["haspost"] = absForm(l.Pre), absForm(l.Post), l.Post != nil
	case "event":
		e := l.Event
		if e == nil {
			e = &EventResult{Outcome: "?"}
		}
		m["ev"], m["rel"], m["sh"] = l.Ev, l.Rel, l.Sh
		m["e"] = map[string]interface{}{"outcome": e.Outcome, "synced": e.Synced, "tip": e.Tip, "aftersynced": e.After, "aftertip": e.AfterTip}
	case "start":
		st := l.Start
		if st == nil {
			st = &StartResult{Outcome: "?"}
		}
		m["sh"] = l.Sh
		m["s"] = map[string]interface{}{"outcome": st.Outcome, "alive": st.Alive, "worker": st.Worker}
	case "marker":
		k := l.Marker
		if k == nil {
			k = &MarkerResult{}
		}
		m["k"] = map[string]interface{}{"alive": k.Alive, "workerok": k.WorkerOK}
	}
	return m
}

type limitWriter struct {
	w io.Writer
	n int
}

func (l *limitWriter) Write(p []byte) (int, error) {
	if l.n > 0 {
		q := p
		if len(q) > l.n {
			q = q[:l.n]
		}
		l.w.Write(q)
		l.n -= len(q)
	}
	return len(p), nil
}

// tail: the fatal / panic lines of the child's log and the head of its stderr.
func tail(rdir, stderr string) string {
	var out []string
	if b, err := os.ReadFile(filepath.Join(rdir, "logs", "verif.log")); err == nil {
		for _, l := range strings.Split(string(b), "\n") {
			if strings.Contains(l, "level=fatal") || strings.Contains(l, "level=panic") {
				if len(l) > 1500 {
					l = l[:1500]
				}
				out = append(out, l)
			}
		}
		if len(out) > 2 {
			out = out[len(out)-2:]
		}
	}
	if len(stderr) > 1500 {
		stderr = stderr[:1500]
	}
	if stderr != "" {
		out = append(out, stderr)
	}
	return strings.Join(out, "\n")
}

var _ wire.Hash
