package apilib

import (
	"context"
	"fmt"
	"net"
	"reflect"
	"time"

	"github.com/golang/protobuf/proto"
	"google.golang.org/grpc"
	"google.golang.org/grpc/codes"
	"google.golang.org/grpc/status"
	pb "massnet.org/mass-wallet/api/proto"
)

// startGRPC starts the wallet's own gRPC server (api.APIServer.Start) on a free local port and
// connects a generated client to it.
func (w *W) startGRPC() error {
	if w.client != nil {
		return nil
	}
	l, err := net.Listen("tcp", "127.0.0.1:0")
	if err != nil {
		return err
	}
	port := l.Addr().(*net.TCPAddr).Port
	l.Close()
	w.Cfg.Wallet.API.GRPCPort = fmt.Sprint(port)
	if err := w.API.Start(); err != nil {
		return err
	}
	ctx, cancel := context.WithTimeout(context.Background(), 10*time.Second)
	defer cancel()
	conn, err := grpc.DialContext(ctx, fmt.Sprintf("127.0.0.1:%d", port), grpc.WithInsecure(), grpc.WithBlock(),
		grpc.WithDefaultCallOptions(grpc.MaxCallRecvMsgSize(64<<20), grpc.MaxCallSendMsgSize(64<<20)))
	if err != nil {
		return err
	}
	w.client = pb.NewApiServiceClient(conn)
	return nil
}

// InvokeGRPC sends the request through the real transport.  A handler panic ends this process
// (the server has no recovery interceptor); the supervisor records that.
func (w *W) InvokeGRPC(m string, c *Call) Outcome {
	t0 := time.Now()
	meth := reflect.ValueOf(w.client).MethodByName(m)
	if !meth.IsValid() {
		return Outcome{Outcome: "unsendable", Msg: "no client method " + m}
	}
	if _, err := proto.Marshal(c.Req); err != nil {
		return Outcome{Outcome: "unsendable"}
	}
	ctx, cancel := context.WithTimeout(context.Background(), CallTimeout)
	defer cancel()
	res := meth.Call([]reflect.Value{reflect.ValueOf(ctx), reflect.ValueOf(c.Req)})
	o := Outcome{Ms: time.Since(t0).Milliseconds(), Outcome: "returned", Class: "ok"}
	if !res[1].IsNil() {
		err := res[1].Interface().(error)
		st, _ := status.FromError(err)
		switch st.Code() {
		case codes.DeadlineExceeded:
			return Outcome{Outcome: "timeout", Ms: o.Ms, Where: stuckAt()}
		case codes.Unavailable, codes.Canceled:
			// the connection broke: the server side is gone (this process is about to end) - wait for it
			time.Sleep(3 * time.Second)
			return Outcome{Outcome: "died", Ms: o.Ms, Msg: st.Message()}
		}
		o.Code, o.Msg = uint32(st.Code()), st.Message()
		o.Class = fmt.Sprintf("e%d", o.Code)
	} else if x, ok := res[0].Interface().(*pb.CreateRawTransactionResponse); ok && x != nil {
		clearMarks(w, x.Hex)
	}
	return o
}
