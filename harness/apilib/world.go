// Package apilib drives the wallet's public API (api.APIServer, the handlers behind the
// gRPC service) and the chain follower with the request shapes and chain events that
// spec/Api.tla enumerates, in the wallet states reached by short scripted histories on a
// real follower (harness/replay.World), and records what happened as ndjson lines for
// spec/ApiTrace.tla.  Nothing is judged here: the lines say "returned / panicked / process
// died / timed out", the response class and the abstract wallet state before and after as the
// wallet's own observers (Wallets, CurrentWallet, task queue length) report it.
package apilib

import (
	"encoding/hex"
	"fmt"
	"path/filepath"
	"time"

	"github.com/massnetorg/mass-core/massutil"
	"github.com/massnetorg/mass-core/wire"
	"massnet.org/mass-wallet/api"
	pb "massnet.org/mass-wallet/api/proto"
	"massnet.org/mass-wallet/config"
	"massnet.org/mass-wallet/masswallet"
	mwdb "massnet.org/mass-wallet/masswallet/db"
	"verif/harness/dbwrap"
	"verif/harness/replay"
)

// States are the initial wallet-state classes of spec/Api.tla (InitStates).
var States = []string{"none", "ready", "pending", "spent", "importing", "removing", "removingsel", "removed", "afterevents"}

func out(o string, a int, c string, v int64, l int) replay.Out {
	return replay.Out{Owner: o, Addr: a, Class: c, Amt: v, Lock: l}
}

// Universe is the constant transaction universe of every C19 world.
//
//	base chain (4 blocks): c1 -> w1/0 50, c2 -> w2/0 60, c3 -> w1/1 70, c4 -> w1/0 90
//	p1 : c1:0 -> w2/0 20, w1/1 29          (c1:0 becomes an already spent coin of w1)
//	s1 : c3:0 -> w1/2 staking 40 (3 blocks), w1/0 29
//	bn : c4:0 -> w1/0 binding 30, w1/1 39, w1/0 20   (bn:2 is the coin the "debit" chain events start from)
//	pp : s1:1 -> w1/0 10, w2/0 17, w1/1 binding 1   (announced unconfirmed in "pending", mined in "spent")
func Universe() *replay.Universe {
	in := func(t string, v int) []interface{} { return []interface{}{t, float64(v)} }
	u := &replay.Universe{
		Wallets:    []string{"w1", "w2", "w3"},
		InitAbsent: []string{"w3"},
		TxIns: map[string][][]interface{}{
			"p1": {in("c1", 1)},
			"s1": {in("c3", 1)},
			"bn": {in("c4", 1)},
			"pp": {in("s1", 2)},
		},
		TxOuts: map[string][]replay.Out{
			"p1": {out("w2", 0, "std", 20, 0), out("w1", 1, "std", 29, 0)},
			"s1": {out("w1", 2, "stk", 40, 3), out("w1", 0, "std", 29, 0)},
			"bn": {out("w1", 0, "bind", 30, 0), out("w1", 1, "std", 39, 0), out("w1", 0, "std", 20, 0)},
			"pp": {out("w1", 0, "std", 10, 0), out("w2", 0, "std", 17, 0), out("w1", 1, "bind", 1, 0)},
		},
		Base: 4, CbMat: 1, BindLock: 2, MinFrozen: 1, ImportBatch: 0,
	}
	u.CbOut = []replay.Out{out("w1", 0, "cb", 50, 0), out("w2", 0, "cb", 60, 0), out("w1", 1, "cb", 70, 0), out("w1", 0, "cb", 90, 0)}
	for len(u.CbOut) < 400 {
		u.CbOut = append(u.CbOut, out("S", 0, "cb", 1, 0))
	}
	for i := range u.CbOut {
		u.CbId = append(u.CbId, fmt.Sprintf("c%d", i+1))
	}
	return u
}

// W is one C19 world: the replay world plus the API server built over it.
type W struct {
	*replay.World
	API   *api.APIServer
	Coins string // "confirmed" | "pending" | "spent": what the scripted history did with the coin s1:1; "odd": as
	// "confirmed", and the wallet's history holds transactions with non-template output scripts
	nblk   int // number of the last block built
	Quits  int // QuitClient callbacks seen
	Script []string
	KsW1   string   // keystore file of w1, exported before the state-specific steps
	EvTx   []string // ids of the event transactions of the "afterevents" history ("" = the node side refused it)
	EvHex  []string

	chainCoin *wire.OutPoint // the coin of w1 the next "debit" event spends
	chainVal  int64
	drained   map[interface{}]bool
	client    pb.ApiServiceClient
}

func (w *W) do(s replay.Step) error {
	w.Script = append(w.Script, describe(s))
	return w.Do(&s)
}

func describe(s replay.Step) string {
	switch s.A {
	case "Extend":
		return fmt.Sprintf("Extend(b%d on b%d %v)", s.B, s.P, s.Txs)
	case "HandleBlock":
		return fmt.Sprintf("HandleBlock(b%d)", s.B)
	case "Announce", "HandleTx":
		return fmt.Sprintf("%s(%s)", s.A, s.T)
	case "Import", "Remove", "ImportStep", "RemoveStep":
		return fmt.Sprintf("%s(%s)", s.A, s.W)
	}
	return s.A
}

// Block extends the best chain by one block with the given (already concretised or universe)
// transactions and lets the follower process the notification.
func (w *W) Block(txs ...string) error {
	b := w.nblk + 1
	st := replay.Step{A: "Extend", B: b, P: w.nblk}
	if len(txs) > 0 {
		st.Txs = [][]string{txs}
	}
	if err := w.do(st); err != nil {
		return err
	}
	w.nblk = b
	return w.do(replay.Step{A: "HandleBlock", B: b})
}

// Reach builds a world and replays the scripted history that leads to the initial state class.
func Reach(state, dir string) (*W, error) {
	u := Universe()
	rw, err := replay.NewWorld(u, dir, 20)
	if err != nil {
		return nil, fmt.Errorf("setup: %v", err)
	}
	scaleConsensus()
	w := &W{World: rw, Coins: "confirmed", nblk: u.Base}
	if w.KsW1, err = rw.W.ExportWallet(rw.Wals["w1"].ID, replay.PrivPass("w1")); err != nil {
		return nil, fmt.Errorf("setup: ExportWallet(w1): %v", err)
	}
	// common prefix: a spent coin, a staking deposit, a binding deposit, change outputs, all confirmed
	if err := w.Block("p1"); err != nil {
		return nil, err
	}
	if err := w.Block("s1", "bn"); err != nil {
		return nil, err
	}
	for i := 0; i < 2; i++ {
		if err := w.Block(); err != nil {
			return nil, err
		}
	}
	// the scripted histories select w1 (NewWorld leaves the wallet created last selected)
	if _, err := w.W.UseWallet(w.Wals["w1"].ID); err != nil {
		return nil, fmt.Errorf("setup: UseWallet(w1): %v", err)
	}
	pend := func() error {
		// the follower asks the node's sync manager for its best peer when an unconfirmed transaction
		// arrives; building that object takes seconds and must not count against the follower's step
		w.E.SyncManager()
		if err := w.do(replay.Step{A: "Announce", T: "pp"}); err != nil {
			return err
		}
		if err := w.do(replay.Step{A: "HandleTx", T: "pp"}); err != nil {
			return err
		}
		w.Coins = "pending"
		return nil
	}
	switch state {
	case "ready":
	case "afterevents":
		// the wallet has received, sent and seen confirmed one transaction with every output-script shape
		n := 0
		for _, rel := range []string{"credit", "debit"} {
			for _, sh := range EventScripts {
				n++
				er := w.Event("block", rel, sh, 9000+n)
				if er.Outcome == "stalled" {
					return nil, fmt.Errorf("setup: event %s/%s stalled the follower: %s", rel, sh, er.Err)
				}
				id, hx := "", ""
				if er.Outcome == "processed" {
					id = er.TxId
					if b, err := w.Tx[fmt.Sprintf("ev%d", 9000+n)].Bytes(wire.Packet); err == nil {
						hx = hex.EncodeToString(b)
					}
				}
				w.EvTx, w.EvHex = append(w.EvTx, id), append(w.EvHex, hx)
			}
		}
		w.Coins = "odd"
	case "pending":
		if err := pend(); err != nil {
			return nil, err
		}
	case "spent":
		if err := pend(); err != nil {
			return nil, err
		}
		if err := w.Block("pp"); err != nil {
			return nil, err
		}
		w.Coins = "spent"
	case "none":
		// a restarted wallet has no wallet selected
		if err := w.do(replay.Step{A: "Crash"}); err != nil {
			return nil, err
		}
		if err := w.do(replay.Step{A: "Restart"}); err != nil {
			return nil, err
		}
	case "importing":
		if err := w.do(replay.Step{A: "Import", W: "w3"}); err != nil {
			return nil, err
		}
	case "removing":
		if err := w.do(replay.Step{A: "Remove", W: "w2"}); err != nil {
			return nil, err
		}
	case "removingsel":
		if err := w.do(replay.Step{A: "Remove", W: "w1"}); err != nil {
			return nil, err
		}
	case "removed":
		if err := w.do(replay.Step{A: "Remove", W: "w1"}); err != nil {
			return nil, err
		}
		if err := w.do(replay.Step{A: "RemoveStep", W: "w1"}); err != nil {
			return nil, err
		}
	default:
		return nil, fmt.Errorf("unknown state class %q", state)
	}
	if err := w.newAPI(); err != nil {
		return nil, err
	}
	return w, nil
}

func (w *W) newAPI() error {
	w.Cfg.Wallet.Settings.MaxTxFee = config.DefaultMaxTxFee
	s, err := api.NewAPIServer(w.E, w.W, func() { w.Quits++ }, w.Cfg)
	if err != nil {
		return fmt.Errorf("NewAPIServer: %v", err)
	}
	w.API = s
	return nil
}

// Abs is the abstract wallet state of spec/Api.tla as the wallet's own observers report it.
type Abs struct {
	Sel   string            `json:"sel"`   // "none" | wallet name | "other" (a wallet created during the run)
	St    map[string]string `json:"st"`    // w1 w2 w3 -> absent | ready | importing | removing
	Tasks int               `json:"tasks"` // queued background tasks
	Coins string            `json:"coins"`
	Extra int               `json:"extra"` // wallets that are not w1..w3 (created by CreateWallet calls)
	// wallets (of all) whose status is importing or removing
	Unsettled int `json:"unsettled"`
}

// Observe reads the abstract state through the manager's public observers.
func (w *W) Observe() (Abs, error) {
	a := Abs{Sel: "none", St: map[string]string{}, Coins: w.Coins}
	for n := range w.Wals {
		a.St[n] = "absent"
	}
	sums, err := w.W.Wallets()
	if err != nil {
		return a, fmt.Errorf("observe: Wallets: %v", err)
	}
	name := map[string]string{}
	for n, wl := range w.Wals {
		name[wl.ID] = n
	}
	for _, sm := range sums {
		st := "ready"
		if sm.Status != nil && sm.Status.IsRemoved() {
			st = "removing"
		} else if sm.Status != nil && !sm.Status.Ready() {
			st = "importing"
		}
		if st != "ready" {
			a.Unsettled++
		}
		if n, ok := name[sm.WalletID]; ok {
			a.St[n] = st
		} else {
			a.Extra++
		}
	}
	if cur := w.W.CurrentWallet(); cur != "" {
		if n, ok := name[cur]; ok {
			a.Sel = n
		} else {
			a.Sel = "other"
		}
	}
	a.Tasks = w.H.VerifTaskQueueLen()
	return a, nil
}

// Marker proves that follower and worker are alive: queued background tasks are run to
// completion (one worker step each), then a fresh block is delivered and must be applied.
type MarkerResult struct {
	Alive       bool   `json:"alive"`
	WorkerSteps int    `json:"workersteps"`
	WorkerOK    bool   `json:"workerok"`
	Synced      uint64 `json:"synced"`
	Tip         uint64 `json:"tip"`
	Err         string `json:"err,omitempty"`
}

func (w *W) Marker() MarkerResult {
	r := MarkerResult{}
	// from here on follower and worker run freely (no scheduling gate)
	w.G.Open()
	deadline := time.Now().Add(60 * time.Second)
	for {
		a, err := w.Observe()
		if err == nil && a.Tasks <= 0 && a.Unsettled == 0 {
			r.WorkerOK = true
			break
		}
		if time.Now().After(deadline) {
			r.Err = fmt.Sprintf("worker: after 60s %d tasks queued, %d wallets still importing / removing (%v)", a.Tasks, a.Unsettled, err)
			break
		}
		time.Sleep(20 * time.Millisecond)
	}
	b := w.nblk + 1
	if err := w.do(replay.Step{A: "Extend", B: b, P: w.nblk}); err != nil {
		r.Err += " harness: " + err.Error()
		r.Alive = true // the node side failed, not the follower
		return r
	}
	w.nblk = b
	w.H.OnBlockConnected(w.Blk[b].MsgBlock())
	r.Tip = w.E.BestHeight()
	deadline = time.Now().Add(30 * time.Second)
	for {
		s, err := w.W.SyncedTo()
		r.Synced = s
		if err == nil && s == r.Tip {
			r.Alive = true
			break
		}
		if time.Now().After(deadline) {
			r.Err += fmt.Sprintf(" follower: 30s after the notification of block %d the wallet is at %d (%v)", r.Tip, s, err)
			break
		}
		time.Sleep(10 * time.Millisecond)
	}
	return r
}

// drainPool consumes the relay channel of the node's transaction pool, as the node's server does.
func (w *W) drainPool() {
	c := w.E.Blockchain()
	if w.drained == nil {
		w.drained = map[interface{}]bool{}
	}
	if w.drained[c] {
		return
	}
	w.drained[c] = true
	ch := c.GetTxPool().NewTxCh
	if ch == nil {
		ch = make(chan *massutil.Tx, 64)
		c.GetTxPool().SetNewTxCh(ch)
	}
	go func() {
		for range ch {
		}
	}()
}

// Restarted opens a second manager on the same database after a clean Stop (used by the
// worker-start fault scenario).
func reopen(w *replay.World, hooks dbwrap.Hooks) (*masswallet.WalletManager, *dbwrap.DB, error) {
	inner, err := mwdb.OpenDB("leveldb", filepath.Join(w.Dir, "wallet.db"))
	if err != nil {
		return nil, nil, err
	}
	db := dbwrap.Wrap(inner)
	db.SetHooks(hooks)
	m, err := masswallet.NewWalletManager(w.E, db, w.Cfg, config.ChainParams, replay.PubPass)
	return m, db, err
}

var _ = time.Second
var _ wire.Hash
