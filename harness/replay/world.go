package replay

import (
	"sync/atomic"
	"bytes"
	"crypto/sha256"
	"encoding/hex"
	"encoding/json"
	"fmt"
	"math"
	"os"
	"path/filepath"
	"sort"
	"strings"
	"sync"
	"time"

	"github.com/massnetorg/mass-core/massutil"
	"github.com/massnetorg/mass-core/txscript"
	"github.com/massnetorg/mass-core/wire"
	"massnet.org/mass-wallet/config"
	"massnet.org/mass-wallet/masswallet"
	mwdb "massnet.org/mass-wallet/masswallet/db"
	_ "massnet.org/mass-wallet/masswallet/db/ldb"
	"massnet.org/mass-wallet/masswallet/keystore"
	"verif/harness/dbwrap"
	"verif/harness/env"
)

const (
	PubPass  = "verifPubpass1"
	NumAddrs = 3 // keys per wallet: 0,1 issued as standard, 2 issued as staking
)

// Unit is the number of Maxwell of one abstract amount unit (1 MASS unless the universe says otherwise).
var Unit = int64(100000000)

// PrivPass is the private passphrase of wallet w: every other wallet has one of (nearly) the greatest legal length
// (40; salted buffers of a fixed size cut longer passphrases short), the others a short one.
func PrivPass(w string) string {
	p := "privPass" + w + "0"
	if len(w) > 0 && (w[len(w)-1]-'0')%2 == 0 {
		p += "@LongPassphrase#0123456789$%^&"
		if len(p) > 38 {
			p = p[:38]
		}
	}
	return p
}

// Key is one derived key of a wallet in its two address forms.
type Key struct {
	Std, Staking string
	ScriptHash   []byte
	IssuedClass  uint16
}

// Wal is one concrete wallet.
type Wal struct {
	Name     string // abstract name
	ID       string
	Mnemonic string
	Keys     []Key
	Imported bool // restored from its mnemonic in this instance (addresses all of the standard class)
}

// initialAddrs: addresses issued when a wallet is created (0 in gap replays, which issue their own)
var initialAddrs = NumAddrs

// Gate parks the handler goroutine at the top of its loop.
type Gate struct {
	mu          sync.Mutex
	open        bool
	arrived     chan struct{}
	release     chan struct{}
	wArrived chan struct{}
	wRelease chan struct{}
	wSuspend chan struct{}
	wRound   chan struct{} // the worker is parked before a phase-2 round of a removal
	parkRound bool
	rec      *ltRec // trace recorder of a free-running replay (harness/replay/ledgertrace.go)
	busyH, busyW int32 // the follower / the worker is between taking work and the top of its loop
}

func newGate() *Gate {
	return &Gate{arrived: make(chan struct{}, 1), release: make(chan struct{}),
		wArrived: make(chan struct{}, 1), wRelease: make(chan struct{}), wSuspend: make(chan struct{}, 8), wRound: make(chan struct{}, 1)}
}

var (
	gatesMu sync.Mutex
	gates   = map[*masswallet.NtfnsHandler]*Gate{}
)

func init() {
	masswallet.VerifGate = func(h *masswallet.NtfnsHandler, point string) {
		stopGatesMu.Lock()
		sg := stopGates[h]
		stopGatesMu.Unlock()
		if sg != nil {
			sg.hit(point)
			return
		}
		gatesMu.Lock()
		g := gates[h]
		gatesMu.Unlock()
		if g == nil {
			return
		}
		switch point {
		case "handle.block", "handle.tx", "handle.suspended":
			atomic.StoreInt32(&g.busyH, 1)
		case "handle.top":
			atomic.StoreInt32(&g.busyH, 0)
		case "worker.suspend":
			atomic.StoreInt32(&g.busyW, 1)
		case "worker.top":
			atomic.StoreInt32(&g.busyW, 0)
		}
		g.mu.Lock()
		open := g.open
		rec := g.rec
		g.mu.Unlock()
		if rec != nil {
			rec.gate(g, point)
		}
		if open {
			return
		}
		switch point {
		case "worker.top":
			g.wArrived <- struct{}{}
			<-g.wRelease
		case "worker.suspend":
			select {
			case g.wSuspend <- struct{}{}:
			default:
			}
		case "remove.round":
			g.mu.Lock()
			park := g.parkRound
			g.parkRound = false
			g.mu.Unlock()
			if park {
				g.wRound <- struct{}{}
				<-g.wRelease
			}
		case "handle.top":
			g.arrived <- struct{}{}
			<-g.release
		}
	}
}

// Open lets the handler run freely from now on.
func (g *Gate) Open() {
	g.mu.Lock()
	was := g.open
	g.open = true
	g.mu.Unlock()
	if !was {
		select {
		case g.release <- struct{}{}:
		case <-time.After(2 * time.Second):
		}
		select {
		case g.wRelease <- struct{}{}:
		case <-time.After(2 * time.Second):
		}
	}
}

// World is one replay: a node environment, a wallet manager, and the maps
// from abstract identifiers to concrete objects.
type World struct {
	U    *Universe
	Dir  string
	E    *env.Env
	DB   *dbwrap.DB
	W    *masswallet.WalletManager
	H    *masswallet.NtfnsHandler
	G    *Gate
	Cfg  *config.Config
	Wals map[string]*Wal

	Blk    map[int]*massutil.Block
	Tx     map[string]*wire.MsgTx
	TxName map[wire.Hash]string
	qB     []int
	qT     []string
	Log    []string
	dbPath string
	gen    int
	down   bool
	stopQueries func()
}


// NewWorld builds environment, wallets and the base chain and starts the follower.
func NewWorld(u *Universe, dir string, gapLimit uint32) (*World, error) {
	return newWorld(u, dir, gapLimit, nil)
}

// NewWorldGated is NewWorld with a hook run after the manager exists and before Start; the hook
// installs its own scheduling gate, and the usual step gate is not waited for.
func NewWorldGated(u *Universe, dir string, install func(w *World)) (*World, error) {
	return newWorld(u, dir, 5, install)
}

func newWorld(u *Universe, dir string, gapLimit uint32, install func(w *World)) (*World, error) {
	if u.Unit > 0 {
		Unit = u.Unit
	} else {
		Unit = 100000000
	}
	{
		sc := env.Scale{CoinbaseMaturity: uint64(u.CbMat), MinFrozenPeriod: uint64(u.MinFrozen), BindingLock: uint64(u.BindLock), WarmUpHeight: 1 << 40}
		if u.WarmUp > 0 {
			sc.WarmUpHeight = uint64(u.WarmUp)
		}
		if sc.MinFrozenPeriod == 0 {
			sc.MinFrozenPeriod = 1
		}
		env.ApplyScale(sc)
		keystore.DefaultScryptOptions = keystore.ScryptOptions{N: 16, R: 8, P: 1}
	}
	if err := os.MkdirAll(dir, 0700); err != nil {
		return nil, err
	}
	if err := os.Chdir(dir); err != nil {
		return nil, err
	}
	e, err := env.New(filepath.Join(dir, "node"))
	if err != nil {
		return nil, err
	}
	w := &World{U: u, Dir: dir, E: e, Wals: map[string]*Wal{},
		Blk: map[int]*massutil.Block{0: e.Genesis}, Tx: map[string]*wire.MsgTx{}, TxName: map[wire.Hash]string{}}
	// a long stranger-only prefix below the modelled chain: abstract height h is concrete height Offset + h
	for k := 1; k <= u.Offset; k++ {
		p := w.Blk[0]
		cb := e.Coinbase(p.Height()+1, env.StrangerScript(uint64(1<<40+k)), 50*Unit, uint64(1<<40+k))
		blk := e.MakeBlock(*p.Hash(), cb, nil)
		if err := e.Attach(blk); err != nil {
			return nil, fmt.Errorf("offset block %d: %v", k, err)
		}
		w.Blk[0] = blk
	}
	masswallet.VerifImportOffset = uint64(u.Offset)
	w.Cfg = &config.Config{Core: config.NewDefCoreConfig(), Wallet: config.NewDefWalletConfig()}
	w.Cfg.Wallet.Settings.AddressGapLimit = gapLimit
	w.dbPath = filepath.Join(dir, "wallet.db")
	inner, err := mwdb.CreateDB("leveldb", w.dbPath)
	if err != nil {
		return nil, err
	}
	w.DB = dbwrap.Wrap(inner)
	if err := w.openManager(); err != nil {
		return nil, err
	}
	names := append([]string{}, u.Wallets...)
	sort.Strings(names)
	absent := map[string]bool{}
	for _, a := range u.InitAbsent {
		absent[a] = true
	}
	for _, name := range names {
		if absent[name] {
			continue
		}
		if err := w.createWallet(name); err != nil {
			return nil, err
		}
	}
	for _, name := range names {
		if absent[name] {
			if err := w.createElsewhere(name); err != nil {
				return nil, err
			}
		}
	}
	masswallet.VerifImportBatch = uint64(u.ImportBatch)
	for b := 1; b <= u.Base; b++ {
		if _, err := w.buildBlock(b, b-1, nil); err != nil {
			return nil, err
		}
		if err := w.E.Attach(w.Blk[b]); err != nil {
			return nil, err
		}
	}
	if install != nil {
		gatesMu.Lock()
		delete(gates, w.H)
		gatesMu.Unlock()
		install(w)
		if err := w.W.Start(); err != nil {
			return nil, fmt.Errorf("Start: %v", err)
		}
		return w, nil
	}
	if err := w.start(); err != nil {
		return nil, err
	}
	return w, nil
}

func (w *World) openManager() error {
	m, err := masswallet.NewWalletManager(w.E, w.DB, w.Cfg, config.ChainParams, PubPass)
	if err != nil {
		return fmt.Errorf("NewWalletManager: %v", err)
	}
	w.W = m
	w.H = m.VerifHandler()
	w.G = newGate()
	gatesMu.Lock()
	gates[w.H] = w.G
	gatesMu.Unlock()
	return nil
}

func (w *World) start() error {
	if err := w.W.Start(); err != nil {
		return fmt.Errorf("Start: %v", err)
	}
	if err := w.waitTop(); err != nil {
		return err
	}
	select {
	case <-w.G.wArrived: // the worker has read the persisted task state and is parked at the top of its loop
		return nil
	case <-time.After(20 * time.Second):
		return fmt.Errorf("worker did not reach its loop within 20s")
	}
}

var errParkedAtRound = fmt.Errorf("worker parked between the phases of a removal")

// workerStep lets the parked worker take one task and run it to completion; every time the
// worker asks the handler to suspend, the parked handler is released to honour exactly that.
// Returns the number of suspend/resume rounds.
func (w *World) workerStep() (int, error) {
	for len(w.G.wSuspend) > 0 {
		<-w.G.wSuspend
	}
	select {
	case w.G.wRelease <- struct{}{}:
	case <-time.After(10 * time.Second):
		return 0, fmt.Errorf("worker not parked at its gate")
	}
	rounds := 0
	for {
		select {
		case <-w.G.wRound:
			return rounds, errParkedAtRound
		case <-w.G.wArrived:
			return rounds, nil
		case <-w.G.wSuspend:
			rounds++
			select {
			case w.G.release <- struct{}{}:
			case <-time.After(10 * time.Second):
				return rounds, fmt.Errorf("handler not parked at its gate")
			}
			if err := w.waitTop(); err != nil {
				return rounds, fmt.Errorf("suspend/resume hand-shake did not complete: %v", err)
			}
		case <-time.After(60 * time.Second):
			return rounds, fmt.Errorf("background task did not finish a step within 60s")
		}
	}
}

func (w *World) waitTop() error {
	select {
	case <-w.G.arrived:
		return nil
	case <-time.After(20 * time.Second):
		return fmt.Errorf("handler did not come back to the top of its loop within 20s")
	}
}

// Close stops the follower and releases everything.
func (w *World) Close() {
	if w.down {
		w.E.Close()
		return
	}
	w.G.Open()
	done := make(chan struct{})
	go func() { w.W.Stop(); close(done) }()
	select {
	case <-done:
	case <-time.After(10 * time.Second):
	}
	gatesMu.Lock()
	delete(gates, w.H)
	gatesMu.Unlock()
	w.E.Close()
}

func (w *World) createWallet(name string) error {
	id, mn, _, err := w.W.CreateWallet(PrivPass(name), name, 128)
	if err != nil {
		return fmt.Errorf("CreateWallet: %v", err)
	}
	wl := &Wal{Name: name, ID: id, Mnemonic: mn}
	if _, err := w.W.UseWallet(id); err != nil {
		return err
	}
	for k := 0; k < initialAddrs; k++ {
		class := uint16(massutil.AddressClassWitnessV0)
		if k == 2 {
			class = massutil.AddressClassWitnessStaking
		}
		a, err := w.W.NewAddress(class)
		if err != nil {
			return fmt.Errorf("NewAddress: %v", err)
		}
		key, err := keyFromAddress(a)
		if err != nil {
			return err
		}
		key.IssuedClass = class
		wl.Keys = append(wl.Keys, key)
	}
	w.Wals[name] = wl
	return nil
}

// createElsewhere creates the wallet in a throw-away instance (never started), so that its
// mnemonic and addresses are known while this instance has never seen it.
func (w *World) createElsewhere(name string) error {
	dir := filepath.Join(w.Dir, "elsewhere-"+name)
	inner, err := mwdb.CreateDB("leveldb", dir)
	if err != nil {
		return err
	}
	defer inner.Close()
	m, err := masswallet.NewWalletManager(w.E, inner, w.Cfg, config.ChainParams, PubPass)
	if err != nil {
		return err
	}
	main := w.W
	w.W = m
	err = w.createWallet(name)
	w.W = main
	return err
}

func keyFromAddress(a string) (Key, error) {
	addr, err := massutil.DecodeAddress(a, config.ChainParams)
	if err != nil {
		return Key{}, err
	}
	sh := addr.ScriptAddress()
	std, err := massutil.NewAddressWitnessScriptHash(sh, config.ChainParams)
	if err != nil {
		return Key{}, err
	}
	stk, err := massutil.NewAddressStakingScriptHash(sh, config.ChainParams)
	if err != nil {
		return Key{}, err
	}
	return Key{Std: std.EncodeAddress(), Staking: stk.EncodeAddress(), ScriptHash: sh}, nil
}

func uniqOf(s string) uint64 {
	h := sha256.Sum256([]byte(s))
	var r uint64
	for i := 0; i < 8; i++ {
		r = r<<8 | uint64(h[i])
	}
	return r
}

// BindTarget is the deterministic binding target of an abstract output.
func BindTarget(tag string, n int) []byte {
	h := sha256.Sum256([]byte("bind-target-" + tag))
	t := append([]byte{}, h[:n]...)
	if n == 22 {
		t[20] = h[20] & 1 // target type: MASS / Chia
		t[21] = 32        // target size
	}
	return t
}

func (w *World) script(o Out, tag string) ([]byte, error) {
	wl, ok := w.Wals[o.Owner]
	if !ok {
		return env.StrangerScript(uniqOf(tag)), nil
	}
	k := wl.Keys[o.Addr]
	switch o.Class {
	case "std", "cb":
		return txscript.PayToWitnessScriptHashScript(k.ScriptHash)
	case "stk":
		a, err := massutil.DecodeAddress(k.Staking, config.ChainParams)
		if err != nil {
			return nil, err
		}
		return txscript.PayToStakingAddrScript(a, uint64(o.Lock))
	case "bind":
		return txscript.PayToBindingScriptHashScript(k.ScriptHash, BindTarget(tag, 20))
	case "nbind":
		return txscript.PayToBindingScriptHashScript(k.ScriptHash, BindTarget(tag, 22))
	}
	return nil, fmt.Errorf("unknown class %q", o.Class)
}

// tx concretises abstract transaction t (once).
func (w *World) tx(t string) (*wire.MsgTx, error) {
	if m, ok := w.Tx[t]; ok {
		return m, nil
	}
	m := wire.NewMsgTx()
	for _, in := range w.U.Ins(t) {
		src, ok := w.Tx[in.Src]
		if !ok {
			return nil, fmt.Errorf("tx %s: input tx %s not concretised yet", t, in.Src)
		}
		h := src.TxHash()
		m.AddTxIn(wire.NewTxIn(wire.NewOutPoint(&h, in.Vout), nil))
	}
	for i, o := range w.U.TxOuts[t] {
		s, err := w.script(o, fmt.Sprintf("%s:%d", t, i))
		if err != nil {
			return nil, err
		}
		m.AddTxOut(wire.NewTxOut(o.Amt*Unit, s))
	}
	m.SetPayload([]byte("verif:" + t))
	w.Tx[t] = m
	w.TxName[m.TxHash()] = t
	return m, nil
}

func (w *World) buildBlock(b, parent int, txs []string) (*massutil.Block, error) {
	p, ok := w.Blk[parent]
	if !ok {
		return nil, fmt.Errorf("block %d: unknown parent %d", b, parent)
	}
	cbid := w.U.CbId[b-1]
	co := w.U.CbOut[b-1]
	s, err := w.script(co, cbid)
	if err != nil {
		return nil, err
	}
	cb := w.E.Coinbase(p.Height()+1, s, co.Amt*Unit, uint64(b))
	w.Tx[cbid] = cb
	w.TxName[cb.TxHash()] = cbid
	var ms []*wire.MsgTx
	for _, t := range txs {
		m, err := w.tx(t)
		if err != nil {
			return nil, err
		}
		ms = append(ms, m)
	}
	blk := w.E.MakeBlock(*p.Hash(), cb, ms)
	w.Blk[b] = blk
	return blk, nil
}

// stepHandler lets the parked handler goroutine take exactly one item.
func (w *World) stepHandler(push func()) error {
	push()
	select {
	case w.G.release <- struct{}{}:
	case <-time.After(10 * time.Second):
		return fmt.Errorf("handler not parked at its gate")
	}
	return w.waitTop()
}

// Do executes one chain / follower action of a history.
func (w *World) Do(s *Step) error {
	switch s.A {
	case "Extend":
		var txs []string
		if len(s.Txs) > 0 {
			txs = s.Txs[0]
		}
		blk, err := w.buildBlock(s.B, s.P, txs)
		if err != nil {
			return fmt.Errorf("harness: %v", err)
		}
		if err := w.E.Attach(blk); err != nil {
			return fmt.Errorf("harness: %v", err)
		}
		w.qB = append(w.qB, s.B)
	case "Fork":
		last := s.P
		for i, txs := range s.Txs {
			if _, err := w.buildBlock(s.B+i, last, txs); err != nil {
				return fmt.Errorf("harness: %v", err)
			}
			last = s.B + i
		}
		if err := w.E.SwitchTo(*w.Blk[last].Hash(), nil); err != nil {
			return fmt.Errorf("harness: %v", err)
		}
		w.qB = append(w.qB, last)
	case "ForkSlow":
		// the competing branch exists as side blocks; the chain database is untouched
		last := s.P
		for i, txs := range s.Txs {
			if _, err := w.buildBlock(s.B+i, last, txs); err != nil {
				return fmt.Errorf("harness: %v", err)
			}
			last = s.B + i
		}
	case "ReorgStep":
		// one disconnect or one connect of reorganizeChain, its own chain-database commit
		if s.Det {
			if tip := w.E.Tip(); *tip.Hash() != *w.Blk[s.B].Hash() {
				return fmt.Errorf("harness: detach of b%d but the tip is another block", s.B)
			}
			if err := w.E.Detach(); err != nil {
				return fmt.Errorf("harness: %v", err)
			}
		} else {
			if err := w.E.Attach(w.Blk[s.B]); err != nil {
				return fmt.Errorf("harness: %v", err)
			}
			if s.Done {
				w.qB = append(w.qB, s.B)
			}
		}
	case "SwitchTo":
		if err := w.E.SwitchTo(*w.Blk[s.B].Hash(), nil); err != nil {
			return fmt.Errorf("harness: %v", err)
		}
		w.qB = append(w.qB, s.B)
	case "Announce", "Reannounce":
		if _, err := w.tx(s.T); err != nil {
			return err
		}
		w.qT = append(w.qT, s.T)
	case "HandleBlock":
		if len(w.qB) == 0 || w.qB[0] != s.B {
			return fmt.Errorf("harness queue %v does not start with block %d", w.qB, s.B)
		}
		w.qB = w.qB[1:]
		blk := w.Blk[s.B].MsgBlock()
		return w.stepHandler(func() { w.H.OnBlockConnected(blk) })
	case "HandleTx":
		if len(w.qT) == 0 || w.qT[0] != s.T {
			return fmt.Errorf("harness queue %v does not start with tx %s", w.qT, s.T)
		}
		w.qT = w.qT[1:]
		m := w.Tx[s.T]
		return w.stepHandler(func() { w.H.OnTransactionReceived(m) })
	case "Import":
		wl := w.Wals[s.W]
		sum, err := w.W.ImportWalletWithMnemonic(&keystore.WalletParams{
			Mnemonic: wl.Mnemonic, PrivatePassphrase: []byte(PrivPass(s.W)), Remarks: s.W,
			ExternalIndex: NumAddrs, InternalIndex: 0, AddressGapLimit: w.Cfg.Wallet.Settings.AddressGapLimit})
		if err != nil {
			return fmt.Errorf("ImportWalletWithMnemonic: %v", err)
		}
		if sum.WalletID != wl.ID {
			return fmt.Errorf("restored wallet id %s differs from the original %s", sum.WalletID, wl.ID)
		}
		wl.Imported = true
		// offset worlds: the unscaled 1000-height batches that lie wholly below the modelled chain
		// are run here, silently (they scan stranger blocks only); the model's first batch is the
		// one that crosses into the modelled part
		if extra := w.U.Offset / 1000; extra > 0 {
			if n := w.H.VerifTaskQueueLen(); n != 1 {
				return fmt.Errorf("harness: model-mismatch: offset world with %d queued tasks at an import", n)
			}
			for k := 0; k < extra; k++ {
				if _, err := w.workerStep(); err != nil {
					return err
				}
			}
		}
	case "Remove":
		wl := w.Wals[s.W]
		if err := w.W.RemoveWallet(wl.ID, "wrongPass"+s.W); err == nil {
			return fmt.Errorf("RemoveWallet accepted a wrong passphrase")
		}
		if err := w.W.RemoveWallet(wl.ID, PrivPass(s.W)); err != nil {
			return fmt.Errorf("RemoveWallet: %v", err)
		}
	case "ImportStep", "RemoveStep":
		if _, err := w.workerStep(); err != nil {
			return err
		}
		if s.A == "ImportStep" {
			// the model abstracts the interplay of a rescan with an unprocessed reorganisation;
			// when it mispredicts whether this batch completed the import, the rest of the
			// behaviour is not comparable: no verdict (never a violation)
			ready, err := w.W.CheckReady(w.Wals[s.W].ID)
			if err == nil && ready != s.Done {
				return fmt.Errorf("harness: model-mismatch: rescan batch left the wallet ready=%v, the model says %v", ready, s.Done)
			}
		}
	case "RemoveStepA":
		// phase 1 of the removal; the worker then parks before the first round of phase 2, holding the task
		w.G.mu.Lock()
		w.G.parkRound = true
		w.G.mu.Unlock()
		if _, err := w.workerStep(); err != errParkedAtRound {
			if err == nil {
				return fmt.Errorf("harness: model-mismatch: the removal finished without reaching its second phase")
			}
			return err
		}
	case "RemoveStepB":
		if _, err := w.workerStep(); err != nil {
			return err
		}
	case "RemoveStepCrash":
		// the process dies right after the k-th database commit of the removal the worker runs
		base := w.DB.Commits()
		db := w.DB
		db.SetHooks(dbwrap.Hooks{AfterCommit: func(n int64, err error) {
			if n-base == int64(s.K) {
				db.Freeze()
			}
		}})
		if _, err := w.workerStep(); err != nil && !db.Frozen() {
			return err
		}
		if !db.Frozen() {
			return fmt.Errorf("harness: model-mismatch: removal was to die after commit %d but made only %d commits", s.K, db.Commits()-base)
		}
		return w.Crash()
	case "Crash":
		return w.Crash()
	case "Restart":
		return w.Restart(0)
	case "RestartCrash":
		return w.Restart(s.K)
	default:
		return fmt.Errorf("unknown action %q", s.A)
	}
	return nil
}

// Crash: the process dies now.  Every later storage call of this instance fails, its
// goroutines are abandoned, the database directory is copied as it is on disk (the
// image a kill -9 leaves: LevelDB hands every committed batch to the OS at commit).
func (w *World) Crash() error {
	w.DB.Freeze()
	// the dead instance's goroutines stay parked at their gates for good: released, a worker whose
	// task keeps failing on the frozen database would spin (and log) for the rest of the process
	w.gen++
	snap := filepath.Join(w.Dir, fmt.Sprintf("wallet-%d.db", w.gen))
	// stop the dead instance's background compaction so that the directory is stable while it
	// is copied; every committed batch is already in the journal, closing adds nothing to it
	w.DB.Inner().Close()
	if err := copyDir(w.dbPath, snap); err != nil {
		return fmt.Errorf("harness: snapshot: %v", err)
	}
	os.Remove(filepath.Join(snap, "LOCK"))
	w.dbPath = snap
	w.qB, w.qT = nil, nil
	w.down = true
	return nil
}

// Restart opens the crash image in a fresh wallet manager and starts it.  With
// dieAfter > 0 the new instance crashes again after that many commits of Start's catch-up.
func (w *World) Restart(dieAfter int) error {
	inner, err := mwdb.OpenDB("leveldb", w.dbPath)
	if err != nil {
		return fmt.Errorf("wallet database does not open after the crash: %v", err)
	}
	w.DB = dbwrap.Wrap(inner)
	if err := w.openManager(); err != nil {
		return fmt.Errorf("wallet does not open after the crash: %v", err)
	}
	if dieAfter > 0 {
		base := w.DB.Commits()
		db := w.DB
		db.SetHooks(dbwrap.Hooks{AfterCommit: func(n int64, err error) {
			if n-base == int64(dieAfter) {
				db.Freeze()
			}
		}})
		err := w.W.Start()
		if !db.Frozen() {
			return fmt.Errorf("restart was to die after %d catch-up commits but only %d happened (Start: %v)", dieAfter, db.Commits()-base, err)
		}
		return w.Crash()
	}
	if err := w.start(); err != nil {
		return fmt.Errorf("wallet does not start after the crash: %v", err)
	}
	w.down = false
	return nil
}

func copyDir(src, dst string) error {
	if err := os.MkdirAll(dst, 0700); err != nil {
		return err
	}
	ents, err := os.ReadDir(src)
	if err != nil {
		return err
	}
	for _, e := range ents {
		if e.IsDir() {
			if err := copyDir(filepath.Join(src, e.Name()), filepath.Join(dst, e.Name())); err != nil {
				return err
			}
			continue
		}
		b, err := os.ReadFile(filepath.Join(src, e.Name()))
		if err != nil {
			return err
		}
		if err := os.WriteFile(filepath.Join(dst, e.Name()), b, 0600); err != nil {
			return err
		}
	}
	return nil
}

// Diff is one observable mismatch.
type Diff struct {
	Kind   string `json:"kind"`
	Wallet string `json:"wallet,omitempty"`
	What   string `json:"what"`
	Want   string `json:"want"`
	Got    string `json:"got"`
}

func (w *World) nameOf(txid string) string {
	h, err := wire.NewHashFromStr(txid)
	if err != nil {
		return "?" + txid
	}
	if n, ok := w.TxName[*h]; ok {
		return n
	}
	return "?" + txid[:8]
}

func amt(a massutil.Amount) int64 { return a.IntValue() }

func mustAmount(v int64) massutil.Amount {
	a, err := massutil.NewAmountFromInt(v)
	if err != nil {
		panic(err)
	}
	return a
}

// Compare projects the real wallet state through the public API and compares
// it with the specification's view.  Sets are compared as sets.
func (w *World) Compare(exp *Expect) ([]Diff, error) {
	var diffs []Diff
	add := func(kind, wal, what, want, got string) {
		diffs = append(diffs, Diff{kind, wal, what, want, got})
	}
	synced, err := w.W.SyncedTo()
	if err != nil {
		return nil, err
	}
	off := uint64(w.U.Offset) // stranger-only blocks below the modelled chain (harness/replay/universe.go)
	if synced < off {
		add("synced-height", "", "SyncedTo", fmt.Sprint(exp.Synced+w.U.Offset), fmt.Sprint(synced))
	}
	synced -= off
	if int(synced) != exp.Synced {
		add("synced-height", "", "SyncedTo", fmt.Sprint(exp.Synced), fmt.Sprint(synced))
	}
	// --- wallet life cycle: listing, readiness, refusal while importing, no residue after removal ---
	if exp.Status != nil {
		listed := map[string]string{}
		sums, err := w.W.Wallets()
		if err != nil {
			add("api-error", "", "Wallets", "ok", err.Error())
		}
		for _, sm := range sums {
			st := "ready"
			if sm.Status != nil && sm.Status.IsRemoved() {
				st = "removing"
			} else if sm.Status != nil && !sm.Status.Ready() {
				st = "importing"
			}
			listed[sm.WalletID] = st
		}
		for name, want := range exp.Status {
			wl := w.Wals[name]
			got, ok := listed[wl.ID]
			if !ok {
				got = "absent"
			}
			if got != want {
				add("wallet-status", name, "Wallets()", want, got)
			}
			switch want {
			case "importing", "removing":
				if _, err := w.W.UseWallet(wl.ID); err == nil {
					add("unready-wallet-selectable", name, "UseWallet while "+want, "refused", "selected")
				}
				if want == "importing" {
					if err := w.W.RemoveWallet(wl.ID, PrivPass(name)); err == nil {
						add("importing-wallet-removable", name, "RemoveWallet while importing", "refused", "accepted")
					}
				}
			case "absent":
				if wl.Imported || !contains(w.U.InitAbsent, name) {
					for _, hit := range w.Residue(wl) {
						add("removed-residue", name, hit, "no record", "record left")
					}
				}
			}
		}
	}
	// property level: with every notification processed (and after any restart) the wallet
	// must be on the node's best chain; the model says whether this step leaves it there
	if exp.OnBest != nil && !*exp.OnBest {
		add("quiescent-not-on-best", "", "wallet chain", fmt.Sprintf("best chain %v", exp.Best), fmt.Sprintf("synced height %d on another branch or behind", synced))
	}
	// --- the pending set, read back from the wallet database through the public mwdb API ---
	if exp.Pend != nil {
		gotPend, unreadable, err := w.PendingSet()
		if err != nil {
			add("api-error", "", "pending-set", "ok", err.Error())
		} else {
			for _, u := range unreadable {
				add("pending-unreadable", "", u, "a record that decodes back into the transaction", "undecodable")
			}
			wantP, gotP, ideal := map[string]string{}, map[string]string{}, map[string]string{}
			for _, t := range exp.Pend {
				wantP[t] = "pending"
			}
			for _, t := range exp.PendIdeal {
				ideal[t] = "pending"
			}
			for _, t := range gotPend {
				gotP[t] = "pending"
			}
			diffMaps(&diffs, "pending-set", "", wantP, gotP)
			// property level: the pending set holds nothing confirmed, conflicted or orphaned
			for t := range gotP {
				if _, ok := ideal[t]; !ok {
					add("pending-not-settled", "", t, "not pending (confirmed, conflicted or parent gone)", "pending")
				}
			}
		}
	}
	names := make([]string, 0, len(exp.Views))
	for n := range exp.Views {
		names = append(names, n)
	}
	sort.Strings(names)
	for _, name := range names {
		v := exp.Views[name]
		wl := w.Wals[name]
		info, err := w.W.UseWallet(wl.ID)
		if err != nil {
			add("use-wallet", name, "UseWallet", "ok", err.Error())
			continue
		}
		if amt(info.TotalBalance) != v.Total*Unit {
			add("total-balance", name, "UseWallet.TotalBalance", fmt.Sprint(v.Total), fmt.Sprint(amt(info.TotalBalance)/Unit))
		}
		// --- unspent outputs, with per-address grouping ---
		want := map[string]string{}
		wantSbu, gotSbu := map[string]string{}, map[string]string{}
		perAddr := map[string]int64{}
		for _, x := range v.Utxos {
			a := wl.Keys[x.Addr].Std
			want[fmt.Sprintf("%s:%d", x.Tx, x.Vout)] = fmt.Sprintf("addr=%d amt=%d h=%d mat=%d", x.Addr, x.Amt, x.H, x.Mat)
			wantSbu[fmt.Sprintf("%s:%d", x.Tx, x.Vout)] = fmt.Sprint(x.Sbu)
			perAddr[a] += x.Amt
		}
		got := map[string]string{}
		um, err := w.W.GetUtxo(nil)
		if err != nil {
			add("api-error", name, "GetUtxo", "ok", err.Error())
		}
		for a, l := range um {
			ai := -1
			for i, k := range wl.Keys {
				if k.Std == a {
					ai = i
				}
			}
			for _, d := range l {
				if d.BlockHeight >= off {
					d.BlockHeight -= off
				}
				key := fmt.Sprintf("%s:%d", w.nameOf(d.TxId), d.Vout)
				val := fmt.Sprintf("addr=%d amt=%d h=%d mat=%d", ai, amt(d.Amount)/Unit, d.BlockHeight, d.Maturity)
				gotSbu[key] = fmt.Sprint(d.SpentByUnmined)
				if old, dup := got[key]; dup {
					add("utxo-duplicate", name, key, old, val)
				}
				got[key] = val
				wantConf := uint64(exp.Synced) - d.BlockHeight + 1
				if uint64(d.Confirmations) != wantConf {
					add("utxo-confirmations", name, key, fmt.Sprint(wantConf), fmt.Sprint(d.Confirmations))
				}
			}
		}
		diffMaps(&diffs, "utxo", name, want, got)
		for k := range wantSbu {
			if g, ok := gotSbu[k]; ok && g != wantSbu[k] {
				add("utxo-sbu", name, k, wantSbu[k], g)
			}
		}
		// --- every coin the wallet reports can be spent through its own API, and a staking /
		// binding withdrawal it builds carries the sequence consensus requires (C08, C10) ---
		for _, x := range v.Utxos {
			txm, ok := w.Tx[x.Tx]
			if !ok {
				continue
			}
			h := txm.TxHash()
			dest := wl.Keys[0].Std
			key := fmt.Sprintf("%s:%d", x.Tx, x.Vout)
			// a withdrawal is built twice: without and with a lock time (the relative lock of a deposit is
			// the same in both; the lock time only makes an ordinary input non-final)
			lockTimes := []uint64{0}
			if x.Class == "stk" || x.Class == "nbind" || x.Class == "bind" {
				lockTimes = []uint64{0, 7}
			}
			for _, lt := range lockTimes {
				raw, _, err := w.W.CreateRawTransaction([]*masswallet.TxIn{{TxId: h.String(), Vout: x.Vout}},
					map[string]massutil.Amount{dest: mustAmount(x.Amt*Unit - Unit/100)}, lt, "", nil)
				if err != nil {
					add("coin-not-buildable", name, key, "CreateRawTransaction succeeds", err.Error())
					continue
				}
				var mtx wire.MsgTx
				b, derr := hex.DecodeString(raw)
				if derr == nil {
					derr = mtx.SetBytes(b, wire.Packet)
				}
				if derr != nil || len(mtx.TxIn) != 1 {
					add("coin-not-buildable", name, key, "a decodable one-input transaction", fmt.Sprint(derr))
					continue
				}
				w.W.ClearUsedUTXOMark(&mtx)
				seq := mtx.TxIn[0].Sequence
				switch x.Class {
				case "stk", "nbind":
					if seq != uint64(x.Mat) {
						add("withdraw-sequence", name, fmt.Sprintf("%s (lock time %d)", key, lt), fmt.Sprint(x.Mat), fmt.Sprint(seq))
					}
				default:
					if seq&wire.SequenceLockTimeDisabled == 0 && seq&wire.SequenceLockTimeMask != 0 && seq != wire.MaxTxInSequenceNum {
						add("withdraw-sequence", name, fmt.Sprintf("%s (lock time %d)", key, lt), "no relative lock", fmt.Sprint(seq))
					}
				}
			}
		}
		// --- balances ---
		bal, err := w.W.WalletBalance(0, true)
		if err != nil {
			add("api-error", name, "WalletBalance", "ok", err.Error())
		} else {
			cmp := func(what string, wantv int64, gotv massutil.Amount) {
				if amt(gotv) != wantv*Unit {
					add("balance-"+what, name, "WalletBalance."+what, fmt.Sprint(wantv), fmt.Sprint(float64(amt(gotv))/float64(Unit)))
				}
			}
			cmp("total", v.Total, bal.Total)
			cmp("spendable", v.Spendable, bal.Spendable)
			cmp("wstaking", v.WStaking, bal.WithdrawableStaking)
			cmp("wbinding", v.WBinding, bal.WithdrawableBinding)
		}
		abs, err := w.W.AddressBalance(0, nil)
		if err != nil {
			add("api-error", name, "AddressBalance", "ok", err.Error())
		} else {
			gotA := map[string]string{}
			wantA := map[string]string{}
			for _, ab := range abs {
				if amt(ab.Total) != 0 {
					gotA[ab.Address] = fmt.Sprint(amt(ab.Total) / Unit)
				}
			}
			for a, t := range perAddr {
				if t != 0 {
					wantA[a] = fmt.Sprint(t)
				}
			}
			diffMaps(&diffs, "address-balance", name, wantA, gotA)
		}
		// --- staking / binding deposits ---
		wantD, wantP := map[string]string{}, map[string]string{}
		wantDS, gotDS := map[string]string{}, map[string]string{}
		for _, d := range v.Deposits {
			wantD[fmt.Sprintf("%s:%d", d.Tx, d.Vout)] = depString(d.Class, d.Amt, d.H, d.Lock, d.Addr, d.Withdrawn, d.Sbu)
			wantDS[fmt.Sprintf("%s:%d", d.Tx, d.Vout)] = fmt.Sprint(d.Sbu)
		}
		for _, d := range v.PDeposits {
			wantP[fmt.Sprintf("%s:%d", d.Tx, d.Vout)] = fmt.Sprintf("%s amt=%d", gameOf(d.Class), d.Amt)
		}
		gotD, gotP := map[string]string{}, map[string]string{}
		sh, err := w.W.GetStakingHistory(false)
		if err != nil {
			add("api-error", name, "GetStakingHistory", "ok", err.Error())
		}
		for _, d := range sh {
			key := fmt.Sprintf("%s:%d", w.nameOf(d.TxHash.String()), d.Index)
			ai := -1
			for i, k := range wl.Keys {
				if k.Staking == d.Utxo.Address {
					ai = i
				}
			}
			if d.BlockHeight >= off && d.BlockHeight > 0 {
				d.BlockHeight -= off
			}
			if d.BlockHeight == 0 {
				gotP[key] = fmt.Sprintf("stk amt=%d", amt(d.Utxo.Amount)/Unit)
			} else {
				gotD[key] = depString("stk", amt(d.Utxo.Amount)/Unit, d.BlockHeight, int(d.Utxo.FrozenPeriod), ai, d.Utxo.Spent, d.Utxo.SpentByUnmined)
				gotDS[key] = fmt.Sprint(d.Utxo.SpentByUnmined)
			}
		}
		bh, err := w.W.GetBindingHistory(false)
		if err != nil {
			add("api-error", name, "GetBindingHistory", "ok", err.Error())
		}
		for _, d := range bh {
			key := fmt.Sprintf("%s:%d", w.nameOf(d.TxHash.String()), d.Index)
			ai := -1
			for i, k := range wl.Keys {
				if d.Utxo.Holder != nil && k.Std == d.Utxo.Holder.EncodeAddress() {
					ai = i
				}
			}
			if d.BlockHeight >= off && d.BlockHeight > 0 {
				d.BlockHeight -= off
			}
			if d.BlockHeight == 0 {
				gotP[key] = fmt.Sprintf("bind amt=%d", amt(d.Utxo.Amount)/Unit)
			} else {
				gotD[key] = depString("bind", amt(d.Utxo.Amount)/Unit, d.BlockHeight, 0, ai, d.Utxo.Spent, d.Utxo.SpentByUnmined)
				gotDS[key] = fmt.Sprint(d.Utxo.SpentByUnmined)
				// the binding target must read back
				tname := w.nameOf(d.TxHash.String())
				n := 20
				if outs, ok := w.U.TxOuts[tname]; ok && int(d.Index) < len(outs) && outs[d.Index].Class == "nbind" {
					n = 22
				}
				wantT := BindTarget(fmt.Sprintf("%s:%d", tname, d.Index), n)
				if d.Utxo.BindingTarget == nil || string(d.Utxo.BindingTarget.ScriptAddress()) != string(wantT) {
					add("binding-target", name, key, fmt.Sprintf("%x", wantT), fmt.Sprint(d.Utxo.BindingTarget))
				}
			}
		}
		diffMaps(&diffs, "deposit", name, wantD, gotD)
		for k := range wantDS {
			if g, ok := gotDS[k]; ok && g != wantDS[k] {
				add("deposit-sbu", name, k, wantDS[k], g)
			}
		}
		diffMaps(&diffs, "pending-deposit", name, wantP, gotP)
		// --- addresses and used flags ---
		ads, err := w.W.GetAddresses(math.MaxUint16)
		if err != nil {
			add("api-error", name, "GetAddresses", "ok", err.Error())
		} else if !wl.Imported {
			usedWant := map[string]bool{}
			for _, u := range v.Used {
				usedWant[fmt.Sprintf("%v/%v", u[0], u[1])] = true
			}
			listed := map[string]bool{}
			for _, a := range ads {
				for i, k := range wl.Keys {
					form := ""
					if a.AddressClass == massutil.AddressClassWitnessV0 && a.Address == k.Std {
						form = "std"
					} else if a.AddressClass == massutil.AddressClassWitnessStaking && a.Address == k.Staking {
						form = "staking"
					}
					if form == "" {
						continue
					}
					id := fmt.Sprintf("%d/%s", i, form)
					listed[id] = true
					// a standard address is also "used" when its staking form received funds
					wantUsed := usedWant[id] || (form == "std" && usedWant[fmt.Sprintf("%d/staking", i)])
					if a.Used != wantUsed {
						add("address-used", name, id, fmt.Sprint(wantUsed), fmt.Sprint(a.Used))
					}
				}
			}
			for i, k := range wl.Keys {
				form := "std"
				if k.IssuedClass == massutil.AddressClassWitnessStaking {
					form = "staking"
				}
				id := fmt.Sprintf("%d/%s", i, form)
				if !listed[id] {
					add("address-not-listed", name, id, "listed", "missing")
				}
			}
		}
	}
	return diffs, nil
}

func gameOf(class string) string {
	if class == "stk" {
		return "stk"
	}
	return "bind"
}

func depString(class string, a int64, h uint64, lock, addr int, withdrawn, sbu bool) string {
	if class != "stk" {
		lock = 0
	}
	return fmt.Sprintf("%s amt=%d h=%d lock=%d addr=%d withdrawn=%v", gameOf(class), a, h, lock, addr, withdrawn)
}

func diffMaps(diffs *[]Diff, kind, wal string, want, got map[string]string) {
	keys := map[string]bool{}
	for k := range want {
		keys[k] = true
	}
	for k := range got {
		keys[k] = true
	}
	var ks []string
	for k := range keys {
		ks = append(ks, k)
	}
	sort.Strings(ks)
	for _, k := range ks {
		wv, wok := want[k]
		gv, gok := got[k]
		switch {
		case wok && !gok:
			*diffs = append(*diffs, Diff{kind + "-missing", wal, k, wv, "-"})
		case !wok && gok:
			*diffs = append(*diffs, Diff{kind + "-extra", wal, k, "-", gv})
		case wv != gv:
			*diffs = append(*diffs, Diff{kind + "-differs", wal, k, wv, gv})
		}
	}
}

// Result of replaying one history.
type Result struct {
	Index   int    `json:"index"`
	OK      bool   `json:"ok"`
	Step    int    `json:"step"`
	Action  string `json:"action,omitempty"`
	Err     string `json:"err,omitempty"`
	Diffs   []Diff `json:"diffs,omitempty"`
	Compared int   `json:"compared"`
	Sig     string `json:"sig,omitempty"`
	Lines   []json.RawMessage `json:"lines,omitempty"`
}

// Replay runs one history in a fresh world under dir.
func Replay(u *Universe, h History, dir string) (res Result) {
	return replayOpt(u, h, dir, false)
}

// doApiWithTx performs the API call s (Import / Remove) and lets the follower take the unconfirmed
// transaction of step next while the call is at its commit: the keystore of a wallet being imported is
// registered, its status record not yet committed.  The follower's read transactions run inside that
// window; its update (if any) waits for the call's write transaction like any writer.
func (w *World) doApiWithTx(s, next *Step) error {
	if len(w.qT) == 0 || w.qT[0] != next.T {
		return fmt.Errorf("harness queue %v does not start with tx %s", w.qT, next.T)
	}
	api := goid()
	fired, arrived := false, false
	began := make(chan struct{}, 1)
	var herr error
	db := w.DB
	db.SetHooks(dbwrap.Hooks{OnCall: func(idx int64, kind string) error {
		g := goid()
		if g != api {
			if kind == "begin" {
				select {
				case began <- struct{}{}:
				default:
				}
			}
			return nil
		}
		if kind != "commit" || fired {
			return nil
		}
		fired = true
		w.qT = w.qT[1:]
		w.H.OnTransactionReceived(w.Tx[next.T])
		select {
		case w.G.release <- struct{}{}:
		case <-time.After(10 * time.Second):
			herr = fmt.Errorf("handler not parked at its gate")
			return nil
		}
		select {
		case <-w.G.arrived:
			arrived = true
		case <-began:
		case <-time.After(10 * time.Second):
			herr = fmt.Errorf("harness: follower neither finished nor reached its update within 10s")
		}
		return nil
	}})
	err := w.Do(s)
	db.SetHooks(dbwrap.Hooks{})
	if err != nil {
		return err
	}
	if herr != nil {
		return herr
	}
	if !fired {
		return fmt.Errorf("harness: model-mismatch: the API call made no commit")
	}
	if !arrived {
		return w.waitTop()
	}
	return nil
}

func replayOpt(u *Universe, h History, dir string, txInsideApi bool) (res Result) {
	res.OK = true
	if u.Unit > 0 {
		Unit = u.Unit
	} else {
		Unit = 100000000
	}
	w, err := NewWorld(u, dir, 5)
	if err != nil {
		return Result{OK: false, Step: -1, Err: "setup: " + err.Error()}
	}
	defer w.Close()
	skip := false
	for i := range h {
		s := &h[i]
		if skip {
			skip = false
		} else if txInsideApi && (s.A == "Import" || s.A == "Remove") && i+1 < len(h) && h[i+1].A == "HandleTx" {
			if err := w.doApiWithTx(s, &h[i+1]); err != nil {
				return Result{OK: false, Step: i, Action: s.A, Err: err.Error(), Compared: res.Compared}
			}
			skip = true
		} else if err := w.Do(s); err != nil {
			return Result{OK: false, Step: i, Action: s.A, Err: err.Error(), Compared: res.Compared}
		}
		if s.Exp.Q {
			diffs, err := w.Compare(&s.Exp)
			if err != nil {
				return Result{OK: false, Step: i, Action: s.A, Err: "compare: " + err.Error(), Compared: res.Compared}
			}
			res.Compared++
			if len(diffs) > 0 {
				kinds := map[string]bool{}
				for _, d := range diffs {
					kinds[d.Kind] = true
				}
				var ks []string
				for k := range kinds {
					ks = append(ks, k)
				}
				sort.Strings(ks)
				return Result{OK: false, Step: i, Action: s.A, Diffs: diffs, Compared: res.Compared, Sig: strings.Join(ks, ",")}
			}
		}
	}
	return res
}

// Options select variations of a replay.
type Options struct {
	GapLimit  uint32 `json:"gap"`
	FaultStep int    `json:"fault_step"`
	FaultCall int64  `json:"fault_call"`
	Seed      int64  `json:"seed"`
	Actions   []string `json:"actions"`
	Tasks     []string `json:"tasks"`
	Final     string   `json:"final"`
	Sweep     bool     `json:"sweep"`
	Api       string   `json:"api"`
	Park      int64    `json:"park"`
	Gap       json.RawMessage `json:"gaphist"`
	Blocks    int             `json:"blocks"`
}

// Run dispatches on the replay mode ("" = plain conformance replay).
func Run(u *Universe, h History, dir, mode string, opt Options) Result {
	switch mode {
	case "", "plain":
		return Replay(u, h, dir)
	case "tx-inside-api":
		return replayOpt(u, h, dir, true)
	case "count":
		return CountCalls(u, h, dir)
	case "fault":
		return ReplayFault(u, h, dir, opt.FaultStep, opt.FaultCall)
	case "fault-addresses":
		return FaultAddresses(u, dir, opt.Seed)
	case "readiso":
		return ReplayReadIso(u, h, dir, opt.Api, opt.Park)
	case "write-overlap":
		return ReplayWriteOverlap(u, h, dir, opt.Park)
	case "readiso-count":
		return CountQueryCalls(u, h, dir, opt.Api)
	case "txbuild":
		return ReplayTxBuild(u, h, dir, opt.Seed, opt.Sweep)
	case "free":
		return ReplayFree(u, h, dir, opt.Seed)
	case "trace":
		return ReplayTraced(u, h, dir, opt.Seed)
	case "trace-q":
		return ReplayTracedQueries(u, h, dir, opt.Seed)
	case "trace-f":
		return ReplayTracedFaults(u, h, dir, opt.Seed, 3)
	case "stop-free":
		return StopFree(u, opt.Tasks, opt.Blocks, opt.Seed, opt.Final, dir)
	case "gap":
		return ReplayGap(opt.Gap, dir)
	case "stop-schedule":
		return StopSchedule(u, opt.Actions, opt.Tasks, opt.Final, dir)
	}
	return Result{OK: false, Step: -1, Err: "unknown mode " + mode, Sig: "infra"}
}

// PendingSet reads bucket t/m of the wallet database and decodes every record
// back into a transaction (the "readable form" of C09).
func (w *World) PendingSet() (names []string, unreadable []string, err error) {
	rtx, err := w.DB.Inner().BeginReadTx()
	if err != nil {
		return nil, nil, err
	}
	defer rtx.Rollback()
	return w.pendingIn(rtx)
}

// pendingIn reads the pending set through the given transaction.
func (w *World) pendingIn(rtx mwdb.ReadTransaction) (names []string, unreadable []string, err error) {
	top := rtx.TopLevelBucket("t")
	if top == nil {
		return nil, nil, fmt.Errorf("bucket t missing")
	}
	b := top.Bucket("m")
	if b == nil {
		return nil, nil, fmt.Errorf("bucket t/m missing")
	}
	// a prefix read reflects the writes of an open write transaction (an iterator need not)
	ents, err := b.GetByPrefix([]byte{})
	if err != nil {
		return nil, nil, err
	}
	for _, en := range ents {
		k, v := en.Key, en.Value
		var h wire.Hash
		copy(h[:], k)
		name, ok := w.TxName[h]
		if !ok {
			name = fmt.Sprintf("?%x", k)
		}
		var m wire.MsgTx
		if len(v) < 8 || m.SetBytes(v[8:], wire.DB) != nil || m.TxHash() != h {
			unreadable = append(unreadable, name)
		}
		names = append(names, name)
	}
	return names, unreadable, nil
}

func contains(l []string, x string) bool {
	for _, y := range l {
		if y == x {
			return true
		}
	}
	return false
}

// Residue scans every bucket of the wallet database (public mwdb API) for keys or values
// that mention the wallet id, one of its script hashes or one of its addresses.
func (w *World) Residue(wl *Wal) []string {
	var needles [][]byte
	needles = append(needles, []byte(wl.ID))
	for _, k := range wl.Keys {
		needles = append(needles, k.ScriptHash, []byte(k.Std), []byte(k.Staking))
	}
	rtx, err := w.DB.Inner().BeginReadTx()
	if err != nil {
		return []string{"cannot read database: " + err.Error()}
	}
	defer rtx.Rollback()
	var hits []string
	var walk func(path string, b mwdb.Bucket)
	walk = func(path string, b mwdb.Bucket) {
		it := b.NewIterator(nil)
		for it.Next() {
			for _, n := range needles {
				// bucket t/m holds whole serialized transactions, which other wallets share
				if bytes.Contains(it.Key(), n) || (path != "t/m" && bytes.Contains(it.Value(), n)) {
					hits = append(hits, fmt.Sprintf("bucket %s key %x", path, it.Key()))
					break
				}
			}
		}
		it.Release()
		names, _ := b.BucketNames()
		for _, n := range names {
			if bytes.Contains([]byte(n), []byte(wl.ID)) {
				hits = append(hits, fmt.Sprintf("bucket %s/%s", path, n))
			}
			if sub := b.Bucket(n); sub != nil {
				walk(path+"/"+n, sub)
			}
		}
	}
	tops, _ := rtx.BucketNames()
	for _, n := range tops {
		if b := rtx.TopLevelBucket(n); b != nil {
			walk(n, b)
		}
	}
	if len(hits) > 6 {
		hits = append(hits[:6], fmt.Sprintf("... %d more", len(hits)-6))
	}
	return hits
}
