package replay

// Replay of spec/Gap.tla behaviours (C12: issue rule, durability of the child number,
// used flags, coupling with the scan of a mnemonic restore) on the real wallet manager,
// keystore and chain.  The expectations travel inside the history (GapGen.tla).

import (
	"encoding/json"
	"fmt"
	"math"
	"os"
	"path/filepath"
	"sort"
	"strings"
	"time"

	"massnet.org/mass-wallet/config"
	"github.com/massnetorg/mass-core/massutil"
	"massnet.org/mass-wallet/masswallet"
	mwdb "massnet.org/mass-wallet/masswallet/db"
	"massnet.org/mass-wallet/masswallet/keystore"
	"massnet.org/mass-wallet/masswallet/keystore/hdkeychain"
	"github.com/massnetorg/mass-core/txscript"

	"crypto/sha256"
)

type GapExp struct {
	Next   int      `json:"next"`
	Cls    []string `json:"cls"`
	Used   []int    `json:"used"`
	Height int      `json:"height"`
}

type GapStep struct {
	A      string `json:"a"`
	C      string `json:"c"`
	Ok     bool   `json:"ok"`
	Idx    int    `json:"idx"`
	I      int    `json:"i"`
	D      int    `json:"d"`
	Keep   []int  `json:"keep"`
	H      int    `json:"h"`
	Rnext  int    `json:"rnext"`
	Missed []int  `json:"missed"`
	Rs     []struct {
		H      int   `json:"h"`
		Rnext  int   `json:"rnext"`
		Missed []int `json:"missed"`
	} `json:"rs"`
	Exp GapExp `json:"exp"`
}

type GapHistory struct {
	G     int       `json:"g"`
	Steps []GapStep `json:"steps"`
}

const gapBase = 16 // stranger-owned base blocks: inputs of the staking payments

type refAddr struct{ Std, Stk string }

// gapReference derives external addresses 0..n-1 of (mnemonic, pass) with the key-chain
// primitives only (path m/44'/coin'/1'/0/i), independently of nextAddresses and of the restore scan.
func gapReference(mnemonic, pass string, n int) ([]refAddr, error) {
	seed := keystore.NewSeed(mnemonic, pass)
	k, err := hdkeychain.NewMaster(seed, config.ChainParams)
	if err != nil {
		return nil, err
	}
	for _, c := range []uint32{44 + hdkeychain.HardenedKeyStart, config.ChainParams.HDCoinType + hdkeychain.HardenedKeyStart,
		uint32(keystore.WalletUsage) + hdkeychain.HardenedKeyStart, keystore.ExternalBranch} {
		if k, err = k.Child(c); err != nil {
			return nil, err
		}
	}
	var out []refAddr
	for i := 0; i < n; i++ {
		ck, err := k.Child(uint32(i))
		if err != nil {
			return nil, fmt.Errorf("child %d: %v", i, err)
		}
		pub, err := ck.ECPubKey()
		if err != nil {
			return nil, err
		}
		apk, err := massutil.NewAddressPubKey(pub.SerializeCompressed(), config.ChainParams)
		if err != nil {
			return nil, err
		}
		script, err := txscript.MultiSigScript([]*massutil.AddressPubKey{apk}, 1)
		if err != nil {
			return nil, err
		}
		h := sha256.Sum256(script)
		a, err := massutil.NewAddressWitnessScriptHash(h[:], config.ChainParams)
		if err != nil {
			return nil, err
		}
		s, err := massutil.NewAddressStakingScriptHash(h[:], config.ChainParams)
		if err != nil {
			return nil, err
		}
		out = append(out, refAddr{Std: a.EncodeAddress(), Stk: s.EncodeAddress()})
	}
	return out, nil
}

type gapWorld struct {
	*World
	wl      *Wal
	ref     []refAddr
	nextBlk int   // next abstract block id
	best    []int // block ids of the best chain above the base
	pays    []int // index paid by best[k] (-1 none)
	nextSrc int   // next unspent stranger base coinbase
	cls     []string
	restarts int
}

func (g *gapWorld) orderlyRestart() error {
	g.G.Open()
	done := make(chan struct{})
	go func() { g.W.Stop(); close(done) }()
	select {
	case <-done:
	case <-time.After(20 * time.Second):
		return fmt.Errorf("harness: Stop did not return within 20s")
	}
	gatesMu.Lock()
	delete(gates, g.H)
	gatesMu.Unlock()
	return g.World.Restart(0)
}

// ReplayGap runs one Gap history.
func ReplayGap(raw json.RawMessage, dir string) (res Result) {
	var h GapHistory
	if err := json.Unmarshal(raw, &h); err != nil {
		return Result{OK: false, Step: -1, Err: "harness: gap history: " + err.Error()}
	}
	res.OK = true
	const nblocks = 96
	u := &Universe{Wallets: []string{"w"}, TxIns: map[string][][]interface{}{}, TxOuts: map[string][]Out{},
		Base: gapBase, CbMat: 1, BindLock: 1, MinFrozen: 1, ImportBatch: 0, Unit: 100000000}
	for b := 1; b <= nblocks; b++ {
		u.CbId = append(u.CbId, fmt.Sprintf("cb%d", b))
		u.CbOut = append(u.CbOut, Out{Owner: "stranger", Addr: 0, Class: "cb", Amt: 50})
	}
	initialAddrs = 0
	defer func() { initialAddrs = NumAddrs }()
	w, err := NewWorld(u, dir, uint32(h.G))
	if err != nil {
		return Result{OK: false, Step: -1, Err: "setup: " + err.Error()}
	}
	defer func() { w.Close() }()
	g := &gapWorld{World: w, wl: w.Wals["w"], nextBlk: gapBase + 1, nextSrc: 1}
	if g.ref, err = gapReference(g.wl.Mnemonic, PrivPass("w"), 40); err != nil {
		return Result{OK: false, Step: -1, Err: "harness: reference derivation: " + err.Error()}
	}
	var known []Diff
	for i := range h.Steps {
		s := &h.Steps[i]
		t0 := time.Now()
		diffs, err := g.do(s)
		if os.Getenv("VERIF_GAP_TRACE") != "" {
			fmt.Fprintf(os.Stderr, "gap step %d %s %v\n", i, s.A, time.Since(t0))
		}
		if err != nil {
			return Result{OK: false, Step: i, Action: s.A, Err: err.Error(), Compared: res.Compared}
		}
		if len(diffs) == 0 {
			diffs = g.compare(&s.Exp)
		}
		res.Compared++
		if len(diffs) > 0 && allPredicted(diffs) {
			known = append(known, diffs...)
			continue
		}
		if len(diffs) > 0 {
			kinds := map[string]bool{}
			for _, d := range diffs {
				kinds[d.Kind] = true
			}
			var ks []string
			for k := range kinds {
				ks = append(ks, k)
			}
			sort.Strings(ks)
			return Result{OK: false, Step: i, Action: s.A, Diffs: diffs, Compared: res.Compared, Sig: strings.Join(ks, ",")}
		}
	}
	if len(known) > 0 {
		return Result{OK: false, Step: len(h.Steps) - 1, Action: "Restore", Diffs: known, Compared: res.Compared, Sig: "restore-missed-funded-predicted"}
	}
	return res
}

func allPredicted(ds []Diff) bool {
	for _, d := range ds {
		if d.Kind != "restore-missed-funded-predicted" {
			return false
		}
	}
	return true
}

func (g *gapWorld) classOf(c string) uint16 {
	if c == "stk" {
		return massutil.AddressClassWitnessStaking
	}
	return massutil.AddressClassWitnessV0
}

// mine builds a block on abstract parent paying issued index i (-1: nobody) and returns its id.
func (g *gapWorld) mine(parent, i int) (int, error) {
	b := g.nextBlk
	g.nextBlk++
	if b > len(g.U.CbOut) {
		return 0, fmt.Errorf("harness: out of block ids")
	}
	var txs []string
	if i >= 0 {
		if g.cls[i] == "std" {
			g.U.CbOut[b-1] = Out{Owner: "w", Addr: i, Class: "cb", Amt: 50}
		} else {
			if g.nextSrc > gapBase-2 {
				return 0, fmt.Errorf("harness: out of stranger coinbases")
			}
			t := fmt.Sprintf("pay%d", b)
			g.U.TxIns[t] = [][]interface{}{{fmt.Sprintf("cb%d", g.nextSrc), float64(1)}}
			g.U.TxOuts[t] = []Out{{Owner: "w", Addr: i, Class: "stk", Amt: 40, Lock: 1}}
			g.nextSrc++
			txs = []string{t}
		}
	}
	if _, err := g.buildBlock(b, parent, txs); err != nil {
		return 0, fmt.Errorf("harness: %v", err)
	}
	return b, nil
}

func (g *gapWorld) tip() int {
	if len(g.best) == 0 {
		return gapBase
	}
	return g.best[len(g.best)-1]
}

func (g *gapWorld) deliver(b int) error {
	blk := g.Blk[b].MsgBlock()
	return g.stepHandler(func() { g.H.OnBlockConnected(blk) })
}

func (g *gapWorld) do(s *GapStep) ([]Diff, error) {
	var diffs []Diff
	add := func(kind, what, want, got string) {
		diffs = append(diffs, Diff{Kind: kind, Wallet: "w", What: what, Want: want, Got: got})
	}
	switch s.A {
	case "Issue":
		a, err := g.W.NewAddress(g.classOf(s.C))
		if s.Ok {
			if err != nil {
				add("issue-refused", fmt.Sprintf("NewAddress(%s) at index %d", s.C, s.Idx), "granted", err.Error())
				return diffs, nil
			}
			want := g.ref[s.Idx].Std
			if s.C == "stk" {
				want = g.ref[s.Idx].Stk
			}
			if a != want {
				add("issue-not-next-index", fmt.Sprintf("NewAddress(%s) at index %d", s.C, s.Idx), want, a)
			}
			key, err := keyFromAddress(a)
			if err != nil {
				return nil, fmt.Errorf("harness: %v", err)
			}
			key.IssuedClass = g.classOf(s.C)
			g.wl.Keys = append(g.wl.Keys, key)
			g.cls = append(g.cls, s.C)
		} else {
			if err == nil {
				add("issue-beyond-gap", fmt.Sprintf("NewAddress(%s) at index %d", s.C, s.Idx), "refused (gap limit)", "granted "+a)
				// keep the harness state in step with the wallet so that the rest is not noise
				return diffs, nil
			}
			if err != keystore.ErrGapLimit {
				add("issue-error", fmt.Sprintf("NewAddress(%s) at index %d", s.C, s.Idx), keystore.ErrGapLimit.Error(), err.Error())
			}
		}
	case "Pay":
		b, err := g.mine(g.tip(), s.I)
		if err != nil {
			return nil, err
		}
		if err := g.E.Attach(g.Blk[b]); err != nil {
			return nil, fmt.Errorf("harness: %v", err)
		}
		g.best = append(g.best, b)
		g.pays = append(g.pays, s.I)
		if err := g.deliver(b); err != nil {
			return nil, err
		}
	case "Reorg":
		keepFrom := len(g.best) - s.D
		if keepFrom < 0 {
			return nil, fmt.Errorf("harness: reorg deeper than the chain")
		}
		parent := gapBase
		if keepFrom > 0 {
			parent = g.best[keepFrom-1]
		}
		g.best, g.pays = g.best[:keepFrom], g.pays[:keepFrom]
		for k := 0; k < s.D+1; k++ {
			i := -1
			if k < len(s.Keep) {
				i = s.Keep[k]
			}
			b, err := g.mine(parent, i)
			if err != nil {
				return nil, err
			}
			g.best = append(g.best, b)
			g.pays = append(g.pays, i)
			parent = b
		}
		if err := g.E.SwitchTo(*g.Blk[parent].Hash(), nil); err != nil {
			return nil, fmt.Errorf("harness: %v", err)
		}
		if err := g.deliver(parent); err != nil {
			return nil, err
		}
	case "Restart":
		// the first restart of a history is a kill (crash image), later ones are orderly
		// (abandoned goroutines of killed instances would pile up)
		g.restarts++
		if g.restarts == 1 {
			if err := g.Crash(); err != nil {
				return nil, err
			}
			if err := g.World.Restart(0); err != nil {
				return nil, err
			}
		} else if err := g.orderlyRestart(); err != nil {
			return nil, err
		}
		if _, err := g.W.UseWallet(g.wl.ID); err != nil {
			add("restart-wallet-lost", "UseWallet after restart", "ok", err.Error())
		}
	case "Restore":
		return g.restore(s)
	case "RestoreAll":
		for _, r := range s.Rs {
			one := *s
			one.H, one.Rnext, one.Missed = r.H, r.Rnext, r.Missed
			ds, err := g.restore(&one)
			if err != nil {
				return nil, err
			}
			diffs = append(diffs, ds...)
		}
		return diffs, nil
	default:
		return nil, fmt.Errorf("harness: unknown gap action %q", s.A)
	}
	return diffs, nil
}

// compare: listing, classes, used flags of the live wallet.
func (g *gapWorld) compare(e *GapExp) []Diff {
	var diffs []Diff
	add := func(kind, what, want, got string) {
		diffs = append(diffs, Diff{Kind: kind, Wallet: "w", What: what, Want: want, Got: got})
	}
	if st, err := g.W.SyncedTo(); err == nil {
		if int(st) != gapBase+e.Height {
			add("synced", "SyncedTo height", fmt.Sprint(gapBase+e.Height), fmt.Sprint(st))
		}
	}
	ads, err := g.W.GetAddresses(math.MaxUint16)
	if err != nil {
		add("api-error", "GetAddresses", "ok", err.Error())
		return diffs
	}
	used := map[int]bool{}
	for _, i := range e.Used {
		used[i] = true
	}
	got := map[string]bool{}
	for _, a := range ads {
		got[a.Address] = a.Used
	}
	if len(e.Cls) != e.Next {
		add("harness", "history", "len(cls) = next", "differs")
	}
	want := map[string]bool{}
	for i, c := range e.Cls {
		a := g.ref[i].Std
		if c == "stk" {
			a = g.ref[i].Stk
		}
		want[a] = true
		u, ok := got[a]
		if !ok {
			add("address-not-listed", fmt.Sprintf("index %d (%s)", i, c), "listed", "missing")
			continue
		}
		if u != used[i] {
			add("address-used", fmt.Sprintf("index %d (%s)", i, c), fmt.Sprint(used[i]), fmt.Sprint(u))
		}
	}
	// GetAddresses also lists the standard form of a staking address that received funds (same key)
	for i, c := range e.Cls {
		if c == "stk" && used[i] {
			want[g.ref[i].Std] = true
			if u, ok := got[g.ref[i].Std]; ok && !u {
				add("address-used", fmt.Sprintf("index %d (standard form of a funded staking address)", i), "true", "false")
			}
		}
	}
	for a := range got {
		if !want[a] {
			add("address-unexpected", a, "not listed (never issued)", "listed")
		}
	}
	return diffs
}

// restore imports the mnemonic with hint s.H into a fresh wallet instance on the same node,
// lets the rescan finish and compares what it found.
func (g *gapWorld) restore(s *GapStep) ([]Diff, error) {
	var diffs []Diff
	add := func(kind, what, want, got string) {
		diffs = append(diffs, Diff{Kind: kind, Wallet: "w", What: what, Want: want, Got: got})
	}
	dir := filepath.Join(g.Dir, fmt.Sprintf("restore-%d", g.nextBlk*100+s.H))
	inner, err := mwdb.CreateDB("leveldb", dir)
	if err != nil {
		return nil, fmt.Errorf("harness: %v", err)
	}
	defer os.RemoveAll(dir)
	defer inner.Close()
	m, err := masswallet.NewWalletManager(g.E, inner, g.Cfg, config.ChainParams, PubPass)
	if err != nil {
		return nil, fmt.Errorf("harness: restore instance: %v", err)
	}
	// park both goroutines of the new instance once, so that its worker is known to be up
	// before the import task is handed to it, then let them run freely
	rg := newGate()
	gatesMu.Lock()
	gates[m.VerifHandler()] = rg
	gatesMu.Unlock()
	defer func() {
		gatesMu.Lock()
		delete(gates, m.VerifHandler())
		gatesMu.Unlock()
	}()
	if err := m.Start(); err != nil {
		return nil, fmt.Errorf("harness: restore instance Start: %v", err)
	}
	defer m.Stop()
	for _, ch := range []chan struct{}{rg.arrived, rg.wArrived} {
		select {
		case <-ch:
		case <-time.After(20 * time.Second):
			return nil, fmt.Errorf("harness: restore instance did not come up")
		}
	}
	rg.Open()
	sum, err := m.ImportWalletWithMnemonic(&keystore.WalletParams{Mnemonic: g.wl.Mnemonic, PrivatePassphrase: []byte(PrivPass("w")),
		Remarks: "restored", ExternalIndex: uint32(s.H), InternalIndex: 0, AddressGapLimit: g.Cfg.Wallet.Settings.AddressGapLimit})
	if err != nil {
		add("restore-failed", fmt.Sprintf("ImportWalletWithMnemonic hint %d", s.H), "ok", err.Error())
		return diffs, nil
	}
	if sum.WalletID != g.wl.ID {
		add("restore-other-wallet", "wallet id", g.wl.ID, sum.WalletID)
		return diffs, nil
	}
	deadline := time.Now().Add(30 * time.Second)
	for {
		ready, err := m.CheckReady(sum.WalletID)
		if err == nil && ready {
			break
		}
		if time.Now().After(deadline) {
			return nil, fmt.Errorf("harness: restore rescan did not finish within 30s (ready=%v err=%v)", ready, err)
		}
		time.Sleep(5 * time.Millisecond)
	}
	if _, err := m.UseWallet(sum.WalletID); err != nil {
		add("api-error", "UseWallet (restored)", "ok", err.Error())
		return diffs, nil
	}
	ads, err := m.GetAddresses(math.MaxUint16)
	if err != nil {
		add("api-error", "GetAddresses (restored)", "ok", err.Error())
		return diffs, nil
	}
	used := map[int]bool{}
	for _, i := range s.Exp.Used {
		used[i] = true
	}
	// an address is found when it is listed in its standard or its staking form
	found := map[int]bool{}
	usedGot := map[int]bool{}
	for _, a := range ads {
		hit := false
		for i := range g.ref {
			if a.Address == g.ref[i].Std || a.Address == g.ref[i].Stk {
				found[i] = true
				usedGot[i] = usedGot[i] || a.Used
				hit = true
			}
		}
		if !hit {
			add("restore-foreign-address", a.Address, "an address of the key chain", "unknown")
		}
	}
	for i := 0; i < len(g.ref); i++ {
		w := i < s.Rnext
		if found[i] != w {
			kind := "restore-extra"
			if w {
				kind = "restore-short"
			}
			add(kind, fmt.Sprintf("hint %d index %d", s.H, i), fmt.Sprintf("restored=%v (scan ends at %d)", w, s.Rnext), fmt.Sprintf("restored=%v", found[i]))
		}
		if found[i] && w && usedGot[i] != used[i] {
			add("restore-used", fmt.Sprintf("hint %d index %d", s.H, i), fmt.Sprint(used[i]), fmt.Sprint(usedGot[i]))
		}
	}
	// funded addresses the scan leaves behind: predicted by the specification only after a
	// reorganisation removed the history that justified issuing further (known finding K-C12-1)
	miss := map[int]bool{}
	for _, i := range s.Missed {
		miss[i] = true
	}
	for i := range used {
		if !found[i] {
			kind := "restore-missed-funded"
			if miss[i] {
				kind = "restore-missed-funded-predicted"
			}
			add(kind, fmt.Sprintf("hint %d index %d", s.H, i), "found", "not restored")
		}
	}
	// coins: every payment on the best chain to a restored index is an unspent output of the restored wallet
	wantCoins := 0
	for _, i := range g.pays {
		if i >= 0 && i < s.Rnext {
			wantCoins++
		}
	}
	um, err := m.GetUtxo(nil)
	if err != nil {
		add("api-error", "GetUtxo (restored)", "ok", err.Error())
	} else {
		n := 0
		for _, l := range um {
			n += len(l)
		}
		if n != wantCoins {
			add("restore-coins", fmt.Sprintf("hint %d unspent outputs", s.H), fmt.Sprint(wantCoins), fmt.Sprint(n))
		}
	}
	return diffs, nil
}
