package replay

// Code -> spec for C20: the follower, the worker, API callers and the stopper run FREELY (no
// forced schedule); every scheduling point and every harness call is recorded under one mutex
// with a global sequence number.  The trace is judged by TLC against spec/StopTrace.tla.

import (
	"sync/atomic"
	"verif/harness/dbwrap"
	"encoding/json"
	"fmt"
	"math/rand"
	"sort"
	"strings"
	"sync"
	"time"
)

type freeEvent struct {
	Seq  int    `json:"seq"`
	Ev   string `json:"ev"`
	Kind string `json:"kind,omitempty"`
	Res  string `json:"res,omitempty"`
}

// freeRecorder is a StopGate that never parks: it records and perturbs the schedule.
type freeRecorder struct {
	mu     sync.Mutex
	events []freeEvent
	rnd    *rand.Rand
	jitter int // per-point probability (percent) of a short sleep after the event is recorded
}

func (r *freeRecorder) log(ev, kind, res string) {
	r.mu.Lock()
	r.events = append(r.events, freeEvent{Seq: len(r.events) + 1, Ev: ev, Kind: kind, Res: res})
	d := 0
	if r.jitter > 0 && r.rnd.Intn(100) < r.jitter {
		d = 1 + r.rnd.Intn(3000)
	}
	r.mu.Unlock()
	if d > 0 {
		time.Sleep(time.Duration(d) * time.Microsecond)
	}
}

// StopFree: scenario = tasks accepted while the system runs (kinds "import" / "remove"), tips pushed
// concurrently, Stop() called after a random delay.  Returns the trace in Result.Lines.
func StopFree(u *Universe, tasks []string, blocks int, seed int64, final string, dir string) (res Result) {
	rec := &freeRecorder{rnd: rand.New(rand.NewSource(seed)), jitter: 30}
	sg := newStopGate()
	sg.open = true
	sg.rec = rec
	w, err := NewWorldGated(u, dir, func(w *World) {
		stopGatesMu.Lock()
		stopGates[w.H] = sg
		stopGatesMu.Unlock()
	})
	if err != nil {
		return Result{OK: false, Step: -1, Err: "setup: " + err.Error()}
	}
	defer func() {
		stopGatesMu.Lock()
		delete(stopGates, w.H)
		stopGatesMu.Unlock()
	}()
	rnd := rand.New(rand.NewSource(seed ^ 0x5eed))
	// the worker must be up before a task is handed to it (its queue is created at start-up)
	deadline := time.Now().Add(20 * time.Second)
	for {
		rec.mu.Lock()
		up := false
		for _, e := range rec.events {
			if e.Ev == "worker.top" {
				up = true
			}
		}
		rec.mu.Unlock()
		if up {
			break
		}
		if time.Now().After(deadline) {
			return Result{OK: false, Err: "harness: worker did not come up"}
		}
		time.Sleep(time.Millisecond)
	}
	var wg sync.WaitGroup
	stopDelay := time.Duration(rnd.Intn(60)) * time.Millisecond
	pushGap := rnd.Intn(8)
	accGap := rnd.Intn(10)
	var harnessErr error
	var hmu sync.Mutex
	fail := func(e error) {
		hmu.Lock()
		if harnessErr == nil {
			harnessErr = e
		}
		hmu.Unlock()
	}
	stopping := make(chan struct{})
	// tips
	wg.Add(1)
	go func() {
		defer wg.Done()
		next := u.Base + 1
		for k := 0; k < blocks; k++ {
			select {
			case <-stopping:
				return
			default:
			}
			blk, err := w.buildBlock(next, next-1, nil)
			if err != nil {
				fail(err)
				return
			}
			next++
			if err := w.E.Attach(blk); err != nil {
				fail(err)
				return
			}
			rec.log("push.begin", "", "")
			w.H.OnBlockConnected(blk.MsgBlock())
			rec.log("push.end", "", "")
			time.Sleep(time.Duration(pushGap) * time.Millisecond)
		}
	}()
	// API calls queuing tasks
	wg.Add(1)
	go func() {
		defer wg.Done()
		nextWallet := 2
		for _, t := range tasks {
			select {
			case <-stopping:
				return
			default:
			}
			var err error
			rec.log("accept.begin", t, "")
			switch t {
			case "import":
				name := fmt.Sprintf("w%d", nextWallet)
				nextWallet++
				err = w.Do(&Step{A: "Import", W: name})
			case "remove":
				err = w.Do(&Step{A: "Remove", W: "w1"})
			}
			switch {
			case err == nil:
				rec.log("accept.end", "", "ok")
			case containsStr(err.Error(), "too many"):
				rec.log("accept.end", "", "busy")
			default:
				rec.log("accept.end", "", "error")
				fail(fmt.Errorf("%s: %v", t, err))
				return
			}
			time.Sleep(time.Duration(accGap) * time.Millisecond)
		}
	}()
	if final == "idle" {
		// no stop request while work is outstanding: every announced tip is processed and every
		// accepted task finishes
		wg.Wait()
		if harnessErr != nil {
			return Result{OK: false, Err: "harness: " + harnessErr.Error()}
		}
		deadline := time.Now().Add(30 * time.Second)
		for {
			what := ""
			if st, err := w.W.SyncedTo(); err != nil || st != w.E.BestHeight() {
				what = fmt.Sprintf("tip-not-processed: wallet at height %d, node at %d", st, w.E.BestHeight())
			}
			if sums, err := w.W.Wallets(); err == nil {
				for _, sm := range sums {
					if sm.Status != nil && (!sm.Status.Ready() || sm.Status.IsRemoved()) {
						what = "task-lost: wallet " + sm.WalletID + " still not ready / not removed"
					}
				}
			}
			if what == "" {
				break
			}
			if time.Now().After(deadline) {
				kind := what[:strings.Index(what, ":")]
				res = Result{OK: false, Sig: kind, Diffs: []Diff{{Kind: kind, What: "free-running system without a stop request", Want: "all queued work done within 30s", Got: what + "\n" + goroutineDump()}}}
				break
			}
			time.Sleep(5 * time.Millisecond)
		}
	} else {
		time.Sleep(stopDelay)
	}
	close(stopping)
	wg.Wait() // calls in flight complete before the stop request (Stop.tla: Accept needs spc = "idle")
	stopped := make(chan struct{})
	go func() { w.W.Stop(); close(stopped) }()
	select {
	case <-stopped:
		rec.log("stop.return", "", "")
		w.down = true
		w.E.Close()
	case <-time.After(15 * time.Second):
		if res.Sig != "" {
			break
		}
		res = Result{OK: false, Sig: "stop-hangs",
			Diffs: []Diff{{Kind: "stop-hangs", What: "Stop()", Want: "returns", Got: "still blocked after 15s (free-running schedule)\n" + goroutineDump()}}}
	}
	if harnessErr != nil {
		return Result{OK: false, Err: "harness: " + harnessErr.Error()}
	}
	rec.mu.Lock()
	for _, e := range rec.events {
		b, _ := json.Marshal(e)
		res.Lines = append(res.Lines, b)
	}
	rec.mu.Unlock()
	if res.Sig == "" {
		res.OK = true
	}
	res.Compared = len(res.Lines)
	return res
}

func containsStr(s, sub string) bool {
	for i := 0; i+len(sub) <= len(s); i++ {
		if s[i:i+len(sub)] == sub {
			return true
		}
	}
	return false
}

// ReplayFree: the chain actions of a history are performed and their notifications delivered with the
// follower and the worker running FREELY (no step gate): block steps overlap further chain changes,
// also in the middle of a step.  Whatever the interleaving, once everything is processed the wallet
// must present the ledger of the final best chain (SyncedWhenQuiet, LedgerWhenQuiet); what depends on
// the interleaving (the pending set and the flags derived from it) is not compared.
func ReplayFree(u *Universe, h History, dir string, seed int64) (res Result) {
	return replayFree(u, h, dir, seed, false, false, 0)
}

// ReplayTraced is ReplayFree with every chain action, scheduling point and database commit recorded
// (ledgertrace.go); the lines are judged by TLC against spec/WalletTrace.tla.
func ReplayTraced(u *Universe, h History, dir string, seed int64) (res Result) {
	return replayFree(u, h, dir, seed, true, false, 0)
}

// ReplayTracedQueries is ReplayTraced with a query thread asking for balance and unspent outputs all the time.
func ReplayTracedQueries(u *Universe, h History, dir string, seed int64) (res Result) {
	return replayFree(u, h, dir, seed, true, true, 0)
}

// ReplayTracedFaults is ReplayTraced with up to `faults` storage faults injected into steps of the follower and
// updates of the worker while everything runs; a tip that a failed block step lost is made up for by further
// (empty) blocks at the end, so only the trace is judged, not the final view of the history.
func ReplayTracedFaults(u *Universe, h History, dir string, seed int64, faults int) (res Result) {
	return replayFree(u, h, dir, seed, true, false, faults)
}

func replayFree(u *Universe, h History, dir string, seed int64, traced, queries bool, faults int) (res Result) {
	res.OK = true
	for i := range h {
		switch h[i].A {
		case "Crash", "Restart", "RestartCrash":
			if !traced || queries || faults > 0 {
				return Result{OK: false, Err: "harness: free-running replay of a history with crashes"}
			}
		case "RemoveStepCrash":
			return Result{OK: false, Err: "harness: free-running replay of a history with crashes"}
		}
	}
	if len(h) == 0 || !h[len(h)-1].Exp.Q {
		return Result{OK: false, Err: "harness: history does not end quiescent"}
	}
	w, err := NewWorld(u, dir, 5)
	if err != nil {
		return Result{OK: false, Step: -1, Err: "setup: " + err.Error()}
	}
	defer w.Close()
	var rec *ltRec
	if traced {
		if u.Offset != 0 {
			return Result{OK: false, Err: "harness: traced replay of an offset world"}
		}
		rec = &ltRec{w: w, roles: map[int64]string{}, rnd: rand.New(rand.NewSource(seed ^ 0x7ace)), jitter: 25}
		if faults > 0 {
			rec.faultEvery, rec.faultsLeft = 23+seed%40, int64(faults)
		}
		rec.cur = w.G
		w.G.mu.Lock()
		w.G.rec = rec
		w.G.mu.Unlock()
		w.DB.SetHooks(rec.hooks())
		defer func() {
			w.DB.SetHooks(dbwrap.Hooks{})
			w.G.mu.Lock()
			w.G.rec = nil
			w.G.mu.Unlock()
			res.Lines = rec.lines()
			if rec.bad != "" && res.Err == "" {
				res.OK, res.Err = false, "harness: "+rec.bad
			}
		}()
	}
	if queries && rec != nil {
		names := append([]string{}, u.Wallets...)
		sort.Strings(names)
		qname := names[int(seed)%len(names)]
		if _, err := w.W.UseWallet(w.Wals[qname].ID); err != nil {
			return Result{OK: false, Err: "harness: UseWallet: " + err.Error()}
		}
		stopQ, doneQ := make(chan struct{}), make(chan struct{})
		go func() { rec.queries(stopQ, qname); close(doneQ) }()
		stopped := false
		stopQueries := func() {
			if !stopped {
				stopped = true
				close(stopQ)
				<-doneQ
			}
		}
		defer stopQueries()
		w.stopQueries = stopQueries
	}
	w.G.Open()
	rnd := rand.New(rand.NewSource(seed))
	flush := func() {
		for _, b := range w.qB {
			w.H.OnBlockConnected(w.Blk[b].MsgBlock())
		}
		for _, t := range w.qT {
			w.H.OnTransactionReceived(w.Tx[t])
		}
		w.qB, w.qT = nil, nil
	}
	// a block step that met an injected fault lost its tip: the wallet catches up with the next one, so the node mines
	// on (empty blocks, recorded like any chain action) whenever the follower is idle but not on the node's tip
	extraBlocks := 0
	repairChild := map[int]int{} // a repair block mined on top of this block: the branch's leaf has moved
	idMap := map[int]int{}
	actual := func(id int) int {
		if a, ok := idMap[id]; ok {
			return a
		}
		return id
	}
	repairs, lastRepair := 0, time.Now()
	repair := func() error {
		if rec == nil || faults == 0 || atomic.LoadInt64(&rec.injected) == 0 {
			return nil
		}
		nb, nt := w.H.VerifQueued()
		tip := w.E.Tip()
		if w.H.VerifBestBlock().Hash == *tip.Hash() || nb != 0 || nt != 0 || time.Since(lastRepair) < 300*time.Millisecond || repairs >= 6 {
			return nil
		}
		next, parent := 0, -1
		for id, b := range w.Blk {
			if id > next {
				next = id
			}
			if *b.Hash() == *tip.Hash() {
				parent = id
			}
		}
		if parent < 0 || next+1 > len(u.CbId) {
			return fmt.Errorf("harness: the universe has no block left to make up for a tip lost to an injected fault")
		}
		if err := rec.chain(&Step{A: "Extend", B: next + 1, P: parent, Txs: [][]string{{}}}); err != nil {
			return fmt.Errorf("harness: repair block: %v", err)
		}
		flush()
		extraBlocks++ // blocks are numbered in creation order: the history's later blocks move up by one
		repairChild[parent] = next + 1
		repairs++
		lastRepair = time.Now()
		return nil
	}
	for i := range h {
		s := &h[i]
		switch s.A {
		case "HandleBlock", "HandleTx", "RemoveStepA":
			continue
		case "ImportStep", "RemoveStep", "RemoveStepB":
			// the API calls that follow in the history presuppose that this task has got that far; without
			// such a call nothing is waited for (a rescan cannot finish while a step-by-step reorganisation
			// that the history completes only later is in progress)
			needed := false
			for k := i + 1; k < len(h); k++ {
				if (h[k].A == "Import" || h[k].A == "Remove") && h[k].W == s.W {
					needed = true
				}
			}
			if needed && (s.A != "ImportStep" || s.Done) {
				if err := w.waitTask(s.W, s.A != "ImportStep", repair); err != nil {
					if strings.HasPrefix(err.Error(), "harness:") {
						return Result{OK: false, Step: i, Action: s.A, Err: err.Error()}
					}
					return Result{OK: false, Step: i, Action: s.A, Sig: "free-not-quiescent", Compared: 1,
						Diffs: []Diff{{Kind: "free-not-quiescent", What: "free-running worker", Want: "the background task finishes within 30s", Got: err.Error()}}}
				}
			}
			continue
		}
		if extraBlocks > 0 || len(idMap) > 0 {
			// renumber: blocks this step creates come after the repair blocks made so far
			c := *s
			switch c.A {
			case "Extend", "Fork", "ForkSlow":
				n := len(c.Txs)
				if n == 0 {
					n = 1
				}
				for k := 0; k < n; k++ {
					idMap[s.B+k] = s.B + k + extraBlocks
				}
				c.B, c.P = s.B+extraBlocks, actual(s.P)
				if c.A == "Extend" {
					// the new block goes on the node's tip, which may be a repair block mined on the history's tip
					for {
						nxt, ok := repairChild[c.P]
						if !ok {
							break
						}
						c.P = nxt
					}
				}
				// the history chose this content for ITS chain (which coinbase a transaction spends depends on the
				// block numbers): blocks mined after a repair block stay empty
				c.Txs = make([][]string, n)
				for k := range c.Txs {
					c.Txs[k] = []string{}
				}
				if next := c.B + n - 1; next > len(u.CbId) {
					return Result{OK: false, Err: "harness: the universe has no block left after the repair blocks"}
				}
			case "SwitchTo", "ReorgStep":
				c.B = actual(s.B)
				if c.A == "SwitchTo" {
					// a node switches to the leaf of a branch: a repair block mined on the history's leaf is the leaf now
					for {
						nxt, ok := repairChild[c.B]
						if !ok {
							break
						}
						c.B = nxt
					}
				}
			}
			s = &c
		}
		if rec != nil && (s.A == "Crash" || s.A == "Restart" || s.A == "RestartCrash") {
			if err := rec.crashStep(s); err != nil {
				return Result{OK: false, Step: i, Action: s.A, Err: err.Error()}
			}
			continue
		}
		var err error
		switch {
		case rec == nil:
			err = w.doFree(s)
		case s.A == "Import" || s.A == "Remove":
			err = rec.api(s)
		default:
			err = rec.chain(s)
		}
		if err != nil {
			return Result{OK: false, Step: i, Action: s.A, Err: err.Error()}
		}
		if rec != nil && s.A == "Announce" && rnd.Intn(3) == 0 {
			// the node relays the transaction a second time
			if err := rec.chain(&Step{A: "Reannounce", T: s.T}); err != nil {
				return Result{OK: false, Step: i, Action: s.A, Err: err.Error()}
			}
		}
		flush()
		if d := rnd.Intn(4); d > 0 {
			time.Sleep(time.Duration(rnd.Intn(1500)) * time.Microsecond)
		}
	}
	// wait for quiescence
	exp := &h[len(h)-1].Exp
	deadline := time.Now().Add(30 * time.Second)
	injected := int64(0)
	if rec != nil && faults > 0 {
		atomic.StoreInt64(&rec.faultsLeft, 0) // no fault from here on
		injected = atomic.LoadInt64(&rec.injected)
	}
	for {
		nb, nt := w.H.VerifQueued()
		st, serr := w.W.SyncedTo()
		onTip := int(st)-u.Offset == exp.Synced
		if injected > 0 {
			if err := repair(); err != nil {
				return Result{OK: false, Err: err.Error()}
			}
			onTip = w.H.VerifBestBlock().Hash == *w.E.Tip().Hash()
		}
		idle := nb == 0 && nt == 0 && w.H.VerifTaskQueueLen() == 0 && serr == nil && onTip
		if idle {
			ready := true
			if sums, err := w.W.Wallets(); err == nil {
				for _, sm := range sums {
					if sm.Status != nil && (!sm.Status.Ready() || sm.Status.IsRemoved()) {
						ready = false
					}
				}
			}
			if ready && rec != nil {
				// both goroutines are back at the top of their loops and nothing has been queued meanwhile
				time.Sleep(10 * time.Millisecond)
				nb2, nt2 := w.H.VerifQueued()
				ready = rec.idle() && nb2 == 0 && nt2 == 0 && w.H.VerifTaskQueueLen() == 0
			}
			if ready {
				break
			}
		}
		if time.Now().After(deadline) {
			return Result{OK: false, Step: len(h) - 1, Sig: "free-not-quiescent", Compared: 1,
				Diffs: []Diff{{Kind: "free-not-quiescent", What: "free-running follower", Want: fmt.Sprintf("synced to height %d with nothing queued within 30s", exp.Synced),
					Got: fmt.Sprintf("synced %d (err %v), queued blocks %d txs %d, tasks %d", int(st)-u.Offset, serr, nb, nt, w.H.VerifTaskQueueLen())}}}
		}
		time.Sleep(3 * time.Millisecond)
	}
	time.Sleep(20 * time.Millisecond) // a step that has taken its item off the queue may still be committing
	if w.stopQueries != nil {
		w.stopQueries()
	}
	if injected > 0 {
		// the chain may have grown beyond the history (repair blocks): the trace is the oracle of this run
		res.Compared = 1
		return res
	}
	diffs, err := w.Compare(exp)
	if err != nil {
		return Result{OK: false, Step: len(h) - 1, Err: "compare: " + err.Error()}
	}
	res.Compared = 1
	var keep []Diff
	for _, d := range diffs {
		if strings.HasPrefix(d.Kind, "pending-") || d.Kind == "utxo-sbu" || d.Kind == "deposit-sbu" || d.Kind == "coin-not-buildable" || d.Kind == "selected-pending-spent" {
			continue
		}
		keep = append(keep, d)
	}
	if len(keep) > 0 {
		kinds := map[string]bool{}
		for _, d := range keep {
			kinds[d.Kind] = true
		}
		var ks []string
		for k := range kinds {
			ks = append(ks, k)
		}
		sort.Strings(ks)
		return Result{OK: false, Step: len(h) - 1, Action: "free", Diffs: keep, Compared: 1, Sig: strings.Join(ks, ",")}
	}
	return res
}

// doFree performs a chain / API action of a history without touching the step gates.
func (w *World) doFree(s *Step) error {
	switch s.A {
	case "Extend", "Fork", "ForkSlow", "ReorgStep", "SwitchTo", "Announce", "Import", "Remove":
		return w.Do(s)
	}
	return fmt.Errorf("harness: action %q in a free-running replay", s.A)
}

// waitTask waits until the removal (gone) or the import (ready) of the wallet has finished.
func (w *World) waitTask(name string, gone bool, whileWaiting func() error) error {
	wl := w.Wals[name]
	deadline := time.Now().Add(30 * time.Second)
	for {
		if whileWaiting != nil {
			if err := whileWaiting(); err != nil {
				return err
			}
		}
		sums, err := w.W.Wallets()
		if err == nil {
			found, ready := false, false
			for _, sm := range sums {
				if sm.WalletID == wl.ID {
					found = true
					ready = sm.Status != nil && sm.Status.Ready() && !sm.Status.IsRemoved()
				}
			}
			if (gone && !found) || (!gone && ready) {
				return nil
			}
		}
		if time.Now().After(deadline) {
			return fmt.Errorf("wallet %s: gone=%v not reached (err %v)", name, gone, err)
		}
		time.Sleep(2 * time.Millisecond)
	}
}
