package replay

// Code -> spec for C20: the follower, the worker, API callers and the stopper run FREELY (no
// forced schedule); every scheduling point and every harness call is recorded under one mutex
// with a global sequence number.  The trace is judged by TLC against spec/StopTrace.tla.

import (
	"encoding/json"
	"fmt"
	"math/rand"
	"strings"
	"sync"
	"time"
)

type freeEvent struct {
	Seq  int    `json:"seq"`
	Ev   string `json:"ev"`
	Kind string `json:"kind,omitempty"`
	Res  string `json:"res,omitempty"`
}

// freeRecorder is a StopGate that never parks: it records and perturbs the schedule.
type freeRecorder struct {
	mu     sync.Mutex
	events []freeEvent
	rnd    *rand.Rand
	jitter int // per-point probability (percent) of a short sleep after the event is recorded
}

func (r *freeRecorder) log(ev, kind, res string) {
	r.mu.Lock()
	r.events = append(r.events, freeEvent{Seq: len(r.events) + 1, Ev: ev, Kind: kind, Res: res})
	d := 0
	if r.jitter > 0 && r.rnd.Intn(100) < r.jitter {
		d = 1 + r.rnd.Intn(3000)
	}
	r.mu.Unlock()
	if d > 0 {
		time.Sleep(time.Duration(d) * time.Microsecond)
	}
}

// StopFree: scenario = tasks accepted while the system runs (kinds "import" / "remove"), tips pushed
// concurrently, Stop() called after a random delay.  Returns the trace in Result.Lines.
func StopFree(u *Universe, tasks []string, blocks int, seed int64, final string, dir string) (res Result) {
	rec := &freeRecorder{rnd: rand.New(rand.NewSource(seed)), jitter: 30}
	sg := newStopGate()
	sg.open = true
	sg.rec = rec
	w, err := NewWorldGated(u, dir, func(w *World) {
		stopGatesMu.Lock()
		stopGates[w.H] = sg
		stopGatesMu.Unlock()
	})
	if err != nil {
		return Result{OK: false, Step: -1, Err: "setup: " + err.Error()}
	}
	defer func() {
		stopGatesMu.Lock()
		delete(stopGates, w.H)
		stopGatesMu.Unlock()
	}()
	rnd := rand.New(rand.NewSource(seed ^ 0x5eed))
	// the worker must be up before a task is handed to it (its queue is created at start-up)
	deadline := time.Now().Add(20 * time.Second)
	for {
		rec.mu.Lock()
		up := false
		for _, e := range rec.events {
			if e.Ev == "worker.top" {
				up = true
			}
		}
		rec.mu.Unlock()
		if up {
			break
		}
		if time.Now().After(deadline) {
			return Result{OK: false, Err: "harness: worker did not come up"}
		}
		time.Sleep(time.Millisecond)
	}
	var wg sync.WaitGroup
	stopDelay := time.Duration(rnd.Intn(60)) * time.Millisecond
	pushGap := rnd.Intn(8)
	accGap := rnd.Intn(10)
	var harnessErr error
	var hmu sync.Mutex
	fail := func(e error) {
		hmu.Lock()
		if harnessErr == nil {
			harnessErr = e
		}
		hmu.Unlock()
	}
	stopping := make(chan struct{})
	// tips
	wg.Add(1)
	go func() {
		defer wg.Done()
		next := u.Base + 1
		for k := 0; k < blocks; k++ {
			select {
			case <-stopping:
				return
			default:
			}
			blk, err := w.buildBlock(next, next-1, nil)
			if err != nil {
				fail(err)
				return
			}
			next++
			if err := w.E.Attach(blk); err != nil {
				fail(err)
				return
			}
			rec.log("push.begin", "", "")
			w.H.OnBlockConnected(blk.MsgBlock())
			rec.log("push.end", "", "")
			time.Sleep(time.Duration(pushGap) * time.Millisecond)
		}
	}()
	// API calls queuing tasks
	wg.Add(1)
	go func() {
		defer wg.Done()
		nextWallet := 2
		for _, t := range tasks {
			select {
			case <-stopping:
				return
			default:
			}
			var err error
			rec.log("accept.begin", t, "")
			switch t {
			case "import":
				name := fmt.Sprintf("w%d", nextWallet)
				nextWallet++
				err = w.Do(&Step{A: "Import", W: name})
			case "remove":
				err = w.Do(&Step{A: "Remove", W: "w1"})
			}
			switch {
			case err == nil:
				rec.log("accept.end", "", "ok")
			case containsStr(err.Error(), "too many"):
				rec.log("accept.end", "", "busy")
			default:
				rec.log("accept.end", "", "error")
				fail(fmt.Errorf("%s: %v", t, err))
				return
			}
			time.Sleep(time.Duration(accGap) * time.Millisecond)
		}
	}()
	if final == "idle" {
		// no stop request while work is outstanding: every announced tip is processed and every
		// accepted task finishes
		wg.Wait()
		if harnessErr != nil {
			return Result{OK: false, Err: "harness: " + harnessErr.Error()}
		}
		deadline := time.Now().Add(30 * time.Second)
		for {
			what := ""
			if st, err := w.W.SyncedTo(); err != nil || st != w.E.BestHeight() {
				what = fmt.Sprintf("tip-not-processed: wallet at height %d, node at %d", st, w.E.BestHeight())
			}
			if sums, err := w.W.Wallets(); err == nil {
				for _, sm := range sums {
					if sm.Status != nil && (!sm.Status.Ready() || sm.Status.IsRemoved()) {
						what = "task-lost: wallet " + sm.WalletID + " still not ready / not removed"
					}
				}
			}
			if what == "" {
				break
			}
			if time.Now().After(deadline) {
				kind := what[:strings.Index(what, ":")]
				res = Result{OK: false, Sig: kind, Diffs: []Diff{{Kind: kind, What: "free-running system without a stop request", Want: "all queued work done within 30s", Got: what + "\n" + goroutineDump()}}}
				break
			}
			time.Sleep(5 * time.Millisecond)
		}
	} else {
		time.Sleep(stopDelay)
	}
	close(stopping)
	wg.Wait() // calls in flight complete before the stop request (Stop.tla: Accept needs spc = "idle")
	stopped := make(chan struct{})
	go func() { w.W.Stop(); close(stopped) }()
	select {
	case <-stopped:
		rec.log("stop.return", "", "")
		w.down = true
		w.E.Close()
	case <-time.After(15 * time.Second):
		if res.Sig != "" {
			break
		}
		res = Result{OK: false, Sig: "stop-hangs",
			Diffs: []Diff{{Kind: "stop-hangs", What: "Stop()", Want: "returns", Got: "still blocked after 15s (free-running schedule)\n" + goroutineDump()}}}
	}
	if harnessErr != nil {
		return Result{OK: false, Err: "harness: " + harnessErr.Error()}
	}
	rec.mu.Lock()
	for _, e := range rec.events {
		b, _ := json.Marshal(e)
		res.Lines = append(res.Lines, b)
	}
	rec.mu.Unlock()
	if res.Sig == "" {
		res.OK = true
	}
	res.Compared = len(res.Lines)
	return res
}

func containsStr(s, sub string) bool {
	for i := 0; i+len(sub) <= len(s); i++ {
		if s[i:i+len(sub)] == sub {
			return true
		}
	}
	return false
}
