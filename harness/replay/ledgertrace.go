package replay

// Code -> spec for the follower family (spec/WalletTrace.tla): while a history is replayed with the
// follower and the worker running freely, every chain action of the harness thread, every scheduling
// point of the two goroutines and every commit of the wallet database is recorded under one mutex.
// The commit hook takes that mutex before the inner commit and releases it after, so the order of
// the lines is the order of the commits; each commit line carries a projection of the database read
// through the committing transaction itself (synced chain, status records, mined balances, pending
// set).  The trace is judged by TLC.

import (
	"bytes"
	"encoding/json"
	"fmt"
	"math/rand"
	"runtime"
	"sort"
	"strconv"
	"strings"
	"sync"
	"sync/atomic"
	"time"

	"github.com/massnetorg/mass-core/wire"
	mwdb "massnet.org/mass-wallet/masswallet/db"
	"massnet.org/mass-wallet/masswallet/txmgr"
	"verif/harness/dbwrap"
)

type ltStatus struct {
	W string `json:"w"`
	S string `json:"s"`
	C int    `json:"c"`
}
type ltBal struct {
	W string `json:"w"`
	V int64  `json:"v"`
}

type ltEvent struct {
	Seq    int        `json:"seq"`
	Ev     string     `json:"ev"`
	Role   string     `json:"role,omitempty"`
	Op     string     `json:"op,omitempty"`
	Nth    int        `json:"nth,omitempty"`
	W      string     `json:"w,omitempty"`
	B      *int       `json:"b,omitempty"`
	P      *int       `json:"p,omitempty"`
	Txs    [][]string `json:"txs,omitempty"`
	T      string     `json:"t,omitempty"`
	Det    *bool      `json:"det,omitempty"`
	Done   *bool      `json:"done,omitempty"`
	Chain  []int      `json:"chain,omitempty"`
	Status []ltStatus `json:"status,omitempty"`
	Bal    []ltBal    `json:"bal,omitempty"`
	Pend   []string   `json:"pend,omitempty"`
	Err    string     `json:"err,omitempty"`
	Q      []int64
	Utxos  [][]interface{}
}

type ltRec struct {
	mu     sync.Mutex
	w      *World
	events []ltEvent
	roles  map[int64]string
	op, opW string
	opN    int
	hashID map[wire.Hash]int
	walName map[string]string
	rnd    *rand.Rand
	jitter int
	pending *ltEvent // the commit line under construction (mu is held while it exists)
	bad    string
	// storage faults injected into the follower's steps and the worker's updates (0: none)
	faultEvery int64
	faultsLeft int64
	callN      int64
	injected   int64
	wInUpdate  int32
	cur        *Gate // the gate of the live instance (nil while the process is "down")
}

// faultSite names the wallet functions on the stack of the storage call that is made to fail (diagnosis only).
func faultSite() string {
	pc := make([]uintptr, 40)
	n := runtime.Callers(3, pc)
	fr := runtime.CallersFrames(pc[:n])
	var out []string
	for {
		f, more := fr.Next()
		if strings.Contains(f.Function, "massnet.org/mass-wallet/masswallet") && !strings.Contains(f.Function, "/db.") && !strings.Contains(f.Function, "/db/") {
			out = append(out, fmt.Sprintf("%s:%d", f.Function[strings.LastIndex(f.Function, "/")+1:], f.Line))
		}
		if !more || len(out) >= 6 {
			break
		}
	}
	return strings.Join(out, " < ")
}

func goid() int64 {
	var buf [64]byte
	n := runtime.Stack(buf[:], false)
	f := bytes.Fields(buf[:n])
	if len(f) < 2 {
		return -1
	}
	id, _ := strconv.ParseInt(string(f[1]), 10, 64)
	return id
}

// add appends an event; the caller holds r.mu.
func (r *ltRec) add(e ltEvent) {
	e.Seq = len(r.events) + 1
	r.events = append(r.events, e)
}

var ltPoints = map[string]string{
	"handle.top": "h.top", "handle.block": "h.block", "handle.tx": "h.tx", "handle.suspended": "h.suspended", "handle.resumed": "h.resumed",
	"worker.top": "w.top", "worker.suspend": "w.suspend", "worker.resume": "w.resume", "worker.resumed": "w.resumed", "remove.round": "w.round",
}

// gate is called at the scheduling points of the follower and the worker (on their goroutines).
func (r *ltRec) gate(g *Gate, point string) {
	ev, ok := ltPoints[point]
	if !ok {
		return
	}
	r.mu.Lock()
	if g != r.cur {
		// a goroutine of an instance that has "crashed": nothing it does is recorded any more
		r.mu.Unlock()
		return
	}
	if ev[0] == 'h' {
		r.roles[goid()] = "H"
	} else {
		r.roles[goid()] = "W"
	}
	r.add(ltEvent{Ev: ev})
	d := 0
	if r.jitter > 0 && r.rnd.Intn(100) < r.jitter {
		d = 1 + r.rnd.Intn(1500)
	}
	r.mu.Unlock()
	if d > 0 {
		time.Sleep(time.Duration(d) * time.Microsecond)
	}
}

func (r *ltRec) role() string {
	if x, ok := r.roles[goid()]; ok {
		return x
	}
	return "A"
}

// digest reads the projection through the transaction that is about to commit; r.mu is held.
func (r *ltRec) digest(tx mwdb.DBTransaction, e *ltEvent) error {
	w := r.w
	d, err := w.W.VerifDigest(tx, 1)
	if err != nil {
		return err
	}
	if r.hashID == nil {
		r.hashID = map[wire.Hash]int{}
	}
	for id, b := range w.Blk {
		r.hashID[*b.Hash()] = id
	}
	e.Chain = []int{}
	for _, h := range d.Chain {
		id, ok := r.hashID[h]
		if !ok {
			id = -1
		}
		e.Chain = append(e.Chain, id)
	}
	name := func(id string) string {
		for n, wl := range w.Wals {
			if wl.ID == id {
				return n
			}
		}
		return "?" + id
	}
	e.Status = []ltStatus{}
	for id, st := range d.Status {
		s := ltStatus{W: name(id), S: "ready"}
		switch {
		case byte(st[1])&txmgr.WalletFlagsRemove != 0:
			s.S = "removing"
		case st[0] != txmgr.WalletSyncedDone:
			s.S = "importing"
			s.C = int(st[0])
		}
		e.Status = append(e.Status, s)
	}
	sort.Slice(e.Status, func(i, j int) bool { return e.Status[i].W < e.Status[j].W })
	e.Bal = []ltBal{}
	for id, v := range d.Balances {
		if v%Unit != 0 {
			return fmt.Errorf("mined balance %d of %s is not a multiple of the unit", v, name(id))
		}
		e.Bal = append(e.Bal, ltBal{W: name(id), V: v / Unit})
	}
	sort.Slice(e.Bal, func(i, j int) bool { return e.Bal[i].W < e.Bal[j].W })
	names, _, err := w.pendingIn(tx)
	if err != nil {
		return err
	}
	sort.Strings(names)
	e.Pend = names
	if e.Pend == nil {
		e.Pend = []string{}
	}
	return nil
}

func (r *ltRec) hooks() dbwrap.Hooks {
	db := r.w.DB
	return dbwrap.Hooks{
		BeforeCommit: func(n int64, tx mwdb.DBTransaction) {
			r.mu.Lock() // released in AfterCommit
			if db.Frozen() {
				// the instance "crashed" while this commit waited for the mutex: the wrapper abandons the commit
				// and does not call AfterCommit
				r.mu.Unlock()
				return
			}
			e := &ltEvent{Ev: "commit", Role: r.role()}
			if e.Role == "A" {
				r.opN++
				e.Op, e.W, e.Nth = r.op, r.opW, r.opN
				if e.Op == "" {
					e.Op = "none"
				}
			}
			if err := r.digest(tx, e); err != nil && r.bad == "" {
				r.bad = "digest: " + err.Error()
			}
			r.pending = e
		},
		AfterCommit: func(n int64, err error) {
			e := r.pending
			r.pending = nil
			if e != nil {
				if err != nil {
					e.Ev, e.Err = "commit-failed", err.Error()
				}
				r.add(*e)
			}
			r.mu.Unlock()
		},
		OnCall: func(idx int64, kind string) error {
			if db.Frozen() {
				return nil // a goroutine of an instance that has "crashed"
			}
			if kind == "rollback" {
				r.mu.Lock()
				role := r.role()
				if role == "W" {
					atomic.StoreInt32(&r.wInUpdate, 0)
				}
				r.add(ltEvent{Ev: "rollback", Role: role})
				r.mu.Unlock()
				return nil
			}
			if r.faultEvery <= 0 {
				return nil
			}
			if kind == "begin" || kind == "commit" {
				r.mu.Lock()
				role := r.role()
				r.mu.Unlock()
				if role == "W" {
					if kind == "begin" {
						atomic.StoreInt32(&r.wInUpdate, 1)
					} else {
						defer atomic.StoreInt32(&r.wInUpdate, 0)
					}
				}
			}
			if atomic.LoadInt64(&r.faultsLeft) <= 0 || atomic.AddInt64(&r.callN, 1)%r.faultEvery != 0 {
				return nil
			}
			// every storage call of the follower lies inside one of its steps; the worker's are taken inside its updates only
			r.mu.Lock()
			defer r.mu.Unlock()
			role := r.role()
			if role == "A" || (role == "W" && atomic.LoadInt32(&r.wInUpdate) == 0) || atomic.LoadInt64(&r.faultsLeft) <= 0 {
				return nil
			}
			atomic.AddInt64(&r.faultsLeft, -1)
			atomic.AddInt64(&r.injected, 1)
			if role == "W" {
				atomic.StoreInt32(&r.wInUpdate, 0)
			}
			r.add(ltEvent{Ev: "fault", Role: role, Op: kind, Err: faultSite()})
			return dbwrap.ErrInjected
		},
	}
}

// idle: the last scheduling point the follower and the worker of the live instance have logged is the top of their loops.
func (r *ltRec) idle() bool {
	r.mu.Lock()
	defer r.mu.Unlock()
	h, w := "h.top", "w.top"
	for i := len(r.events) - 1; i >= 0 && (h == "h.top" || w == "w.top"); i-- {
		e := r.events[i].Ev
		if e == "restarted" || e == "Crash" {
			break
		}
		if len(e) > 2 && e[1] == '.' {
			if e[0] == 'h' && h == "h.top" {
				if e != "h.top" {
					return false
				}
				h = ""
			}
			if e[0] == 'w' && w == "w.top" {
				if e != "w.top" {
					return false
				}
				w = ""
			}
		}
	}
	return true
}

// crashStep performs Crash / Restart / RestartCrash(k) of a history while everything runs freely.
//   Crash        the database of the running instance is frozen at whatever moment this is - possibly in the middle
//                of a step, whose commit then fails - and the "Crash" line is logged under the same mutex, so that no
//                commit line of the dead instance can follow it; its goroutines are abandoned and no longer recorded
//   Restart      a fresh manager on the crash image; Start's catch-up commits are recorded as commits of the API call
//                "Restart", then a "restarted" line; follower and worker of the new instance run freely
//   RestartCrash the catch-up dies after its k-th commit
func (r *ltRec) crashStep(s *Step) error {
	w := r.w
	switch s.A {
	case "Crash":
		r.mu.Lock()
		old := w.G
		w.DB.Freeze()
		r.add(ltEvent{Ev: "Crash"})
		r.roles = map[int64]string{}
		r.cur = nil
		r.mu.Unlock()
		// the dead instance's goroutines park at their next scheduling point for good (a worker whose task keeps
		// failing on the frozen database would otherwise spin for the rest of the process) and are no longer recorded
		old.mu.Lock()
		old.rec = nil
		old.open = false
		old.mu.Unlock()
		// a killed process reads nothing any more: before the dead instance's database handle is closed (for the
		// snapshot), its goroutines must have run into their gates (or be blocked in the hand-shake, reading nothing)
		for deadline := time.Now().Add(5 * time.Second); time.Now().Before(deadline); time.Sleep(200 * time.Microsecond) {
			if atomic.LoadInt32(&old.busyH) == 0 && (atomic.LoadInt32(&old.busyW) == 0 || time.Until(deadline) < 4*time.Second) {
				break
			}
		}
		return w.Crash()
	case "Restart", "RestartCrash":
		if !w.down {
			// the free-running instance was further along than the history assumed and an earlier "restart that dies
			// during its catch-up" ran to completion: the process is up - it dies now
			if err := r.crashStep(&Step{A: "Crash"}); err != nil {
				return err
			}
		}
		inner, err := mwdb.OpenDB("leveldb", w.dbPath)
		if err != nil {
			return fmt.Errorf("wallet database does not open after the crash: %v", err)
		}
		w.DB = dbwrap.Wrap(inner)
		if err := w.openManager(); err != nil {
			return fmt.Errorf("wallet does not open after the crash: %v", err)
		}
		r.mu.Lock()
		r.op, r.opW, r.opN = "Restart", "", 0
		r.mu.Unlock()
		hooks := r.hooks()
		db := w.DB
		if s.A == "RestartCrash" {
			inner := hooks.AfterCommit
			k := int64(s.K)
			base := db.Commits()
			hooks.AfterCommit = func(n int64, err error) {
				if n-base == k {
					db.Freeze() // under the recorder's mutex (held from BeforeCommit to the end of the inner hook)
				}
				inner(n, err)
			}
		}
		db.SetHooks(hooks)
		// the gates of the new instance are closed: Start parks follower and worker at the top of their loops
		if err := w.start(); err != nil {
			if s.A == "RestartCrash" && db.Frozen() {
				r.mu.Lock()
				r.add(ltEvent{Ev: "Crash"})
				r.op, r.opN = "", 0
				r.mu.Unlock()
				return w.Crash()
			}
			return fmt.Errorf("wallet does not start after the crash: %v", err)
		}
		if s.A == "RestartCrash" && db.Frozen() {
			// it died right after the LAST commit of the catch-up: Start returned, the goroutines are parked at their gates
			r.mu.Lock()
			r.add(ltEvent{Ev: "Crash"})
			r.op, r.opN = "", 0
			r.mu.Unlock()
			return w.Crash()
		}
		w.down = false
		r.mu.Lock()
		r.op, r.opN = "", 0
		r.add(ltEvent{Ev: "restarted"})
		r.mu.Unlock()
		r.mu.Lock()
		r.cur = w.G
		r.mu.Unlock()
		w.G.mu.Lock()
		w.G.rec = r
		w.G.mu.Unlock()
		w.G.Open()
		return nil
	}
	return fmt.Errorf("harness: not a crash step: %s", s.A)
}

// idOfHash / parentID: the block tree of the world by block id.
func (r *ltRec) idOfHash(h wire.Hash) int {
	for id, b := range r.w.Blk {
		if *b.Hash() == h {
			return id
		}
	}
	return -1
}

func (r *ltRec) parentID(id int) int {
	b, ok := r.w.Blk[id]
	if !ok || id == 0 {
		return -1
	}
	return r.idOfHash(b.MsgBlock().Header.Previous)
}

// reorgTo moves the node's best chain to leaf, one disconnect / connect of the chain database at a time, each
// recorded as a ReorgStep line: the follower and the worker read the chain database without the chain lock, so what
// they see in the middle of a reorganisation must be a state of the specification too (Chain.tla ReorgStep).
func (r *ltRec) reorgTo(leaf int) error {
	onPath := map[int]bool{}
	var path []int
	for id := leaf; id > 0; id = r.parentID(id) {
		onPath[id] = true
		path = append([]int{id}, path...)
	}
	cur := r.idOfHash(*r.w.E.Tip().Hash())
	for cur > 0 && !onPath[cur] {
		det, done, b := true, false, cur
		if err := r.w.Do(&Step{A: "ReorgStep", Det: true, B: cur}); err != nil {
			return err
		}
		r.add(ltEvent{Ev: "ReorgStep", Det: &det, Done: &done, B: &b})
		cur = r.parentID(cur)
	}
	start := 0
	for i, id := range path {
		if id == cur {
			start = i + 1
		}
	}
	for _, id := range path[start:] {
		det, done, b := false, id == leaf, id
		if err := r.w.Do(&Step{A: "ReorgStep", Det: false, B: id, Done: done}); err != nil {
			return err
		}
		r.add(ltEvent{Ev: "ReorgStep", Det: &det, Done: &done, B: &b})
	}
	return nil
}

// chain performs a chain action of the harness thread and records it, atomically with respect to the log.
func (r *ltRec) chain(s *Step) error {
	r.mu.Lock()
	defer r.mu.Unlock()
	switch s.A {
	case "Fork":
		// the competing branch as side blocks, then the reorganisation at the grain of the chain database
		fs := *s
		fs.A = "ForkSlow"
		if err := r.w.Do(&fs); err != nil {
			return err
		}
		b, p := s.B, s.P
		e := ltEvent{Ev: "ForkSlow", B: &b, P: &p, Txs: s.Txs}
		if e.Txs == nil {
			e.Txs = [][]string{}
		}
		for i := range e.Txs {
			if e.Txs[i] == nil {
				e.Txs[i] = []string{}
			}
		}
		r.add(e)
		n := len(s.Txs)
		if n == 0 {
			n = 1
		}
		return r.reorgTo(s.B + n - 1)
	case "SwitchTo":
		b := s.B
		r.add(ltEvent{Ev: "ReorgBegin", B: &b})
		return r.reorgTo(s.B)
	}
	if err := r.w.Do(s); err != nil {
		return err
	}
	e := ltEvent{Ev: s.A}
	b, p := s.B, s.P
	switch s.A {
	case "Extend", "Fork", "ForkSlow":
		e.B, e.P, e.Txs = &b, &p, s.Txs
		if e.Txs == nil {
			e.Txs = [][]string{}
		}
		for i := range e.Txs {
			if e.Txs[i] == nil {
				e.Txs[i] = []string{}
			}
		}
	case "SwitchTo":
		e.B = &b
	case "ReorgStep":
		det, done := s.Det, s.Done
		e.Det, e.Done = &det, &done
	case "Announce", "Reannounce":
		e.T = s.T
	}
	r.add(e)
	return nil
}

// api runs an API call of the harness thread; its commits are recorded by the commit hook under its name.
func (r *ltRec) api(s *Step) error {
	r.mu.Lock()
	r.op, r.opW, r.opN = s.A, s.W, 0
	r.mu.Unlock()
	err := r.w.Do(s)
	r.mu.Lock()
	r.op, r.opW, r.opN = "", "", 0
	r.mu.Unlock()
	return err
}

// queries is the body of the query thread (C17): it asks the wallet for its balance and for its unspent outputs
// in turn while everything else runs, and records each call as a q.begin / q.end pair with the answer.
func (r *ltRec) queries(stop <-chan struct{}, name string) {
	w := r.w
	rnd := rand.New(rand.NewSource(r.rnd.Int63()))
	for k := 0; ; k++ {
		select {
		case <-stop:
			return
		default:
		}
		api := "balance"
		if k%2 == 1 {
			api = "utxo"
		}
		r.mu.Lock()
		r.add(ltEvent{Ev: "q.begin", Op: api, W: name})
		r.mu.Unlock()
		e := ltEvent{Ev: "q.end", Op: api, W: name}
		if api == "balance" {
			bal, err := w.W.WalletBalance(0, true)
			if err != nil {
				e.Err = err.Error()
			} else {
				e.Q = []int64{amt(bal.Total), amt(bal.Spendable), amt(bal.WithdrawableStaking), amt(bal.WithdrawableBinding)}
			}
			r.mu.Lock()
		} else {
			um, err := w.W.GetUtxo(nil)
			r.mu.Lock()
			if err != nil {
				e.Err = err.Error()
			}
			e.Utxos = [][]interface{}{}
			for _, l := range um {
				for _, d := range l {
					e.Utxos = append(e.Utxos, []interface{}{w.nameOf(d.TxId), int(d.Vout)})
				}
			}
		}
		r.add(e)
		if e.Err != "" && r.bad == "" {
			r.bad = "query " + api + ": " + e.Err
		}
		r.mu.Unlock()
		time.Sleep(time.Duration(rnd.Intn(900)) * time.Microsecond)
	}
}

func (r *ltRec) lines() []json.RawMessage {
	r.mu.Lock()
	defer r.mu.Unlock()
	var out []json.RawMessage
	for _, e := range r.events {
		m := map[string]interface{}{"seq": e.Seq, "ev": e.Ev}
		switch e.Ev {
		case "commit", "commit-failed":
			m["role"], m["chain"], m["status"], m["bal"], m["pend"] = e.Role, e.Chain, e.Status, e.Bal, e.Pend
			if e.Role == "A" {
				m["op"], m["w"], m["nth"] = e.Op, e.W, e.Nth
			}
			if e.Err != "" {
				m["err"] = e.Err
			}
		case "rollback":
			m["role"] = e.Role
		case "fault":
			m["role"], m["call"], m["site"] = e.Role, e.Op, e.Err
		case "Extend", "Fork", "ForkSlow":
			m["b"], m["p"], m["txs"] = *e.B, *e.P, e.Txs
		case "SwitchTo", "ReorgBegin":
			m["b"] = *e.B
		case "ReorgStep":
			m["det"], m["done"] = *e.Det, *e.Done
		case "Announce", "Reannounce":
			m["t"] = e.T
		case "q.begin":
			m["api"], m["w"] = e.Op, e.W
		case "q.end":
			m["api"], m["w"] = e.Op, e.W
			if e.Op == "balance" && len(e.Q) == 4 {
				m["total"], m["spendable"], m["wstaking"], m["wbinding"] = e.Q[0]/Unit, e.Q[1]/Unit, e.Q[2]/Unit, e.Q[3]/Unit
				if e.Q[0]%Unit != 0 || e.Q[1]%Unit != 0 || e.Q[2]%Unit != 0 || e.Q[3]%Unit != 0 {
					m["total"] = -1 // not a sum of whole coins of the universe: no boundary state explains it
				}
			} else {
				m["utxos"] = e.Utxos
			}
			if e.Err != "" {
				m["err"] = e.Err
			}
		}
		b, _ := json.Marshal(m)
		out = append(out, b)
	}
	return out
}
