package replay

import (
	"os"
	"runtime/debug"
	"encoding/json"
	"fmt"
	"math"
	"sort"
	"strings"
	"sync/atomic"

	"github.com/massnetorg/mass-core/massutil"
	"verif/harness/dbwrap"
)

// arm makes the call-th storage call from now on fail (once); returns a disarm function
// that reports whether the fault fired and how many calls were seen.
func (w *World) arm(call int64) func() (fired bool, seen int64) {
	var n, hit int64
	db := w.DB
	db.SetHooks(dbwrap.Hooks{OnCall: func(idx int64, kind string) error {
		c := atomic.AddInt64(&n, 1)
		if call > 0 && c == call {
			atomic.StoreInt64(&hit, 1)
			if os.Getenv("VERIF_FAULT_TRACE") != "" {
				fmt.Fprintf(os.Stderr, "FAULT at storage call %d (%s)\n%s\n", c, kind, debug.Stack())
			}
			return dbwrap.ErrInjected
		}
		return nil
	}})
	return func() (bool, int64) {
		db.SetHooks(dbwrap.Hooks{})
		return atomic.LoadInt64(&hit) == 1, atomic.LoadInt64(&n)
	}
}

// CountCalls replays the history fault-free and returns the number of storage calls of every step.
func CountCalls(u *Universe, h History, dir string) Result {
	w, err := NewWorld(u, dir, 5)
	if err != nil {
		return Result{OK: false, Step: -1, Err: "setup: " + err.Error()}
	}
	defer w.Close()
	var calls []int64
	for i := range h {
		disarm := w.arm(0)
		err := w.Do(&h[i])
		_, n := disarm()
		if err != nil {
			return Result{OK: false, Step: i, Action: h[i].A, Err: "harness: fault-free twin failed: " + err.Error()}
		}
		calls = append(calls, n)
	}
	b, _ := json.Marshal(calls)
	return Result{OK: true, Sig: string(b)}
}

// ReplayFault replays h with the call-th storage call of step `step` failing once.
//   block step      : the update must roll back; the wallet recovers with the next tip (comparisons are
//                     suspended until a later block step committed), the end state equals the fault-free one
//   API call        : it must report the error; repeating it must succeed
//   worker step     : the task must be re-queued; repeating the step must have the fault-free outcome
func ReplayFault(u *Universe, h History, dir string, step int, call int64) (res Result) {
	res.OK = true
	w, err := NewWorld(u, dir, 5)
	if err != nil {
		return Result{OK: false, Step: -1, Err: "setup: " + err.Error()}
	}
	defer w.Close()
	suspended := false // comparisons suspended after a failed block step
	fail := func(i int, s *Step, kind, what, want, got string) Result {
		return Result{OK: false, Step: i, Action: s.A, Compared: res.Compared, Sig: kind,
			Diffs: []Diff{{Kind: kind, What: what, Want: want, Got: got}}}
	}
	for i := range h {
		s := &h[i]
		if i != step {
			if err := w.Do(s); err != nil {
				if suspended || strings.HasPrefix(err.Error(), "harness:") {
					return Result{OK: false, Step: i, Action: s.A, Err: "harness: after fault: " + err.Error(), Compared: res.Compared}
				}
				return Result{OK: false, Step: i, Action: s.A, Err: err.Error(), Compared: res.Compared}
			}
			if s.A == "HandleBlock" && suspended {
				// a committed block step repairs the damage (the model's rule: the block is on best or already applied)
				synced, _ := w.W.SyncedTo()
				if s.Exp.Q && int(synced) == s.Exp.Synced {
					suspended = false
				}
			}
		} else {
			disarm := w.arm(call)
			err := w.Do(s)
			fired, _ := disarm()
			if !fired {
				return Result{OK: false, Step: i, Action: s.A, Err: fmt.Sprintf("harness: step has fewer than %d storage calls", call)}
			}
			switch s.A {
			case "HandleBlock":
				suspended = true
				if err != nil {
					return Result{OK: false, Step: i, Action: s.A, Err: "harness: " + err.Error()}
				}
			case "Import", "Remove":
				if err == nil {
					// the failing call did not matter to the operation (its error is ignored by design, e.g. a lookup
					// whose absence is tolerated); nothing to repeat
					break
				}
				if strings.HasPrefix(err.Error(), "harness:") {
					return Result{OK: false, Step: i, Action: s.A, Err: err.Error()}
				}
				if got, ok := w.cacheVsListing(); !ok {
					return fail(i, s, "phantom-wallet", "keystores in memory after the failed "+s.A, "the wallets the database lists", got)
				}
				if err2 := w.Do(s); err2 != nil {
					return fail(i, s, "retry-after-fault-failed", s.A, "repeating the call succeeds", err2.Error())
				}
			case "ImportStep", "RemoveStep":
				if err != nil && (strings.Contains(err.Error(), "hand-shake did not complete") || strings.Contains(err.Error(), "did not finish a step within")) {
					// the failed update left follower and worker waiting for each other (generous limits: 20 s / 60 s;
					// the driver replays such a result alone before it counts)
					return fail(i, s, "stuck-after-fault", s.A, "the worker resumes the follower and re-queues the task after a failed update", err.Error()+"\n"+goroutineDump())
				}
				if err != nil && !strings.Contains(err.Error(), "model-mismatch") {
					return Result{OK: false, Step: i, Action: s.A, Err: "harness: " + err.Error()}
				}
				// the worker re-queues a failed task; repeat the step unless the failing call did not
				// matter (an ignored lookup error) and the step already had its fault-free outcome
				for try := 0; try < 3 && !w.stepOutcomeReached(s); try++ {
					if n := w.H.VerifTaskQueueLen(); n <= 0 {
						break
					}
					if _, err := w.workerStep(); err != nil {
						kind := "retry-after-fault-failed"
						if strings.Contains(err.Error(), "hand-shake did not complete") || strings.Contains(err.Error(), "did not finish a step within") || strings.Contains(err.Error(), "not parked at its gate") {
							kind = "stuck-after-fault"
						}
						return fail(i, s, kind, s.A, "the re-queued task runs", err.Error()+"\n"+goroutineDump())
					}
				}
				if !w.stepOutcomeReached(s) {
					return fail(i, s, "retry-after-fault-failed", s.A, "the step reaches its fault-free outcome when repeated", "it does not")
				}
			default:
				return Result{OK: false, Step: i, Action: s.A, Err: "harness: action has no fault semantics: " + s.A}
			}
		}
		if s.Exp.Q && !suspended {
			diffs, err := w.Compare(&s.Exp)
			if err != nil {
				return Result{OK: false, Step: i, Action: s.A, Err: "compare: " + err.Error(), Compared: res.Compared}
			}
			res.Compared++
			if len(diffs) > 0 {
				kinds := map[string]bool{}
				for _, d := range diffs {
					kinds[d.Kind] = true
				}
				var ks []string
				for k := range kinds {
					ks = append(ks, k)
				}
				sort.Strings(ks)
				return Result{OK: false, Step: i, Action: s.A, Diffs: diffs, Compared: res.Compared, Sig: strings.Join(ks, ",")}
			}
		}
	}
	if suspended {
		return Result{OK: false, Step: len(h) - 1, Err: "harness: history ends before a later tip repaired the failed block step", Compared: res.Compared}
	}
	return res
}

// FaultAddresses sweeps a storage fault over every call of NewAddress (both classes) and of
// CreateWallet: a failed call must leave no trace - no skipped or duplicated key index, no
// phantom wallet - and the next call must succeed.
func FaultAddresses(u *Universe, dir string, seed int64) (res Result) {
	res.OK = true
	w, err := NewWorld(u, dir, 200)
	if err != nil {
		return Result{OK: false, Step: -1, Err: "setup: " + err.Error()}
	}
	defer w.Close()
	bad := func(kind, what, want, got string) Result {
		return Result{OK: false, Sig: kind, Compared: res.Compared, Diffs: []Diff{{Kind: kind, What: what, Want: want, Got: got}}}
	}
	// --- CreateWallet under faults: no phantom wallet, no duplicate ---
	before, _ := w.W.Wallets()
	created := 0
	for call := int64(1); call < 400; call++ {
		disarm := w.arm(call)
		id, _, _, err := w.W.CreateWallet("faultPass1", "f", 128)
		fired, _ := disarm()
		res.Compared++
		after, lerr := w.W.Wallets()
		if lerr != nil {
			return bad("api-error", "Wallets", "ok", lerr.Error())
		}
		if err != nil {
			if len(after) != len(before)+created {
				return bad("phantom-wallet", fmt.Sprintf("CreateWallet failing at storage call %d", call), fmt.Sprint(len(before)+created), fmt.Sprint(len(after)))
			}
		} else {
			created++
			if len(after) != len(before)+created {
				return bad("phantom-wallet", fmt.Sprintf("CreateWallet succeeding although storage call %d failed", call), fmt.Sprint(len(before)+created), fmt.Sprint(len(after)))
			}
			if _, err := w.W.UseWallet(id); err != nil {
				return bad("created-wallet-unusable", id, "usable", err.Error())
			}
		}
		if got, ok := w.cacheVsListing(); !ok {
			return bad("phantom-wallet", fmt.Sprintf("keystores in memory after CreateWallet with a fault at storage call %d (err %v)", call, err), "the wallets the database lists", got)
		}
		if !fired {
			break
		}
	}
	// --- NewAddress under faults on a fresh wallet ---
	id, _, _, err := w.W.CreateWallet("faultPass2", "g", 128)
	if err != nil {
		return bad("retry-after-fault-failed", "CreateWallet without fault", "ok", err.Error())
	}
	if _, err := w.W.UseWallet(id); err != nil {
		return bad("created-wallet-unusable", id, "usable", err.Error())
	}
	succ := 0
	seen := map[string]bool{}
	classes := []uint16{massutil.AddressClassWitnessV0, massutil.AddressClassWitnessStaking}
	for call := int64(1); call < 200; call++ {
		class := classes[(int64(seed)+call)%2]
		disarm := w.arm(call)
		a, err := w.W.NewAddress(class)
		fired, _ := disarm()
		res.Compared++
		if err == nil {
			if seen[a] {
				return bad("duplicate-address", a, "a new address", "returned before")
			}
			seen[a] = true
			succ++
		}
		// the call after a failed one must succeed and continue the sequence
		a2, err2 := w.W.NewAddress(massutil.AddressClassWitnessV0)
		if err2 != nil {
			return bad("retry-after-fault-failed", fmt.Sprintf("NewAddress after a fault at storage call %d", call), "ok", err2.Error())
		}
		if seen[a2] {
			return bad("duplicate-address", a2, "a new address", "returned before")
		}
		seen[a2] = true
		succ++
		exp, err := w.W.ExportWallet(id, "faultPass2")
		if err != nil {
			return bad("api-error", "ExportWallet", "ok", err.Error())
		}
		var ks struct {
			HDpath struct{ ExternalChildNum uint32 } `json:"hdPath"`
		}
		if json.Unmarshal([]byte(exp), &ks) != nil {
			return bad("api-error", "ExportWallet", "json", exp[:40])
		}
		if int(ks.HDpath.ExternalChildNum) != succ {
			return bad("skipped-address-index", fmt.Sprintf("after a fault at storage call %d of NewAddress", call),
				fmt.Sprintf("next key index %d after %d issued addresses", succ, succ), fmt.Sprint(ks.HDpath.ExternalChildNum))
		}
		ads, err := w.W.GetAddresses(math.MaxUint16)
		if err != nil {
			return bad("api-error", "GetAddresses", "ok", err.Error())
		}
		listed := 0
		for _, ad := range ads {
			if seen[ad.Address] {
				listed++
			}
		}
		if listed != succ {
			return bad("address-not-listed", fmt.Sprintf("after a fault at storage call %d", call), fmt.Sprint(succ), fmt.Sprint(listed))
		}
		if !fired {
			break
		}
	}
	return res
}

// cacheVsListing: the keystores the manager holds in memory must be exactly the wallets the database lists
// (a failed call must not leave a keystore behind that exists in memory only, nor drop one that is stored).
func (w *World) cacheVsListing() (string, bool) {
	sums, err := w.W.Wallets()
	if err != nil {
		return "Wallets: " + err.Error(), false
	}
	var listed, cached []string
	for _, sm := range sums {
		listed = append(listed, sm.WalletID)
	}
	cached = append(cached, w.W.VerifKeystoreManager().ListKeystoreNames()...)
	sort.Strings(listed)
	sort.Strings(cached)
	if strings.Join(listed, ",") != strings.Join(cached, ",") {
		return fmt.Sprintf("in memory %v, stored %v", cached, listed), false
	}
	return "", true
}

// stepOutcomeReached tells whether a worker step has had the outcome the model gives it.
func (w *World) stepOutcomeReached(s *Step) bool {
	sums, err := w.W.Wallets()
	if err != nil {
		return false
	}
	id := w.Wals[s.W].ID
	for _, sm := range sums {
		if sm.WalletID != id {
			continue
		}
		if s.A == "RemoveStep" {
			return false // still listed
		}
		if s.Done {
			return sm.Status.Ready()
		}
		return !sm.Status.Ready() && int(sm.Status.SyncedHeight) == s.Cur
	}
	return s.A == "RemoveStep"
}
