package replay

import (
	"crypto/sha256"
	"bytes"
	"encoding/hex"
	"encoding/json"
	"fmt"
	"math/rand"
	"sort"

	"github.com/massnetorg/mass-core/blockchain"
	"github.com/massnetorg/mass-core/consensus/forks"
	"github.com/massnetorg/mass-core/massutil"
	"github.com/massnetorg/mass-core/txscript"
	"github.com/massnetorg/mass-core/wire"
	"massnet.org/mass-wallet/config"
	"massnet.org/mass-wallet/masswallet"
)

// TxBuildBattery issues transaction-building and signing calls against the wallet state a
// history leads to, and records each call (the coins as the specification sees them, the request,
// the decoded result, the fee bounds computed by the consensus library for the really signed
// size) as one line for spec/TxBuildTrace.tla.  Nothing is judged here.
type tbCoin struct {
	ID       string `json:"id"`
	Amt      int64  `json:"amt"`
	Addr     string `json:"addr"`
	Class    string `json:"class"`
	Mature   bool   `json:"mature"`
	Sbu      bool   `json:"sbu"`
	Reserved bool   `json:"reserved"`
}
type tbOut struct {
	To    string `json:"to"`
	Amt   int64  `json:"amt"`
	Class string `json:"class,omitempty"`
}
type tbReq struct {
	Outs   []tbOut  `json:"outs"`
	Fee    int64    `json:"fee"`
	From   string   `json:"from"`
	Change string   `json:"change"`
	Subfee []string `json:"subfee"`
	Inputs []string `json:"inputs"`
	Valid  bool     `json:"valid"`
}
type tbRes struct {
	OK     bool     `json:"ok"`
	Panic  bool     `json:"panic"`
	Err    string   `json:"err"`
	ErrTxt string   `json:"errtxt"`
	Ins    []string `json:"ins"`
	Outs   []tbOut  `json:"outs"`
	Fee    int64    `json:"fee"`
	Signed bool     `json:"signed"`
	Size   int64    `json:"size"`
	MinFee int64    `json:"minfee"`
	MaxFee int64    `json:"maxfee"`
	Dust   int64    `json:"dust"`
}
type tbSign struct {
	Tried        bool   `json:"tried"`
	Signable     bool   `json:"signable"`
	Flag         string `json:"flag"`
	WrongErr     bool   `json:"wrongErr"`
	WrongWitness bool   `json:"wrongWitness"`
	RightErr     string `json:"rightErr"`
	SameTx       bool   `json:"sameTx"`
	Engine       bool   `json:"engine"`
	// interleavings: a wrong-passphrase attempt on the already signed transaction, and signing again
	// (right passphrase) after an output was edited
	WrongAfterErr bool `json:"wrongAfterErr"`
	ResignOK      bool `json:"resignOK"`
	// private keys the keystore still holds in memory after the wrong attempt / after the successful one, and a
	// request that fails half way (right passphrase, the first inputs sign, the last input is unknown to the wallet)
	CachedAfterWrong int  `json:"cachedAfterWrong"`
	CachedAfterRight int  `json:"cachedAfterRight"`
	PartialTried     bool `json:"partialTried"`
	PartialErr       bool `json:"partialErr"`
	PartialCached    int  `json:"partialCached"`
}
type tbLine struct {
	Kind   string   `json:"kind"`
	Wallet string   `json:"wallet"`
	Coins  []tbCoin `json:"coins"`
	Req    tbReq    `json:"req"`
	Res    tbRes    `json:"res"`
	Sign   tbSign   `json:"sign"`
}

var sigFlags = []string{"ALL", "NONE", "SINGLE", "ALL|ANYONECANPAY", "NONE|ANYONECANPAY", "SINGLE|ANYONECANPAY"}

func errClass(err error) string {
	switch err {
	case masswallet.ErrInsufficientFunds:
		return "insufficient"
	case masswallet.ErrOverfullUtxo:
		return "overfull"
	case masswallet.ErrNotEnoughInputs:
		return "notenough"
	case masswallet.ErrDustAmount, masswallet.ErrDustChange:
		return "dust"
	}
	return "other"
}

func (w *World) strangerAddr(n int) string {
	var h [32]byte
	copy(h[:], fmt.Sprintf("txbuild-stranger-%d................", n))
	a, _ := massutil.NewAddressWitnessScriptHash(h[:], config.ChainParams)
	return a.EncodeAddress()
}

// addrName maps an output script to a symbolic recipient name.
func (w *World) addrName(pk []byte, strangers map[string]string) (string, string) {
	class, addrs, _, _, err := txscript.ExtractPkScriptAddrs(pk, config.ChainParams)
	if err != nil || len(addrs) == 0 {
		return "?", "?"
	}
	cls := "std"
	switch class {
	case txscript.StakingScriptHashTy:
		cls = "stk"
	case txscript.BindingScriptHashTy:
		cls = "bind"
	}
	sh := addrs[0].ScriptAddress()
	for name, wl := range w.Wals {
		for k, key := range wl.Keys {
			if bytes.Equal(key.ScriptHash, sh) {
				return fmt.Sprintf("%s:%d", name, k), cls
			}
		}
	}
	std, _ := massutil.NewAddressWitnessScriptHash(sh, config.ChainParams)
	if std != nil {
		if n, ok := strangers[std.EncodeAddress()]; ok {
			return n, cls
		}
	}
	return "?", cls
}

func (w *World) TxBuildBattery(exp *Expect, seed int64, sweep bool) (lines []json.RawMessage, err error) {
	rnd := rand.New(rand.NewSource(seed))
	strangers := map[string]string{w.strangerAddr(1): "S1", w.strangerAddr(2): "S2"}
	sAddr := map[string]string{"S1": w.strangerAddr(1), "S2": w.strangerAddr(2)}
	maxFee, _ := blockchain.CalcMinRequiredTxRelayFee(int64(blockchain.GetMaxStandardTxSize()), massutil.MinRelayTxFee())
	names := make([]string, 0, len(exp.Views))
	for n := range exp.Views {
		names = append(names, n)
	}
	sort.Strings(names)
	for _, name := range names {
		v := exp.Views[name]
		wl := w.Wals[name]
		if _, err := w.W.UseWallet(wl.ID); err != nil {
			return nil, fmt.Errorf("harness: UseWallet: %v", err)
		}
		reserved := map[string]bool{}
		coinsNow := func() []tbCoin {
			var cs []tbCoin
			for _, x := range v.Utxos {
				id := fmt.Sprintf("%s:%d", x.Tx, x.Vout)
				cs = append(cs, tbCoin{ID: id, Amt: x.Amt * Unit, Addr: fmt.Sprintf("%s:%d", name, x.Addr), Class: x.Class,
					Mature: uint64(exp.Synced)-x.H+1 >= uint64(x.Mat), Sbu: x.Sbu, Reserved: reserved[id]})
			}
			return cs
		}
		var eligTotal int64
		for _, c := range coinsNow() {
			if c.Mature && (c.Class == "std" || c.Class == "cb") && !c.Sbu {
				eligTotal += c.Amt
			}
		}
		resolveAddr := func(sym string) string {
			if a, ok := sAddr[sym]; ok {
				return a
			}
			var k int
			var n string
			if _, err := fmt.Sscanf(sym, "%2s:%d", &n, &k); err == nil {
				if ww, ok := w.Wals[n]; ok && k < len(ww.Keys) {
					return ww.Keys[k].Std
				}
			}
			return sym
		}
		finish := func(l *tbLine, raw string, fee massutil.Amount, cerr error, keepReserved bool, flagIdx int) {
			l.Res.MaxFee = maxFee.IntValue()
			l.Res.Dust = 100000
			if cerr != nil {
				l.Res.Err, l.Res.ErrTxt = errClass(cerr), cerr.Error()
			} else {
				var mtx wire.MsgTx
				b, derr := hex.DecodeString(raw)
				if derr == nil {
					derr = mtx.SetBytes(b, wire.Packet)
				}
				if derr != nil {
					l.Res.Err, l.Res.ErrTxt = "undecodable", derr.Error()
				} else {
					l.Res.OK = true
					l.Res.Fee = fee.IntValue()
					for _, in := range mtx.TxIn {
						l.Res.Ins = append(l.Res.Ins, fmt.Sprintf("%s:%d", w.nameOf(in.PreviousOutPoint.Hash.String()), in.PreviousOutPoint.Index))
					}
					for _, o := range mtx.TxOut {
						to, cls := w.addrName(o.PkScript, strangers)
						l.Res.Outs = append(l.Res.Outs, tbOut{To: to, Amt: o.Value, Class: cls})
					}
					w.signAndVerify(l, &mtx, name, flagIdx)
					if keepReserved {
						for _, id := range l.Res.Ins {
							reserved[id] = true
						}
					} else {
						w.W.ClearUsedUTXOMark(&mtx)
					}
				}
			}
			if l.Res.Ins == nil {
				l.Res.Ins = []string{}
			}
			if l.Res.Outs == nil {
				l.Res.Outs = []tbOut{}
			}
			b, _ := json.Marshal(l)
			lines = append(lines, b)
		}
		protect := func(l *tbLine, f func()) {
			defer func() {
				if r := recover(); r != nil {
					l.Res.Panic = true
					l.Res.ErrTxt = fmt.Sprint(r)
					l.Res.Ins, l.Res.Outs = []string{}, []tbOut{}
					b, _ := json.Marshal(l)
					lines = append(lines, b)
				}
			}()
			f()
		}
		auto := func(outs []tbOut, fee int64, from, change string, payload []byte, lock uint64, keep bool, flagIdx int) {
			l := &tbLine{Kind: "auto", Wallet: name, Coins: coinsNow(), Req: tbReq{Outs: outs, Fee: fee, From: from, Change: change, Subfee: []string{}, Inputs: []string{}, Valid: true}}
			protect(l, func() {
				amounts := map[string]massutil.Amount{}
				for _, o := range outs {
					amounts[resolveAddr(o.To)] = mustAmount(o.Amt)
				}
				fromA, changeA := "", ""
				if from != "" {
					fromA = resolveAddr(from)
				}
				if change != "" {
					changeA = resolveAddr(change)
				}
				raw, f, err := w.W.AutoCreateRawTransaction(amounts, lock, mustAmount(fee), fromA, changeA, payload)
				finish(l, raw, f, err, keep, flagIdx)
			})
		}
		unitAmts := []int64{Unit, eligTotal / 2, eligTotal - Unit, eligTotal - 200000, eligTotal, eligTotal + Unit}
		for i, a := range unitAmts {
			if a <= 0 {
				continue
			}
			fee := []int64{0, 20000, 2000000}[rnd.Intn(3)]
			auto([]tbOut{{To: "S1", Amt: a}}, fee, "", "", nil, 0, false, i)
		}
		if sweep {
			// send-max: amounts that leave exactly a plausible (escalated) relay fee, or a little more or less
			for d := int64(9000); d <= 45000; d += 500 {
				auto([]tbOut{{To: "S1", Amt: eligTotal - d}}, 0, "", "", nil, 0, false, int(d/100))
			}
			// relay fees are multiples of 10 Maxwell: every amount that leaves exactly a fee of 2.8 .. 3.6 kB
			for d := int64(28000); d <= 36000; d += 10 {
				auto([]tbOut{{To: "S1", Amt: eligTotal - d}}, 0, "", "", nil, 0, false, int(d/10))
			}
		}
		// sender address, change address, payload, lock time, two recipients
		auto([]tbOut{{To: "S1", Amt: Unit}}, 0, name+":0", "", nil, 0, false, 1)
		auto([]tbOut{{To: "S1", Amt: Unit}}, 0, name+":1", name+":0", []byte("payload-10"), 5, false, 2)
		auto([]tbOut{{To: "S1", Amt: Unit}, {To: "S2", Amt: 2 * Unit}}, 30000, "", name+":1", nil, 0, false, 3)
		// consecutive drafts without releasing the earlier ones
		for k := 0; k < 3; k++ {
			auto([]tbOut{{To: "S2", Amt: eligTotal/3 + Unit/2}}, 0, "", "", nil, 0, true, k)
		}
		for id := range reserved {
			if h, vout, ok := w.outpointOf(id); ok {
				mtx := wire.NewMsgTx()
				mtx.AddTxIn(wire.NewTxIn(wire.NewOutPoint(&h, vout), nil))
				w.W.ClearUsedUTXOMark(mtx)
			}
			delete(reserved, id)
		}
		// explicit inputs: every coin alone (also staking / binding / pending-spent ones), with and without fee subtraction
		for ci, c := range coinsNow() {
			h, vout, ok := w.outpointOf(c.ID)
			if !ok {
				continue
			}
			sub := []string{}
			if ci%2 == 1 {
				sub = []string{"S1"}
			}
			amtOut := c.Amt - Unit/50
			if len(sub) > 0 {
				amtOut = c.Amt
			}
			l := &tbLine{Kind: "manual", Wallet: name, Coins: coinsNow(), Req: tbReq{Outs: []tbOut{{To: "S1", Amt: amtOut}}, Fee: 0, Subfee: sub, Inputs: []string{c.ID}, Valid: true}}
			protect(l, func() {
				subm := map[string]struct{}{}
				for _, s := range sub {
					subm[resolveAddr(s)] = struct{}{}
				}
				raw, f, err := w.W.CreateRawTransaction([]*masswallet.TxIn{{TxId: h.String(), Vout: vout}},
					map[string]massutil.Amount{resolveAddr("S1"): mustAmount(amtOut)}, 0, "", subm)
				finish(l, raw, f, err, false, ci)
			})
		}
		// explicit inputs worth more than the requested outputs, fee taken from the recipients: one recipient bearing
		// the fee, and two recipients of whom one bears it - the change takes what is left, nobody pays a share twice
		for ci, c := range coinsNow() {
			if !(c.Mature && (c.Class == "std" || c.Class == "cb") && !c.Sbu && !c.Reserved) || c.Amt < 4*Unit {
				continue
			}
			h, vout, ok := w.outpointOf(c.ID)
			if !ok {
				continue
			}
			for variant := 0; variant < 2; variant++ {
				outs := []tbOut{{To: "S1", Amt: c.Amt / 2}}
				if variant == 1 {
					outs = []tbOut{{To: "S1", Amt: c.Amt / 4}, {To: "S2", Amt: c.Amt / 4}}
				}
				change := ""
				if (ci+variant)%2 == 1 {
					change = name + ":1"
				}
				l := &tbLine{Kind: "manual", Wallet: name, Coins: coinsNow(), Req: tbReq{Outs: outs, Fee: 0, Change: change, Subfee: []string{"S1"}, Inputs: []string{c.ID}, Valid: true}}
				protect(l, func() {
					amounts := map[string]massutil.Amount{}
					for _, o := range outs {
						amounts[resolveAddr(o.To)] = mustAmount(o.Amt)
					}
					changeA := ""
					if change != "" {
						changeA = resolveAddr(change)
					}
					raw, f, err := w.W.CreateRawTransaction([]*masswallet.TxIn{{TxId: h.String(), Vout: vout}}, amounts, 0, changeA,
						map[string]struct{}{resolveAddr("S1"): {}})
					finish(l, raw, f, err, false, ci+variant)
				})
			}
		}
		// explicit inputs: every free ordinary coin at once (sibling outputs of one previous transaction,
		// several addresses, several amounts in ONE signing call)
		{
			var ins []*masswallet.TxIn
			var ids []string
			var sum int64
			for _, c := range coinsNow() {
				if c.Mature && (c.Class == "std" || c.Class == "cb") && !c.Sbu && !c.Reserved {
					if h, vout, ok := w.outpointOf(c.ID); ok {
						ins = append(ins, &masswallet.TxIn{TxId: h.String(), Vout: vout})
						ids = append(ids, c.ID)
						sum += c.Amt
					}
				}
			}
			if len(ins) >= 2 {
				amtOut := sum - Unit/20
				l := &tbLine{Kind: "manual", Wallet: name, Coins: coinsNow(), Req: tbReq{Outs: []tbOut{{To: "S1", Amt: amtOut}}, Fee: 0, Subfee: []string{}, Inputs: ids, Valid: true}}
				protect(l, func() {
					raw, f, err := w.W.CreateRawTransaction(ins, map[string]massutil.Amount{resolveAddr("S1"): mustAmount(amtOut)}, 0, "", map[string]struct{}{})
					finish(l, raw, f, err, false, len(ins))
				})
			}
		}
		// staking and binding deposits paid from ONE address of the wallet: as much as that address holds
		// (cannot be paid: the fee is missing) and a little less
		for k := 0; k < 2; k++ {
			var addrTotal int64
			sym := fmt.Sprintf("%s:%d", name, k)
			for _, c := range coinsNow() {
				if c.Mature && (c.Class == "std" || c.Class == "cb") && !c.Sbu && !c.Reserved && c.Addr == sym {
					addrTotal += c.Amt
				}
			}
			if addrTotal < 3*Unit {
				continue
			}
			for vi, amtReq := range []int64{addrTotal, addrTotal - Unit} {
				amtReq := amtReq
				l := &tbLine{Kind: "staking", Wallet: name, Coins: coinsNow(), Req: tbReq{Outs: []tbOut{{To: name + ":2", Amt: amtReq}}, From: sym, Subfee: []string{}, Inputs: []string{}, Valid: true}}
				protect(l, func() {
					raw, f, err := w.W.CreateStakingTransaction(wl.Keys[k].Std, []*masswallet.StakingTxOut{{Address: wl.Keys[2].Staking, FrozenPeriod: uint32(w.U.MinFrozen + 1), Amount: mustAmount(amtReq)}}, 0, massutil.ZeroAmount())
					finish(l, raw, f, err, false, 6+vi)
				})
				if !forks.EnforceMASSIP0002WarmUp(uint64(exp.Synced) + 1) {
					holder, _ := massutil.DecodeAddress(wl.Keys[0].Std, config.ChainParams)
					target, _ := massutil.NewAddressPubKeyHash(BindTarget("battery-from", 20), config.ChainParams)
					l := &tbLine{Kind: "binding", Wallet: name, Coins: coinsNow(), Req: tbReq{Outs: []tbOut{{To: name + ":0", Amt: amtReq}}, From: sym, Subfee: []string{}, Inputs: []string{}, Valid: true}}
					protect(l, func() {
						raw, f, err := w.W.CreateBindingTransaction(wl.Keys[k].Std, massutil.ZeroAmount(), []*masswallet.BindingOutput{{Holder: holder, BindingTarget: target, Amount: mustAmount(amtReq)}})
						finish(l, raw, f, err, false, 8+vi)
					})
				}
			}
		}
		// staking and binding deposits built by the wallet
		if eligTotal > 3*Unit {
			l := &tbLine{Kind: "staking", Wallet: name, Coins: coinsNow(), Req: tbReq{Outs: []tbOut{{To: name + ":2", Amt: 2 * Unit}}, Subfee: []string{}, Inputs: []string{}, Valid: true}}
			protect(l, func() {
				raw, f, err := w.W.CreateStakingTransaction("", []*masswallet.StakingTxOut{{Address: wl.Keys[2].Staking, FrozenPeriod: uint32(w.U.MinFrozen + 1), Amount: mustAmount(2 * Unit)}}, 0, massutil.ZeroAmount())
				finish(l, raw, f, err, false, 4)
			})
			if !forks.EnforceMASSIP0002WarmUp(uint64(exp.Synced) + 1) {
				holder, _ := massutil.DecodeAddress(wl.Keys[0].Std, config.ChainParams)
				target, _ := massutil.NewAddressPubKeyHash(BindTarget("battery", 20), config.ChainParams)
				l := &tbLine{Kind: "binding", Wallet: name, Coins: coinsNow(), Req: tbReq{Outs: []tbOut{{To: name + ":0", Amt: Unit}}, Subfee: []string{}, Inputs: []string{}, Valid: true}}
				protect(l, func() {
					raw, f, err := w.W.CreateBindingTransaction("", massutil.ZeroAmount(), []*masswallet.BindingOutput{{Holder: holder, BindingTarget: target, Amount: mustAmount(Unit)}})
					finish(l, raw, f, err, false, 5)
				})
			}
		}
	}
	return lines, nil
}

func (w *World) outpointOf(id string) (wire.Hash, uint32, bool) {
	var tx string
	var vout uint32
	for i := len(id) - 1; i >= 0; i-- {
		if id[i] == ':' {
			tx = id[:i]
			fmt.Sscanf(id[i+1:], "%d", &vout)
			break
		}
	}
	m, ok := w.Tx[tx]
	if !ok {
		return wire.Hash{}, 0, false
	}
	return m.TxHash(), vout, true
}

// signAndVerify: wrong passphrase first (must fail and leave no witness), then the right one;
// every input is then run through the consensus script engine against the output it spends.
func (w *World) signAndVerify(l *tbLine, mtx *wire.MsgTx, wallet string, flagIdx int) {
	flag := sigFlags[flagIdx%len(sigFlags)]
	l.Sign.Tried = true
	l.Sign.Flag = flag
	// signable: every input is an unspent, not pending-spent coin of the wallet
	l.Sign.Signable = true
	for _, id := range l.Res.Ins {
		found := false
		for _, c := range l.Coins {
			if c.ID == id {
				found = true
			}
		}
		if !found {
			l.Sign.Signable = false
		}
	}
	before, _ := mtx.Bytes(wire.ID)
	cp := *mtx
	cp.TxIn = nil
	for _, in := range mtx.TxIn {
		c := *in
		cp.TxIn = append(cp.TxIn, &c)
	}
	_, werr := w.W.SignRawTx([]byte("X"+PrivPass(wallet)[1:]), flag, &cp)
	l.Sign.WrongErr = werr != nil
	l.Sign.CachedAfterWrong = w.cachedKeys(wallet)
	for _, in := range cp.TxIn {
		if len(in.Witness) > 0 {
			l.Sign.WrongWitness = true
		}
	}
	signed, rerr := w.W.SignRawTx([]byte(PrivPass(wallet)), flag, mtx)
	l.Sign.CachedAfterRight = w.cachedKeys(wallet)
	if rerr == nil {
		// the same request with one more input that the wallet knows nothing about, placed last
		pf := wire.NewMsgTx()
		for _, in := range mtx.TxIn {
			pf.AddTxIn(wire.NewTxIn(&in.PreviousOutPoint, nil))
			pf.TxIn[len(pf.TxIn)-1].Sequence = in.Sequence
		}
		unknown := wire.Hash(sha256.Sum256([]byte("verif: no such transaction " + wallet)))
		pf.AddTxIn(wire.NewTxIn(wire.NewOutPoint(&unknown, 0), nil))
		for _, o := range mtx.TxOut {
			pf.AddTxOut(wire.NewTxOut(o.Value, o.PkScript))
		}
		pf.LockTime = mtx.LockTime
		_, perr := w.W.SignRawTx([]byte(PrivPass(wallet)), "ALL", pf)
		l.Sign.PartialTried, l.Sign.PartialErr, l.Sign.PartialCached = true, perr != nil, w.cachedKeys(wallet)
	}
	if rerr != nil {
		l.Sign.RightErr = rerr.Error()
		return
	}
	var stx wire.MsgTx
	if err := stx.SetBytes(signed, wire.Packet); err != nil {
		l.Sign.RightErr = "undecodable: " + err.Error()
		return
	}
	after, _ := stx.Bytes(wire.ID)
	l.Sign.SameTx = bytes.Equal(before, after)
	l.Res.Signed = true
	l.Res.Size = int64(len(signed))
	mf, _ := blockchain.CalcMinRequiredTxRelayFee(l.Res.Size, massutil.MinRelayTxFee())
	l.Res.MinFee = mf.IntValue()
	l.Sign.Engine = w.engineOK(&stx)
	// a failed attempt after a successful one must fail all the same
	again := stx
	again.TxIn = nil
	for _, in := range stx.TxIn {
		c := *in
		again.TxIn = append(again.TxIn, &c)
	}
	_, aerr := w.W.SignRawTx([]byte("X"+PrivPass(wallet)[1:]), flag, &again)
	l.Sign.WrongAfterErr = aerr != nil
	// edit an output of the signed transaction and sign again: the new witnesses must fit the new transaction
	l.Sign.ResignOK = true
	if len(stx.TxOut) > 0 && stx.TxOut[0].Value > 2 {
		ed := stx
		ed.TxOut = nil
		for _, o := range stx.TxOut {
			c := *o
			ed.TxOut = append(ed.TxOut, &c)
		}
		ed.TxIn = nil
		for _, in := range stx.TxIn {
			c := *in
			ed.TxIn = append(ed.TxIn, &c)
		}
		ed.TxOut[0].Value--
		rs, err := w.W.SignRawTx([]byte(PrivPass(wallet)), "ALL", &ed)
		var rtx wire.MsgTx
		if err != nil || rtx.SetBytes(rs, wire.Packet) != nil || !w.engineOK(&rtx) {
			l.Sign.ResignOK = false
		}
	}
}

// cachedKeys counts the addresses of the wallet whose private key the keystore holds in memory right now.
func (w *World) cachedKeys(wallet string) int {
	am, err := w.W.VerifKeystoreManager().GetAddrManagerByAccountID(w.Wals[wallet].ID)
	if err != nil {
		return -1
	}
	n := 0
	for _, ma := range am.ManagedAddresses() {
		if ma.PrivKey() != nil {
			n++
		}
	}
	return n
}

// engineOK runs every input through the consensus script engine against the output it spends.
func (w *World) engineOK(stx *wire.MsgTx) bool {
	good := true
	hc := txscript.NewTxSigHashes(stx)
	for i, in := range stx.TxIn {
		name := w.nameOf(in.PreviousOutPoint.Hash.String())
		prev, found := w.Tx[name]
		if !found || int(in.PreviousOutPoint.Index) >= len(prev.TxOut) {
			good = false
			continue
		}
		po := prev.TxOut[in.PreviousOutPoint.Index]
		vm, err := txscript.NewEngine(po.PkScript, stx, i, txscript.StandardVerifyFlags, nil, hc, po.Value)
		if err != nil || vm.Execute() != nil {
			good = false
		}
	}
	return good
}

// ReplayTxBuild replays the history (plain conformance) and, at its end, runs the battery.
func ReplayTxBuild(u *Universe, h History, dir string, seed int64, sweep bool) Result {
	if u.Unit > 0 {
		Unit = u.Unit
	} else {
		Unit = 100000000
	}
	w, err := NewWorld(u, dir, 5)
	if err != nil {
		return Result{OK: false, Step: -1, Err: "setup: " + err.Error()}
	}
	defer w.Close()
	var last *Expect
	for i := range h {
		if err := w.Do(&h[i]); err != nil {
			return Result{OK: false, Step: i, Action: h[i].A, Err: err.Error()}
		}
		if h[i].Exp.Q {
			last = &h[i].Exp
		}
	}
	if last == nil || !h[len(h)-1].Exp.Q {
		return Result{OK: false, Err: "harness: history does not end quiescent"}
	}
	if diffs, err := w.Compare(last); err != nil || len(diffs) > 0 {
		return Result{OK: false, Err: fmt.Sprintf("harness: the ledger already deviates from the specification before the battery (%d diffs, %v)", len(diffs), err)}
	}
	lines, err := w.TxBuildBattery(last, seed, sweep)
	if err != nil {
		return Result{OK: false, Err: err.Error()}
	}
	return Result{OK: true, Compared: len(lines), Lines: lines}
}
