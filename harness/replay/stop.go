package replay

import (
	"fmt"
	"runtime"
	"strings"
	"sync"
	"time"

	"massnet.org/mass-wallet/masswallet"
)

// StopGate parks the handler and the worker at every scheduling point named in
// ntfnshandler.go (verifGate call sites) and releases them one step at a time.
type StopGate struct {
	mu     sync.Mutex
	parked map[string]chan struct{} // goroutine ("H" / "W") -> release channel while parked
	at     map[string]string        // goroutine -> point it is parked at
	events []string
	open   bool
	cond   *sync.Cond
	rec    *freeRecorder // free-running mode: record only (stopfree.go)
}

func newStopGate() *StopGate {
	g := &StopGate{parked: map[string]chan struct{}{}, at: map[string]string{}}
	g.cond = sync.NewCond(&g.mu)
	return g
}

func who(point string) string {
	if strings.HasPrefix(point, "handle.") {
		return "H"
	}
	if strings.HasPrefix(point, "stop.") {
		return "S"
	}
	return "W"
}

func (g *StopGate) hit(point string) {
	if point == "handle.block" || point == "handle.tx" {
		return // scheduling points of the ledger traces (ledgertrace.go); Stop.tla has no action for them
	}
	if g.rec != nil {
		g.rec.log(point, "", "")
		return
	}
	p := who(point)
	g.mu.Lock()
	g.events = append(g.events, point)
	if g.open || p == "S" {
		g.cond.Broadcast()
		g.mu.Unlock()
		return
	}
	ch := make(chan struct{})
	g.parked[p] = ch
	g.at[p] = point
	g.cond.Broadcast()
	g.mu.Unlock()
	<-ch
}

// waitAt waits until goroutine p is parked at one of the points (or any point if none given).
func (g *StopGate) waitAt(p string, d time.Duration, points ...string) (string, bool) {
	deadline := time.Now().Add(d)
	g.mu.Lock()
	defer g.mu.Unlock()
	for {
		if pt, ok := g.at[p]; ok {
			if len(points) == 0 {
				return pt, true
			}
			for _, x := range points {
				if x == pt {
					return pt, true
				}
			}
		}
		if time.Now().After(deadline) {
			return g.at[p], false
		}
		g.mu.Unlock()
		time.Sleep(2 * time.Millisecond)
		g.mu.Lock()
	}
}

func (g *StopGate) release(p string) bool {
	g.mu.Lock()
	ch, ok := g.parked[p]
	delete(g.parked, p)
	delete(g.at, p)
	g.mu.Unlock()
	if ok {
		close(ch)
	}
	return ok
}

func (g *StopGate) openAll() {
	g.mu.Lock()
	g.open = true
	chs := g.parked
	g.parked = map[string]chan struct{}{}
	g.at = map[string]string{}
	g.mu.Unlock()
	for _, ch := range chs {
		close(ch)
	}
}

var (
	stopGatesMu sync.Mutex
	stopGates   = map[*masswallet.NtfnsHandler]*StopGate{}
)

func goroutineDump() string {
	buf := make([]byte, 1<<20)
	n := runtime.Stack(buf, true)
	var keep []string
	for _, g := range strings.Split(string(buf[:n]), "\n\n") {
		if strings.Contains(g, "masswallet.handle") || strings.Contains(g, "masswallet.worker") || strings.Contains(g, "NtfnsHandler).Stop") {
			lines := strings.Split(g, "\n")
			if len(lines) > 9 {
				lines = lines[:9]
			}
			keep = append(keep, strings.Join(lines, "\n"))
		}
	}
	return strings.Join(keep, "\n--\n")
}

// StopSchedule follows one behaviour of spec/Stop.tla (a sequence of its action names) on the real
// goroutines: every model action is realised by releasing the goroutine(s) that perform it from the
// scheduling gate they are parked at, and by waiting until they are parked at the next one.  The
// final state of the behaviour says whether Stop must have returned.
func StopSchedule(u *Universe, actions []string, tasks []string, final string, dir string) (res Result) {
	mustStop := final == "stopped"
	res.OK = true
	w, err := NewWorldGated(u, dir, func(w *World) {
		g := newStopGate()
		stopGatesMu.Lock()
		stopGates[w.H] = g
		stopGatesMu.Unlock()
	})
	if err != nil {
		return Result{OK: false, Step: -1, Err: "setup: " + err.Error()}
	}
	stopGatesMu.Lock()
	g := stopGates[w.H]
	stopGatesMu.Unlock()
	defer func() {
		g.openAll()
		stopGatesMu.Lock()
		delete(stopGates, w.H)
		stopGatesMu.Unlock()
	}()
	bad := func(i int, a, what string) Result {
		return Result{OK: false, Step: i, Action: a, Sig: "stop-schedule", Err: what,
			Diffs: []Diff{{Kind: "schedule-not-followed", What: a, Want: "the goroutines reach the state the model gives", Got: what + "\n" + goroutineDump()}}}
	}
	T := 8 * time.Second
	if _, ok := g.waitAt("H", T, "handle.top"); !ok {
		return Result{OK: false, Err: "harness: handler not parked at start"}
	}
	if _, ok := g.waitAt("W", T, "worker.top"); !ok {
		return Result{OK: false, Err: "harness: worker not parked at start"}
	}
	// queue the tasks of the scenario (API calls; the worker is parked, so they wait in the queue)
	for i, t := range tasks {
		name := fmt.Sprintf("w%d", i+2)
		switch t {
		case "import":
			if err := w.Do(&Step{A: "Import", W: name}); err != nil {
				return Result{OK: false, Err: "harness: " + err.Error()}
			}
		case "remove":
			if err := w.Do(&Step{A: "Remove", W: "w1"}); err != nil {
				return Result{OK: false, Err: "harness: " + err.Error()}
			}
		}
	}
	stopped := make(chan struct{})
	nextBlock := u.Base + 1
	nextWallet := 2 + len(tasks)
	for i, a := range actions {
		switch a {
		case "HBlock":
			blk, err := w.buildBlock(nextBlock, nextBlock-1, nil)
			if err != nil {
				return Result{OK: false, Err: "harness: " + err.Error()}
			}
			nextBlock++
			if err := w.E.Attach(blk); err != nil {
				return Result{OK: false, Err: "harness: " + err.Error()}
			}
			w.H.OnBlockConnected(blk.MsgBlock())
			g.release("H")
			if _, ok := g.waitAt("H", T, "handle.top"); !ok {
				return bad(i, a, "handler did not come back to the top of its loop after a block")
			}
		case "WTake":
			g.release("W")
			if _, ok := g.waitAt("W", T, "worker.suspend"); !ok {
				return bad(i, a, "worker did not reach its suspend request after taking a task")
			}
		case "Suspend":
			g.release("W") // goes on to the blocking send on sigSuspend
			g.release("H") // select: the send is the only ready case (quit not closed in the behaviours that use this)
			if _, ok := g.waitAt("H", T, "handle.suspended"); !ok {
				return bad(i, a, "handler did not take the suspend request")
			}
		case "WSuspendQuit":
			g.release("W")
			if _, ok := g.waitAt("W", T, "worker.resume"); !ok {
				return bad(i, a, "worker blocked on its suspend request although quit is closed (handler gone)")
			}
		case "WUpdate":
			if _, ok := g.waitAt("W", T, "worker.resume"); !ok {
				return bad(i, a, "worker did not finish the round's update")
			}
		case "Resume":
			g.release("W") // send on sigResume
			g.release("H") // parked at handle.suspended: goes on to wait for the resume signal
			if _, ok := g.waitAt("H", T, "handle.resumed"); !ok {
				return bad(i, a, "handler did not take the resume signal")
			}
			g.release("H")
			if _, ok := g.waitAt("H", T, "handle.top"); !ok {
				return bad(i, a, "handler did not return to the top of its loop")
			}
		case "WResumeQuit":
			g.release("W") // the send gives up on quit
			if _, ok := g.waitAt("W", T, "worker.resumed"); !ok {
				return bad(i, a, "worker blocked on its resume request although quit is closed (handler gone)")
			}
		case "HQuitSuspended":
			g.release("H") // parked at handle.suspended; its wait for the resume signal returns on quit
		case "WAfter":
			if _, ok := g.waitAt("W", T, "worker.resumed"); !ok {
				return bad(i, a, "worker is not past its resume request")
			}
			g.release("W")
			if pt, ok := g.waitAt("W", T, "worker.top", "remove.round", "worker.suspend"); !ok {
				return bad(i, a, "worker did not finish the round; parked at "+pt)
			} else if pt == "remove.round" {
				g.release("W")
				if _, ok := g.waitAt("W", T, "worker.suspend", "worker.top"); !ok {
					return bad(i, a, "worker did not start the next removal round")
				}
			}
		case "Accept":
			name := fmt.Sprintf("w%d", nextWallet)
			nextWallet++
			if err := w.Do(&Step{A: "Import", W: name}); err != nil {
				return Result{OK: false, Step: i, Action: a, Sig: "task-refused",
					Diffs: []Diff{{Kind: "task-refused", What: "ImportWalletWithMnemonic " + name, Want: "accepted (fewer than three tasks wait)", Got: err.Error()}}}
			}
		case "SClose":
			go func() { w.W.Stop(); close(stopped) }()
			// Stop has closed quit once it is past its entry gate event
			deadline := time.Now().Add(T)
			for {
				g.mu.Lock()
				n := 0
				for _, e := range g.events {
					if e == "stop.enter" {
						n++
					}
				}
				g.mu.Unlock()
				if n > 0 || time.Now().After(deadline) {
					break
				}
				time.Sleep(time.Millisecond)
			}
			time.Sleep(20 * time.Millisecond)
		case "HQuit":
			// with quit closed the select may still take another ready case first (Go picks at random);
			// any such detour ends back at the top of the loop, where quit is taken eventually
			for n := 0; n < 50; n++ {
				g.release("H")
				if _, again := g.waitAt("H", 300*time.Millisecond, "handle.top"); !again {
					break
				}
			}
		case "WQuit":
			for n := 0; n < 50; n++ {
				g.release("W")
				pt, again := g.waitAt("W", 300*time.Millisecond)
				if !again {
					break
				}
				// the worker took a queued task instead of quit: let it run its round without the handler
				for pt != "worker.top" {
					g.release("W")
					var ok bool
					if pt, ok = g.waitAt("W", T); !ok {
						return bad(i, a, "worker stuck after quit was closed")
					}
				}
			}
		case "SDone":
			select {
			case <-stopped:
			case <-time.After(T):
				return Result{OK: false, Step: i, Action: a, Sig: "stop-hangs",
					Diffs: []Diff{{Kind: "stop-hangs", What: "Stop()", Want: "returns", Got: "still blocked after 8s\n" + goroutineDump()}}}
			}
		default:
			return Result{OK: false, Err: "harness: unknown Stop.tla action " + a}
		}
		res.Compared++
	}
	if final == "idle" {
		// no stop request: every accepted task must have finished
		sums, err := w.W.Wallets()
		if err != nil {
			return Result{OK: false, Err: "harness: " + err.Error()}
		}
		for _, sm := range sums {
			if sm.Status != nil && (!sm.Status.Ready() || sm.Status.IsRemoved()) {
				return Result{OK: false, Step: len(actions), Sig: "task-lost",
					Diffs: []Diff{{Kind: "task-lost", What: sm.WalletID, Want: "the accepted background task finishes", Got: "wallet still not ready after the schedule in which the model finishes every task"}}}
			}
		}
		if countOf(tasks, "remove") == 0 && len(sums) != nextWallet-1 {
			return Result{OK: false, Step: len(actions), Sig: "task-lost",
				Diffs: []Diff{{Kind: "task-lost", What: "Wallets()", Want: fmt.Sprint(1 + nextWallet - 2), Got: fmt.Sprint(len(sums))}}}
		}
	}
	if mustStop {
		select {
		case <-stopped:
		case <-time.After(T):
			return Result{OK: false, Step: len(actions), Sig: "stop-hangs",
				Diffs: []Diff{{Kind: "stop-hangs", What: "Stop()", Want: "returns", Got: "still blocked after 8s\n" + goroutineDump()}}}
		}
		w.down = true // database closed by Stop
		w.E.Close()
	} else if final == "deadlock" {
		// the model ends in a state where Stop can never return: the real goroutines must agree
		select {
		case <-stopped:
			return Result{OK: false, Step: len(actions), Sig: "model-mismatch", Err: "harness: model-mismatch: the model says Stop blocks for ever here, the code returned"}
		case <-time.After(2 * time.Second):
			return Result{OK: false, Step: len(actions), Sig: "stop-hangs",
				Diffs: []Diff{{Kind: "stop-hangs", What: "Stop()", Want: "returns", Got: "blocked for ever (as the as-found model predicts)\n" + goroutineDump()}}}
		}
	}
	return res
}

func countOf(l []string, x string) int {
	n := 0
	for _, y := range l {
		if y == x {
			n++
		}
	}
	return n
}
