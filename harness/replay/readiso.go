package replay

import (
	"encoding/hex"
	"fmt"
	"sort"
	"strings"
	"sync"
	"time"

	"github.com/massnetorg/mass-core/massutil"
	"github.com/massnetorg/mass-core/wire"
	"verif/harness/dbwrap"
)

// Boundary is the view of every ready wallet right after a block step (spec/Gen.tla Boundary).
type Boundary struct {
	Synced int     `json:"synced"`
	Views  ViewMap `json:"views"`
}

type parker struct {
	mu      sync.Mutex
	armed   bool
	at      int64
	n       int64
	parked  chan struct{}
	release chan struct{}
}

func (p *parker) hook(idx int64, kind string) error {
	p.mu.Lock()
	if !p.armed {
		p.mu.Unlock()
		return nil
	}
	p.n++
	if p.at > 0 && p.n == p.at {
		p.armed = false
		p.mu.Unlock()
		close(p.parked)
		<-p.release
		return nil
	}
	p.mu.Unlock()
	return nil
}

func balKey(v UView) string {
	return fmt.Sprintf("total=%d spendable=%d wstaking=%d wbinding=%d", v.Total, v.Spendable, v.WStaking, v.WBinding)
}

func utxoKey(v UView, synced int) string {
	var l []string
	for _, x := range v.Utxos {
		l = append(l, fmt.Sprintf("%s:%d amt=%d h=%d confs=%d", x.Tx, x.Vout, x.Amt, x.H, uint64(synced)-x.H+1))
	}
	sort.Strings(l)
	return strings.Join(l, " ")
}

// ReplayReadIso replays the history up to its final run of block steps, then runs a query
// (WalletBalance / GetUtxo) that is parked at its k-th storage call while the follower commits
// those block steps, and checks that the answer is that of ONE boundary state in between.
func ReplayReadIso(u *Universe, h History, dir string, api string, park int64) (res Result) {
	res.OK = true
	// final run of HandleBlock steps
	j := 0
	for i := len(h) - 1; i >= 0 && h[i].A == "HandleBlock"; i-- {
		j++
	}
	cut := len(h) - j
	if j == 0 || cut == 0 {
		return Result{OK: false, Err: "harness: history has no final run of block steps"}
	}
	// boundary before the run
	var bounds []Boundary
	for i := cut - 1; i >= 0; i-- {
		if h[i].A == "HandleBlock" && h[i].Bnd != nil {
			bounds = append(bounds, *h[i].Bnd)
			break
		}
		if h[i].A != "Extend" && h[i].A != "Fork" && h[i].A != "SwitchTo" {
			break
		}
	}
	if len(bounds) == 0 {
		return Result{OK: false, Err: "harness: no boundary view before the final run"}
	}
	for i := cut; i < len(h); i++ {
		if h[i].Bnd == nil {
			return Result{OK: false, Err: "harness: block step without boundary view"}
		}
		bounds = append(bounds, *h[i].Bnd)
	}
	w, err := NewWorld(u, dir, 5)
	if err != nil {
		return Result{OK: false, Step: -1, Err: "setup: " + err.Error()}
	}
	defer w.Close()
	for i := 0; i < cut; i++ {
		if err := w.Do(&h[i]); err != nil {
			return Result{OK: false, Step: i, Action: h[i].A, Err: "harness: " + err.Error()}
		}
	}
	names := make([]string, 0, len(bounds[0].Views))
	for n := range bounds[0].Views {
		names = append(names, n)
	}
	sort.Strings(names)
	if len(names) == 0 {
		return Result{OK: false, Err: "harness: no ready wallet"}
	}
	name := names[int(park)%len(names)]
	wl := w.Wals[name]
	if _, err := w.W.UseWallet(wl.ID); err != nil {
		return Result{OK: false, Err: "harness: UseWallet: " + err.Error()}
	}
	// what the building call asks for: all ordinary coins of the last boundary but half a unit
	buildAmt := Unit / 2
	if v, ok := bounds[len(bounds)-1].Views[name]; ok {
		var t int64
		for _, x := range v.Utxos {
			if x.Class == "std" || x.Class == "cb" {
				t += x.Amt * Unit
			}
		}
		if t > 0 {
			buildAmt = t - Unit/2
		}
	}
	query := func() (string, error) {
		switch api {
		case "build":
			// a transaction-building call that needs nearly every ordinary coin the wallet has at the LAST
			// boundary, immature ones included (amounts are whole units, so "all but half a unit" is
			// payable exactly when every one of those coins is free and mature); the answer is the set of
			// coins it selected, or "insufficient"
			raw, _, err := w.W.AutoCreateRawTransaction(map[string]massutil.Amount{w.strangerAddr(1): mustAmount(buildAmt)}, 0, mustAmount(0), "", "", nil)
			if err != nil {
				if strings.Contains(strings.ToLower(err.Error()), "insufficient") {
					return "insufficient", nil
				}
				return "", err
			}
			var mtx wire.MsgTx
			b, derr := hex.DecodeString(raw)
			if derr == nil {
				derr = mtx.SetBytes(b, wire.Packet)
			}
			if derr != nil {
				return "", fmt.Errorf("harness: built transaction does not decode: %v", derr)
			}
			w.W.ClearUsedUTXOMark(&mtx)
			var l []string
			for _, in := range mtx.TxIn {
				l = append(l, fmt.Sprintf("%s:%d", w.nameOf(in.PreviousOutPoint.Hash.String()), in.PreviousOutPoint.Index))
			}
			sort.Strings(l)
			return strings.Join(l, " "), nil
		case "balance":
			b, err := w.W.WalletBalance(0, true)
			if err != nil {
				return "", err
			}
			return fmt.Sprintf("total=%d spendable=%d wstaking=%d wbinding=%d", amt(b.Total)/Unit, amt(b.Spendable)/Unit, amt(b.WithdrawableStaking)/Unit, amt(b.WithdrawableBinding)/Unit), nil
		default:
			um, err := w.W.GetUtxo(nil)
			if err != nil {
				return "", err
			}
			var l []string
			seen := map[string]bool{}
			for _, lst := range um {
				for _, d := range lst {
					k := fmt.Sprintf("%s:%d amt=%d h=%d confs=%d", w.nameOf(d.TxId), d.Vout, amt(d.Amount)/Unit, d.BlockHeight, d.Confirmations)
					if !seen[k] {
						seen[k] = true
						l = append(l, k)
					}
				}
			}
			sort.Strings(l)
			return strings.Join(l, " "), nil
		}
	}
	p := &parker{armed: true, at: park, parked: make(chan struct{}), release: make(chan struct{})}
	w.DB.SetHooks(dbwrap.Hooks{OnCall: p.hook})
	type out struct {
		s   string
		err error
	}
	done := make(chan out, 1)
	go func() {
		s, err := query()
		done <- out{s, err}
	}()
	parkedOK := false
	select {
	case <-p.parked:
		parkedOK = true
	case o := <-done:
		// the query has fewer than `park` storage calls: it ran to completion before any commit
		done <- o
	case <-time.After(10 * time.Second):
		return Result{OK: false, Err: "harness: query neither parked nor finished"}
	}
	if parkedOK {
		for i := cut; i < len(h); i++ {
			if err := w.Do(&h[i]); err != nil {
				close(p.release)
				return Result{OK: false, Step: i, Action: h[i].A, Err: "harness: " + err.Error()}
			}
		}
		close(p.release)
	}
	var o out
	select {
	case o = <-done:
	case <-time.After(10 * time.Second):
		return Result{OK: false, Err: "harness: query did not return"}
	}
	w.DB.SetHooks(dbwrap.Hooks{})
	if !parkedOK {
		for i := cut; i < len(h); i++ {
			if err := w.Do(&h[i]); err != nil {
				return Result{OK: false, Step: i, Action: h[i].A, Err: "harness: " + err.Error()}
			}
		}
		return Result{OK: true, Compared: 0, Sig: "query-shorter-than-park-position"}
	}
	if o.err != nil {
		return Result{OK: false, Sig: "query-error", Diffs: []Diff{{Kind: "query-error", Wallet: name, What: api, Want: "an answer", Got: o.err.Error()}}}
	}
	res.Compared = 1
	var wants []string
	for _, b := range bounds {
		v, ok := b.Views[name]
		if !ok {
			continue
		}
		if api == "build" {
			// acceptable at this boundary: every selected coin is a free, mature, ordinary coin of it;
			// or nothing such exists and the call said so
			free := map[string]bool{}
			var freeSum int64
			for _, x := range v.Utxos {
				if (x.Class == "std" || x.Class == "cb") && uint64(b.Synced)+1-x.H >= uint64(x.Mat) && !x.Sbu {
					free[fmt.Sprintf("%s:%d", x.Tx, x.Vout)] = true
					freeSum += x.Amt * Unit
				}
			}
			var fl []string
			for k := range free {
				fl = append(fl, k)
			}
			sort.Strings(fl)
			wants = append(wants, fmt.Sprintf("[height %d] free coins {%s} worth %d, asked %d", b.Synced, strings.Join(fl, " "), freeSum, buildAmt))
			if o.s == "insufficient" {
				if freeSum < buildAmt {
					return res
				}
				continue
			}
			all := o.s != "" && freeSum >= buildAmt
			for _, c := range strings.Fields(o.s) {
				if !free[c] {
					all = false
				}
			}
			if all {
				return res
			}
			continue
		}
		want := balKey(v)
		if api != "balance" {
			want = utxoKey(v, b.Synced)
		}
		wants = append(wants, fmt.Sprintf("[height %d] %s", b.Synced, want))
		if want == o.s {
			return res
		}
	}
	return Result{OK: false, Sig: "query-mixes-boundaries", Compared: 1,
		Diffs: []Diff{{Kind: "query-mixes-boundaries", Wallet: name, What: fmt.Sprintf("%s parked at storage call %d while %d blocks were committed", api, park, j),
			Want: "one of: " + strings.Join(wants, " | "), Got: o.s}}}
}

// CountQueryCalls returns the number of storage calls of the query on the final state of the history.
func CountQueryCalls(u *Universe, h History, dir string, api string) Result {
	w, err := NewWorld(u, dir, 5)
	if err != nil {
		return Result{OK: false, Step: -1, Err: "setup: " + err.Error()}
	}
	defer w.Close()
	for i := range h {
		if err := w.Do(&h[i]); err != nil {
			return Result{OK: false, Step: i, Err: "harness: " + err.Error()}
		}
	}
	max := int64(0)
	for name, wl := range w.Wals {
		_ = name
		if _, err := w.W.UseWallet(wl.ID); err != nil {
			continue
		}
		p := &parker{armed: true}
		w.DB.SetHooks(dbwrap.Hooks{OnCall: p.hook})
		if api == "balance" {
			w.W.WalletBalance(0, true)
		} else {
			w.W.GetUtxo(nil)
		}
		w.DB.SetHooks(dbwrap.Hooks{})
		if p.n > max {
			max = p.n
		}
	}
	return Result{OK: true, Compared: int(max)}
}

// ReplayWriteOverlap: the follower is parked inside the database update of the last block step
// (at its k-th storage call); an API write (NewAddress) is issued meanwhile - it must wait for the
// follower's transaction, neither may lose the other's writes.  The final state must be the
// specification's (ledger after the block step) and the new address must be listed.
func ReplayWriteOverlap(u *Universe, h History, dir string, park int64) (res Result) {
	res.OK = true
	last := len(h) - 1
	if last < 1 || h[last].A != "HandleBlock" || !h[last].Exp.Q {
		return Result{OK: false, Err: "harness: history does not end with a quiescent block step"}
	}
	w, err := NewWorld(u, dir, 50)
	if err != nil {
		return Result{OK: false, Step: -1, Err: "setup: " + err.Error()}
	}
	defer w.Close()
	for i := 0; i < last; i++ {
		if err := w.Do(&h[i]); err != nil {
			return Result{OK: false, Step: i, Action: h[i].A, Err: "harness: " + err.Error()}
		}
	}
	names := make([]string, 0)
	for n := range h[last].Exp.Views {
		names = append(names, n)
	}
	sort.Strings(names)
	if len(names) == 0 {
		return Result{OK: false, Err: "harness: no ready wallet"}
	}
	wl := w.Wals[names[0]]
	if _, err := w.W.UseWallet(wl.ID); err != nil {
		return Result{OK: false, Err: "harness: " + err.Error()}
	}
	p := &parker{armed: true, at: park, parked: make(chan struct{}), release: make(chan struct{})}
	w.DB.SetHooks(dbwrap.Hooks{OnCall: p.hook})
	s := &h[last]
	w.qB = w.qB[1:]
	blk := w.Blk[s.B].MsgBlock()
	w.H.OnBlockConnected(blk)
	select {
	case w.G.release <- struct{}{}:
	case <-time.After(10 * time.Second):
		return Result{OK: false, Err: "harness: handler not parked at its gate"}
	}
	overlapped := false
	type out struct {
		a   string
		err error
	}
	done := make(chan out, 1)
	select {
	case <-p.parked:
		overlapped = true
		go func() {
			a, err := w.W.NewAddress(0)
			done <- out{a, err}
		}()
		time.Sleep(30 * time.Millisecond) // let the API call reach the store's writer lock
		close(p.release)
	case <-w.G.arrived:
		// the block step has fewer storage calls than `park`
		w.G.arrived <- struct{}{}
	}
	if err := w.waitTop(); err != nil {
		return Result{OK: false, Err: "harness: " + err.Error()}
	}
	w.DB.SetHooks(dbwrap.Hooks{})
	if !overlapped {
		return Result{OK: true, Sig: "step-shorter-than-park-position"}
	}
	var o out
	select {
	case o = <-done:
	case <-time.After(10 * time.Second):
		return Result{OK: false, Sig: "api-write-hangs", Diffs: []Diff{{Kind: "api-write-hangs", What: "NewAddress during a block step", Want: "returns", Got: "blocked"}}}
	}
	if o.err != nil {
		return Result{OK: false, Sig: "query-error", Diffs: []Diff{{Kind: "query-error", What: "NewAddress during a block step", Want: "an address", Got: o.err.Error()}}}
	}
	res.Compared = 1
	diffs, err := w.Compare(&s.Exp)
	if err != nil {
		return Result{OK: false, Err: "compare: " + err.Error()}
	}
	// the address issued concurrently must be listed
	if _, err := w.W.UseWallet(wl.ID); err == nil {
		ads, _ := w.W.GetAddresses(0)
		found := false
		for _, a := range ads {
			if a.Address == o.a {
				found = true
			}
		}
		if !found {
			diffs = append(diffs, Diff{Kind: "concurrent-write-lost", Wallet: names[0], What: "address issued while a block step was committing", Want: "listed", Got: "missing"})
		}
	}
	if len(diffs) > 0 {
		for i := range diffs {
			if diffs[i].Kind != "concurrent-write-lost" {
				diffs[i].Kind = "concurrent-write-lost:" + diffs[i].Kind
			}
		}
		return Result{OK: false, Sig: "concurrent-write-lost", Compared: 1, Diffs: diffs}
	}
	return res
}
