// Package env builds a real node-side environment (mass-core chain database on
// memory storage, address indexer, binding state trie, Blockchain objects) and a
// factory for blocks and transactions, so that the real wallet follower can be
// driven by the node's own call sequences without consensus validation.
package env

import (
	"encoding/binary"
	"fmt"
	"os"
	"path/filepath"
	"sync"
	"time"

	"github.com/massnetorg/mass-core/blockchain"
	"github.com/massnetorg/mass-core/blockchain/state"
	coreconfig "github.com/massnetorg/mass-core/config"
	"github.com/massnetorg/mass-core/consensus"
	"github.com/massnetorg/mass-core/database"
	"github.com/massnetorg/mass-core/database/memdb"
	"github.com/massnetorg/mass-core/logging"
	"github.com/massnetorg/mass-core/massutil"
	"github.com/massnetorg/mass-core/netsync"
	"github.com/massnetorg/mass-core/trie/common"
	"github.com/massnetorg/mass-core/trie/rawdb"
	"github.com/massnetorg/mass-core/txscript"
	"github.com/massnetorg/mass-core/wire"
	"github.com/sirupsen/logrus"
	"massnet.org/mass-wallet/config"
)

// Scale holds the consensus parameters a scenario runs with.
type Scale struct {
	CoinbaseMaturity uint64
	MinFrozenPeriod  uint64
	WarmUpHeight     uint64 // MASSIP0002WarmUpHeight: new-style binding from this height on
	BindingLock      uint64 // MASSIP0002BindingLockedPeriod
}

// DefaultScale makes every maturity boundary reachable in a dozen blocks.
var DefaultScale = Scale{CoinbaseMaturity: 3, MinFrozenPeriod: 2, WarmUpHeight: 1 << 40, BindingLock: 3}

var scaleOnce sync.Once

// ApplyScale sets the exported consensus variables. Call before anything else.
func ApplyScale(s Scale) {
	consensus.CoinbaseMaturity = s.CoinbaseMaturity
	consensus.MinFrozenPeriod = s.MinFrozenPeriod
	consensus.MASSIP0002WarmUpHeight = s.WarmUpHeight
	consensus.MASSIP0002Height = s.WarmUpHeight + 1000000
	consensus.MASSIP0002BindingLockedPeriod = s.BindingLock
}

var logOnce sync.Once

// InitLogging sends mass-core logs to dir (otherwise they go to /tmp/tmp-mass.log).
func InitLogging(dir, level string) {
	logOnce.Do(func() {
		logging.Init(dir, "verif", level, 1, true)
	})
}

// Env is one node: chain DB + indexer + binding state.
type Env struct {
	Dir    string
	Params *config.Params
	DB     database.Db
	SDB    state.Database
	AI     *blockchain.AddrIndexer

	mu       sync.Mutex
	first    *blockchain.Blockchain
	cur      *blockchain.Blockchain
	curTip   wire.Hash
	sm       *netsync.SyncManager
	coreCfg  *coreconfig.Config
	Genesis  *massutil.Block
	Blocks   map[wire.Hash]*massutil.Block // every block ever built, by hash
	roots    map[wire.Hash]common.Hash     // binding root after block
	best     []wire.Hash                   // best chain, index = height
	saltCtr  uint64
	chainSeq int
}

// New creates the environment in dir (the process must have chdir'ed to a
// scratch directory: the memory chain DB writes block files to ./blocks).
func New(dir string) (*Env, error) {
	if err := os.MkdirAll(dir, 0700); err != nil {
		return nil, err
	}
	db, err := memdb.NewMemDb()
	if err != nil {
		return nil, err
	}
	gen := massutil.NewBlock(config.ChainParams.GenesisBlock)
	if err := db.InitByGenesisBlock(gen); err != nil {
		return nil, err
	}
	sdb := state.NewDatabase(rawdb.NewMemoryDatabase())
	ai, err := blockchain.NewAddrIndexer(db, sdb)
	if err != nil {
		return nil, err
	}
	e := &Env{
		Dir: dir, Params: config.ChainParams, DB: db, SDB: sdb, AI: ai,
		Genesis: gen,
		Blocks:  map[wire.Hash]*massutil.Block{*gen.Hash(): gen},
		roots:   map[wire.Hash]common.Hash{*gen.Hash(): gen.MsgBlock().Header.BindingRoot},
		best:    []wire.Hash{*gen.Hash()},
	}
	cc := config.NewDefCoreConfig()
	cc.Datastore.Dir = filepath.Join(dir, "chain")
	cc.P2P.VaultMode = true
	os.MkdirAll(cc.Datastore.Dir, 0700)
	e.coreCfg = cc
	if _, err := e.blockchain(); err != nil {
		return nil, err
	}
	return e, nil
}

func (e *Env) newChain() (*blockchain.Blockchain, error) {
	e.chainSeq++
	return blockchain.NewBlockchain(&blockchain.Config{
		DB:             e.DB,
		StateBindingDb: e.SDB,
		ChainParams:    e.Params,
		CachePath:      filepath.Join(e.Dir, fmt.Sprintf("blockcache-%d", e.chainSeq)),
	})
}

func (e *Env) blockchain() (*blockchain.Blockchain, error) {
	e.mu.Lock()
	defer e.mu.Unlock()
	tip := e.best[len(e.best)-1]
	if e.cur != nil && e.curTip == tip {
		return e.cur, nil
	}
	c, err := e.newChain()
	if err != nil {
		return nil, err
	}
	if e.first == nil {
		e.first = c
	}
	e.cur, e.curTip = c, tip
	return c, nil
}

// --- masswallet.Server ---

// Blockchain returns an object whose BestBlockHeight is the DB tip (rebuilt when the tip moved).
func (e *Env) Blockchain() *blockchain.Blockchain {
	c, err := e.blockchain()
	if err != nil {
		panic(err)
	}
	return c
}
func (e *Env) ChainDB() database.Db          { return e.DB }
func (e *Env) TxMemPool() *blockchain.TxPool { return e.first.GetTxPool() }
func (e *Env) SyncManager() *netsync.SyncManager {
	e.mu.Lock()
	defer e.mu.Unlock()
	if e.sm == nil {
		sm, err := netsync.NewSyncManager(e.coreCfg, e.first, e.first.GetTxPool(), make(chan *wire.Hash, 16))
		if err != nil {
			panic(err)
		}
		e.sm = sm
	}
	return e.sm
}

// Close releases the chain DB.
func (e *Env) Close() { e.DB.Close() }

// --- chain operations: the node's own call sequences ---

// BestHeight is the height of the DB tip.
func (e *Env) BestHeight() uint64 { e.mu.Lock(); defer e.mu.Unlock(); return uint64(len(e.best) - 1) }

// BestHash returns the hash at height h of the best chain.
func (e *Env) BestHash(h uint64) wire.Hash { e.mu.Lock(); defer e.mu.Unlock(); return e.best[h] }

// Tip returns the best block.
func (e *Env) Tip() *massutil.Block { e.mu.Lock(); defer e.mu.Unlock(); return e.Blocks[e.best[len(e.best)-1]] }

// OnBest reports whether the block is on the best chain.
func (e *Env) OnBest(h wire.Hash) bool {
	e.mu.Lock()
	defer e.mu.Unlock()
	b, ok := e.Blocks[h]
	return ok && b.Height() < uint64(len(e.best)) && e.best[b.Height()] == h
}

func (e *Env) inputStore(blk *massutil.Block) (blockchain.TxStore, error) {
	store := make(blockchain.TxStore)
	inflight := map[wire.Hash]*massutil.Tx{}
	for _, tx := range blk.Transactions() {
		if !blockchain.IsCoinBase(tx) {
			for _, in := range tx.MsgTx().TxIn {
				h := in.PreviousOutPoint.Hash
				if _, ok := store[h]; ok {
					continue
				}
				if o, ok := inflight[h]; ok {
					store[h] = &blockchain.TxData{Tx: o, Hash: o.Hash(), BlockHeight: blk.Height(), Spent: make([]bool, len(o.MsgTx().TxOut))}
					continue
				}
				reps, err := e.DB.FetchTxBySha(&h)
				if err != nil || len(reps) == 0 {
					return nil, fmt.Errorf("input tx %v not on chain: %v", h, err)
				}
				r := reps[len(reps)-1]
				hh := h
				store[h] = &blockchain.TxData{Tx: massutil.NewTx(r.Tx), Hash: &hh, BlockHeight: r.Height, Spent: r.TxSpent}
			}
		}
		inflight[*tx.Hash()] = tx
	}
	return store, nil
}

// Attach connects blk to the DB tip (SubmitBlock, SyncAttachBlock, Commit) as connectBlock does.
func (e *Env) Attach(blk *massutil.Block) error {
	e.mu.Lock()
	defer e.mu.Unlock()
	tip := e.best[len(e.best)-1]
	if blk.MsgBlock().Header.Previous != tip {
		return fmt.Errorf("attach: block %v does not extend tip", blk.Hash())
	}
	store, err := e.inputStore(blk)
	if err != nil {
		return err
	}
	if err := e.DB.SubmitBlock(blk); err != nil {
		e.DB.Rollback()
		return fmt.Errorf("SubmitBlock: %v", err)
	}
	trie, err := e.SDB.OpenBindingTrie(e.roots[tip])
	if err != nil {
		e.DB.Rollback()
		return fmt.Errorf("OpenBindingTrie: %v", err)
	}
	if err := safely(func() error { return e.AI.SyncAttachBlock(trie, blk, store) }); err != nil {
		e.DB.Rollback()
		return fmt.Errorf("SyncAttachBlock: %v", err)
	}
	root := trie.Hash()
	if _, err := trie.Commit(); err != nil {
		e.DB.Rollback()
		return err
	}
	if err := e.DB.Commit(*blk.Hash()); err != nil {
		e.DB.Rollback()
		return fmt.Errorf("Commit: %v", err)
	}
	e.roots[*blk.Hash()] = root
	e.best = append(e.best, *blk.Hash())
	return nil
}

// Detach disconnects the DB tip (DeleteBlock, SyncDetachBlock, Commit) as disconnectBlock does.
func (e *Env) Detach() error {
	e.mu.Lock()
	defer e.mu.Unlock()
	if len(e.best) <= 1 {
		return fmt.Errorf("detach genesis")
	}
	tip := e.best[len(e.best)-1]
	blk := e.Blocks[tip]
	if err := e.DB.DeleteBlock(&tip); err != nil {
		return fmt.Errorf("DeleteBlock: %v", err)
	}
	if err := safely(func() error { return e.AI.SyncDetachBlock(blk) }); err != nil {
		return fmt.Errorf("SyncDetachBlock: %v", err)
	}
	if err := e.DB.Commit(tip); err != nil {
		return fmt.Errorf("Commit: %v", err)
	}
	e.best = e.best[:len(e.best)-1]
	return nil
}

// SwitchTo reorganises the DB to the branch ending in tip (already built with MakeBlock).
// step, if not nil, is called after every single detach/attach (intermediate DB states).
func (e *Env) SwitchTo(tip wire.Hash, step func()) error {
	var path []*massutil.Block
	e.mu.Lock()
	cur := tip
	for {
		b, ok := e.Blocks[cur]
		if !ok {
			e.mu.Unlock()
			return fmt.Errorf("unknown block %v", cur)
		}
		if b.Height() < uint64(len(e.best)) && e.best[b.Height()] == cur {
			break
		}
		path = append([]*massutil.Block{b}, path...)
		cur = b.MsgBlock().Header.Previous
	}
	forkH := e.Blocks[cur].Height()
	n := uint64(len(e.best)-1) - forkH
	e.mu.Unlock()
	for i := uint64(0); i < n; i++ {
		if err := e.Detach(); err != nil {
			return err
		}
		if step != nil {
			step()
		}
	}
	for _, b := range path {
		if err := e.Attach(b); err != nil {
			return err
		}
		if step != nil {
			step()
		}
	}
	return nil
}

// MakeBlock builds a block on parent with the given non-coinbase transactions
// (coinbase first). salt distinguishes siblings. No proof, no validation.
func (e *Env) MakeBlock(parent wire.Hash, coinbase *wire.MsgTx, txs []*wire.MsgTx) *massutil.Block {
	e.mu.Lock()
	defer e.mu.Unlock()
	p := e.Blocks[parent]
	hdr := e.Genesis.MsgBlock().Header // copy
	hdr.Height = p.Height() + 1
	hdr.Previous = parent
	e.saltCtr++
	hdr.Timestamp = p.MsgBlock().Header.Timestamp.Add(time.Duration(30+e.saltCtr) * time.Second)
	hdr.BindingRoot = common.Hash{}
	mb := wire.NewEmptyMsgBlock()
	mb.Header = hdr
	mb.Proposals = e.Genesis.MsgBlock().Proposals
	mb.AddTransaction(coinbase)
	for _, t := range txs {
		mb.AddTransaction(t)
	}
	blk := massutil.NewBlock(mb)
	blk.SetHeight(hdr.Height)
	e.Blocks[*blk.Hash()] = blk
	return blk
}

// StrangerScript returns a standard witness-v0 script of a hash nobody owns.
func StrangerScript(uniq uint64) []byte {
	var h [32]byte
	binary.LittleEndian.PutUint64(h[:8], uniq)
	copy(h[8:], "stranger-script-hash....")
	s, err := txscript.PayToWitnessScriptHashScript(h[:])
	if err != nil {
		panic(err)
	}
	return s
}

// Coinbase builds a coinbase paying value to pkScript (nil script: a unique stranger script).
func (e *Env) Coinbase(height uint64, pkScript []byte, value int64, uniq uint64) *wire.MsgTx {
	tx := wire.NewMsgTx()
	var w [16]byte
	binary.LittleEndian.PutUint64(w[:8], height)
	binary.LittleEndian.PutUint64(w[8:], uniq)
	in := wire.NewTxIn(wire.NewOutPoint(&wire.Hash{}, wire.MaxPrevOutIndex), wire.TxWitness{w[:]})
	tx.AddTxIn(in)
	if pkScript == nil {
		pkScript = StrangerScript(uniq)
	}
	tx.AddTxOut(wire.NewTxOut(value, pkScript))
	tx.SetPayload(w[:])
	return tx
}

// safely turns mass-core's PANIC-level log (a panic carrying a *logrus.Entry) into an error.
func safely(f func() error) (err error) {
	defer func() {
		if r := recover(); r != nil {
			if en, ok := r.(*logrus.Entry); ok {
				err = fmt.Errorf("panic: %s %v", en.Message, en.Data)
			} else {
				err = fmt.Errorf("panic: %v", r)
			}
		}
	}()
	return f()
}

// Root returns the binding-state root after the given block.
func (e *Env) Root(h wire.Hash) common.Hash { e.mu.Lock(); defer e.mu.Unlock(); return e.roots[h] }
