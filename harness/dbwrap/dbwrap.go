// Package dbwrap wraps the wallet database (mwdb.DB) handed to
// NewWalletManager.  It sees every storage call, so it can count commits,
// freeze an instance after commit k and snapshot its directory (the image a
// kill -9 right after that commit would leave), make the j-th storage call
// fail, park a goroutine at a chosen call, and log one event per commit.
package dbwrap

import (
	"errors"
	"sync"
	"sync/atomic"

	mwdb "massnet.org/mass-wallet/masswallet/db"
)

// ErrInjected is the error returned by an injected storage fault.
var ErrInjected = errors.New("verif: injected storage fault")

// ErrFrozen is returned by every call after the instance was frozen (crashed).
var ErrFrozen = errors.New("verif: instance frozen (crashed)")

// Hooks are optional callbacks; all may be nil.
type Hooks struct {
	// BeforeCommit is called inside a write transaction right before the inner
	// commit, while the store's writer lock is still held; n is the 1-based
	// commit sequence number.
	BeforeCommit func(n int64, tx mwdb.DBTransaction)
	// AfterCommit is called after the inner commit returned err.
	AfterCommit func(n int64, err error)
	// OnCall is called for every storage call with its 1-based index and kind
	// (begin, beginread, get, put, delete, clear, prefix, iter, commit, rollback,
	// bucket); returning an error makes that call fail.
	OnCall func(idx int64, kind string) error
}

// DB is the wrapper.
type DB struct {
	inner   mwdb.DB
	mu      sync.Mutex
	hooks   Hooks
	commits int64
	calls   int64
	frozen  int32
}

func Wrap(inner mwdb.DB) *DB { return &DB{inner: inner} }

func (d *DB) SetHooks(h Hooks) { d.mu.Lock(); d.hooks = h; d.mu.Unlock() }
func (d *DB) getHooks() Hooks  { d.mu.Lock(); defer d.mu.Unlock(); return d.hooks }
func (d *DB) Commits() int64   { return atomic.LoadInt64(&d.commits) }
func (d *DB) Calls() int64     { return atomic.LoadInt64(&d.calls) }
func (d *DB) ResetCalls()      { atomic.StoreInt64(&d.calls, 0) }
func (d *DB) Inner() mwdb.DB   { return d.inner }

// Freeze makes every later call fail: the instance is dead as far as storage goes.
func (d *DB) Freeze()        { atomic.StoreInt32(&d.frozen, 1) }
func (d *DB) Frozen() bool   { return atomic.LoadInt32(&d.frozen) == 1 }

func (d *DB) call(kind string) error {
	// a frozen (crashed) instance can no longer change the database; reads of its
	// abandoned goroutines are harmless and keep them from tripping over nil state
	if d.Frozen() && (kind == "begin" || kind == "commit") {
		return ErrFrozen
	}
	idx := atomic.AddInt64(&d.calls, 1)
	if f := d.getHooks().OnCall; f != nil {
		return f(idx, kind)
	}
	return nil
}

func (d *DB) Close() error {
	if d.Frozen() {
		return d.inner.Close()
	}
	return d.inner.Close()
}

func (d *DB) BeginTx() (mwdb.DBTransaction, error) {
	if err := d.call("begin"); err != nil {
		return nil, err
	}
	t, err := d.inner.BeginTx()
	if err != nil {
		return nil, err
	}
	return &wtx{d: d, inner: t}, nil
}

func (d *DB) BeginReadTx() (mwdb.ReadTransaction, error) {
	if err := d.call("beginread"); err != nil {
		return nil, err
	}
	t, err := d.inner.BeginReadTx()
	if err != nil {
		return nil, err
	}
	return &rtx{d: d, inner: t}, nil
}

type wtx struct {
	d     *DB
	inner mwdb.DBTransaction
}

func (t *wtx) Commit() error {
	if err := t.d.call("commit"); err != nil {
		_ = t.inner.Rollback()
		return err
	}
	n := atomic.AddInt64(&t.d.commits, 1)
	h := t.d.getHooks()
	if h.BeforeCommit != nil {
		h.BeforeCommit(n, t.inner)
	}
	if t.d.Frozen() {
		_ = t.inner.Rollback()
		return ErrFrozen
	}
	err := t.inner.Commit()
	if h.AfterCommit != nil {
		h.AfterCommit(n, err)
	}
	return err
}
func (t *wtx) Rollback() error { _ = t.d.call("rollback"); return t.inner.Rollback() }
func (t *wtx) TopLevelBucket(name string) mwdb.Bucket {
	return wrapBucket(t.d, t.inner.TopLevelBucket(name))
}
func (t *wtx) BucketNames() ([]string, error) {
	if err := t.d.call("bucket"); err != nil {
		return nil, err
	}
	return t.inner.BucketNames()
}
func (t *wtx) FetchBucket(meta mwdb.BucketMeta) mwdb.Bucket {
	return wrapBucket(t.d, t.inner.FetchBucket(meta))
}
func (t *wtx) CreateTopLevelBucket(name string) (mwdb.Bucket, error) {
	if err := t.d.call("bucket"); err != nil {
		return nil, err
	}
	b, err := t.inner.CreateTopLevelBucket(name)
	if err != nil {
		return nil, err
	}
	return wrapBucket(t.d, b), nil
}
func (t *wtx) DeleteTopLevelBucket(name string) error {
	if err := t.d.call("bucket"); err != nil {
		return err
	}
	return t.inner.DeleteTopLevelBucket(name)
}

type rtx struct {
	d     *DB
	inner mwdb.ReadTransaction
}

func (t *rtx) TopLevelBucket(name string) mwdb.Bucket {
	return wrapBucket(t.d, t.inner.TopLevelBucket(name))
}
func (t *rtx) FetchBucket(meta mwdb.BucketMeta) mwdb.Bucket {
	return wrapBucket(t.d, t.inner.FetchBucket(meta))
}
func (t *rtx) BucketNames() ([]string, error) {
	if err := t.d.call("bucket"); err != nil {
		return nil, err
	}
	return t.inner.BucketNames()
}
func (t *rtx) Rollback() error { return t.inner.Rollback() }

type bucket struct {
	d     *DB
	inner mwdb.Bucket
}

func wrapBucket(d *DB, b mwdb.Bucket) mwdb.Bucket {
	if b == nil {
		return nil
	}
	return &bucket{d: d, inner: b}
}

func (b *bucket) NewBucket(name string) (mwdb.Bucket, error) {
	if err := b.d.call("bucket"); err != nil {
		return nil, err
	}
	n, err := b.inner.NewBucket(name)
	if err != nil {
		return nil, err
	}
	return wrapBucket(b.d, n), nil
}
func (b *bucket) Bucket(name string) mwdb.Bucket { return wrapBucket(b.d, b.inner.Bucket(name)) }
func (b *bucket) BucketNames() ([]string, error) {
	if err := b.d.call("bucket"); err != nil {
		return nil, err
	}
	return b.inner.BucketNames()
}
func (b *bucket) DeleteBucket(name string) error {
	if err := b.d.call("bucket"); err != nil {
		return err
	}
	return b.inner.DeleteBucket(name)
}
func (b *bucket) Put(key, value []byte) error {
	if err := b.d.call("put"); err != nil {
		return err
	}
	return b.inner.Put(key, value)
}
func (b *bucket) Delete(key []byte) error {
	if err := b.d.call("delete"); err != nil {
		return err
	}
	return b.inner.Delete(key)
}
func (b *bucket) Get(key []byte) ([]byte, error) {
	if err := b.d.call("get"); err != nil {
		return nil, err
	}
	return b.inner.Get(key)
}
func (b *bucket) Clear() error {
	if err := b.d.call("clear"); err != nil {
		return err
	}
	return b.inner.Clear()
}
func (b *bucket) GetByPrefix(p []byte) ([]*mwdb.Entry, error) {
	if err := b.d.call("prefix"); err != nil {
		return nil, err
	}
	return b.inner.GetByPrefix(p)
}
func (b *bucket) GetBucketMeta() mwdb.BucketMeta { return b.inner.GetBucketMeta() }
func (b *bucket) NewIterator(slice *mwdb.Range) mwdb.Iterator {
	if err := b.d.call("iter"); err != nil {
		return &errIter{err: err}
	}
	return b.inner.NewIterator(slice)
}

type errIter struct{ err error }

func (e *errIter) Release()             {}
func (e *errIter) Error() error         { return e.err }
func (e *errIter) Seek(key []byte) bool { return false }
func (e *errIter) Next() bool           { return false }
func (e *errIter) Key() []byte          { return nil }
func (e *errIter) Value() []byte        { return nil }
