// Command api evaluates the wallet API and the chain follower on the cases that TLC
// enumerated from spec/Api.tla (state class x method x argument shape, chain events, start-up
// faults) and records one ndjson trace line per case for spec/ApiTrace.tla.
//
//	api -plan cases.ndjson -out trace.ndjson -scratch dir [-procs n]     supervisor (default)
//	api -child -plan group.ndjson -skip k -scratch dir                    one child process per
//	                                                                      (state class, kind) group
//
// Every group runs in its own process: a panic inside a follower goroutine ends the process
// through mass-core's FATAL log, a panic of the calling goroutine is recovered and recorded,
// after which the child is replaced.  The supervisor writes the "died" lines.  Nothing is judged here.
package main

import (
	"bufio"
	"encoding/json"
	"flag"
	"fmt"
	"os"
	"path/filepath"
	"time"

	"verif/harness/apilib"
	"verif/harness/env"
)

func readPlan(p string) ([]apilib.Case, error) {
	f, err := os.Open(p)
	if err != nil {
		return nil, err
	}
	defer f.Close()
	sc := bufio.NewScanner(f)
	sc.Buffer(make([]byte, 1<<20), 64<<20)
	var out []apilib.Case
	for sc.Scan() {
		if len(sc.Bytes()) == 0 {
			continue
		}
		var c apilib.Case
		if err := json.Unmarshal(sc.Bytes(), &c); err != nil {
			return nil, fmt.Errorf("plan line %d: %v", len(out)+1, err)
		}
		out = append(out, c)
	}
	return out, sc.Err()
}

func main() {
	child := flag.Bool("child", false, "run one group in this process")
	plan := flag.String("plan", "", "plan file (ndjson of cases)")
	outp := flag.String("out", "", "trace file for spec/ApiTrace.tla (supervisor)")
	fullp := flag.String("full", "", "the same lines with diagnostics (messages, panic values, stacks, log tails)")
	scratch := flag.String("scratch", "", "scratch directory")
	skip := flag.Int("skip", 0, "child: cases already done")
	procs := flag.Int("procs", 16, "supervisor: concurrent children")
	markerEvery := flag.Int("marker-every", 0, "deliver a marker block after every n calls (0: only at the end)")
	timeout := flag.Int("call-timeout", 20, "seconds the harness waits for one answer")
	bigIndex := flag.Uint("big-index", 4000000, "derivation index of the 'big' import shapes")
	logLevel := flag.String("log", "error", "mass-core log level")
	flag.Parse()
	apilib.CallTimeout = time.Duration(*timeout) * time.Second
	apilib.BigIndex = uint32(*bigIndex)
	cases, err := readPlan(*plan)
	if err != nil {
		fmt.Fprintln(os.Stderr, "api:", err)
		os.Exit(2)
	}
	if *child {
		env.InitLogging(filepath.Join(*scratch, "logs"), *logLevel)
		os.Exit(apilib.Child(cases, *skip, *scratch, os.Stdout, *markerEvery))
	}
	self, err := os.Executable()
	if err != nil {
		fmt.Fprintln(os.Stderr, "api:", err)
		os.Exit(2)
	}
	f, err := os.Create(*outp)
	if err != nil {
		fmt.Fprintln(os.Stderr, "api:", err)
		os.Exit(2)
	}
	bw := bufio.NewWriter(f)
	if *fullp == "" {
		*fullp = *outp + ".full"
	}
	ff, err := os.Create(*fullp)
	if err != nil {
		fmt.Fprintln(os.Stderr, "api:", err)
		os.Exit(2)
	}
	fw := bufio.NewWriter(ff)
	infra := apilib.Supervise(self, cases, *scratch, bw, fw, *procs, *markerEvery, *logLevel)
	bw.Flush()
	fw.Flush()
	f.Close()
	ff.Close()
	for _, s := range infra {
		fmt.Println("INFRA", s)
	}
	fmt.Printf("EVALUATED %d\n", len(cases))
	if len(infra) > 0 {
		os.Exit(3)
	}
}
