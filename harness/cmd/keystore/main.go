// Command keystore replays operation sequences of spec/Keystore.tla (properties C04, C05) on real
// WalletManager instances and records one ndjson line per operation for spec/KeystoreTrace.tla.
//
//	keystore -jobs jobs.jsonl -from a -to b -scratch dir -trace out.ndjson
//
// prints "BEGIN i" before and "RESULT json" after each job (bin/vlib.py run_children protocol).
// A panic inside the wallet's goroutines ends the process through mass-core's FATAL log; the
// parent sees which job was running from the BEGIN line.
package main

import (
	"bufio"
	"encoding/json"
	"flag"
	"fmt"
	"os"
	"path/filepath"
	"runtime/debug"
	"strings"

	"verif/harness/env"
	"verif/harness/keystorelib"
)

func main() {
	jobs := flag.String("jobs", "", "jobs file (one JSON object per line)")
	from := flag.Int("from", 0, "first job index")
	to := flag.Int("to", -1, "end job index (exclusive)")
	scratch := flag.String("scratch", "", "scratch directory")
	trace := flag.String("trace", "", "ndjson trace file to write")
	keep := flag.Bool("keep", false, "keep the instance directories")
	logLevel := flag.String("log", "error", "mass-core log level")
	flag.Parse()
	if *scratch == "" || *trace == "" {
		fatal(fmt.Errorf("-scratch and -trace are required"))
	}
	env.InitLogging(filepath.Join(*scratch, "logs"), *logLevel)
	f, err := os.Open(*jobs)
	if err != nil {
		fatal(err)
	}
	defer f.Close()
	tf, err := os.Create(*trace)
	if err != nil {
		fatal(err)
	}
	defer tf.Close()
	sc := bufio.NewScanner(f)
	sc.Buffer(make([]byte, 1<<20), 256<<20)
	out := bufio.NewWriter(os.Stdout)
	defer out.Flush()
	i := -1
	for sc.Scan() {
		i++
		if i < *from || (*to >= 0 && i >= *to) {
			continue
		}
		var j keystorelib.Job
		if err := json.Unmarshal(sc.Bytes(), &j); err != nil {
			fatal(fmt.Errorf("job %d: %v", i, err))
		}
		fmt.Fprintf(out, "BEGIN %d\n", i)
		out.Flush()
		dir := filepath.Join(*scratch, fmt.Sprintf("j%d", i))
		res := runJob(&j, dir, tf)
		res.Index = i
		if !*keep {
			os.Chdir(*scratch)
			os.RemoveAll(dir)
		}
		b, _ := json.Marshal(res)
		fmt.Fprintf(out, "RESULT %s\n", b)
		out.Flush()
	}
}

func runJob(j *keystorelib.Job, dir string, tf *os.File) (res keystorelib.Result) {
	res.ID = j.ID
	var d *keystorelib.Driver
	defer func() {
		if r := recover(); r != nil {
			res.OK = false
			res.Err = fmt.Sprintf("panic: %v\n%s", r, tail(string(debug.Stack()), 1800))
		}
		if d != nil {
			res.Lines, res.Ops, res.Pass, res.Mn = d.Lines, d.Ops, d.Pass, d.Mn
			func() {
				defer func() { recover() }()
				d.Close()
			}()
		}
	}()
	emit := func(l *keystorelib.Line) {
		b, err := json.Marshal(l)
		if err != nil {
			panic(err)
		}
		tf.Write(append(b, '\n'))
	}
	var err error
	d, err = keystorelib.NewDriver(j, dir, emit)
	if err != nil {
		res.Err = "setup: " + err.Error()
		return
	}
	if err := d.Run(); err != nil {
		res.Err = err.Error()
		// a dead instance was recorded as the failed restart it is, and a history whose next operation has lost
		// its precondition (because an earlier one was not answered as demanded) ends there: the trace is complete
		// as far as it goes (the caller demands a deviation in every such trace)
		if strings.Contains(err.Error(), "dead-instance:") || strings.Contains(err.Error(), "cut:") {
			res.OK, res.Cut = true, err.Error()
		}
		return
	}
	res.OK = true
	return
}

func tail(s string, n int) string {
	if len(s) > n {
		return s[len(s)-n:]
	}
	return s
}

func fatal(err error) {
	fmt.Fprintln(os.Stderr, "keystore:", err)
	os.Exit(2)
}
