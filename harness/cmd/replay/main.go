// Command replay reads a jobs file (one JSON object per line: universe "u",
// history "h", options) and replays jobs [from, to) in fresh worlds, printing
// "BEGIN i" before and "RESULT json" after each.  A follower panic ends the
// process through mass-core's FATAL log; the driver sees which job was running
// from the BEGIN line and restarts after it.
package main

import (
	"bufio"
	"encoding/json"
	"flag"
	"fmt"
	"os"
	"path/filepath"

	"verif/harness/env"
	"verif/harness/replay"
)

type job struct {
	U    replay.Universe `json:"u"`
	H    replay.History  `json:"h"`
	Mode string          `json:"mode"`
	Opt  replay.Options  `json:"opt"`
}

func main() {
	jobs := flag.String("jobs", "", "jobs file (one JSON object per line)")
	from := flag.Int("from", 0, "first job index")
	to := flag.Int("to", -1, "end job index (exclusive)")
	scratch := flag.String("scratch", "", "scratch directory")
	keep := flag.Bool("keep", false, "keep world directories")
	logLevel := flag.String("log", "error", "mass-core log level")
	flag.Parse()
	env.InitLogging(filepath.Join(*scratch, "logs"), *logLevel)
	f, err := os.Open(*jobs)
	if err != nil {
		fatal(err)
	}
	defer f.Close()
	sc := bufio.NewScanner(f)
	sc.Buffer(make([]byte, 1<<20), 256<<20)
	out := bufio.NewWriter(os.Stdout)
	defer out.Flush()
	i := -1
	for sc.Scan() {
		i++
		if i < *from || (*to >= 0 && i >= *to) {
			continue
		}
		var j job
		if err := json.Unmarshal(sc.Bytes(), &j); err != nil {
			fatal(fmt.Errorf("job %d: %v", i, err))
		}
		fmt.Fprintf(out, "BEGIN %d\n", i)
		out.Flush()
		dir := filepath.Join(*scratch, fmt.Sprintf("w%d", i))
		res := replay.Run(&j.U, j.H, dir, j.Mode, j.Opt)
		res.Index = i
		if !*keep {
			os.Chdir(*scratch)
			os.RemoveAll(dir)
		}
		b, _ := json.Marshal(res)
		fmt.Fprintf(out, "RESULT %s\n", b)
		out.Flush()
	}
}

func fatal(err error) {
	fmt.Fprintln(os.Stderr, "replay:", err)
	os.Exit(2)
}
