// Command bip39 is the C13 harness (mnemonic encoding is exactly BIP-39).
//
// It decides nothing.  Its jobs:
//
//	cs    add to every entropy the first byte of its SHA-256 (trusted primitive) and append
//	      seeded random entropies with seeded random mutation descriptors (pure structure;
//	      spec/Bip39Mut.tla applies them);
//	eval  spell every case (atoms -> string), call the implementation
//	      (masswallet/keystore: NewMnemonic, EntropyFromMnemonic, MnemonicToByteArray,
//	      IsMnemonicValid, NewSeedWithErrorChecking, NewSeed), evaluate the trusted primitives
//	      the specification asks for (SHA-256 of the bytes the SPEC names, PBKDF2-HMAC-SHA512 by
//	      an own loop over crypto/hmac, Unicode NFKD of the passphrase) and write everything as
//	      ndjson trace lines which spec/Bip39Trace.tla judges.
package main

import (
	"bufio"
	"encoding/hex"
	"encoding/json"
	"flag"
	"fmt"
	"math/rand"
	"os"
	"runtime"
	"strings"
	"sync"
	"unicode/utf8"

	"golang.org/x/text/unicode/norm"

	"massnet.org/mass-wallet/masswallet/keystore"
	"massnet.org/mass-wallet/masswallet/keystore/wordlists"
	"verif/harness/bip39lib"
)

func die(code int, f string, a ...interface{}) {
	fmt.Fprintf(os.Stderr, "bip39: "+f+"\n", a...)
	os.Exit(code)
}

// ---------------------------------------------------------------- records

type Op struct {
	Op string `json:"op"`
	A  int    `json:"a"`
	B  int    `json:"b"`
	F  string `json:"f"`
}
type Lay struct {
	Lead  []string `json:"lead"`
	B1    []string `json:"b1"`
	B2    []string `json:"b2"`
	Trail []string `json:"trail"`
}
type Desc struct {
	Name string `json:"name"`
	Ops  []Op   `json:"ops"`
	Lay  Lay    `json:"lay"`
}
type EntRec struct {
	Name  string `json:"name"`
	Ent   []int  `json:"ent"`
	Cs    int    `json:"cs"`
	Plan  string `json:"plan"`
	Sweep bool   `json:"sweep"`
	Descs []Desc `json:"descs"`
}
type Case struct {
	Src     string          `json:"src"`
	Mut     string          `json:"mut"`
	Ent     []int           `json:"ent"`
	Cs      int             `json:"cs"`
	Atoms   []bip39lib.Atom `json:"atoms"`
	Hin     []int           `json:"hin"`
	PassHex *string         `json:"pass_hex,omitempty"` // replay: use exactly this passphrase
}

type EncObs struct {
	Run   bool   `json:"run"`
	Ok    bool   `json:"ok"`
	Text  string `json:"text"`
	Panic bool   `json:"panic"`
}
type DecObs struct {
	Ok    bool  `json:"ok"`
	Ent   []int `json:"ent"`
	Panic bool  `json:"panic"`
}
type FullObs struct {
	Ok    bool   `json:"ok"`
	Hex   string `json:"hex"`
	Panic bool   `json:"panic"`
}
type ValidObs struct {
	V     bool `json:"v"`
	Panic bool `json:"panic"`
}
type SeedObs struct {
	Ok    bool   `json:"ok"`
	Hex   string `json:"hex"`
	Panic bool   `json:"panic"`
}
type NSeedObs struct {
	Hex   string `json:"hex"`
	Panic bool   `json:"panic"`
}
type Kdf struct {
	Cn string `json:"cn"`
	Cr string `json:"cr"`
	Rn string `json:"rn"`
	Rr string `json:"rr"`
}
type Line struct {
	ID      int             `json:"id"`
	Src     string          `json:"src"`
	Mut     string          `json:"mut"`
	Ent     []int           `json:"ent"`
	Cs      int             `json:"cs"`
	Atoms   []bip39lib.Atom `json:"atoms"`
	Hin     []int           `json:"hin"`
	H       int             `json:"h"`
	Text    string          `json:"text"`
	Canon   string          `json:"canon"`
	Pass    string          `json:"pass"`
	PassHex string          `json:"pass_hex"`
	NfkdHex string          `json:"nfkd_hex"`
	Wl      string          `json:"wl"`
	Enc     EncObs          `json:"enc"`
	Efm     DecObs          `json:"efm"`
	Raw     DecObs          `json:"raw"`
	Full    FullObs         `json:"full"`
	Valid   ValidObs        `json:"valid"`
	Seed    SeedObs         `json:"seed"`
	NSeed   NSeedObs        `json:"nseed"`
	Kdf     Kdf             `json:"kdf"`
	Panics  []string        `json:"panics"`
}

func ints(b []byte) []int {
	out := make([]int, len(b))
	for i, x := range b {
		out[i] = int(x)
	}
	return out
}
func bytesOf(v []int) []byte {
	out := make([]byte, len(v))
	for i, x := range v {
		out[i] = byte(x)
	}
	return out
}

// asciiJSON marshals v with every non-ASCII rune written as a \u escape (TLC's I/O is not UTF-8 clean).
func asciiJSON(v interface{}) []byte {
	raw, err := json.Marshal(v)
	if err != nil {
		die(3, "marshal: %v", err)
	}
	var b strings.Builder
	for len(raw) > 0 {
		r, n := utf8.DecodeRune(raw)
		raw = raw[n:]
		switch {
		case r < 0x80:
			b.WriteByte(byte(r))
		case r < 0x10000:
			fmt.Fprintf(&b, "\\u%04x", r)
		default:
			r -= 0x10000
			fmt.Fprintf(&b, "\\u%04x\\u%04x", 0xd800+(r>>10), 0xdc00+(r&0x3ff))
		}
	}
	return []byte(b.String())
}

func readLines(path string, each func([]byte)) {
	f, err := os.Open(path)
	if err != nil {
		die(3, "%v", err)
	}
	defer f.Close()
	sc := bufio.NewScanner(f)
	sc.Buffer(make([]byte, 1<<20), 1<<26)
	for sc.Scan() {
		if len(strings.TrimSpace(sc.Text())) == 0 {
			continue
		}
		each(append([]byte(nil), sc.Bytes()...))
	}
	if err := sc.Err(); err != nil {
		die(3, "%v", err)
	}
}

// ---------------------------------------------------------------- mode cs

var sepKinds = []string{"sp", "tab", "lf", "cr", "vt", "ff", "nel", "nbsp", "emsp", "ideo"}
var garbageKinds = []string{"zzzz", "suffix", "digit", "joined", "dash"}
var nearForms = []string{"upper", "cap"}
var legalWords = []int{12, 15, 18, 21, 24}

func randSeps(r *rand.Rand, min int) []string {
	n := min
	for r.Intn(3) == 0 {
		n++
	}
	out := make([]string, 0, n)
	for i := 0; i < n; i++ {
		if r.Intn(5) == 0 {
			out = append(out, sepKinds[r.Intn(len(sepKinds))])
		} else {
			out = append(out, "sp")
		}
	}
	return out
}

// randDesc draws one mutation descriptor for a sentence of n words: pure structure, no arithmetic.
func randDesc(r *rand.Rand, n int, serial int) Desc {
	d := Desc{Ops: []Op{}, Lay: Lay{Lead: []string{}, B1: []string{"sp"}, B2: []string{"sp"}, Trail: []string{}}}
	var parts []string
	nops := r.Intn(4)
	cur := n
	for i := 0; i < nops; i++ {
		pos := 1
		if cur > 0 {
			pos = 1 + r.Intn(cur)
		}
		var o Op
		switch r.Intn(11) {
		case 0, 1, 2:
			o = Op{Op: "subst", A: pos, B: 1 + r.Intn(2047)}
		case 3:
			o = Op{Op: "set", A: pos, B: r.Intn(2048)}
		case 4:
			q := 1
			if cur > 0 {
				q = 1 + r.Intn(cur)
			}
			o = Op{Op: "swap", A: pos, B: q}
		case 5:
			if r.Intn(2) == 0 {
				o = Op{Op: "rev"}
			} else {
				o = Op{Op: "rot", A: 1 + r.Intn(5)}
			}
		case 6:
			// truncation, biased to legal lengths
			m := r.Intn(cur + 1)
			if r.Intn(2) == 0 {
				m = legalWords[r.Intn(len(legalWords))]
				if m > cur {
					m = cur
				}
			}
			if r.Intn(2) == 0 {
				o = Op{Op: "keep", A: 1, B: m}
			} else {
				o = Op{Op: "keep", A: cur - m + 1, B: cur}
			}
			cur = m
		case 7:
			k := 1 + r.Intn(3)
			if r.Intn(2) == 0 {
				k = 3 * (1 + r.Intn(2))
			}
			o = Op{Op: "append", A: k, B: r.Intn(2048)}
			cur += k
		case 8:
			o = Op{Op: "near", A: pos, F: nearForms[r.Intn(len(nearForms))]}
		case 9:
			o = Op{Op: "garbage", A: pos, F: garbageKinds[r.Intn(len(garbageKinds))]}
		case 10:
			o = Op{Op: "nearall", F: nearForms[r.Intn(len(nearForms))]}
		}
		d.Ops = append(d.Ops, o)
		parts = append(parts, fmt.Sprintf("%s(%d,%d,%s)", o.Op, o.A, o.B, o.F))
	}
	if r.Intn(5) < 2 {
		if r.Intn(2) == 0 {
			d.Lay.Lead = randSeps(r, 1)
		}
		d.Lay.B1 = randSeps(r, 1)
		d.Lay.B2 = randSeps(r, 1)
		if r.Intn(2) == 0 {
			d.Lay.Trail = randSeps(r, 1)
		}
		parts = append(parts, "lay")
	}
	d.Name = fmt.Sprintf("rand%d:%s", serial, strings.Join(parts, ";"))
	return d
}

func modeCs(args []string) {
	fs := flag.NewFlagSet("cs", flag.ExitOnError)
	in := fs.String("in", "", "ndjson of [name, ent, plan, sweep, descs] from Bip39Gen")
	out := fs.String("out", "", "ndjson with cs added and random records appended")
	seed := fs.Int64("seed", 1, "")
	nrand := fs.Int("random", 0, "number of random entropies to append")
	ndesc := fs.Int("descs", 8, "random descriptors per random entropy (besides the unmutated one)")
	fs.Parse(args)
	w, err := os.Create(*out)
	if err != nil {
		die(3, "%v", err)
	}
	bw := bufio.NewWriter(w)
	n := 0
	readLines(*in, func(b []byte) {
		var r EntRec
		if err := json.Unmarshal(b, &r); err != nil {
			die(3, "bad record: %v", err)
		}
		if r.Descs == nil {
			r.Descs = []Desc{}
		}
		r.Cs = bip39lib.Sha0(bytesOf(r.Ent))
		bw.Write(asciiJSON(r))
		bw.WriteByte('\n')
		n++
	})
	r := rand.New(rand.NewSource(*seed*7919 + 13))
	sizes := []int{16, 20, 24, 28, 32}
	for i := 0; i < *nrand; i++ {
		sz := sizes[r.Intn(len(sizes))]
		e := make([]byte, sz)
		r.Read(e)
		// every fourth: leading zero bytes / bits, the corner a big-integer codec loses
		switch i % 8 {
		case 1:
			for j := 0; j < 1+r.Intn(4); j++ {
				e[j] = 0
			}
		case 3:
			e[0] = byte(r.Intn(2))
		case 5:
			e[0] = 0
			e[1] &= 0x0f
		}
		rec := EntRec{Name: fmt.Sprintf("random%d/%d", i, sz), Ent: ints(e), Cs: bip39lib.Sha0(e), Plan: "given", Descs: []Desc{
			{Name: "none", Ops: []Op{}, Lay: Lay{Lead: []string{}, B1: []string{"sp"}, B2: []string{"sp"}, Trail: []string{}}}}}
		for j := 0; j < *ndesc; j++ {
			rec.Descs = append(rec.Descs, randDesc(r, sz*3/4, j))
		}
		bw.Write(asciiJSON(rec))
		bw.WriteByte('\n')
		n++
	}
	bw.Flush()
	w.Close()
	fmt.Printf("CS records=%d\n", n)
}

// ---------------------------------------------------------------- mode eval

// passphrases: each class the statement's "all passphrases" is partitioned into, see report
var passTable = []string{
	"",
	"TREZOR",
	" ",
	"correct horse battery staple",
	"a  b\tc\n",
	strings.Repeat("x", 200), // salt longer than one SHA-512 block
	"p@ss\"w\\ord'<>&%",
	"\u043f\u0430\u0440\u043e\u043b\u044c", // Cyrillic, NFKD-stable
	"\u5bc6\u7801",                         // CJK, NFKD-stable
	"e\u0301",                              // e + combining acute: already decomposed
	"\U0001F511",                           // outside the BMP, NFKD-stable
	"\u00e9",                               // precomposed e-acute: NFKD decomposes
	"\u212b",                               // ANGSTROM SIGN: NFKD -> A + ring
	"\ufb01",                               // ligature fi: NFKD -> "fi"
	"\uff34\uff32\uff25\uff3a\uff2f\uff32", // full-width TREZOR: NFKD -> "TREZOR"
	"\u30d1\u30b9\u30ef\u30fc\u30c9",       // katakana with (semi-)voiced marks: NFKD decomposes
	// passphrase of the published Japanese vectors (python-mnemonic test_JP_BIP39.json)
	"\u334d\u30ac\u30d0\u30f4\u30a1\u3071\u3070\u3050\u309e\u3061\u3062\u5341\u4eba\u5341\u8272",
	"\u00a0", // NBSP: NFKD -> space
}

var randPools = [][]rune{
	[]rune("abcdefghijklmnopqrstuvwxyzABCDEFGHIJKLMNOPQRSTUVWXYZ0123456789 !#$%&()*+,-./:;=?@[]^_{|}~"),
	// Latin-1 letters (precomposed: NFKD changes them) and combining marks
	[]rune("\u00e0\u00e9\u00ee\u00f5\u00fc\u00e7\u00f1\u00c5\u00d8\u00df\u0301\u0308\u0327"),
	// CJK (stable), kana (some decompose), compatibility forms (full-width, circled, fraction, ligature)
	[]rune("\u4e2d\u6587\u5bc6\u7801\u3042\u304c\u30d1\u30ef\uff21\uff11\u2460\u00bd\ufb00"),
}

func randPass(r *rand.Rand) string {
	n := r.Intn(24)
	var b strings.Builder
	pool := randPools[0]
	mix := r.Intn(3)
	for i := 0; i < n; i++ {
		p := pool
		if mix > 0 && r.Intn(3) == 0 {
			p = randPools[1+r.Intn(mix)]
		}
		b.WriteRune(p[r.Intn(len(p))])
	}
	return b.String()
}

type kdfCache struct {
	mu sync.Mutex
	m  map[string]string
}

func (c *kdfCache) get(sentence, pass []byte) string {
	key := string(sentence) + "\x00" + string(pass)
	c.mu.Lock()
	v, ok := c.m[key]
	c.mu.Unlock()
	if ok {
		return v
	}
	v = hex.EncodeToString(bip39lib.Bip39Kdf(sentence, pass))
	c.mu.Lock()
	if len(c.m) > 200000 {
		c.m = map[string]string{}
	}
	c.m[key] = v
	c.mu.Unlock()
	return v
}

func guard(name string, panics *[]string, f func()) (panicked bool) {
	defer func() {
		if e := recover(); e != nil {
			panicked = true
			*panics = append(*panics, fmt.Sprintf("%s: %v", name, e))
		}
	}()
	f()
	return false
}

func evalOne(id int, c *Case, pass string, wl string, kc *kdfCache) Line {
	text, err := bip39lib.Spell(c.Atoms)
	if err != nil {
		die(3, "case %s/%s: %v", c.Src, c.Mut, err)
	}
	L := Line{ID: id, Src: c.Src, Mut: c.Mut, Ent: c.Ent, Cs: c.Cs, Atoms: c.Atoms, Hin: c.Hin, Text: text,
		Pass: pass, PassHex: hex.EncodeToString([]byte(pass)), Wl: wl, Panics: []string{}}
	if L.Ent == nil {
		L.Ent = []int{}
	}
	if L.Hin == nil {
		L.Hin = []int{}
	}
	if L.Atoms == nil {
		L.Atoms = []bip39lib.Atom{}
	}
	nf := norm.NFKD.String(pass)
	L.NfkdHex = hex.EncodeToString([]byte(nf))
	// trusted primitive on the bytes the SPECIFICATION named
	if len(c.Hin) > 0 {
		L.H = bip39lib.Sha0(bytesOf(c.Hin))
		L.Canon = bip39lib.CanonicalSentence(c.Atoms)
		L.Kdf.Cn = kc.get([]byte(L.Canon), []byte(nf))
		L.Kdf.Cr = kc.get([]byte(L.Canon), []byte(pass))
		L.Kdf.Rn = kc.get([]byte(text), []byte(nf))
		L.Kdf.Rr = kc.get([]byte(text), []byte(pass))
	}
	// ---- the implementation
	L.Efm.Ent, L.Raw.Ent = []int{}, []int{}
	if c.Mut == "none" {
		L.Enc.Run = true
		L.Enc.Panic = guard("NewMnemonic", &L.Panics, func() {
			m, err := keystore.NewMnemonic(bytesOf(c.Ent))
			L.Enc.Ok = err == nil
			if err == nil {
				L.Enc.Text = m
			}
		})
	}
	L.Efm.Panic = guard("EntropyFromMnemonic", &L.Panics, func() {
		e, err := keystore.EntropyFromMnemonic(text)
		L.Efm.Ok = err == nil
		if err == nil {
			L.Efm.Ent = ints(e)
		}
	})
	L.Raw.Panic = guard("MnemonicToByteArray(raw)", &L.Panics, func() {
		e, err := keystore.MnemonicToByteArray(text, true)
		L.Raw.Ok = err == nil
		if err == nil {
			L.Raw.Ent = ints(e)
		}
	})
	L.Full.Panic = guard("MnemonicToByteArray", &L.Panics, func() {
		e, err := keystore.MnemonicToByteArray(text)
		L.Full.Ok = err == nil
		if err == nil {
			L.Full.Hex = hex.EncodeToString(e)
		}
	})
	L.Valid.Panic = guard("IsMnemonicValid", &L.Panics, func() {
		L.Valid.V = keystore.IsMnemonicValid(text)
	})
	L.Seed.Panic = guard("NewSeedWithErrorChecking", &L.Panics, func() {
		s, err := keystore.NewSeedWithErrorChecking(text, pass)
		L.Seed.Ok = err == nil
		if err == nil {
			L.Seed.Hex = hex.EncodeToString(s)
		}
	})
	if len(c.Hin) > 0 {
		L.NSeed.Panic = guard("NewSeed", &L.Panics, func() {
			L.NSeed.Hex = hex.EncodeToString(keystore.NewSeed(text, pass))
		})
	}
	return L
}

func modeEval(args []string) {
	fs := flag.NewFlagSet("eval", flag.ExitOnError)
	in := fs.String("in", "", "ndjson of cases from Bip39Mut")
	prefix := fs.String("out-prefix", "", "trace shards are written to <prefix><k>.ndjson")
	shards := fs.Int("shards", 1, "")
	maxLines := fs.Int("max-lines", 0, "upper bound on the lines of one shard (more shards are written if needed)")
	seed := fs.Int64("seed", 1, "")
	passes := fs.Int("passes", 3, "passphrases per unmutated case")
	fs.Parse(args)

	if err := bip39lib.SelfTest(); err != nil {
		die(3, "self-test: %v", err)
	}
	// the list the implementation uses, pinned by hash (judged by the specification: field wl)
	wl := bip39lib.ListSha256(keystore.GetWordList())
	if w2 := bip39lib.ListSha256(wordlists.English); w2 != wl {
		wl = wl + "/" + w2
	}

	var cases []*Case
	readLines(*in, func(b []byte) {
		c := new(Case)
		if err := json.Unmarshal(b, c); err != nil {
			die(3, "bad case: %v", err)
		}
		cases = append(cases, c)
	})
	// one job per (case, passphrase)
	type job struct {
		c    *Case
		pass string
	}
	var jobs []job
	base := 0
	for ci, c := range cases {
		r := rand.New(rand.NewSource(*seed*1000003 + int64(ci)))
		if c.PassHex != nil {
			p, err := hex.DecodeString(*c.PassHex)
			if err != nil {
				die(3, "pass_hex: %v", err)
			}
			jobs = append(jobs, job{c, string(p)})
			continue
		}
		if c.Mut == "none" {
			for j := 0; j < *passes; j++ {
				jobs = append(jobs, job{c, passTable[(base**passes+j+int(*seed))%len(passTable)]})
			}
			jobs = append(jobs, job{c, randPass(r)})
			base++
			continue
		}
		if r.Intn(3) == 0 {
			jobs = append(jobs, job{c, randPass(r)})
		} else {
			jobs = append(jobs, job{c, passTable[r.Intn(len(passTable))]})
		}
	}
	lines := make([][]byte, len(jobs))
	kc := &kdfCache{m: map[string]string{}}
	var wg sync.WaitGroup
	next := make(chan int, 1024)
	nw := runtime.NumCPU()
	for w := 0; w < nw; w++ {
		wg.Add(1)
		go func() {
			defer wg.Done()
			for i := range next {
				L := evalOne(i+1, jobs[i].c, jobs[i].pass, wl, kc)
				lines[i] = asciiJSON(L)
			}
		}()
	}
	for i := range jobs {
		next <- i
	}
	close(next)
	wg.Wait()
	if *shards < 1 {
		*shards = 1
	}
	per := (len(lines) + *shards - 1) / *shards
	if *maxLines > 0 && per > *maxLines {
		per = *maxLines
	}
	if per == 0 {
		per = 1
	}
	nfiles := 0
	for k := 0; k*per < len(lines); k++ {
		f, err := os.Create(fmt.Sprintf("%s%d.ndjson", *prefix, k))
		if err != nil {
			die(3, "%v", err)
		}
		bw := bufio.NewWriter(f)
		for _, l := range lines[k*per : min(len(lines), (k+1)*per)] {
			bw.Write(l)
			bw.WriteByte('\n')
		}
		bw.Flush()
		f.Close()
		nfiles++
	}
	fmt.Printf("EVAL cases=%d lines=%d shards=%d wordlist=%s\n", len(cases), len(lines), nfiles, wl)
}

func min(a, b int) int {
	if a < b {
		return a
	}
	return b
}

func main() {
	if len(os.Args) < 2 {
		die(3, "usage: bip39 cs|eval ...")
	}
	switch os.Args[1] {
	case "cs":
		modeCs(os.Args[2:])
	case "eval":
		modeEval(os.Args[2:])
	default:
		die(3, "unknown mode %s", os.Args[1])
	}
}
