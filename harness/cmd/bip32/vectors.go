// Published BIP-32 test vectors.  Vectors 1-3 are copied from the repository's own test file
// (extendedkey_test.go); vector 4 (leading zeros retained, absent from that file) is typed from
// the BIP text.  They are anchors for the SPECIFICATION: Bip32!VectorOK demands that the spec,
// evaluated with the trusted primitives, reproduces every string (verdict "specfail" otherwise).
package main

type vector struct {
	name, seed string
	path       []uint32
	pub, prv   string
}

const hs = 0x80000000

var vectors = []vector{
	{"test vector 1 chain m", "000102030405060708090a0b0c0d0e0f", []uint32{},
		"xpub661MyMwAqRbcFtXgS5sYJABqqG9YLmC4Q1Rdap9gSE8NqtwybGhePY2gZ29ESFjqJoCu1Rupje8YtGqsefD265TMg7usUDFdp6W1EGMcet8",
		"xprv9s21ZrQH143K3QTDL4LXw2F7HEK3wJUD2nW2nRk4stbPy6cq3jPPqjiChkVvvNKmPGJxWUtg6LnF5kejMRNNU3TGtRBeJgk33yuGBxrMPHi"},
	{"test vector 1 chain m/0H", "000102030405060708090a0b0c0d0e0f", []uint32{hs + 0},
		"xpub68Gmy5EdvgibQVfPdqkBBCHxA5htiqg55crXYuXoQRKfDBFA1WEjWgP6LHhwBZeNK1VTsfTFUHCdrfp1bgwQ9xv5ski8PX9rL2dZXvgGDnw",
		"xprv9uHRZZhk6KAJC1avXpDAp4MDc3sQKNxDiPvvkX8Br5ngLNv1TxvUxt4cV1rGL5hj6KCesnDYUhd7oWgT11eZG7XnxHrnYeSvkzY7d2bhkJ7"},
	{"test vector 1 chain m/0H/1", "000102030405060708090a0b0c0d0e0f", []uint32{hs + 0, 1},
		"xpub6ASuArnXKPbfEwhqN6e3mwBcDTgzisQN1wXN9BJcM47sSikHjJf3UFHKkNAWbWMiGj7Wf5uMash7SyYq527Hqck2AxYysAA7xmALppuCkwQ",
		"xprv9wTYmMFdV23N2TdNG573QoEsfRrWKQgWeibmLntzniatZvR9BmLnvSxqu53Kw1UmYPxLgboyZQaXwTCg8MSY3H2EU4pWcQDnRnrVA1xe8fs"},
	{"test vector 1 chain m/0H/1/2H", "000102030405060708090a0b0c0d0e0f", []uint32{hs + 0, 1, hs + 2},
		"xpub6D4BDPcP2GT577Vvch3R8wDkScZWzQzMMUm3PWbmWvVJrZwQY4VUNgqFJPMM3No2dFDFGTsxxpG5uJh7n7epu4trkrX7x7DogT5Uv6fcLW5",
		"xprv9z4pot5VBttmtdRTWfWQmoH1taj2axGVzFqSb8C9xaxKymcFzXBDptWmT7FwuEzG3ryjH4ktypQSAewRiNMjANTtpgP4mLTj34bhnZX7UiM"},
	{"test vector 1 chain m/0H/1/2H/2", "000102030405060708090a0b0c0d0e0f", []uint32{hs + 0, 1, hs + 2, 2},
		"xpub6FHa3pjLCk84BayeJxFW2SP4XRrFd1JYnxeLeU8EqN3vDfZmbqBqaGJAyiLjTAwm6ZLRQUMv1ZACTj37sR62cfN7fe5JnJ7dh8zL4fiyLHV",
		"xprvA2JDeKCSNNZky6uBCviVfJSKyQ1mDYahRjijr5idH2WwLsEd4Hsb2Tyh8RfQMuPh7f7RtyzTtdrbdqqsunu5Mm3wDvUAKRHSC34sJ7in334"},
	{"test vector 1 chain m/0H/1/2H/2/1000000000", "000102030405060708090a0b0c0d0e0f", []uint32{hs + 0, 1, hs + 2, 2, 1000000000},
		"xpub6H1LXWLaKsWFhvm6RVpEL9P4KfRZSW7abD2ttkWP3SSQvnyA8FSVqNTEcYFgJS2UaFcxupHiYkro49S8yGasTvXEYBVPamhGW6cFJodrTHy",
		"xprvA41z7zogVVwxVSgdKUHDy1SKmdb533PjDz7J6N6mV6uS3ze1ai8FHa8kmHScGpWmj4WggLyQjgPie1rFSruoUihUZREPSL39UNdE3BBDu76"},
	{"test vector 2 chain m", "fffcf9f6f3f0edeae7e4e1dedbd8d5d2cfccc9c6c3c0bdbab7b4b1aeaba8a5a29f9c999693908d8a8784817e7b7875726f6c696663605d5a5754514e4b484542", []uint32{},
		"xpub661MyMwAqRbcFW31YEwpkMuc5THy2PSt5bDMsktWQcFF8syAmRUapSCGu8ED9W6oDMSgv6Zz8idoc4a6mr8BDzTJY47LJhkJ8UB7WEGuduB",
		"xprv9s21ZrQH143K31xYSDQpPDxsXRTUcvj2iNHm5NUtrGiGG5e2DtALGdso3pGz6ssrdK4PFmM8NSpSBHNqPqm55Qn3LqFtT2emdEXVYsCzC2U"},
	{"test vector 2 chain m/0", "fffcf9f6f3f0edeae7e4e1dedbd8d5d2cfccc9c6c3c0bdbab7b4b1aeaba8a5a29f9c999693908d8a8784817e7b7875726f6c696663605d5a5754514e4b484542", []uint32{0},
		"xpub69H7F5d8KSRgmmdJg2KhpAK8SR3DjMwAdkxj3ZuxV27CprR9LgpeyGmXUbC6wb7ERfvrnKZjXoUmmDznezpbZb7ap6r1D3tgFxHmwMkQTPH",
		"xprv9vHkqa6EV4sPZHYqZznhT2NPtPCjKuDKGY38FBWLvgaDx45zo9WQRUT3dKYnjwih2yJD9mkrocEZXo1ex8G81dwSM1fwqWpWkeS3v86pgKt"},
	{"test vector 2 chain m/0/2147483647H", "fffcf9f6f3f0edeae7e4e1dedbd8d5d2cfccc9c6c3c0bdbab7b4b1aeaba8a5a29f9c999693908d8a8784817e7b7875726f6c696663605d5a5754514e4b484542", []uint32{0, hs + 2147483647},
		"xpub6ASAVgeehLbnwdqV6UKMHVzgqAG8Gr6riv3Fxxpj8ksbH9ebxaEyBLZ85ySDhKiLDBrQSARLq1uNRts8RuJiHjaDMBU4Zn9h8LZNnBC5y4a",
		"xprv9wSp6B7kry3Vj9m1zSnLvN3xH8RdsPP1Mh7fAaR7aRLcQMKTR2vidYEeEg2mUCTAwCd6vnxVrcjfy2kRgVsFawNzmjuHc2YmYRmagcEPdU9"},
	{"test vector 2 chain m/0/2147483647H/1", "fffcf9f6f3f0edeae7e4e1dedbd8d5d2cfccc9c6c3c0bdbab7b4b1aeaba8a5a29f9c999693908d8a8784817e7b7875726f6c696663605d5a5754514e4b484542", []uint32{0, hs + 2147483647, 1},
		"xpub6DF8uhdarytz3FWdA8TvFSvvAh8dP3283MY7p2V4SeE2wyWmG5mg5EwVvmdMVCQcoNJxGoWaU9DCWh89LojfZ537wTfunKau47EL2dhHKon",
		"xprv9zFnWC6h2cLgpmSA46vutJzBcfJ8yaJGg8cX1e5StJh45BBciYTRXSd25UEPVuesF9yog62tGAQtHjXajPPdbRCHuWS6T8XA2ECKADdw4Ef"},
	{"test vector 2 chain m/0/2147483647H/1/2147483646H", "fffcf9f6f3f0edeae7e4e1dedbd8d5d2cfccc9c6c3c0bdbab7b4b1aeaba8a5a29f9c999693908d8a8784817e7b7875726f6c696663605d5a5754514e4b484542", []uint32{0, hs + 2147483647, 1, hs + 2147483646},
		"xpub6ERApfZwUNrhLCkDtcHTcxd75RbzS1ed54G1LkBUHQVHQKqhMkhgbmJbZRkrgZw4koxb5JaHWkY4ALHY2grBGRjaDMzQLcgJvLJuZZvRcEL",
		"xprvA1RpRA33e1JQ7ifknakTFpgNXPmW2YvmhqLQYMmrj4xJXXWYpDPS3xz7iAxn8L39njGVyuoseXzU6rcxFLJ8HFsTjSyQbLYnMpCqE2VbFWc"},
	{"test vector 2 chain m/0/2147483647H/1/2147483646H/2", "fffcf9f6f3f0edeae7e4e1dedbd8d5d2cfccc9c6c3c0bdbab7b4b1aeaba8a5a29f9c999693908d8a8784817e7b7875726f6c696663605d5a5754514e4b484542", []uint32{0, hs + 2147483647, 1, hs + 2147483646, 2},
		"xpub6FnCn6nSzZAw5Tw7cgR9bi15UV96gLZhjDstkXXxvCLsUXBGXPdSnLFbdpq8p9HmGsApME5hQTZ3emM2rnY5agb9rXpVGyy3bdW6EEgAtqt",
		"xprvA2nrNbFZABcdryreWet9Ea4LvTJcGsqrMzxHx98MMrotbir7yrKCEXw7nadnHM8Dq38EGfSh6dqA9QWTyefMLEcBYJUuekgW4BYPJcr9E7j"},
	{"test vector 3 chain m", "4b381541583be4423346c643850da4b320e46a87ae3d2a4e6da11eba819cd4acba45d239319ac14f863b8d5ab5a0d0c64d2e8a1e7d1457df2e5a3c51c73235be", []uint32{},
		"xpub661MyMwAqRbcEZVB4dScxMAdx6d4nFc9nvyvH3v4gJL378CSRZiYmhRoP7mBy6gSPSCYk6SzXPTf3ND1cZAceL7SfJ1Z3GC8vBgp2epUt13",
		"xprv9s21ZrQH143K25QhxbucbDDuQ4naNntJRi4KUfWT7xo4EKsHt2QJDu7KXp1A3u7Bi1j8ph3EGsZ9Xvz9dGuVrtHHs7pXeTzjuxBrCmmhgC6"},
	{"test vector 3 chain m/0H", "4b381541583be4423346c643850da4b320e46a87ae3d2a4e6da11eba819cd4acba45d239319ac14f863b8d5ab5a0d0c64d2e8a1e7d1457df2e5a3c51c73235be", []uint32{hs + 0},
		"xpub68NZiKmJWnxxS6aaHmn81bvJeTESw724CRDs6HbuccFQN9Ku14VQrADWgqbhhTHBaohPX4CjNLf9fq9MYo6oDaPPLPxSb7gwQN3ih19Zm4Y",
		"xprv9uPDJpEQgRQfDcW7BkF7eTya6RPxXeJCqCJGHuCJ4GiRVLzkTXBAJMu2qaMWPrS7AANYqdq6vcBcBUdJCVVFceUvJFjaPdGZ2y9WACViL4L"},
	{"test vector 4 chain m", "3ddd5602285899a946114506157c7997e5444528f3003f6134712147db19b678", []uint32{},
		"xpub661MyMwAqRbcGczjuMoRm6dXaLDEhW1u34gKenbeYqAix21mdUKJyuyu5F1rzYGVxyL6tmgBUAEPrEz92mBXjByMRiJdba9wpnN37RLLAXa",
		"xprv9s21ZrQH143K48vGoLGRPxgo2JNkJ3J3fqkirQC2zVdk5Dgd5w14S7fRDyHH4dWNHUgkvsvNDCkvAwcSHNAQwhwgNMgZhLtQC63zxwhQmRv"},
	{"test vector 4 chain m/0H", "3ddd5602285899a946114506157c7997e5444528f3003f6134712147db19b678", []uint32{hs + 0},
		"xpub69AUMk3qDBi3uW1sXgjCmVjJ2G6WQoYSnNHyzkmdCHEhSZ4tBok37xfFEqHd2AddP56Tqp4o56AePAgCjYdvpW2PU2jbUPFKsav5ut6Ch1m",
		"xprv9vB7xEWwNp9kh1wQRfCCQMnZUEG21LpbR9NPCNN1dwhiZkjjeGRnaALmPXCX7SgjFTiCTT6bXes17boXtjq3xLpcDjzEuGLQBM5ohqkao9G"},
	{"test vector 4 chain m/0H/1H", "3ddd5602285899a946114506157c7997e5444528f3003f6134712147db19b678", []uint32{hs + 0, hs + 1},
		"xpub6BJA1jSqiukeaesWfxe6sNK9CCGaujFFSJLomWHprUL9DePQ4JDkM5d88n49sMGJxrhpjazuXYWdMf17C9T5XnxkopaeS7jGk1GyyVziaMt",
		"xprv9xJocDuwtYCMNAo3Zw76WENQeAS6WGXQ55RCy7tDJ8oALr4FWkuVoHJeHVAcAqiZLE7Je3vZJHxspZdFHfnBEjHqU5hG1Jaj32dVoS6XLT1"},
}
