// Command bip32 records what the real hdkeychain package (masswallet/keystore/hdkeychain)
// does on the C14 cases and writes it, together with the answers of the trusted primitives,
// as ndjson trace chunks that TLC judges with spec/Bip32Trace.tla.
//
// It decides nothing: every line is {input, implementation result, oracle answers}.
//
//	bip32 -cases cases.ndjson -out DIR -seed N [-extra N] [-lz N] [-lz2 N] [-chunk N]
//
// cases.ndjson holds the structural cases printed by TLC from spec/Bip32Gen.tla (seed lengths and
// fills, hardened/non-hardened path shapes, byte/character corruptions, crafted key material);
// this command fills in seeded content.  A JSON summary is printed on stdout.
package main

import (
	"bufio"
	"bytes"
	"crypto/sha256"
	"encoding/binary"
	"encoding/hex"
	"encoding/json"
	"flag"
	"fmt"
	"math/rand"
	"os"
	"path/filepath"
	"strings"

	"github.com/massnetorg/mass-core/config"
	"massnet.org/mass-wallet/masswallet/keystore/hdkeychain"

	lib "verif/harness/bip32lib"
)

type idx struct {
	Hard bool   `json:"hard"`
	N    uint32 `json:"n"`
}

type obs struct {
	Str    string    `json:"str"`
	Depth  int       `json:"depth"`
	Fp     lib.Bytes `json:"fp"`
	Priv   bool      `json:"priv"`
	Eckey  lib.Bytes `json:"eckey"`
	Ecpub  lib.Bytes `json:"ecpub"`
	H160   lib.Bytes `json:"h160"`
	Neuter string    `json:"neuter"`
}

type pubRes struct {
	Ok  bool   `json:"ok"`
	Err string `json:"err"`
	Str string `json:"str"`
}

type impl struct {
	Ok    bool   `json:"ok"`
	Err   string `json:"err"`
	Panic bool   `json:"panic"`
	Obs   obs    `json:"obs"`
	Pub   pubRes `json:"pub"`
}

type line struct {
	Op          string    `json:"op"`
	Tag         string    `json:"tag"`
	Net         lib.Net   `json:"net"`
	Seed        lib.Bytes `json:"seed"`
	Parent      string    `json:"parent"`
	Psrc        string    `json:"psrc"`
	I           idx       `json:"i"`
	S           string    `json:"s"`
	Expect      string    `json:"expect"`
	Expectpub   string    `json:"expectpub"`
	Expectclass string    `json:"expectclass"`
	Impl        impl      `json:"impl"`
	Or          []lib.Q   `json:"or"`
	N           lib.Bytes `json:"n"`
	P           lib.Bytes `json:"p"`
}

var (
	params = &config.ChainParams
	net    = lib.Net{Prv: lib.Bytes(config.ChainParams.HDPrivateKeyID[:]), Pub: lib.Bytes(config.ChainParams.HDPublicKeyID[:])}
)

// ---------------------------------------------------------------- output
type writer struct {
	dir    string
	chunk  int
	n      int
	files  []string
	f      *os.File
	w      *bufio.Writer
	counts map[string]int
}

func (w *writer) emit(l *line) {
	if l.Seed == nil {
		l.Seed = lib.Bytes{}
	}
	if l.N == nil {
		l.N = lib.Bytes{}
	}
	if l.P == nil {
		l.P = lib.Bytes{}
	}
	if l.Or == nil {
		l.Or = []lib.Q{}
	}
	o := &l.Impl.Obs
	for _, p := range []*lib.Bytes{&o.Fp, &o.Eckey, &o.Ecpub, &o.H160} {
		if *p == nil {
			*p = lib.Bytes{}
		}
	}
	if w.n%w.chunk == 0 {
		w.close()
		name := filepath.Join(w.dir, fmt.Sprintf("trace-%04d.ndjson", len(w.files)))
		f, err := os.Create(name)
		if err != nil {
			fatal(err)
		}
		w.f, w.w = f, bufio.NewWriterSize(f, 1<<20)
		w.files = append(w.files, name)
	}
	b, err := json.Marshal(l)
	if err != nil {
		fatal(err)
	}
	w.w.Write(b)
	w.w.WriteByte('\n')
	w.n++
	w.counts[l.Op]++
}

func (w *writer) close() {
	if w.f != nil {
		w.w.Flush()
		w.f.Close()
		w.f = nil
	}
}

func fatal(err error) {
	fmt.Fprintln(os.Stderr, "bip32:", err)
	os.Exit(2)
}

// ---------------------------------------------------------------- driving the implementation
func safe(f func()) (pan string) {
	defer func() {
		if r := recover(); r != nil {
			pan = fmt.Sprint("panic: ", r)
		}
	}()
	f()
	return ""
}

func errClass(err error) string {
	switch err {
	case nil:
		return ""
	case hdkeychain.ErrDeriveHardFromPublic:
		return "hardened-from-public"
	case hdkeychain.ErrDeriveBeyondMaxDepth:
		return "depth"
	case hdkeychain.ErrInvalidChild:
		return "invalid-child"
	case hdkeychain.ErrUnusableSeed:
		return "unusable-key"
	case hdkeychain.ErrInvalidSeedLen:
		return "seed-length"
	case hdkeychain.ErrBadChecksum:
		return "checksum"
	case hdkeychain.ErrInvalidKeyLen:
		return "length"
	}
	return "other"
}

// observe reads everything the property talks about through the public API of the key.
func observe(k *hdkeychain.ExtendedKey) obs {
	var o obs
	o.Str = k.String()
	o.Depth = int(k.Depth())
	var fp [4]byte
	binary.BigEndian.PutUint32(fp[:], k.ParentFingerprint())
	o.Fp = fp[:]
	o.Priv = k.IsPrivate()
	if pk, err := k.ECPubKey(); err == nil {
		o.Ecpub = pk.SerializeCompressed()
	}
	if o.Priv {
		if sk, err := k.ECPrivKey(); err == nil {
			o.Eckey = sk.Serialize()
		}
	} else {
		o.Eckey = o.Ecpub
	}
	if a, err := k.Address(params); err == nil {
		o.H160 = a.ScriptAddress()
	}
	if n, err := k.Neuter(); err == nil {
		o.Neuter = n.String()
	}
	return o
}

func (im *impl) take(k *hdkeychain.ExtendedKey, err error, pan string, or *lib.Oracle) *hdkeychain.ExtendedKey {
	if pan != "" {
		im.Panic, im.Err = true, pan
		return nil
	}
	if err != nil || k == nil {
		im.Err = errClass(err)
		if err == nil {
			im.Err = "nil-key"
		}
		return nil
	}
	if p := safe(func() { im.Obs = observe(k) }); p != "" {
		im.Panic, im.Err = true, p
		return nil
	}
	im.Ok = true
	or.B58Dec(im.Obs.Str)
	return k
}

type gen struct {
	w   *writer
	rng *rand.Rand
	// statistics
	lzParents, lzTried, tainted int
}

func (g *gen) master(seed []byte, tag, expect, expectpub string) *hdkeychain.ExtendedKey {
	or := lib.NewOracle()
	if len(seed) >= 16 && len(seed) <= 64 {
		if ref, ok := or.RefMaster(seed, net); ok {
			or.RefObs(ref, net)
		}
	}
	l := &line{Op: "master", Tag: tag, Net: net, Seed: seed, Expect: expect, Expectpub: expectpub}
	var k *hdkeychain.ExtendedKey
	var err error
	pan := safe(func() { k, err = hdkeychain.NewMaster(seed, params) })
	k = l.Impl.take(k, err, pan, or)
	l.Or = or.Qs
	g.w.emit(l)
	return k
}

func toIdx(i uint32) idx { return idx{Hard: i >= lib.Hardened, N: i &^ lib.Hardened} }

// child records parent.Child(i) and, for a private parent, Neuter(parent).Child(i).
func (g *gen) child(parent *hdkeychain.ExtendedKey, psrc string, i uint32, tag, expect, expectpub string) *hdkeychain.ExtendedKey {
	or := lib.NewOracle()
	pstr := safeString(parent)
	l := &line{Op: "child", Tag: tag, Net: net, Parent: pstr, Psrc: psrc, I: toIdx(i), Expect: expect, Expectpub: expectpub}
	if pb, ok := or.B58Dec(pstr); ok && len(pb) == 82 {
		par := lib.Unser(pb[:78])
		if ref, ok := or.RefChild(par, i, nil); ok {
			or.RefObs(ref, net)
		}
		if par.Priv {
			if i < lib.Hardened {
				if vp, ok := or.RefChild(or.RefNeuter(par, net), i, nil); ok {
					or.RefStr(vp)
				}
			} else if par.Key[0] == 0 {
				if dv, ok := or.RefChild(par, i, lib.DeviantData(par, i)); ok {
					or.RefObs(dv, net)
				}
			}
		}
	}
	var k *hdkeychain.ExtendedKey
	var err error
	pan := safe(func() { k, err = parent.Child(i) })
	k = l.Impl.take(k, err, pan, or)
	if parent.IsPrivate() {
		var pk *hdkeychain.ExtendedKey
		var perr error
		ppan := safe(func() {
			var np *hdkeychain.ExtendedKey
			if np, perr = parent.Neuter(); perr == nil {
				if pk, perr = np.Child(i); perr == nil {
					l.Impl.Pub.Str = pk.String()
				}
			}
		})
		switch {
		case ppan != "":
			l.Impl.Pub.Err = ppan
			l.Impl.Panic = true
		case perr != nil:
			l.Impl.Pub.Err = errClass(perr)
		default:
			l.Impl.Pub.Ok = true
			or.B58Dec(l.Impl.Pub.Str)
		}
	}
	l.Or = or.Qs
	g.w.emit(l)
	return k
}

func (g *gen) parse(s, tag, expectclass string) *hdkeychain.ExtendedKey {
	or := lib.NewOracle()
	or.RefParse(s, net)
	l := &line{Op: "parse", Tag: tag, Net: net, S: s, Expectclass: expectclass}
	var k *hdkeychain.ExtendedKey
	var err error
	pan := safe(func() { k, err = hdkeychain.NewKeyFromString(s) })
	k = l.Impl.take(k, err, pan, or)
	l.Or = or.Qs
	g.w.emit(l)
	return k
}

func pathString(p []uint32) string {
	s := "m"
	for _, i := range p {
		if i >= lib.Hardened {
			s += fmt.Sprintf("/%d'", i-lib.Hardened)
		} else {
			s += fmt.Sprintf("/%d", i)
		}
	}
	return s
}

// walk derives the whole path privately, then the trailing non-hardened part publicly, tries a
// hardened child of a public key, and re-imports the final key and derives from the re-imported twin.
func (g *gen) walk(seed []byte, path []uint32, tag string) []*hdkeychain.ExtendedKey {
	tag = fmt.Sprintf("%s seed=%s path=%s", tag, hex.EncodeToString(seed), pathString(path))
	m := g.master(seed, tag, "", "")
	if m == nil {
		return nil
	}
	nodes := []*hdkeychain.ExtendedKey{m}
	for d, i := range path {
		src := "child"
		if d == 0 {
			src = "master"
		}
		c := g.child(nodes[d], src, i, tag, "", "")
		if c == nil {
			break
		}
		nodes = append(nodes, c)
	}
	// public walk from the node after the last hardened step
	h := 0
	for d := range path {
		if path[d] >= lib.Hardened && d+1 < len(nodes) {
			h = d + 1
		}
	}
	if h < len(nodes) {
		if pk, err := nodes[h].Neuter(); err == nil {
			for d := h; d < len(path) && d < len(nodes)-1; d++ {
				if pk = g.child(pk, "neuter", path[d], tag+" public", "", ""); pk == nil {
					break
				}
			}
			if pk != nil {
				g.child(pk, "neuter", lib.Hardened+uint32(g.rng.Intn(3)), tag+" public", "", "")
			}
		}
	}
	// re-import the last key; the twin must behave like a BIP-32 key
	last := nodes[len(nodes)-1]
	if tw := g.parse(safeString(last), tag+" reimport", ""); tw != nil {
		g.child(tw, "parse", lib.Hardened+uint32(g.rng.Intn(1000)), tag+" reimported", "", "")
		g.child(tw, "parse", uint32(g.rng.Intn(1000)), tag+" reimported", "", "")
	}
	return nodes
}

var small = []uint32{0, 1, 2, 44, 297, 1000}
var edge = []uint32{0, 1, 255, 256, 65535, 65536, 16777215, 16777216, 1<<31 - 2, 1<<31 - 1}

func (g *gen) index(class string, hard bool) uint32 {
	var n uint32
	switch class {
	case "small":
		n = small[g.rng.Intn(len(small))]
	case "edge":
		n = edge[g.rng.Intn(len(edge))]
	default:
		n = uint32(g.rng.Int31())
	}
	if hard {
		n += lib.Hardened
	}
	return n
}

func (g *gen) fill(n int, how string) []byte {
	b := make([]byte, n)
	switch how {
	case "ff":
		for i := range b {
			b[i] = 0xff
		}
	case "rand":
		g.rng.Read(b)
	}
	return b
}

type gcase struct {
	T           string   `json:"t"`
	Len         int      `json:"len"`
	Fill        string   `json:"fill"`
	Shape       []string `json:"shape"`
	Idx         string   `json:"idx"`
	Key         string   `json:"key"`
	Level       string   `json:"level"`
	Pos         int      `json:"pos"`
	Delta       int      `json:"delta"`
	Refix       bool     `json:"refix"`
	Op          string   `json:"op"`
	What        string   `json:"what"`
	Expectclass string   `json:"expectclass"`
}

// refWalk is the untrusted reference derivation (used only to look for interesting inputs and to
// build the base keys that get corrupted; never to judge).
func refWalk(seed []byte, path []uint32) *lib.Key {
	or := lib.NewOracle()
	k, ok := or.RefMaster(seed, net)
	for _, i := range path {
		if !ok {
			return nil
		}
		k, ok = or.RefChild(k, i, nil)
	}
	if !ok {
		return nil
	}
	return k
}

func refString(k *lib.Key) string { return lib.NewOracle().RefStr(k) }

func safeString(k *hdkeychain.ExtendedKey) (s string) {
	safe(func() { s = k.String() })
	return
}

// findLeadingZero searches (seeded) for a seed whose wallet-path node m/44'/297'/.. at depth `at`
// (1 or 2) has `zeros` leading zero bytes in its private scalar.
func (g *gen) findLeadingZero(at, zeros int, salt uint64) []byte {
	var ctr [16]byte
	binary.BigEndian.PutUint64(ctr[:8], salt)
	path := []uint32{lib.Hardened + 44, lib.Hardened + 297}[:at]
	for c := uint64(0); c < 1<<24; c++ {
		binary.BigEndian.PutUint64(ctr[8:], c)
		s := sha256.Sum256(ctr[:])
		g.lzTried++
		k := refWalk(s[:], path)
		if k != nil && bytes.Equal(k.Key[:zeros], make([]byte, zeros)) {
			return s[:]
		}
	}
	return nil
}

func main() {
	casesFile := flag.String("cases", "", "structural cases printed by TLC (one JSON object per line)")
	out := flag.String("out", "", "output directory for trace chunks")
	seed := flag.Int64("seed", 1, "VERIF_SEED")
	extra := flag.Int("extra", 0, "additional seeded random paths")
	lz := flag.Int("lz", 4, "searched parents with one leading zero byte")
	lz2 := flag.Int("lz2", 0, "searched parents with two leading zero bytes")
	chunk := flag.Int("chunk", 1500, "lines per trace chunk")
	flag.Parse()
	g := &gen{w: &writer{dir: *out, chunk: *chunk, counts: map[string]int{}}, rng: rand.New(rand.NewSource(*seed))}

	g.w.emit(&line{Op: "const", Tag: "secp256k1 n and p as btcec has them", Net: net, N: lib.CurveN(), P: lib.CurveP()})

	// ---- published vectors (chain level; expectation attached while the path is still untainted)
	official := map[string]string{}
	for _, v := range vectors {
		official[v.seed+pathString(v.path)] = v.prv
	}
	implKey := map[string]*hdkeychain.ExtendedKey{}
	for _, v := range vectors {
		sd, _ := hex.DecodeString(v.seed)
		at := v.seed + pathString(v.path)
		if len(v.path) == 0 {
			implKey[at] = g.master(sd, v.name, v.prv, v.pub)
			continue
		}
		up := v.seed + pathString(v.path[:len(v.path)-1])
		k := implKey[up]
		if k == nil {
			continue // the implementation refused an earlier step; that line carries the verdict
		}
		e, ep := v.prv, v.pub
		if safeString(k) != official[up] {
			e, ep = "", "" // the implementation left the published path earlier; that step is judged on its own line
			g.tainted++
		}
		implKey[at] = g.child(k, "child", v.path[len(v.path)-1], v.name, e, ep)
	}

	// ---- structural cases from TLC
	var seeds, paths, corrupts, crafts []gcase
	if *casesFile != "" {
		f, err := os.Open(*casesFile)
		if err != nil {
			fatal(err)
		}
		sc := bufio.NewScanner(f)
		sc.Buffer(make([]byte, 1<<20), 1<<26)
		for sc.Scan() {
			var c gcase
			if err := json.Unmarshal(sc.Bytes(), &c); err != nil {
				fatal(err)
			}
			switch c.T {
			case "seed":
				seeds = append(seeds, c)
			case "path":
				paths = append(paths, c)
			case "corrupt":
				corrupts = append(corrupts, c)
			case "craft":
				crafts = append(crafts, c)
			default:
				fatal(fmt.Errorf("unknown case type %q", c.T))
			}
		}
		f.Close()
	}
	g.rng.Shuffle(len(seeds), func(a, b int) { seeds[a], seeds[b] = seeds[b], seeds[a] })
	g.rng.Shuffle(len(paths), func(a, b int) { paths[a], paths[b] = paths[b], paths[a] })
	nw := len(paths)
	if len(seeds) > nw {
		nw = len(seeds)
	}
	if len(paths) == 0 || len(seeds) == 0 {
		nw = 0
	}
	for j := 0; j < nw; j++ {
		sc, pc := seeds[j%len(seeds)], paths[j%len(paths)]
		p := make([]uint32, len(pc.Shape))
		for d, s := range pc.Shape {
			p[d] = g.index(pc.Idx, s == "H")
		}
		g.walk(g.fill(sc.Len, sc.Fill), p, fmt.Sprintf("gen seed:%d/%s path:%s/%s", sc.Len, sc.Fill, strings.Join(pc.Shape, ""), pc.Idx))
	}

	// ---- seeded random paths
	for j := 0; j < *extra; j++ {
		p := make([]uint32, 1+g.rng.Intn(6))
		for d := range p {
			p[d] = g.index([]string{"small", "edge", "rand"}[g.rng.Intn(3)], g.rng.Intn(2) == 0)
		}
		g.walk(g.fill(16+g.rng.Intn(49), "rand"), p, "random")
	}

	// ---- targeted: parents derived by Child whose private scalar has leading zero bytes
	lzRef := ""
	wallet := []uint32{lib.Hardened + 44, lib.Hardened + 297, lib.Hardened + 1, 0, 0}
	target := func(at, zeros int, j int) {
		sd := g.findLeadingZero(at, zeros, uint64(*seed)<<20+uint64(at)<<16+uint64(zeros)<<12+uint64(j))
		if sd == nil {
			return
		}
		wallet[4] = uint32(g.rng.Intn(20))
		nodes := g.walk(sd, wallet, fmt.Sprintf("leading-zero parent at depth %d (%d zero bytes)", at, zeros))
		g.lzParents++
		if rk := refWalk(sd, wallet[:at]); rk != nil {
			lzRef = refString(rk)
		}
		if len(nodes) <= at {
			return
		}
		p := nodes[at]
		tag := fmt.Sprintf("leading-zero parent %s", lzRef)
		g.child(p, "child", uint32(g.rng.Int31()), tag, "", "")
		g.child(p, "child", lib.Hardened+uint32(g.rng.Int31()), tag, "", "")
		if tw := g.parse(lzRef, tag+" reimport", "accept"); tw != nil {
			g.child(tw, "parse", wallet[at], tag+" reimported", "", "")
		}
	}
	for j := 0; j < *lz; j++ {
		target(1+j%2, 1, j)
	}
	for j := 0; j < *lz2; j++ {
		target(1+j%2, 2, j)
	}

	// ---- importing serialised keys: corruptions and crafted material
	var basePrv, basePub []string
	{
		sd := g.fill(32, "rand")
		deepPath := []uint32{lib.Hardened + 44, lib.Hardened + 297, lib.Hardened + 1, 0, 5}
		for refWalk(sd, deepPath) == nil {
			sd = g.fill(32, "rand")
		}
		or := lib.NewOracle()
		for _, k := range []*lib.Key{refWalk(sd, nil), refWalk(sd, deepPath)} {
			basePrv = append(basePrv, or.RefStr(k))
			basePub = append(basePub, or.RefStr(or.RefNeuter(k, net)))
		}
		if lzRef != "" {
			b, _ := lib.B58Decode(lzRef)
			k := lib.Unser(b[:78])
			basePrv = append(basePrv, lzRef)
			basePub = append(basePub, or.RefStr(or.RefNeuter(k, net)))
		}
	}
	pick := func(kind string, j int) string {
		if kind == "prv" {
			return basePrv[j%len(basePrv)]
		}
		return basePub[j%len(basePub)]
	}
	const alphabet = "123456789ABCDEFGHJKLMNPQRSTUVWXYZabcdefghijkmnopqrstuvwxyz"
	for j, c := range corrupts {
		base := pick(c.Key, j)
		tag := fmt.Sprintf("corrupt %s %s pos=%d", c.Key, c.Level, c.Pos)
		if c.Level == "byte" {
			b, _ := lib.B58Decode(base)
			b[c.Pos-1] ^= byte(c.Delta)
			if c.Refix {
				ck := sha256.Sum256(b[:78])
				ck = sha256.Sum256(ck[:])
				copy(b[78:], ck[:4])
			}
			g.parse(lib.B58Encode(b), fmt.Sprintf("%s xor=%d refix=%v of %s", tag, c.Delta, c.Refix, base), c.Expectclass)
			continue
		}
		if c.Pos > len(base) {
			continue
		}
		s := []byte(base)
		at := strings.IndexByte(alphabet, s[c.Pos-1])
		switch c.Op {
		case "next":
			s[c.Pos-1] = alphabet[(at+1)%58]
		case "prev":
			s[c.Pos-1] = alphabet[(at+57)%58]
		case "zero":
			s[c.Pos-1] = '0'
		case "capO":
			s[c.Pos-1] = 'O'
		case "capI":
			s[c.Pos-1] = 'I'
		case "lowl":
			s[c.Pos-1] = 'l'
		case "space":
			s[c.Pos-1] = ' '
		default:
			fatal(fmt.Errorf("unknown char op %q", c.Op))
		}
		g.parse(string(s), fmt.Sprintf("%s op=%s of %s", tag, c.Op, base), c.Expectclass)
	}
	for j, c := range crafts {
		g.craft(c, pick(c.Key, j), basePrv[0], basePub[0])
	}

	g.w.close()
	sum := map[string]interface{}{
		"files": g.w.files, "lines": g.w.n, "by_op": g.w.counts,
		"leading_zero_parents": g.lzParents, "leading_zero_seeds_tried": g.lzTried,
		"vector_steps_after_deviation": g.tainted,
		"cases":                        map[string]int{"seed": len(seeds), "path": len(paths), "corrupt": len(corrupts), "craft": len(crafts)},
	}
	b, _ := json.Marshal(sum)
	fmt.Println(string(b))
}

func checksummed(p []byte) string {
	ck := sha256.Sum256(p)
	ck = sha256.Sum256(ck[:])
	return lib.B58Encode(append(append([]byte{}, p...), ck[:4]...))
}

func addOne(b []byte) []byte {
	out := append([]byte{}, b...)
	for i := len(out) - 1; i >= 0; i-- {
		out[i]++
		if out[i] != 0 {
			break
		}
	}
	return out
}

func subOne(b []byte) []byte {
	out := append([]byte{}, b...)
	for i := len(out) - 1; i >= 0; i-- {
		out[i]--
		if out[i] != 0xff {
			break
		}
	}
	return out
}

// craft builds the boundary inputs named by the generator's table.
func (g *gen) craft(c gcase, base, masterPrv, masterPub string) {
	full, _ := lib.B58Decode(base)
	p := append([]byte{}, full[:78]...)
	tag := fmt.Sprintf("craft %s %s of %s", c.Key, c.What, base)
	setKey := func(k []byte) { copy(p[46:], k) }
	ff := bytes.Repeat([]byte{0xff}, 32)
	s := ""
	follow := false
	switch c.What {
	case "key=0":
		setKey(make([]byte, 32))
	case "key=1":
		setKey(addOne(make([]byte, 32)))
	case "key=n-1":
		setKey(subOne(lib.CurveN()))
	case "key=n":
		setKey(lib.CurveN())
	case "key=n+1":
		setKey(addOne(lib.CurveN()))
	case "key=max":
		setKey(ff)
	case "key=lead1", "key=lead2", "key=lead31":
		z := map[string]int{"key=lead1": 1, "key=lead2": 2, "key=lead31": 31}[c.What]
		k := g.fill(32, "rand")
		copy(k, make([]byte, z))
		if k[z] == 0 {
			k[z] = 1
		}
		setKey(k)
		follow = true
	case "x=offcurve", "x=offcurve-odd":
		x := append([]byte{}, p[46:78]...)
		for lib.IsLiftable(x) {
			x = addOne(x)
		}
		setKey(x)
		p[45] = 2
		if c.What == "x=offcurve-odd" {
			p[45] = 3
		}
	case "x=p":
		setKey(lib.CurveP())
	case "x=p+1":
		setKey(addOne(lib.CurveP()))
	case "x=max":
		setKey(ff)
	case "x>=p-reduced-on-curve", "x>=p-reduced-on-curve-odd", "x>=p-reduced-off-curve":
		// x = p + r for a small random r with r on / off the curve (x stays below 2^256: r < 2^32)
		r := make([]byte, 32)
		binary.BigEndian.PutUint32(r[28:], uint32(g.rng.Int31())+2)
		for lib.IsLiftable(r) != (c.What != "x>=p-reduced-off-curve") {
			r = addOne(r)
		}
		x := lib.CurveP()
		carry := 0
		for i := 31; i >= 0; i-- {
			v := int(x[i]) + int(r[i]) + carry
			x[i], carry = byte(v), v>>8
		}
		setKey(x)
		if c.What == "x>=p-reduced-on-curve-odd" {
			p[45] = 3
		} else {
			p[45] = 2
		}
	case "x=0":
		setKey(make([]byte, 32))
	case "x=G":
		setKey(lib.CurveGx())
		p[45] = 2
		follow = true
	case "flip-parity":
		p[45] ^= 1
		follow = true
	case "prefix=01":
		p[45] = 1
	case "prefix=04":
		p[45] = 4
	case "prefix=05":
		p[45] = 5
	case "prefix=06":
		p[45] = 6
	case "prefix=ff":
		p[45] = 0xff
	case "version=pub":
		copy(p[:4], net.Pub)
	case "version=prv":
		copy(p[:4], net.Prv)
	case "version=zero":
		copy(p[:4], []byte{0, 0, 0, 0})
	case "version=testnet":
		if c.Key == "prv" {
			copy(p[:4], []byte{0x04, 0x35, 0x83, 0x94})
		} else {
			copy(p[:4], []byte{0x04, 0x35, 0x87, 0xcf})
		}
	case "depth0-fp", "depth0-num":
		mb, _ := lib.B58Decode(map[string]string{"prv": masterPrv, "pub": masterPub}[c.Key])
		p = append([]byte{}, mb[:78]...)
		if c.What == "depth0-fp" {
			copy(p[5:9], []byte{1, 2, 3, 4})
		} else {
			p[12] = 1
		}
	case "depth=255":
		p[4] = 255
		follow = true
	case "depth=254":
		p[4] = 254
		follow = true
	case "len=77":
		p = p[:77]
	case "len=79":
		p = append(p, 0)
	case "no-checksum":
		s = lib.B58Encode(p)
	case "extra-zero-byte":
		s = lib.B58Encode(append(append([]byte{}, full...), 0))
	case "empty":
		s = ""
	case "text-drop-last":
		s = base[:len(base)-1]
	case "text-append-1":
		s = base + "1"
	case "text-prepend-1":
		s = "1" + base
	case "text-plus":
		s = base[:50] + "+" + base[51:]
	case "identity":
		follow = true
	default:
		fatal(fmt.Errorf("unknown craft %q", c.What))
	}
	if s == "" && c.What != "empty" {
		s = checksummed(p)
	}
	k := g.parse(s, tag, c.Expectclass)
	if k != nil && follow {
		// an accepted key must also derive like the key it denotes (and a depth-255 key must refuse)
		g.child(k, "parse", uint32(g.rng.Intn(100)), tag+" then child", "", "")
		g.child(k, "parse", lib.Hardened+uint32(g.rng.Intn(100)), tag+" then child", "", "")
	}
}
