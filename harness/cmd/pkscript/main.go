// Command pkscript is the Go half of the C16 check (output-script classification agrees with the
// consensus templates and never crashes).  It concretises the cases TLC generated, adds seeded
// random ones, evaluates the wallet's readers / builders and the consensus library's functions on
// each and writes one JSON line per case.  It compares nothing: TLC judges every line
// (spec/PkScriptTrace.tla against spec/PkScript.tla).
package main

import (
	"bufio"
	"encoding/hex"
	"encoding/json"
	"flag"
	"fmt"
	"math/rand"
	"os"

	"github.com/massnetorg/mass-core/logging"
	lib "verif/harness/pkscriptlib"
)

// replayInput is the "input" object of a saved violation (out/C16-*.json).
type replayInput struct {
	K      string `json:"k"` // read | build
	Script string `json:"script"`
	BK     string `json:"bk"`
	Hash   string `json:"hash"`
	Frozen uint32 `json:"frozen"`
	Target string `json:"target"`
}

func fatal(f string, a ...interface{}) {
	fmt.Fprintf(os.Stderr, "pkscript: "+f+"\n", a...)
	os.Exit(3)
}

func main() {
	casesPath := flag.String("cases", "", "ndjson of TLC-generated cases")
	reps := flag.Int("reps", 1, "concretisations per token sequence")
	seed := flag.Int64("seed", 1, "seed")
	nRandom := flag.Int("random", 0, "random byte strings")
	nMut := flag.Int("mut", 0, "mutated templates")
	nLong := flag.Int("long", 0, "long scripts")
	nBuild := flag.Int("build", 0, "random builder calls")
	pinned := flag.Bool("pinned", false, "include the pinned inputs and all template prefixes")
	replay := flag.String("replay", "", "JSON file with one or more inputs to evaluate")
	out := flag.String("out", "", "output ndjson")
	logdir := flag.String("logdir", "", "directory for mass-core logs")
	from := flag.Int("from", 0, "evaluate only cases with index >= from (after generation)")
	to := flag.Int("to", -1, "evaluate only cases with index < to")
	dump := flag.Bool("dump", false, "write the inputs of the selected cases (replay format) instead of evaluating them")
	flag.Parse()
	if *out == "" {
		fatal("-out required")
	}
	dir := *logdir
	if dir == "" {
		dir = os.TempDir()
	}
	logging.Init(dir, "pkscript", "fatal", 1, true)

	r := rand.New(rand.NewSource(*seed))
	var cases []lib.Case
	if *replay != "" {
		raw, err := os.ReadFile(*replay)
		if err != nil {
			fatal("%v", err)
		}
		var ins []replayInput
		if err := json.Unmarshal(raw, &ins); err != nil {
			fatal("replay file: %v", err)
		}
		for _, in := range ins {
			c := lib.Case{Src: "replay"}
			var e1, e2, e3 error
			c.Script, e1 = hex.DecodeString(in.Script)
			c.Hash, e2 = hex.DecodeString(in.Hash)
			c.Target, e3 = hex.DecodeString(in.Target)
			if e1 != nil || e2 != nil || e3 != nil {
				fatal("replay file: bad hex")
			}
			if in.K == "build" {
				c.BK = in.BK
				c.Frozen = in.Frozen
			}
			cases = append(cases, c)
		}
	}
	if *pinned {
		cases = append(cases, lib.Pinned(r)...)
		cases = append(cases, lib.Prefixes(r)...)
	}
	if *casesPath != "" {
		f, err := os.Open(*casesPath)
		if err != nil {
			fatal("%v", err)
		}
		sc := bufio.NewScanner(f)
		sc.Buffer(make([]byte, 1<<20), 1<<24)
		seen := map[string]bool{}
		for sc.Scan() {
			if len(sc.Bytes()) == 0 {
				continue
			}
			g, err := lib.ParseGenCase(sc.Bytes())
			if err != nil {
				fatal("case line: %v", err)
			}
			if g.BK != "" {
				c, err := lib.BuildCase(r, g)
				if err != nil {
					fatal("build case: %v", err)
				}
				cases = append(cases, c)
				continue
			}
			for k := 0; k < *reps; k++ {
				s, err := lib.Concretise(r, g.Toks)
				if err != nil {
					fatal("concretise: %v", err)
				}
				key := string(sc.Bytes()) + "|" + string(s)
				if seen[key] {
					continue // no random payload in this sequence
				}
				seen[key] = true
				c := lib.Case{Src: "enum", Toks: g.Toks, Script: s}
				if g.Toks == nil {
					c.Toks = []lib.Tok{}
				}
				if g.Abs != nil {
					c.Abs = *g.Abs
				}
				cases = append(cases, c)
			}
		}
		if err := sc.Err(); err != nil {
			fatal("%v", err)
		}
		f.Close()
	}
	cases = append(cases, lib.Seeded(r, *nRandom, *nMut, *nLong, *nBuild)...)

	lo, hi := *from, len(cases)
	if *to >= 0 && *to < hi {
		hi = *to
	}
	if *dump {
		ins := []replayInput{}
		for i := lo; i < hi; i++ {
			c := cases[i]
			in := replayInput{K: "read", Script: hex.EncodeToString(c.Script)}
			if c.BK != "" {
				in = replayInput{K: "build", BK: c.BK, Hash: hex.EncodeToString(c.Hash), Frozen: c.Frozen, Target: hex.EncodeToString(c.Target)}
			}
			ins = append(ins, in)
		}
		raw, _ := json.Marshal(ins)
		if err := os.WriteFile(*out, raw, 0o644); err != nil {
			fatal("%v", err)
		}
		fmt.Println("SUMMARY {\"total\": " + fmt.Sprint(len(cases)) + "}")
		return
	}
	fo, err := os.Create(*out)
	if err != nil {
		fatal("%v", err)
	}
	w := bufio.NewWriterSize(fo, 1<<20)
	enc := json.NewEncoder(w)
	counts := map[string]int{}
	for i := lo; i < hi; i++ {
		c := cases[i]
		var l lib.Line
		if c.BK != "" {
			l = lib.EvalBuild(i+1, c)
		} else {
			l = lib.EvalRead(i+1, c)
		}
		counts[c.Src]++
		if err := enc.Encode(&l); err != nil {
			fatal("%v", err)
		}
		if i%256 == 0 {
			w.Flush() // a process-level crash loses at most the cases after the last flush
		}
	}
	if err := w.Flush(); err != nil {
		fatal("%v", err)
	}
	fo.Close()
	sum, _ := json.Marshal(map[string]interface{}{"total": len(cases), "evaluated": hi - lo, "by_source": counts})
	fmt.Println("SUMMARY " + string(sum))
}
