//go:build verif_cli

package main

import (
	"github.com/massnetorg/mass-core/massutil"
	clicmd "massnet.org/mass-wallet/cmd/masswalletcli/cmd"
)

// The CLI's amount parser (cmd/masswalletcli/cmd/cmd_binding.go, stringToAmount) is unexported.
// bin/p_C15.py builds this command with `-tags verif,verif_cli -overlay ...`, where the overlay adds
// ONE file to that package IN THE BUILD ONLY (nothing is written to the repository):
//
//	package cmd
//	func VerifStringToAmount(s string) (massutil.Amount, error) { return stringToAmount(s) }
var cliStringToAmount func(string) (massutil.Amount, error) = clicmd.VerifStringToAmount
