//go:build !verif_cli

package main

import "github.com/massnetorg/mass-core/massutil"

// Without the tag verif_cli the CLI's unexported parser is not linked in; the trace header says so
// (cliav=false) and the "cli" field repeats the api result.
var cliStringToAmount func(string) (massutil.Amount, error)
