// Command amount evaluates the amount conversions of the code under test for property C15.
//
// It decides nothing.  For every case it records what the implementation returned
// (api.StringToAmount, the CLI's stringToAmount, api.AmountToString, masswallet.AmountToString and
// the round trip through the implementation's own output) as one ndjson line; the trace
// specification spec/AmountTrace.tla, evaluated by TLC, judges every line against spec/Amount.tla.
//
//	amount -cases cases.ndjson -out trace.ndjson      cases printed by TLC (spec/AmountGen.tla)
//	amount -random N -seed S -out trace.ndjson        seeded random cases (inputs only; TLC judges)
//
// Strings travel as arrays of byte values and integers as arrays of decimal digits (most significant
// first), because TLC's integers are 32-bit and its strings are atoms.
//
// Trusted primitives used here: strconv / math/big decimal printing of an integer, math/rand.
package main

import (
	"bufio"
	"encoding/json"
	"flag"
	"fmt"
	"math"
	"math/big"
	"math/rand"
	"os"
	"strconv"

	"github.com/massnetorg/mass-core/consensus"
	"github.com/massnetorg/mass-core/massutil"
	"massnet.org/mass-wallet/api"
	"massnet.org/mass-wallet/masswallet"
)

// ---------------------------------------------------------------- wire format

type Case struct {
	K   string `json:"k"`             // "parse" | "fmt"
	Fam string `json:"fam,omitempty"` // generator family (bookkeeping only)
	In  []int  `json:"in,omitempty"`  // parse: the input string as byte values
	Neg bool   `json:"neg,omitempty"` // fmt: sign
	D   []int  `json:"d,omitempty"`   // fmt: decimal digits of |m|
}

type ParseRes struct {
	Ok    bool  `json:"ok"`
	Val   []int `json:"val"` // digits of the returned amount (Maxwell); <<>> when !ok
	Panic bool  `json:"panic"`
}

type FmtRes struct {
	Ok    bool  `json:"ok"`
	Out   []int `json:"out"` // returned string as byte values; <<>> when !ok
	Panic bool  `json:"panic"`
}

type Line struct {
	K   string `json:"k"`
	Fam string `json:"fam"`
	// parse
	In  []int     `json:"in"`
	Api *ParseRes `json:"api,omitempty"`
	Cli *ParseRes `json:"cli,omitempty"`
	// fmt
	Neg   bool      `json:"neg"`
	D     []int     `json:"d"`
	FApi  *FmtRes   `json:"fapi,omitempty"`
	FMw   *FmtRes   `json:"fmw,omitempty"`
	Rt    *ParseRes `json:"rt,omitempty"` // api.StringToAmount(api.AmountToString(m)) when the latter succeeded
	HasRt bool      `json:"hasrt"`        // whether rt was evaluated
}

// Hdr is the first line of every trace: the constants the linked mass-core really uses.
type Hdr struct {
	K     string `json:"k"`
	Max   []int  `json:"max"`   // digits of massutil.MaxAmount()
	Unit  []int  `json:"unit"`  // digits of consensus.MaxwellPerMass
	Cliav bool   `json:"cliav"` // CLI parser linked into this build (tag verif_cli + overlay)
}

func digitsOf(s string) []int {
	out := make([]int, 0, len(s))
	for i := 0; i < len(s); i++ {
		out = append(out, int(s[i]-'0'))
	}
	return out
}

func bytesOf(s string) []int {
	out := make([]int, 0, len(s))
	for i := 0; i < len(s); i++ {
		out = append(out, int(s[i]))
	}
	return out
}

func strOf(b []int) string {
	bs := make([]byte, len(b))
	for i, v := range b {
		bs[i] = byte(v)
	}
	return string(bs)
}

// ---------------------------------------------------------------- implementation under test

func evalParse(f func(string) (massutil.Amount, error), s string) (res *ParseRes) {
	res = &ParseRes{Val: []int{}}
	defer func() {
		if r := recover(); r != nil {
			res.Ok, res.Panic, res.Val = false, true, []int{}
		}
	}()
	amt, err := f(s)
	if err != nil {
		return res
	}
	res.Ok = true
	if amt.Value() == nil {
		res.Val = []int{0}
	} else {
		res.Val = digitsOf(amt.Value().BigValue().String())
	}
	return res
}

func evalFmt(f func(int64) (string, error), m int64) (res *FmtRes) {
	res = &FmtRes{Out: []int{}}
	defer func() {
		if r := recover(); r != nil {
			res.Ok, res.Panic, res.Out = false, true, []int{}
		}
	}()
	s, err := f(m)
	if err != nil {
		return res
	}
	res.Ok = true
	res.Out = bytesOf(s)
	return res
}

func evalCase(c *Case) *Line {
	l := &Line{K: c.K, Fam: c.Fam, In: []int{}, D: []int{}}
	switch c.K {
	case "parse":
		if c.In != nil {
			l.In = c.In
		}
		s := strOf(l.In)
		l.Api = evalParse(api.StringToAmount, s)
		if cliStringToAmount != nil {
			l.Cli = evalParse(cliStringToAmount, s)
		} else {
			l.Cli = l.Api
		}
	case "fmt":
		l.Neg, l.D = c.Neg, c.D
		mag, ok := new(big.Int).SetString(func() string {
			b := make([]byte, len(c.D))
			for i, d := range c.D {
				b[i] = byte('0' + d)
			}
			return string(b)
		}(), 10)
		if !ok {
			fail("bad digits in fmt case")
		}
		if c.Neg {
			mag.Neg(mag)
		}
		if !mag.IsInt64() {
			fail("fmt case does not fit int64: " + mag.String())
		}
		m := mag.Int64()
		l.FApi = evalFmt(api.AmountToString, m)
		l.FMw = evalFmt(masswallet.AmountToString, m)
		l.Rt = &ParseRes{Val: []int{}}
		if l.FApi.Ok {
			l.HasRt = true
			l.Rt = evalParse(api.StringToAmount, strOf(l.FApi.Out))
		}
	default:
		fail("unknown case kind " + c.K)
	}
	return l
}

func fail(msg string) {
	fmt.Fprintln(os.Stderr, "amount:", msg)
	os.Exit(3)
}

// ---------------------------------------------------------------- seeded random inputs

var adversarial = []string{"+", "-", "e", "E", "_", " ", ",", "\t", "\n", "x", "\x00", "\xff", "'", "/", ":",
	"١" /* ARABIC-INDIC DIGIT ONE */, "１" /* FULLWIDTH DIGIT ONE */, "e5", "E-2", "0x", "Inf", "NaN", "MASS", " MASS", "--", "+-"}

func randDigits(r *rand.Rand, n int) string {
	b := make([]byte, n)
	for i := range b {
		b[i] = byte('0' + r.Intn(10))
	}
	return string(b)
}

func randNumeral(r *rand.Rand) string {
	maxMass := consensus.MaxMass
	var ip string
	switch r.Intn(8) {
	case 0:
		ip = ""
	case 1:
		ip = strconv.FormatUint(maxMass-2+uint64(r.Intn(5)), 10)
	case 2:
		ip = strconv.FormatUint(uint64(r.Int63n(int64(maxMass)+1)), 10)
	case 3:
		ip = randDigits(r, 1+r.Intn(40)) // up to beyond 128 bits
	case 4:
		ip = strconv.FormatUint(math.MaxInt64-2+uint64(r.Intn(5)), 10)
	case 5:
		ip = "0"
	default:
		ip = randDigits(r, 1+r.Intn(9))
	}
	if r.Intn(4) == 0 {
		ip = "000"[:r.Intn(4)] + ip
	}
	s := ip
	if r.Intn(5) != 0 {
		var fp string
		switch r.Intn(6) {
		case 0:
			fp = ""
		case 1:
			fp = randDigits(r, 8)
		case 2:
			fp = randDigits(r, 9+r.Intn(4))
		case 3:
			fp = "00000000"[:r.Intn(9)] + strconv.Itoa(1+r.Intn(9))
		default:
			fp = randDigits(r, 1+r.Intn(8))
		}
		if r.Intn(3) == 0 {
			fp += "000000000000"[:r.Intn(13)]
		}
		s += "." + fp
	}
	return s
}

func mutate(r *rand.Rand, s string) string {
	a := adversarial[r.Intn(len(adversarial))]
	p := r.Intn(len(s) + 1)
	switch r.Intn(4) {
	case 0, 1: // insert
		return s[:p] + a + s[p:]
	case 2: // replace one byte
		if len(s) == 0 {
			return a
		}
		p = r.Intn(len(s))
		return s[:p] + a + s[p+1:]
	default: // second dot
		return s[:p] + "." + s[p:]
	}
}

func randBytes(r *rand.Rand) string {
	alpha := "0123456789..++--eE_ ,\t\nxS\x00\xff\xd9\xa1"
	n := r.Intn(25)
	b := make([]byte, n)
	for i := range b {
		if r.Intn(12) == 0 {
			b[i] = byte(r.Intn(256))
		} else {
			b[i] = alpha[r.Intn(len(alpha))]
		}
	}
	return string(b)
}

func randInt(r *rand.Rand) int64 {
	max := massutil.MaxAmount().IntValue()
	switch r.Intn(8) {
	case 0:
		return max - 3 + int64(r.Intn(8))
	case 1:
		return int64(r.Uint64()) // anywhere in int64, negative included
	case 2:
		p := int64(1)
		for i := r.Intn(17); i > 0; i-- {
			p *= 10
		}
		return (1+int64(r.Intn(2064)))*p - 1 + int64(r.Intn(3))
	case 3:
		return int64(r.Intn(1000)) * 100000000 / int64(1+r.Intn(9))
	case 4:
		return max + r.Int63n(max)
	default:
		return r.Int63n(max + 1)
	}
}

func randomCase(r *rand.Rand) *Case {
	switch r.Intn(10) {
	case 0, 1, 2:
		return &Case{K: "parse", Fam: "rnd-bytes", In: bytesOf(randBytes(r))}
	case 3, 4:
		return &Case{K: "parse", Fam: "rnd-numeral", In: bytesOf(randNumeral(r))}
	case 5, 6, 7:
		return &Case{K: "parse", Fam: "rnd-mutated", In: bytesOf(mutate(r, randNumeral(r)))}
	default:
		m := randInt(r)
		c := &Case{K: "fmt", Fam: "rnd-int", Neg: m < 0}
		c.D = digitsOf(new(big.Int).Abs(big.NewInt(m)).String())
		return c
	}
}

// ---------------------------------------------------------------- main

func main() {
	casesPath := flag.String("cases", "", "ndjson file of cases printed by TLC")
	nrand := flag.Int("random", 0, "number of seeded random cases")
	seed := flag.Int64("seed", 1, "seed for -random")
	outPath := flag.String("out", "", "trace file (ndjson)")
	flag.Parse()
	if *outPath == "" || (*casesPath == "") == (*nrand == 0) {
		fail("usage: amount (-cases FILE | -random N -seed S) -out FILE")
	}
	fo, err := os.Create(*outPath)
	if err != nil {
		fail(err.Error())
	}
	w := bufio.NewWriterSize(fo, 1<<20)
	enc := json.NewEncoder(w)
	enc.SetEscapeHTML(false)

	hdr := &Hdr{K: "hdr",
		Max:   digitsOf(massutil.MaxAmount().Value().BigValue().String()),
		Unit:  digitsOf(strconv.FormatUint(consensus.MaxwellPerMass, 10)),
		Cliav: cliStringToAmount != nil}
	if err := enc.Encode(hdr); err != nil {
		fail(err.Error())
	}
	n := 0
	if *casesPath != "" {
		fi, err := os.Open(*casesPath)
		if err != nil {
			fail(err.Error())
		}
		sc := bufio.NewScanner(fi)
		sc.Buffer(make([]byte, 1<<20), 1<<24)
		for sc.Scan() {
			if len(sc.Bytes()) == 0 {
				continue
			}
			var c Case
			if err := json.Unmarshal(sc.Bytes(), &c); err != nil {
				fail("bad case line: " + err.Error())
			}
			if err := enc.Encode(evalCase(&c)); err != nil {
				fail(err.Error())
			}
			n++
		}
		if err := sc.Err(); err != nil {
			fail(err.Error())
		}
	} else {
		r := rand.New(rand.NewSource(*seed))
		for i := 0; i < *nrand; i++ {
			if err := enc.Encode(evalCase(randomCase(r))); err != nil {
				fail(err.Error())
			}
			n++
		}
	}
	if err := w.Flush(); err != nil {
		fail(err.Error())
	}
	if err := fo.Close(); err != nil {
		fail(err.Error())
	}
	fmt.Printf("EVALUATED %d\n", n)
}
