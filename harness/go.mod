module verif/harness

go 1.21

require (
	github.com/btcsuite/btcd v0.20.1-beta
	github.com/golang/protobuf v1.4.2
	github.com/massnetorg/mass-core v0.0.0-20210809014450-d944e876e3fb
	github.com/sirupsen/logrus v1.2.0
	golang.org/x/crypto v0.0.0-20210322153248-0c34fe9e7dc2
	golang.org/x/text v0.3.3
	google.golang.org/grpc v1.24.0
	massnet.org/mass-wallet v0.0.0
)

require (
	github.com/btcsuite/go-flags v0.0.0-20150116065318-6c288d648c1c // indirect
	github.com/go-kit/kit v0.9.0 // indirect
	github.com/go-logfmt/logfmt v0.4.0 // indirect
	github.com/gogo/protobuf v1.3.1 // indirect
	github.com/golang/groupcache v0.0.0-20191227052852-215e87163ea7 // indirect
	github.com/golang/snappy v0.0.1 // indirect
	github.com/grpc-ecosystem/grpc-gateway v1.14.5 // indirect
	github.com/lestrrat/go-file-rotatelogs v0.0.0-20180223000712-d3151e2a480f // indirect
	github.com/lestrrat/go-strftime v0.0.0-20180220042222-ba3bf9c1d042 // indirect
	github.com/massnetorg/tendermint v1.0.0 // indirect
	github.com/patrickmn/go-cache v2.1.0+incompatible // indirect
	github.com/pkg/errors v0.8.1 // indirect
	github.com/rifflock/lfshook v0.0.0-20180920164130-b9218ef580f5 // indirect
	github.com/rs/cors v1.7.0 // indirect
	github.com/shopspring/decimal v1.2.0 // indirect
	github.com/syndtr/goleveldb v1.0.1-0.20210305035536-64b5b1c73954 // indirect
	golang.org/x/net v0.0.0-20210226172049-e18ecbb05110 // indirect
	golang.org/x/sys v0.0.0-20210420205809-ac73e9fd8988 // indirect
	golang.org/x/term v0.0.0-20201126162022-7de9c90e9dd1 // indirect
	google.golang.org/genproto v0.0.0-20190927181202-20e1ac93f88c // indirect
	google.golang.org/protobuf v1.23.0 // indirect
	gopkg.in/fatih/set.v0 v0.2.1 // indirect
	gopkg.in/karalabe/cookiejar.v2 v2.0.0-20150724131613-8dcd6a7f4951 // indirect
)

replace massnet.org/mass-wallet => /repo
