// Package pkscriptlib is the Go side of the C16 check (output-script classification).
//
// It does exactly two things and decides nothing:
//   - it turns the structural cases printed by TLC (spec/PkScriptGen.tla) into concrete byte
//     strings and adds seeded random / mutated / truncated ones (gen.go);
//   - it evaluates, under recover(), the implementation (utils.ParsePkScript,
//     api.extractAddressInfos, APIServer.DecodeRawTransaction, the wallet's script builders) and
//     the trusted primitives of the consensus library (txscript.GetScriptClass / GetScriptInfo /
//     ExtractPkScriptAddrs, massutil address codec, consensus constants) on every case and
//     records what they returned, one JSON object per line (eval.go).
//
// Every line is judged by TLC against spec/PkScript.tla (spec/PkScriptTrace.tla).
package pkscriptlib

import (
	"context"
	"encoding/binary"
	"encoding/hex"
	"fmt"
	"reflect"
	"strconv"
	"strings"

	"github.com/massnetorg/mass-core/consensus"
	"github.com/massnetorg/mass-core/massutil"
	"github.com/massnetorg/mass-core/txscript"
	"github.com/massnetorg/mass-core/wire"
	"massnet.org/mass-wallet/api"
	pb "massnet.org/mass-wallet/api/proto"
	"massnet.org/mass-wallet/config"
	"massnet.org/mass-wallet/masswallet"
	"massnet.org/mass-wallet/masswallet/utils"
)

// Dec is an address string together with what the consensus address codec
// (massutil.DecodeAddress / EncodeAddress) says about it.
type Dec struct {
	Str   string `json:"str"`
	Ok    bool   `json:"ok"`    // decodes and is for this network
	Kind  string `json:"kind"`  // wsh0 (standard), wsh1 (staking), pkh, target, sh, pk, "" (none)
	Bytes []int  `json:"bytes"` // ScriptAddress() of the decoded address
	Canon bool   `json:"canon"` // re-encoding the decoded address gives the same string
}

// PObs is what utils.ParsePkScript returned.
type PObs struct {
	St         string `json:"st"` // ok | unsupported (== utils.ErrUnsupportedScript) | err | panic
	Err        string `json:"err"`
	Cls        string `json:"cls"`
	IsStk      bool   `json:"isStk"`
	IsBind     bool   `json:"isBind"`
	Mat        []int  `json:"mat"` // Maturity() as 8 little-endian bytes
	OwnBytes   []int  `json:"ownBytes"`
	Own        Dec    `json:"own"`
	SecPresent bool   `json:"secPresent"`
	SecBytes   []int  `json:"secBytes"`
	Sec        Dec    `json:"sec"`
}

// AObs is what api.extractAddressInfos returned.
type AObs struct {
	St      string `json:"st"` // ok | err | panic
	Err     string `json:"err"`
	Cls     string `json:"cls"`
	Rcp     Dec    `json:"rcp"`
	Stk     Dec    `json:"stk"`
	BndRaw  string `json:"bndRaw"`
	BndOk   bool   `json:"bndOk"` // BndRaw has the form <address>:<type>:<size>
	Bnd     Dec    `json:"bnd"`
	TType   string `json:"ttype"`
	TSize   int    `json:"tsize"`
	ReqSigs int    `json:"reqSigs"`
}

// DObs is the outcome of the public entry APIServer.DecodeRawTransaction on a transaction
// whose only output carries the script.
type DObs struct {
	St string `json:"st"` // ok | err | panic
}

// XObs is what txscript.ExtractPkScriptAddrs returned.
type XObs struct {
	St      string `json:"st"` // ok | err | panic
	Err     string `json:"err"`
	Cls     string `json:"cls"`
	Addrs   []Dec  `json:"addrs"`
	ReqSigs int    `json:"reqSigs"`
}

// OObs is the oracle named by the property: the consensus library's own functions.
type OObs struct {
	Cls  string `json:"cls"`  // GetScriptClass
	ICls string `json:"icls"` // GetScriptInfo
	X    XObs   `json:"x"`
}

// Consts are consensus parameters read from the library at run time.
type Consts struct {
	Lock      []int `json:"lock"`      // consensus.MASSIP0002BindingLockedPeriod
	MinFrozen []int `json:"minFrozen"` // consensus.MinFrozenPeriod
	MaxFrozen []int `json:"maxFrozen"` // wire.SequenceLockTimeMask - 1
}

// Tok is one abstract token of a TLC-generated case (see spec/PkScript.tla, section 6).
type Tok struct {
	K string `json:"k"`
	N int    `json:"n"`
	M int    `json:"m"`
	F string `json:"f"`
}

// Abs is the prediction the specification made for a token sequence at the abstract level.
type Abs struct {
	Regular bool   `json:"regular"`
	Cls     string `json:"cls"`
	Part    string `json:"part"`
}

// BuildIn are the values a builder was asked to encode.
type BuildIn struct {
	Hash   []int `json:"hash"`
	Frozen []int `json:"frozen"` // 8 little-endian bytes
	Target []int `json:"target"`
}

// BObs is the outcome of a builder call.
type BObs struct {
	St  string `json:"st"` // ok | err | panic | skip (the consensus codec has no address string for the input)
	Err string `json:"err"`
}

// Line is one evaluated case.
type Line struct {
	Id     int     `json:"id"`
	K      string  `json:"k"`   // read | build
	Src    string  `json:"src"` // enum | pinned | random | mutated | prefix | long | build
	HasAbs bool    `json:"hasAbs"`
	Toks   []Tok   `json:"toks"`
	Abs    Abs     `json:"abs"`
	BK     string  `json:"bk"` // std | stk | bind (build lines)
	In     BuildIn `json:"in"`
	B      BObs    `json:"b"`
	S      []int   `json:"s"` // the script
	P      PObs    `json:"p"`
	A      AObs    `json:"a"`
	D      DObs    `json:"d"`
	O      OObs    `json:"o"`
	C      Consts  `json:"c"`
}

func ints(b []byte) []int {
	r := make([]int, len(b))
	for i, x := range b {
		r[i] = int(x)
	}
	return r
}

// Bytes converts a JSON byte list back.
func Bytes(a []int) []byte {
	r := make([]byte, len(a))
	for i, x := range a {
		r[i] = byte(x)
	}
	return r
}

func le8(v uint64) []int {
	b := make([]byte, 8)
	binary.LittleEndian.PutUint64(b, v)
	return ints(b)
}

func clean(s string) string {
	var sb strings.Builder
	for _, r := range s {
		if r >= 32 && r < 127 && r != '"' && r != '\\' {
			sb.WriteRune(r)
		} else {
			sb.WriteByte('?')
		}
	}
	if sb.Len() > 120 {
		return sb.String()[:120]
	}
	return sb.String()
}

// ClassName names a consensus script class through the library's own constants.
func ClassName(c txscript.ScriptClass) string {
	switch c {
	case txscript.NonStandardTy:
		return "nonstandard"
	case txscript.WitnessV0ScriptHashTy:
		return "witness_v0_scripthash"
	case txscript.StakingScriptHashTy:
		return "staking_scripthash"
	case txscript.BindingScriptHashTy:
		return "binding_scripthash"
	case txscript.MultiSigTy:
		return "multisig"
	case txscript.NullDataTy:
		return "nulldata"
	}
	return "class" + strconv.Itoa(int(c))
}

func isNil(v interface{}) bool {
	if v == nil {
		return true
	}
	rv := reflect.ValueOf(v)
	switch rv.Kind() {
	case reflect.Ptr, reflect.Interface, reflect.Slice, reflect.Map:
		return rv.IsNil()
	}
	return false
}

func noDec(s string) Dec { return Dec{Str: s, Bytes: []int{}} }

// Decode evaluates the consensus address codec on a string.
func Decode(s string) (d Dec) {
	d = noDec(clean(s))
	if s == "" || d.Str != s {
		return
	}
	defer func() {
		if r := recover(); r != nil {
			d = noDec(d.Str)
		}
	}()
	a, err := massutil.DecodeAddress(s, config.ChainParams)
	if err != nil || isNil(a) {
		return
	}
	d.Ok = a.IsForNet(config.ChainParams)
	d.Bytes = ints(a.ScriptAddress())
	d.Canon = a.EncodeAddress() == s
	switch t := a.(type) {
	case *massutil.AddressWitnessScriptHash:
		d.Kind = "wsh" + strconv.Itoa(int(t.WitnessExtendVersion()))
		if t.WitnessVersion() != 0 {
			d.Kind = "wshv" + strconv.Itoa(int(t.WitnessVersion()))
		}
	case *massutil.AddressPubKeyHash:
		d.Kind = "pkh"
	case *massutil.AddressBindingTarget:
		d.Kind = "target"
	case *massutil.AddressScriptHash:
		d.Kind = "sh"
	case *massutil.AddressPubKey:
		d.Kind = "pk"
	default:
		d.Kind = "other"
	}
	return
}

func emptyP(st string) PObs {
	return PObs{St: st, Mat: []int{}, OwnBytes: []int{}, Own: noDec(""), SecBytes: []int{}, Sec: noDec("")}
}

// EvalParse runs the wallet's reader utils.ParsePkScript and every accessor a caller uses.
func EvalParse(s []byte) (p PObs) {
	p = emptyP("")
	defer func() {
		if r := recover(); r != nil {
			p = emptyP("panic")
			p.Err = clean(fmt.Sprint(r))
		}
	}()
	ps, err := utils.ParsePkScript(s, config.ChainParams)
	if err != nil {
		if err == utils.ErrUnsupportedScript {
			p.St = "unsupported"
		} else {
			p.St = "err"
		}
		p.Err = clean(err.Error())
		return
	}
	if isNil(ps) {
		p.St = "err"
		p.Err = "nil result without error"
		return
	}
	p.St = "ok"
	p.Cls = ClassName(ps.ScriptClass())
	p.IsStk = ps.IsStaking()
	p.IsBind = ps.IsBinding()
	p.Mat = le8(ps.Maturity())
	p.OwnBytes = ints(ps.StdScriptAddress())
	p.Own = Decode(ps.StdEncodeAddress())
	// the wallet's callers print the second address of every staking / binding reading without looking
	// at it first (filterTx, GetBindingHistory, the API): a reading that cannot do that is a crash
	if p.IsStk || p.IsBind || !isNil(ps.SecondAddress()) {
		p.SecPresent = !isNil(ps.SecondAddress())
		p.SecBytes = ints(ps.SecondScriptAddress())
		p.Sec = Decode(ps.SecondEncodeAddress())
	}
	return
}

func emptyA(st string) AObs {
	return AObs{St: st, Rcp: noDec(""), Stk: noDec(""), Bnd: noDec("")}
}

// EvalAPI runs the API's reader extractAddressInfos.
func EvalAPI(s []byte) (a AObs) {
	a = emptyA("")
	defer func() {
		if r := recover(); r != nil {
			a = emptyA("panic")
			a.Err = clean(fmt.Sprint(r))
		}
	}()
	cls, rcp, stk, bnd, req, err := api.VerifC16ExtractAddressInfos(s)
	if err != nil {
		a.St = "err"
		a.Err = clean(err.Error())
		return
	}
	a.St = "ok"
	a.Cls = ClassName(cls)
	a.Rcp = Decode(rcp)
	a.Stk = Decode(stk)
	a.BndRaw = clean(bnd)
	a.ReqSigs = req
	parts := strings.Split(bnd, ":")
	if len(parts) == 3 {
		if n, e := strconv.Atoi(parts[2]); e == nil && n >= 0 && n < 1<<20 && strconv.Itoa(n) == parts[2] {
			a.BndOk = true
			a.Bnd = Decode(parts[0])
			a.TType = clean(parts[1])
			a.TSize = n
		}
	}
	return
}

var apiServer = &api.APIServer{}

// EvalDecodeRaw sends a transaction paying to the script through the public DecodeRawTransaction.
func EvalDecodeRaw(s []byte) (d DObs) {
	defer func() {
		if r := recover(); r != nil {
			d = DObs{St: "panic"}
		}
	}()
	mtx := wire.NewMsgTx()
	mtx.AddTxOut(wire.NewTxOut(100000000, s))
	raw, err := mtx.Bytes(wire.Packet)
	if err != nil {
		return DObs{St: "err"}
	}
	_, err = apiServer.DecodeRawTransaction(context.Background(), &pb.DecodeRawTransactionRequest{Hex: hex.EncodeToString(raw)})
	if err != nil {
		return DObs{St: "err"}
	}
	return DObs{St: "ok"}
}

// EvalOracle runs the consensus library's own classification and address extraction.
func EvalOracle(s []byte) (o OObs) {
	o.X = XObs{Addrs: []Dec{}}
	func() {
		defer func() {
			if r := recover(); r != nil {
				o.Cls = "panic"
			}
		}()
		o.Cls = ClassName(txscript.GetScriptClass(s))
	}()
	func() {
		defer func() {
			if r := recover(); r != nil {
				o.ICls = "panic"
			}
		}()
		c, _ := txscript.GetScriptInfo(s)
		o.ICls = ClassName(c)
	}()
	func() {
		defer func() {
			if r := recover(); r != nil {
				o.X = XObs{St: "panic", Err: clean(fmt.Sprint(r)), Addrs: []Dec{}}
			}
		}()
		c, addrs, _, req, err := txscript.ExtractPkScriptAddrs(s, config.ChainParams)
		if err != nil {
			o.X.St = "err"
			o.X.Err = clean(err.Error())
			return
		}
		o.X.St = "ok"
		o.X.Cls = ClassName(c)
		o.X.ReqSigs = req
		for _, a := range addrs {
			if isNil(a) {
				o.X.Addrs = append(o.X.Addrs, noDec(""))
				continue
			}
			o.X.Addrs = append(o.X.Addrs, Decode(a.EncodeAddress()))
		}
	}()
	return
}

// ReadConsts reads the consensus parameters the property refers to.
func ReadConsts() Consts {
	return Consts{
		Lock:      le8(consensus.MASSIP0002BindingLockedPeriod),
		MinFrozen: le8(consensus.MinFrozenPeriod),
		MaxFrozen: le8(wire.SequenceLockTimeMask - 1),
	}
}

func newLine(id int, k, src string) Line {
	return Line{Id: id, K: k, Src: src, Toks: []Tok{}, In: BuildIn{Hash: []int{}, Frozen: []int{}, Target: []int{}},
		S: []int{}, P: emptyP(""), A: emptyA(""), O: OObs{X: XObs{Addrs: []Dec{}}}, C: ReadConsts()}
}

func (l *Line) read(s []byte) {
	l.S = ints(s)
	l.P = EvalParse(s)
	l.A = EvalAPI(s)
	l.D = EvalDecodeRaw(s)
	l.O = EvalOracle(s)
}

// EvalRead evaluates every reader and the oracle on one script.
func EvalRead(id int, c Case) Line {
	l := newLine(id, "read", c.Src)
	if c.Toks != nil {
		l.Toks = c.Toks
		l.HasAbs = true
		l.Abs = c.Abs
	}
	l.read(c.Script)
	return l
}

// EvalBuild asks the wallet's builder for a script and then reads that script back.
func EvalBuild(id int, c Case) Line {
	l := newLine(id, "build", c.Src)
	l.BK = c.BK
	l.In = BuildIn{Hash: ints(c.Hash), Frozen: le8(uint64(c.Frozen)), Target: ints(c.Target)}
	var script []byte
	func() {
		defer func() {
			if r := recover(); r != nil {
				l.B = BObs{St: "panic", Err: clean(fmt.Sprint(r))}
				script = nil
			}
		}()
		var err error
		switch c.BK {
		case "std":
			addr, e := massutil.NewAddressWitnessScriptHash(c.Hash, config.ChainParams)
			if e != nil {
				l.B = BObs{St: "skip", Err: clean(e.Error())}
				return
			}
			script, err = masswallet.PayToWitnessV0Address(addr.EncodeAddress(), config.ChainParams)
		case "stk":
			addr, e := massutil.NewAddressStakingScriptHash(c.Hash, config.ChainParams)
			if e != nil {
				l.B = BObs{St: "skip", Err: clean(e.Error())}
				return
			}
			amt, _ := massutil.NewAmountFromInt(int64(consensus.MinStakingValue))
			if id%2 == 0 || !wire.IsValidFrozenPeriod(uint64(c.Frozen)) {
				script, err = masswallet.VerifC16StakingScript(addr.EncodeAddress(), c.Frozen, amt)
				break
			}
			// every other case: the output is the third of a request of four, after an output to the same address with
			// another period and one to another address with the same period, before one more to the same address: the
			// script of an output is a function of its own (address, period) wherever it stands in the request
			ctx := uint32(consensus.MinFrozenPeriod)
			if ctx == c.Frozen {
				ctx++
			}
			oh := append([]byte{}, c.Hash...)
			oh[0] ^= 0x5a
			other, e := massutil.NewAddressStakingScriptHash(oh, config.ChainParams)
			if e != nil {
				l.B = BObs{St: "skip", Err: clean(e.Error())}
				return
			}
			var all [][]byte
			all, err = masswallet.VerifC16StakingScripts([]*masswallet.StakingTxOut{
				{Address: addr.EncodeAddress(), FrozenPeriod: ctx, Amount: amt},
				{Address: other.EncodeAddress(), FrozenPeriod: c.Frozen, Amount: amt},
				{Address: addr.EncodeAddress(), FrozenPeriod: c.Frozen, Amount: amt},
				{Address: addr.EncodeAddress(), FrozenPeriod: ctx, Amount: amt}})
			if err == nil {
				if len(all) != 4 {
					err = fmt.Errorf("request of 4 staking outputs built %d outputs", len(all))
				} else {
					script = all[2]
				}
			}
		case "bind":
			holder, e := massutil.NewAddressWitnessScriptHash(c.Hash, config.ChainParams)
			if e != nil {
				l.B = BObs{St: "skip", Err: clean(e.Error())}
				return
			}
			var target massutil.Address
			if len(c.Target) == 20 {
				target, e = massutil.NewAddressPubKeyHash(c.Target, config.ChainParams)
			} else {
				target, e = massutil.NewAddressBindingTarget(c.Target, config.ChainParams)
			}
			if e != nil || isNil(target) {
				l.B = BObs{St: "skip", Err: "no address string for this target"}
				return
			}
			script, err = api.VerifC16BindingScript(holder.EncodeAddress(), target.EncodeAddress())
		default:
			l.B = BObs{St: "skip", Err: "unknown builder"}
			return
		}
		if err != nil {
			l.B = BObs{St: "err", Err: clean(err.Error())}
			script = nil
			return
		}
		l.B = BObs{St: "ok"}
	}()
	if l.B.St == "ok" {
		l.read(script)
	}
	return l
}
