package pkscriptlib

import (
	"encoding/binary"
	"encoding/json"
	"fmt"
	"math/rand"

	"github.com/btcsuite/btcd/btcec"
	"github.com/massnetorg/mass-core/consensus"
	"github.com/massnetorg/mass-core/wire"
)

// Case is one input: a script to read or a builder call to make.
type Case struct {
	Src    string
	Toks   []Tok // nil unless the case refines a TLC-generated token sequence
	Abs    Abs
	Script []byte
	BK     string // builder kind for build cases
	Hash   []byte
	Frozen uint32
	Target []byte
}

// GenCase is one line printed by TLC (spec/PkScriptGen.tla).
type GenCase struct {
	Toks []Tok  `json:"toks"`
	Abs  *Abs   `json:"abs"`
	BK   string `json:"bk"`
	HF   string `json:"hf"`
	Fr   []int  `json:"fr"`   // frozen period, 4 little-endian bytes
	TLen int    `json:"tlen"` // 20 | 22
	TT   int    `json:"tt"`   // target type byte
	TS   int    `json:"ts"`   // target size byte
}

// ParseGenCase decodes one TLC case line.
func ParseGenCase(line []byte) (GenCase, error) {
	var g GenCase
	err := json.Unmarshal(line, &g)
	return g, err
}

func fillBytes(r *rand.Rand, n int, f string) []byte {
	b := make([]byte, n)
	switch f {
	case "z":
	case "ff":
		for i := range b {
			b[i] = 255
		}
	case "lz": // leading zero byte, rest random
		r.Read(b)
		if n > 0 {
			b[0] = 0
		}
	default:
		r.Read(b)
	}
	return b
}

func pick(r *rand.Rand, xs ...int) int { return xs[r.Intn(len(xs))] }

// payload gives the data bytes of a push of n bytes under fill rule f.  The rules are restated in
// spec/PkScript.tla (FillOK); TLC checks every concretised case against them.
func payload(r *rand.Rand, n int, f string) ([]byte, error) {
	switch f {
	case "r", "z", "ff", "lz":
		return fillBytes(r, n, f), nil
	case "tv", "tt", "ts": // 22-byte binding target: valid / unknown type byte / unacceptable size byte
		if n != 22 {
			return nil, fmt.Errorf("fill %s needs 22 bytes", f)
		}
		b := fillBytes(r, 22, "r")
		b[20] = byte(r.Intn(2))
		b[21] = byte(pick(r, 20, 21, 32, 24+r.Intn(20), 199, 200, 20+r.Intn(181)))
		if f == "tt" {
			b[20] = byte(pick(r, 2, 3, 128, 255, 2+r.Intn(254)))
		}
		if f == "ts" {
			b[21] = byte(pick(r, 0, 1, 19, 201, 255, r.Intn(20), 201+r.Intn(55)))
		}
		return b, nil
	case "fv", "fz", "fff", "flo", "fhi": // 8-byte frozen period: valid / zero / 2^64-1 / below minimum / above maximum
		if n != 8 {
			return nil, fmt.Errorf("fill %s needs 8 bytes", f)
		}
		b := make([]byte, 8)
		min, max := consensus.MinFrozenPeriod, wire.SequenceLockTimeMask-1
		switch f {
		case "fv":
			v := min
			switch r.Intn(5) {
			case 0:
			case 1:
				v = max
			case 2:
				v = min + 1
			case 3:
				v = max - 1
			default:
				v = min + uint64(r.Int63n(int64(max-min)))
			}
			binary.LittleEndian.PutUint64(b, v)
		case "fz":
		case "fff":
			for i := range b {
				b[i] = 255
			}
		case "flo":
			v := uint64(1)
			if min > 1 {
				v = pick64(r, 1, min-1, uint64(r.Int63n(int64(min))))
			}
			binary.LittleEndian.PutUint64(b, v)
		case "fhi":
			binary.LittleEndian.PutUint64(b, pick64(r, max+1, max+2, 1<<32, 1<<63, 0xfffffffffffffffe, max+1+uint64(r.Int63())))
		}
		return b, nil
	case "pk": // a valid serialised public key (33 compressed / 65 uncompressed)
		k := make([]byte, 32)
		r.Read(k)
		k[0] |= 1
		_, pub := btcec.PrivKeyFromBytes(btcec.S256(), k)
		if n == 33 {
			return pub.SerializeCompressed(), nil
		}
		if n == 65 {
			return pub.SerializeUncompressed(), nil
		}
		return nil, fmt.Errorf("fill pk needs 33 or 65 bytes")
	}
	return nil, fmt.Errorf("unknown fill %q", f)
}

func pick64(r *rand.Rand, xs ...uint64) uint64 { return xs[r.Intn(len(xs))] }

// Concretise turns a token sequence into bytes.  Encoding rules: spec/PkScript.tla, TokShape.
func Concretise(r *rand.Rand, toks []Tok) ([]byte, error) {
	var s []byte
	for _, t := range toks {
		switch t.K {
		case "op":
			s = append(s, byte(t.N))
		case "push", "trunc":
			if t.N < 1 || t.N > 75 || t.M > t.N || (t.K == "push" && t.M != t.N) {
				return nil, fmt.Errorf("bad token %+v", t)
			}
			s = append(s, byte(t.N))
			f := t.F
			if t.K == "trunc" {
				f = "r"
			}
			p, err := payload(r, t.N, f)
			if err != nil {
				return nil, err
			}
			s = append(s, p[:t.M]...)
		case "pd1", "pd2", "pd4":
			// PUSHDATA with announced length N and M data bytes present
			switch t.K {
			case "pd1":
				s = append(s, 76, byte(t.N))
			case "pd2":
				s = append(s, 77, byte(t.N), byte(t.N>>8))
			default:
				s = append(s, 78, byte(t.N), byte(t.N>>8), byte(t.N>>16), byte(t.N>>24))
			}
			p, err := payload(r, t.M, t.F)
			if err != nil {
				return nil, err
			}
			s = append(s, p...)
		case "lit":
			// literal bytes named by F
			switch t.F {
			case "pd1nolen":
				s = append(s, 76)
			case "pd2nolen":
				s = append(s, 77, 32)
			case "pd4nolen":
				s = append(s, 78, 32, 0, 0)
			case "pd4huge":
				s = append(s, 78, 255, 255, 255, 255)
			case "pd4neg":
				s = append(s, 78, 0, 0, 0, 128)
			case "pd2big":
				s = append(s, 77, 255, 255)
			default:
				return nil, fmt.Errorf("unknown literal %q", t.F)
			}
		default:
			return nil, fmt.Errorf("unknown token kind %q", t.K)
		}
	}
	return s, nil
}

// BuildCase concretises a TLC-generated builder case.
func BuildCase(r *rand.Rand, g GenCase) (Case, error) {
	c := Case{Src: "build-enum", BK: g.BK, Hash: fillBytes(r, 32, g.HF)}
	if len(g.Fr) == 4 {
		c.Frozen = binary.LittleEndian.Uint32(Bytes(g.Fr))
	}
	if g.BK == "bind" {
		if g.TLen != 20 && g.TLen != 22 {
			return c, fmt.Errorf("bad target length %d", g.TLen)
		}
		c.Target = fillBytes(r, g.TLen, "r")
		if g.TLen == 22 {
			c.Target[20] = byte(g.TT)
			c.Target[21] = byte(g.TS)
		}
	}
	return c, nil
}

// ---------------------------------------------------------------- seeded inputs beyond the enumeration

var hot = []byte{0, 0, 0, 1, 8, 8, 19, 20, 20, 21, 22, 22, 23, 31, 32, 32, 32, 33, 65, 75, 76, 77, 78, 79, 80, 81, 82, 96, 97, 106, 172, 174, 255}

func randByte(r *rand.Rand) byte {
	if r.Intn(2) == 0 {
		return hot[r.Intn(len(hot))]
	}
	return byte(r.Intn(256))
}

// RandomScript draws a byte string of up to maxLen bytes; half of the bytes come from the opcodes
// and lengths the templates are made of.
func RandomScript(r *rand.Rand, maxLen int) []byte {
	var n int
	switch r.Intn(4) {
	case 0:
		n = r.Intn(8)
	case 1:
		n = r.Intn(80)
	default:
		n = r.Intn(maxLen + 1)
	}
	b := make([]byte, n)
	for i := range b {
		b[i] = randByte(r)
	}
	return b
}

func push(b []byte) []byte { return append([]byte{byte(len(b))}, b...) }

// Template builds a well-formed script of the named shape with seeded payloads.
func Template(r *rand.Rand, kind string) []byte {
	h := fillBytes(r, 32, "r")
	s := append([]byte{0}, push(h)...)
	switch kind {
	case "std":
	case "staking":
		p, _ := payload(r, 8, []string{"fv", "fv", "fz", "fff", "flo", "fhi"}[r.Intn(6)])
		s = append(s, push(p)...)
	case "bind20":
		s = append(s, push(fillBytes(r, 20, "r"))...)
	case "bind22":
		p, _ := payload(r, 22, []string{"tv", "tv", "tt", "ts", "r"}[r.Intn(5)])
		s = append(s, push(p)...)
	case "multisig":
		n := 1 + r.Intn(3)
		s = []byte{byte(80 + 1 + r.Intn(n))}
		for i := 0; i < n; i++ {
			f := "pk"
			if r.Intn(3) == 0 {
				f = "r"
			}
			p, _ := payload(r, pick(r, 33, 33, 65), f)
			s = append(s, push(p)...)
		}
		s = append(s, byte(80+n), 174)
	case "nulldata":
		s = []byte{106}
		if r.Intn(4) > 0 {
			d := fillBytes(r, r.Intn(90), "r")
			if len(d) <= 75 {
				s = append(s, push(d)...)
			} else {
				s = append(s, 76, byte(len(d)))
				s = append(s, d...)
			}
		}
	}
	return s
}

var templateKinds = []string{"std", "staking", "bind20", "bind22", "bind22", "multisig", "nulldata"}

// Mutate applies 1..3 byte-level edits to a script.
func Mutate(r *rand.Rand, in []byte) []byte {
	s := append([]byte{}, in...)
	for k := 1 + r.Intn(3); k > 0; k-- {
		switch r.Intn(9) {
		case 0: // flip one bit
			if len(s) > 0 {
				s[r.Intn(len(s))] ^= 1 << uint(r.Intn(8))
			}
		case 1: // overwrite with a hot byte
			if len(s) > 0 {
				s[r.Intn(len(s))] = randByte(r)
			}
		case 2: // delete a byte
			if len(s) > 0 {
				i := r.Intn(len(s))
				s = append(s[:i], s[i+1:]...)
			}
		case 3: // insert a byte
			i := r.Intn(len(s) + 1)
			s = append(s[:i], append([]byte{randByte(r)}, s[i:]...)...)
		case 4: // truncate
			if len(s) > 0 {
				s = s[:r.Intn(len(s))]
			}
		case 5: // append garbage
			s = append(s, RandomScript(r, 40)...)
		case 6: // nudge a push length / opcode
			if len(s) > 0 {
				i := []int{0, 1, 34, len(s) - 1}[r.Intn(4)]
				if i >= 0 && i < len(s) {
					s[i] += byte(pick(r, 1, 255, 2, 254))
				}
			}
		case 7: // re-encode the first 32-byte push with PUSHDATA1/2/4 (non-minimal push)
			if len(s) >= 34 && s[1] == 32 {
				pre := [][]byte{{76, 32}, {77, 32, 0}, {78, 32, 0, 0, 0}}[r.Intn(3)]
				t := append([]byte{s[0]}, pre...)
				s = append(t, s[2:]...)
			}
		case 8: // duplicate the tail
			if len(s) > 2 {
				i := r.Intn(len(s))
				s = append(s, s[i:]...)
			}
		}
	}
	return s
}

// LongScript draws scripts of several hundred bytes built from whole pushes.
func LongScript(r *rand.Rand) []byte {
	var s []byte
	if r.Intn(2) == 0 {
		s = Template(r, templateKinds[r.Intn(len(templateKinds))])
	}
	for len(s) < 200+r.Intn(400) {
		switch r.Intn(4) {
		case 0:
			s = append(s, randByte(r))
		case 1:
			s = append(s, push(fillBytes(r, 1+r.Intn(75), "r"))...)
		case 2:
			n := r.Intn(256)
			s = append(s, 76, byte(n))
			s = append(s, fillBytes(r, n, "r")...)
		case 3:
			n := r.Intn(520)
			s = append(s, 77, byte(n), byte(n>>8))
			s = append(s, fillBytes(r, n, "r")...)
		}
	}
	if r.Intn(3) == 0 && len(s) > 0 {
		s = s[:r.Intn(len(s))]
	}
	return s
}

// Pinned are the inputs of the recorded findings and the shapes the property text names; they
// are evaluated on every run.
func Pinned(r *rand.Rand) []Case {
	h := make([]byte, 32)
	for i := range h {
		h[i] = byte(i + 1)
	}
	std := append([]byte{0}, push(h)...)
	cat := func(a []byte, b ...byte) []byte { return append(append([]byte{}, a...), b...) }
	t22 := func(tt, ts byte) []byte { return cat(cat(std, 22), cat(h[:20], tt, ts)...) }
	key := make([]byte, 33)
	good, _ := payload(r, 33, "pk")
	out := [][]byte{
		{},                                    // empty script
		{106},                                 // OP_RETURN
		{106, 2, 1, 2},                        // OP_RETURN data
		std,                                   // standard
		cat(std, 8, 0, 240, 0, 0, 0, 0, 0, 0), // staking, minimum frozen period
		cat(std, 8, 255, 255, 255, 255, 255, 255, 255, 255), // staking, frozen period 2^64-1
		cat(cat(std, 20), h[:20]...),                        // old binding
		t22(1, 32),                                          // new binding, Chia k=32
		t22(0, 20),                                          // new binding, lowest size
		t22(0, 200),                                         // new binding, highest size
		t22(7, 32),                                          // unknown target type
		t22(0, 5),                                           // unacceptable target size
		t22(0, 201),                                         //
		cat(cat(cat([]byte{81}, 33), key...), 81, 174),  // multisig shape, key does not parse
		cat(cat(cat([]byte{81}, 33), good...), 81, 174), // multisig, valid key
		{0, 32, 1, 2},                // truncated push
		cat([]byte{0, 76, 32}, h...), // OP_0 PUSHDATA1(32)
		cat(cat([]byte{0, 77, 32, 0}, h...), 8, 1, 0, 0, 0, 0, 0, 0, 0), // OP_0 PUSHDATA2(32) PUSH8
		{78, 255, 255, 255, 255},
		{78, 0, 0, 0, 128},
	}
	cs := make([]Case, 0, len(out))
	for _, s := range out {
		cs = append(cs, Case{Src: "pinned", Script: s})
	}
	return cs
}

// Prefixes returns every proper prefix and every one-byte extension of well-formed templates
// (truncated pushes and trailing bytes, all cut points).
func Prefixes(r *rand.Rand) []Case {
	var cs []Case
	for _, k := range []string{"std", "staking", "bind20", "bind22", "multisig", "nulldata"} {
		t := Template(r, k)
		if k == "bind22" {
			p, _ := payload(r, 22, "tv")
			t = append(t[:35], p...)
		}
		for i := 0; i < len(t); i++ {
			cs = append(cs, Case{Src: "prefix", Script: append([]byte{}, t[:i]...)})
		}
		for _, b := range []byte{0, 1, 8, 32, 76, 106, 174, 255} {
			cs = append(cs, Case{Src: "prefix", Script: append(append([]byte{}, t...), b)})
		}
	}
	return cs
}

// Seeded returns nRandom random strings, nMut mutated templates, nLong long scripts and nBuild
// builder calls.
func Seeded(r *rand.Rand, nRandom, nMut, nLong, nBuild int) []Case {
	var cs []Case
	for i := 0; i < nRandom; i++ {
		cs = append(cs, Case{Src: "random", Script: RandomScript(r, 300)})
	}
	for i := 0; i < nMut; i++ {
		t := Template(r, templateKinds[r.Intn(len(templateKinds))])
		if i%3 == 0 {
			cs = append(cs, Case{Src: "template", Script: t})
		} else {
			cs = append(cs, Case{Src: "mutated", Script: Mutate(r, t)})
		}
	}
	for i := 0; i < nLong; i++ {
		cs = append(cs, Case{Src: "long", Script: LongScript(r)})
	}
	for i := 0; i < nBuild; i++ {
		c := Case{Src: "build-random", BK: []string{"std", "stk", "bind"}[i%3], Hash: fillBytes(r, 32, "r")}
		switch c.BK {
		case "stk":
			min, max := uint32(consensus.MinFrozenPeriod), uint32(wire.SequenceLockTimeMask-1)
			switch r.Intn(6) {
			case 0:
				c.Frozen = r.Uint32()
			case 1:
				c.Frozen = min - uint32(r.Intn(3))
			case 2:
				c.Frozen = max - uint32(r.Intn(2)) + uint32(r.Intn(2))
			default:
				c.Frozen = min + uint32(r.Int63n(int64(max-min)))
			}
		case "bind":
			if r.Intn(2) == 0 {
				c.Target = fillBytes(r, 20, "r")
			} else {
				c.Target, _ = payload(r, 22, []string{"tv", "tv", "tv", "tt", "ts"}[r.Intn(5)])
			}
		}
		cs = append(cs, c)
	}
	return cs
}
