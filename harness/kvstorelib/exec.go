package kvstorelib

import (
	"errors"
	"fmt"
	"os"
	"sync"
	"sync/atomic"
	"time"

	mwdb "massnet.org/mass-wallet/masswallet/db"
	"massnet.org/mass-wallet/masswallet/db/ldb"
)

// rootTx is what read and write transactions have in common.
type rootTx interface {
	TopLevelBucket(name string) mwdb.Bucket
	FetchBucket(meta mwdb.BucketMeta) mwdb.Bucket
	BucketNames() ([]string, error)
}

// Runner executes operations on one real LevelDB-backed store in a fresh directory.
type Runner struct {
	Dir     string
	NavMeta bool // address buckets through FetchBucket(meta) when a meta is known (as the wallet does)
	d       mwdb.DB
	wtx     mwdb.DBTransaction
	metas   map[string]mwdb.BucketMeta
	Log     func(ev interface{}) // trace sink (may be nil)
	// Overlap > 0: while a write transaction is open, a second writer calls BeginTx now and then (after about one
	// operation in Overlap), waits for the store's writer lock and rolls its empty transaction back at once.  The
	// recorded history stays serial (the waiting writer changes nothing); what the open transaction reads and
	// commits must not depend on a writer that is merely waiting.
	Overlap int
	ovN     int
	ovWG    sync.WaitGroup
	ovBusy  int32
}

// waitingWriter starts a second writer that blocks in BeginTx until the open transaction ends.
func (r *Runner) waitingWriter() {
	if r.Overlap <= 0 || r.wtx == nil || atomic.LoadInt32(&r.ovBusy) != 0 {
		return
	}
	r.ovN++
	if (r.ovN*7+r.ovN/3)%uint32max(r.Overlap) != 0 {
		return
	}
	atomic.StoreInt32(&r.ovBusy, 1)
	r.ovWG.Add(1)
	d := r.d
	go func() {
		defer r.ovWG.Done()
		defer atomic.StoreInt32(&r.ovBusy, 0)
		if tx, err := d.BeginTx(); err == nil {
			tx.Rollback()
		}
	}()
	time.Sleep(300 * time.Microsecond) // let it reach the writer lock
}

func uint32max(n int) int {
	if n < 1 {
		return 1
	}
	return n
}

var errClosure = errors.New("kvstore harness: closure returns an error")

func NewRunner(dir string, navMeta bool) (*Runner, error) {
	os.RemoveAll(dir)
	d, err := ldb.CreateDB(dir)
	if err != nil {
		return nil, err
	}
	return &Runner{Dir: dir, NavMeta: navMeta, d: d, metas: map[string]mwdb.BucketMeta{}}, nil
}

// Close rolls back an open write transaction and closes the store.
func (r *Runner) Close() {
	if r.wtx != nil {
		r.wtx.Rollback()
		r.wtx = nil
	}
	r.ovWG.Wait()
	if r.d != nil {
		r.d.Close()
		r.d = nil
	}
}

func (r *Runner) Open() bool { return r.wtx != nil }

// lookup finds the bucket at path p through tx (nil if any step yields no bucket).
func (r *Runner) lookup(tx rootTx, p Path) mwdb.Bucket {
	if len(p) == 0 {
		return nil
	}
	if r.NavMeta {
		if m, ok := r.metas[p.Key()]; ok {
			return tx.FetchBucket(m)
		}
	}
	b := tx.TopLevelBucket(string(p[0]))
	for i := 1; b != nil && i < len(p); i++ {
		b = b.Bucket(string(p[i]))
	}
	if b != nil {
		r.remember(p, b)
	}
	return b
}

func (r *Runner) remember(p Path, b mwdb.Bucket) {
	if _, ok := r.metas[p.Key()]; !ok {
		r.metas[p.Key()] = b.GetBucketMeta()
	}
}

// withTx runs f with the transaction the operation goes through: the open write
// transaction for via "w", a fresh read transaction for via "r".
func (r *Runner) withTx(via string, f func(tx rootTx) Res) Res {
	if via == "w" {
		if r.wtx == nil {
			return Res{C: "harness", E: "no write transaction open"}
		}
		return f(r.wtx)
	}
	rt, err := r.d.BeginReadTx()
	if err != nil {
		return Res{C: "err", E: err.Error()}
	}
	defer rt.Rollback()
	return f(rt)
}

func errRes(err error) Res {
	if err != nil {
		return Res{C: "err", X: []int{}, E: err.Error()}
	}
	return Res{C: "ok", X: []int{}}
}

func simple(c string) Res { return Res{C: c, X: []int{}} }

func copyB(b []byte) B { return append(B{}, b...) }

// Exec runs one data operation (not begin/commit/...: see Run) and returns what the API answered.
func (r *Runner) Exec(op *Op) (res Res) {
	defer func() {
		if x := recover(); x != nil {
			res = Res{C: "panic", X: []int{}, E: fmt.Sprint(x)}
		}
	}()
	switch op.A {
	case "create":
		if len(op.P) == 1 {
			if op.Via != "w" || r.wtx == nil {
				return Res{C: "harness", E: "top-level create needs the write transaction"}
			}
			b, err := r.wtx.CreateTopLevelBucket(string(op.P[0]))
			if err == nil && b != nil {
				r.remember(op.P, b)
			}
			return errRes(err)
		}
		return r.withTx(op.Via, func(tx rootTx) Res {
			par := r.lookup(tx, op.P[:len(op.P)-1])
			if par == nil {
				return simple("nobucket")
			}
			b, err := par.NewBucket(string(op.P[len(op.P)-1]))
			if err == nil && b != nil {
				r.remember(op.P, b)
			}
			return errRes(err)
		})
	case "delb":
		if len(op.P) == 1 {
			if op.Via != "w" || r.wtx == nil {
				return Res{C: "harness", E: "top-level delete needs the write transaction"}
			}
			return errRes(r.wtx.DeleteTopLevelBucket(string(op.P[0])))
		}
		return r.withTx(op.Via, func(tx rootTx) Res {
			par := r.lookup(tx, op.P[:len(op.P)-1])
			if par == nil {
				return simple("nobucket")
			}
			return errRes(par.DeleteBucket(string(op.P[len(op.P)-1])))
		})
	case "names":
		return r.withTx(op.Via, func(tx rootTx) Res {
			var names []string
			var err error
			if len(op.P) == 0 {
				names, err = tx.BucketNames()
			} else {
				b := r.lookup(tx, op.P)
				if b == nil {
					return simple("nobucket")
				}
				names, err = b.BucketNames()
			}
			if err != nil {
				return errRes(err)
			}
			out := make([]B, len(names))
			for i, n := range names {
				out[i] = B(n)
			}
			return Res{C: "names", X: out}
		})
	}
	return r.withTx(op.Via, func(tx rootTx) Res {
		b := r.lookup(tx, op.P)
		if b == nil {
			return simple("nobucket")
		}
		switch op.A {
		case "put":
			// the store keeps a reference to the value slice: hand it private copies
			return errRes(b.Put(copyB(op.K), copyB(op.V)))
		case "del":
			return errRes(b.Delete(copyB(op.K)))
		case "clear":
			return errRes(b.Clear())
		case "get":
			v, err := b.Get(copyB(op.K))
			if err != nil {
				return errRes(err)
			}
			if v == nil {
				return simple("absent")
			}
			return Res{C: "val", X: copyB(v)}
		case "pget":
			es, err := b.GetByPrefix(copyB(op.K))
			if err != nil {
				return errRes(err)
			}
			out := make([]Entry, 0, len(es))
			for _, e := range es {
				out = append(out, Entry{copyB(e.Key), copyB(e.Value)})
			}
			return Res{C: "ents", X: out}
		case "iterp":
			it := b.NewIterator(mwdb.BytesPrefix(copyB(op.K)))
			defer it.Release()
			out := drain(it, false)
			if err := it.Error(); err != nil {
				return errRes(err)
			}
			return Res{C: "ents", X: out}
		case "iter":
			rg := &mwdb.Range{Start: copyB(op.K), Limit: copyB(op.K2)}
			if len(op.K) == 0 {
				rg.Start = nil
			}
			if len(op.K2) == 0 {
				rg.Limit = nil
			}
			if op.Reuse {
				b.NewIterator(rg).Release()
			}
			it := b.NewIterator(rg)
			defer it.Release()
			out := []Entry{}
			if op.S {
				for i := 0; i < op.N; i++ {
					if !it.Next() {
						break
					}
					out = append(out, Entry{copyB(it.Key()), copyB(it.Value())})
				}
				if it.Seek(copyB(op.V)) {
					out = append(out, Entry{copyB(it.Key()), copyB(it.Value())})
					out = append(out, drain(it, false)...)
				}
			} else {
				out = drain(it, false)
			}
			if err := it.Error(); err != nil {
				return errRes(err)
			}
			return Res{C: "ents", X: out}
		}
		return Res{C: "harness", E: "unknown operation " + op.A}
	})
}

func drain(it mwdb.Iterator, _ bool) []Entry {
	out := []Entry{}
	for it.Next() {
		out = append(out, Entry{copyB(it.Key()), copyB(it.Value())})
	}
	return out
}

// ghost marks an inconsistency of a listing (a listed bucket that cannot be opened, a
// failed listing): a path no store contains, so the observation cannot match.
func ghost(p Path, what string) Rec {
	q := append(Path{}, p...)
	q = append(q, B("\x00ghost:"+what))
	return Rec{P: q, E: []Entry{}}
}

// Observe reads the whole store back through one read procedure.
//
//	list: recursive BucketNames from the root
//	get:  lookup of every probe path + Get of every probe key
//	pget: lookup of every probe path + GetByPrefix(empty)
//	iter: lookup of every probe path + NewIterator(nil) (read transactions)
func (r *Runner) Observe(how, via string, pp []Path, pk []B) (got []Rec, panicked string) {
	defer func() {
		if x := recover(); x != nil {
			panicked = fmt.Sprint(x)
		}
	}()
	got = []Rec{}
	res := r.withTx(via, func(tx rootTx) Res {
		if how == "list" {
			names, err := tx.BucketNames()
			if err != nil {
				got = append(got, ghost(nil, "root listing failed"))
				return simple("ok")
			}
			var walk func(p Path, b mwdb.Bucket)
			walk = func(p Path, b mwdb.Bucket) {
				got = append(got, Rec{P: p, E: []Entry{}})
				subs, err := b.BucketNames()
				if err != nil {
					got = append(got, ghost(p, "listing failed"))
					return
				}
				for _, s := range subs {
					q := append(append(Path{}, p...), B(s))
					sb := b.Bucket(s)
					if sb == nil {
						got = append(got, ghost(q, "listed but not found"))
						continue
					}
					walk(q, sb)
				}
			}
			for _, n := range names {
				p := Path{B(n)}
				b := tx.TopLevelBucket(n)
				if b == nil {
					got = append(got, ghost(p, "listed but not found"))
					continue
				}
				walk(p, b)
			}
			return simple("ok")
		}
		for _, p := range pp {
			b := r.lookup(tx, p)
			if b == nil {
				continue
			}
			rec := Rec{P: p, E: []Entry{}}
			switch how {
			case "get":
				for _, k := range pk {
					v, err := b.Get(copyB(k))
					if err != nil {
						rec = ghost(p, "get failed")
						break
					}
					if v != nil {
						rec.E = append(rec.E, Entry{copyB(k), copyB(v)})
					}
				}
			case "pget":
				es, err := b.GetByPrefix(nil)
				if err != nil {
					rec = ghost(p, "prefix read failed")
					break
				}
				for _, e := range es {
					rec.E = append(rec.E, Entry{copyB(e.Key), copyB(e.Value)})
				}
			case "iter":
				it := b.NewIterator(nil)
				rec.E = drain(it, false)
				if it.Error() != nil {
					rec = ghost(p, "iteration failed")
				}
				it.Release()
			}
			got = append(got, rec)
		}
		return simple("ok")
	})
	if res.C != "ok" {
		got = append(got, ghost(nil, res.C+" "+res.E))
	}
	return got, ""
}

// Hows lists the read procedures available through a transaction kind.
func Hows(via string) []string {
	if via == "r" {
		return []string{"list", "get", "pget", "iter"}
	}
	return []string{"list", "get", "pget"}
}

// Run executes ops[from:] until the history ends.  after(i, res) is called once the
// result of operation i is known and the store is in the state after it.  A
// transaction begun with via "u" runs inside db.Update: its operations execute in
// the closure, which returns nil at "commit" and an error at "errret" (or when the
// history ends inside it).
func (r *Runner) Run(ops []*Op, after func(i int, res Res)) error {
	i := 0
	for i < len(ops) {
		op := ops[i]
		switch op.A {
		case "begin":
			if r.wtx != nil {
				return fmt.Errorf("op %d: begin with a write transaction open", i)
			}
			if op.Via == "u" {
				next, err := r.runUpdate(ops, i, after)
				if err != nil {
					return err
				}
				i = next
				continue
			}
			tx, err := r.d.BeginTx()
			if err == nil {
				r.wtx = tx
			}
			after(i, errRes(err))
		case "commit":
			if r.wtx == nil {
				return fmt.Errorf("op %d: commit without transaction", i)
			}
			err := r.wtx.Commit()
			r.wtx = nil
			after(i, errRes(err))
		case "rollback":
			if r.wtx == nil {
				return fmt.Errorf("op %d: rollback without transaction", i)
			}
			err := r.wtx.Rollback()
			r.wtx = nil
			after(i, errRes(err))
		case "reopen":
			if r.wtx != nil {
				return fmt.Errorf("op %d: reopen with a write transaction open", i)
			}
			r.ovWG.Wait()
			err := r.d.Close()
			if err == nil {
				r.d, err = ldb.OpenDB(r.Dir)
			}
			if err != nil {
				return fmt.Errorf("op %d: reopen: %v", i, err)
			}
			after(i, errRes(nil))
		case "errret":
			return fmt.Errorf("op %d: errret outside db.Update", i)
		default:
			r.waitingWriter()
			after(i, r.Exec(op))
		}
		i++
	}
	return nil
}

func (r *Runner) runUpdate(ops []*Op, begin int, after func(i int, res Res)) (next int, herr error) {
	stop := -1
	err := mwdb.Update(r.d, func(tx mwdb.DBTransaction) error {
		r.wtx = tx
		after(begin, errRes(nil))
		for j := begin + 1; j < len(ops); j++ {
			switch ops[j].A {
			case "commit":
				stop = j
				return nil
			case "errret":
				stop = j
				return errClosure
			case "begin", "rollback", "reopen":
				herr = fmt.Errorf("op %d: %s inside db.Update", j, ops[j].A)
				stop = len(ops)
				return errClosure
			default:
				r.waitingWriter()
				after(j, r.Exec(ops[j]))
			}
		}
		stop = len(ops) // history ends inside the closure: leave it with an error (rolled back)
		return errClosure
	})
	r.wtx = nil
	if herr != nil {
		return 0, herr
	}
	if stop < len(ops) {
		switch ops[stop].A {
		case "commit":
			after(stop, errRes(err))
		case "errret":
			if err == errClosure {
				after(stop, errRes(nil)) // the closure's error came back: the expected outcome of an error return
			} else {
				after(stop, Res{C: "err", X: []int{}, E: fmt.Sprint("db.Update returned ", err)})
			}
		}
		return stop + 1, nil
	}
	return stop, nil
}
