package kvstorelib

import (
	"math/rand"
)

// Random operation sequences with arbitrary binary keys, values and bucket names.
// The generator keeps pools of the names/keys it has used (so that later operations
// hit earlier ones) and knows the API usage state it created itself (is a write
// transaction open, which buckets did it delete in it) - it has no model of the
// store's contents and predicts no result: spec/KVStoreTrace.tla judges the trace.
type RandGen struct {
	rnd     *rand.Rand
	keys    []B
	paths   []Path
	open    bool
	mode    string
	deadTx  []Path // buckets this generator deleted in the open write transaction
	sinceOb int
}

func NewRandGen(seed int64) *RandGen {
	g := &RandGen{rnd: rand.New(rand.NewSource(seed))}
	return g
}

var spice = []byte{0x00, 0xff, '_', '_', '0', '1', '2', '9', 'a', 'b', 'b', 0xfe, 0x01, '/', 0x7f, 0x80}

func (g *RandGen) rawBytes(maxLen int) B {
	n := g.rnd.Intn(maxLen + 1)
	b := make(B, n)
	for i := range b {
		if g.rnd.Intn(4) == 0 {
			b[i] = byte(g.rnd.Intn(256))
		} else {
			b[i] = spice[g.rnd.Intn(len(spice))]
		}
	}
	return b
}

func (g *RandGen) key() B {
	if len(g.keys) > 0 {
		switch x := g.rnd.Intn(10); {
		case x < 5:
			return g.keys[g.rnd.Intn(len(g.keys))]
		case x < 6: // extension of a used key
			k := append(B{}, g.keys[g.rnd.Intn(len(g.keys))]...)
			return g.addKey(append(k, g.rawBytes(2)...))
		case x < 7: // proper prefix of a used key
			k := g.keys[g.rnd.Intn(len(g.keys))]
			if len(k) > 0 {
				return g.addKey(append(B{}, k[:g.rnd.Intn(len(k))]...))
			}
		}
	}
	if g.rnd.Intn(60) == 0 {
		return g.addKey(g.rawBytes(700))
	}
	return g.addKey(g.rawBytes(5))
}

func (g *RandGen) addKey(k B) B {
	if len(g.keys) < 64 {
		g.keys = append(g.keys, k)
	} else {
		g.keys[g.rnd.Intn(len(g.keys))] = k
	}
	return k
}

func (g *RandGen) value() B {
	switch x := g.rnd.Intn(20); {
	case x == 0:
		return B{}
	case x == 1:
		return g.rawBytes(3000)
	}
	v := g.rawBytes(6)
	if len(v) == 0 {
		v = B{byte(g.rnd.Intn(256))}
	}
	return v
}

func (g *RandGen) name() B {
	switch x := g.rnd.Intn(30); {
	case x == 0:
		return B{}
	case x == 1:
		n := make(B, 256+g.rnd.Intn(2)) // 256 is the longest legal name, 257 is illegal
		for i := range n {
			n[i] = 'n'
		}
		return n
	case x < 5: // contains the separator
		return append(append(g.rawBytes(2), '_'), g.rawBytes(2)...)
	}
	n := g.rawBytes(3)
	out := B{}
	for _, c := range n {
		if c != '_' || g.rnd.Intn(8) == 0 {
			out = append(out, c)
		}
	}
	if len(out) == 0 {
		out = B{spice[4+g.rnd.Intn(7)]}
	}
	return out
}

func (g *RandGen) path(fresh bool) Path {
	if !fresh && len(g.paths) > 0 && g.rnd.Intn(8) != 0 {
		return g.paths[g.rnd.Intn(len(g.paths))]
	}
	var p Path
	if len(g.paths) > 0 && g.rnd.Intn(3) != 0 {
		par := g.paths[g.rnd.Intn(len(g.paths))]
		if len(par) < 4 {
			p = append(append(Path{}, par...), g.name())
		}
	}
	if p == nil {
		p = Path{g.name()}
	}
	for _, q := range g.paths {
		if q.Key() == p.Key() {
			return p
		}
	}
	if len(g.paths) < 24 {
		g.paths = append(g.paths, p)
	} else {
		g.paths[g.rnd.Intn(len(g.paths))] = p
	}
	return p
}

func (g *RandGen) underDead(p Path) bool {
	for _, d := range g.deadTx {
		if p.Under(d) {
			return true
		}
	}
	return false
}

// ProbePaths / ProbeKeys: what the full observations look at.
func (g *RandGen) ProbePaths() []Path {
	out := []Path{}
	out = append(out, g.paths...)
	return out
}

func (g *RandGen) ProbeKeys() []B {
	out := []B{}
	seen := map[string]bool{}
	for _, k := range g.keys {
		if len(out) >= 40 {
			break
		}
		if !seen[string(k)] {
			seen[string(k)] = true
			out = append(out, k)
		}
	}
	return out
}

// Next yields the next operation; wantObs tells the driver to observe the whole store now.
func (g *RandGen) Next() (op *Op, wantObs bool) {
	g.sinceOb++
	if g.sinceOb > 6+g.rnd.Intn(6) {
		g.sinceOb = 0
		wantObs = true
	}
	e := B{}
	mk := func(a, via string, p Path, k, v, k2 B, n int, s bool) *Op {
		return &Op{A: a, Via: via, P: p, K: k, V: v, K2: k2, N: n, S: s}
	}
	readVia := func() string {
		if g.open && g.rnd.Intn(2) == 0 {
			return "w"
		}
		return "r"
	}
	for {
		x := g.rnd.Intn(100)
		if !g.open {
			switch {
			case x < 45:
				g.open, g.deadTx = true, nil
				g.mode = "m"
				if g.rnd.Intn(3) == 0 {
					g.mode = "u"
				}
				return mk("begin", g.mode, Path{}, e, e, e, 0, false), true
			case x < 52:
				return mk("reopen", "-", Path{}, e, e, e, 0, false), true
			case x < 56 && len(g.paths) > 0: // a write through a read transaction
				p := g.path(false)
				switch g.rnd.Intn(4) {
				case 0:
					return mk("put", "r", p, g.key(), g.value(), e, 0, false), true
				case 1:
					return mk("del", "r", p, g.key(), e, e, 0, false), true
				case 2:
					return mk("clear", "r", p, e, e, e, 0, false), true
				default:
					q := append(append(Path{}, p...), g.name())
					return mk("create", "r", q, e, e, e, 0, false), true
				}
			}
		} else {
			switch {
			case x < 7:
				g.open = false
				return mk("commit", "-", Path{}, e, e, e, 0, false), true
			case x < 10:
				g.open = false
				if g.mode == "u" {
					return mk("errret", "-", Path{}, e, e, e, 0, false), true
				}
				return mk("rollback", "-", Path{}, e, e, e, 0, false), true
			case x < 20:
				p := g.path(true)
				if g.underDead(p[:len(p)-1]) {
					continue
				}
				g.NoteCreated(p)
				return mk("create", "w", p, e, e, e, 0, false), wantObs
			case x < 24:
				p := g.path(false)
				if g.underDead(p[:len(p)-1]) {
					continue
				}
				if len(p) > 1 {
					for _, q := range g.paths {
						if q.Under(p) {
							g.deadTx = append(g.deadTx, q)
						}
					}
				}
				return mk("delb", "w", p, e, e, e, 0, false), true
			case x < 45:
				p := g.path(false)
				if g.underDead(p) {
					continue
				}
				return mk("put", "w", p, g.key(), g.value(), e, 0, false), wantObs
			case x < 53:
				p := g.path(false)
				if g.underDead(p) {
					continue
				}
				return mk("del", "w", p, g.key(), e, e, 0, false), wantObs
			case x < 56:
				p := g.path(false)
				if g.underDead(p) {
					continue
				}
				return mk("clear", "w", p, e, e, e, 0, false), true
			}
		}
		// reads
		switch y := g.rnd.Intn(10); {
		case y < 3:
			return mk("get", readVia(), g.path(false), g.key(), e, e, 0, false), wantObs
		case y < 5:
			return mk("pget", readVia(), g.path(false), g.key(), e, e, 0, false), wantObs
		case y < 6:
			p := Path{}
			if g.rnd.Intn(3) != 0 {
				p = g.path(false)
			}
			return mk("names", readVia(), p, e, e, e, 0, false), wantObs
		case y < 7:
			return mk("iterp", "r", g.path(false), g.key(), e, e, 0, false), wantObs
		default:
			lo, hi := g.key(), g.key()
			if g.rnd.Intn(3) == 0 {
				lo = e
			}
			if g.rnd.Intn(3) == 0 {
				hi = e
			}
			op := mk("iter", "r", g.path(false), lo, e, hi, 0, false)
			if g.rnd.Intn(2) == 0 {
				op.S, op.V, op.N = true, g.key(), g.rnd.Intn(4)
			}
			op.Reuse = g.rnd.Intn(4) == 0
			return op, wantObs
		}
	}
}

// NoteCreated: a create succeeded in the open transaction, so the path is usable again.
func (g *RandGen) NoteCreated(p Path) {
	out := g.deadTx[:0]
	for _, d := range g.deadTx {
		if d.Key() != p.Key() {
			out = append(out, d)
		}
	}
	g.deadTx = out
}
