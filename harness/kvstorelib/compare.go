package kvstorelib

import (
	"encoding/json"
	"fmt"
)

// Diff is one disagreement between the real store and the expectation computed by TLC.
type Diff struct {
	Step  int    `json:"step"`           // index of the operation in the history
	What  string `json:"what"`           // "op" or "obs:<how>:<via>"
	Path  string `json:"path,omitempty"` // bucket concerned (observations)
	Want  string `json:"want"`
	Got   string `json:"got"`
	Known string `json:"known,omitempty"` // id of the known finding whose pattern (stated in spec/KVStoreTrace.tla) this diff matches
}

func js(v interface{}) string {
	b, _ := json.Marshal(v)
	if len(b) > 600 {
		return string(b[:600]) + "..."
	}
	return string(b)
}

// Match mirrors KVStore!Match: trusted primitives only (byte equality, set equality).
func Match(exp *ExpRes, got Res) bool {
	switch exp.C {
	case "any":
		return got.C == "ok" || got.C == "err"
	case "noval":
		return got.C == "absent" || got.C == "err"
	case "val":
		if got.C != "val" {
			return false
		}
		var want B
		if json.Unmarshal(exp.X, &want) != nil {
			return false
		}
		g, _ := got.X.(B)
		return string(want) == string(g)
	case "ents", "entset":
		if got.C != "ents" {
			return false
		}
		want, err := entriesFromRaw(exp.X)
		if err != nil {
			return false
		}
		g, _ := got.X.([]Entry)
		if exp.C == "ents" {
			return sameEntrySeq(want, g)
		}
		return sameEntrySet(want, g)
	case "names":
		if got.C != "names" {
			return false
		}
		var want []B
		if json.Unmarshal(exp.X, &want) != nil {
			return false
		}
		g, _ := got.X.([]B)
		return sameStrings(nameSet(want), nameSet(g))
	}
	return got.C == exp.C
}

func nameSet(xs []B) []string {
	out := make([]string, len(xs))
	for i, x := range xs {
		out[i] = fmt.Sprintf("%d:%s", len(x), string(x))
	}
	return dedup(sortStrings(out))
}

func underAny(p Path, dead []Path) bool {
	for _, d := range dead {
		if p.Under(d) {
			return true
		}
	}
	return false
}

// emptyLike: what an existing, empty bucket would answer - the shape of known finding
// K-C11-1 (a bucket deleted in the open write transaction is still found).
func emptyLike(op *Op, got Res) bool {
	switch op.A {
	case "get":
		return got.C == "absent" || got.C == "err"
	case "pget":
		es, _ := got.X.([]Entry)
		return got.C == "ents" && len(es) == 0
	case "names":
		ns, _ := got.X.([]B)
		return got.C == "names" && len(ns) == 0
	case "put", "del", "clear", "create", "delb":
		return got.C == "ok" || got.C == "err"
	}
	return false
}

// ObsDiffs mirrors KVStore!ObsMatch for one observation against the expected store E.
func ObsDiffs(step int, E []Rec, how, via string, pp []Path, pk []B, got []Rec, dead []Path, taint bool) []Diff {
	var out []Diff
	what := "obs:" + how + ":" + via
	exp := map[string]*Rec{}
	for i := range E {
		exp[E[i].P.Key()] = &E[i]
	}
	probe := map[string]bool{}
	for _, p := range pp {
		probe[p.Key()] = true
	}
	inKeys := map[string]bool{}
	for _, k := range pk {
		inKeys[string(k)] = true
	}
	add := func(p Path, want, g string, k1 bool) {
		d := Diff{Step: step, What: what, Path: p.String(), Want: want, Got: g}
		if taint || k1 {
			d.Known = "K-C11-1"
		}
		out = append(out, d)
	}
	seen := map[string]bool{}
	for i := range got {
		g := &got[i]
		key := g.P.Key()
		if seen[key] {
			add(g.P, "reported once", "reported twice", false)
			continue
		}
		seen[key] = true
		e, ok := exp[key]
		if !ok {
			add(g.P, "no such bucket", "found with entries "+js(g.E), via == "w" && how != "list" && underAny(g.P, dead) && len(g.E) == 0)
			continue
		}
		switch {
		case how == "list":
		case how == "get":
			var want []Entry
			for _, x := range e.E {
				if inKeys[string(x[0])] {
					want = append(want, x)
				}
			}
			if !sameEntrySet(want, g.E) {
				add(g.P, js(want), js(g.E), false)
			}
		case how == "pget" && via == "w":
			if !sameEntrySet(e.E, g.E) {
				add(g.P, "set "+js(e.E), js(g.E), false)
			}
		default:
			if !sameEntrySeq(e.E, g.E) {
				add(g.P, "sequence "+js(e.E), js(g.E), false)
			}
		}
	}
	for key, e := range exp {
		if seen[key] {
			continue
		}
		if how == "list" || probe[key] {
			add(e.P, "bucket exists", "not found", false)
		}
	}
	return out
}

// OpDiff compares the result of operation op (index step) with its expectation.
// deadBefore: the buckets deleted so far in the open write transaction (state before op).
func OpDiff(step int, op *Op, got Res, deadBefore []Path, taintBefore bool) *Diff {
	if op.Exp == nil || Match(op.Exp, got) {
		return nil
	}
	d := &Diff{Step: step, What: "op", Path: op.P.String(), Want: op.Exp.C + " " + string(op.Exp.X), Got: got.C + " " + js(got.X) + " " + got.E}
	addr := op.P
	if (op.A == "create" || op.A == "delb") && len(addr) > 0 {
		addr = addr[:len(addr)-1]
	}
	if taintBefore || (op.Via == "w" && op.Exp.C == "nobucket" && underAny(addr, deadBefore) && emptyLike(op, got)) {
		d.Known = "K-C11-1"
	} else if op.A == "iter" && op.Reuse {
		d.Known = "K-C11-2" // KVStoreTrace!K2Op
	}
	return d
}
