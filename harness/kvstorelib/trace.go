package kvstorelib

import (
	"bufio"
	"encoding/json"
	"fmt"
	"os"
)

// Trace lines (ndjson) consumed by spec/KVStoreTrace.tla.
type ResetLine struct {
	T   string `json:"t"` // "reset": a fresh, empty store
	ID  string `json:"id"`
	Nav string `json:"nav"`
}

type OpLine struct {
	T     string `json:"t"` // "op"
	A     string `json:"a"`
	Via   string `json:"via"`
	P     Path   `json:"p"`
	K     B      `json:"k"`
	V     B      `json:"v"`
	K2    B      `json:"k2"`
	N     int    `json:"n"`
	S     bool   `json:"s"`
	Reuse bool   `json:"reuse"`
	Res   Res    `json:"res"`
}

type ObsLine struct {
	T   string `json:"t"` // "obs"
	How string `json:"how"`
	Via string `json:"via"`
	PP  []Path `json:"pp"`
	PK  []B    `json:"pk"`
	Got []Rec  `json:"got"`
}

// TraceWriter writes ndjson trace files <prefix>.<n>.ndjson; a new file is started at a
// trace boundary (reset line) once the current one exceeds maxBytes, so that every file
// holds whole traces and stays small enough for TLC to load.
type TraceWriter struct {
	prefix   string
	maxBytes int
	part     int
	bytes    int
	f        *os.File
	w        *bufio.Writer
	N        int
}

func NewTraceWriter(prefix string) (*TraceWriter, error) {
	if prefix == "" {
		return nil, nil
	}
	t := &TraceWriter{prefix: prefix, maxBytes: 10 << 20}
	if err := t.rotate(); err != nil {
		return nil, err
	}
	return t, nil
}

func (t *TraceWriter) rotate() error {
	if t.f != nil {
		t.w.Flush()
		t.f.Close()
	}
	f, err := os.Create(fmt.Sprintf("%s.%d.ndjson", t.prefix, t.part))
	if err != nil {
		return err
	}
	t.part++
	t.bytes = 0
	t.f = f
	t.w = bufio.NewWriterSize(f, 1<<20)
	return nil
}

func (t *TraceWriter) Write(v interface{}) {
	if t == nil {
		return
	}
	if _, isReset := v.(ResetLine); isReset && t.bytes > t.maxBytes {
		if err := t.rotate(); err != nil {
			panic(err)
		}
	}
	b, _ := json.Marshal(v)
	t.w.Write(b)
	t.w.WriteByte('\n')
	t.bytes += len(b) + 1
	t.N++
}

func (t *TraceWriter) Close() {
	if t == nil {
		return
	}
	t.w.Flush()
	t.f.Close()
}

func NewOpLine(op *Op, res Res) OpLine {
	nz := func(b B) B {
		if b == nil {
			return B{}
		}
		return b
	}
	p := op.P
	if p == nil {
		p = Path{}
	}
	if res.X == nil {
		res.X = []int{}
	}
	return OpLine{T: "op", A: op.A, Via: op.Via, P: p, K: nz(op.K), V: nz(op.V), K2: nz(op.K2), N: op.N, S: op.S, Reuse: op.Reuse, Res: Res{C: res.C, X: res.X}}
}
