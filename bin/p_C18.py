"""C18 - a failed storage operation can be retried and leaves no trace.
Model: spec/Follower.tla fault actions (MC_Fault.cfg).  Binding: fault enumeration driven by the
model's behaviours - for generated histories the fault-free twin is run first (counting storage
calls per step), then the j-th storage call of a step is made to fail, for sampled / every j."""
import json, os, random, time
import vlib, props
from vlib import Infra

IDS = ['C18']
KINDS = props.LEDGER_KINDS + ['wallet-status', 'unready-wallet-selectable', 'removed-residue', 'retry-after-fault-failed',
                              'phantom-wallet', 'stuck-after-fault', 'trace-rejected', 'free-not-quiescent', 'created-wallet-unusable', 'skipped-address-index', 'duplicate-address',
                              'address-not-listed', 'quiescent-not-on-best']
props.KINDS['C18'] = KINDS
FAULTABLE = ('HandleBlock', 'Import', 'Remove', 'ImportStep', 'RemoveStep')


def check(pid, tier, scratch, replay):
    t0 = time.time()
    rnd = random.Random(vlib.seed())
    known = vlib.load_known()
    if replay:
        r = json.load(open(replay))
        res = props.replay_jobs(scratch, [dict(u=r['universe'], h=r['history'], mode=r['mode'], opt=r['opt'])])
        print(json.dumps(res[0], indent=1))
        return 1 if set(props.kinds_of(res[0])) & set(KINDS) else 0
    quick = tier == 'quick'
    mc = vlib.tlc('MC_Fault.cfg', 'MC_Ledger.tla', scratch, overrides={'MaxBlocks': '5' if quick else '6'}, timeout=3000)
    vlib.require_clean(mc, 'model MC_Fault')
    gens = [('Gen_Pay.cfg', 'MC_Pay.tla', {}, dict(props.LIFE), 40 if quick else 400, 16),
            ('Gen_Stake.cfg', 'MC_Stake.tla', props.STAKE_X, dict(props.REMOVE_ONLY), 16 if quick else 200, 16),
            ('Gen_Imp.cfg', 'MC_Imp.tla', {}, dict(props.IMPORT_ONLY), 16 if quick else 200, 16)]
    base = []
    gen_runs = []
    for cfg, mod, extra, ov, n, depth in gens:
        o = {'GenDepth': str(depth), 'GenRandom': 'TRUE'}
        o.update(ov)
        r = vlib.tlc(cfg, mod, scratch, overrides=o, simulate=dict(num=n * 3, depth=depth + 1, seed=vlib.seed() * 31 + len(gen_runs)))
        vlib.require_clean(r, 'generator ' + cfg)
        u = dict(r['universe'])
        u.update(extra)
        hs = vlib.sample(sorted(set(r['histories'])), n, rnd)
        for h in hs:
            base.append(dict(u=u, h=json.loads(h), src=cfg))
        gen_runs.append(dict(cfg=cfg, overrides=o, histories=len(hs)))
    # 1. fault-free twins: storage calls per step
    twins = props.replay_jobs(scratch, [dict(u=b['u'], h=b['h'], mode='count', opt={}) for b in base])
    jobs = []
    for b, t in zip(base, twins):
        if not t or not t.get('ok'):
            continue
        calls = json.loads(t['sig'])
        h = b['h']
        for s, st in enumerate(h):
            if st['a'] not in FAULTABLE or calls[s] == 0:
                continue
            if st['a'] in ('ImportStep', 'RemoveStep') and st.get('qlen', 1) != 1:
                continue  # a failed task is re-queued behind the others: the fault-free script would no longer apply
            if st['a'] == 'HandleBlock' and not any(x['a'] == 'HandleBlock' and x['exp'].get('q') for x in h[s + 1:]):
                continue
            n = calls[s]
            js = list(range(1, n + 1)) if not quick else sorted(set([1, 2, max(1, n // 2), n - 1, n]) - {0})
            if not quick and n > 60:
                js = sorted(set(js[:20] + rnd.sample(js, 30) + js[-10:]))
            # the last calls of the step that completes a task (final rescan batch, last removal round: status record,
            # balance, commit) decide whether the task is finished or retried: always taken
            last = st['a'] == 'RemoveStep' or (st['a'] == 'ImportStep' and st.get('done'))
            for j in js:
                jobs.append(dict(u=b['u'], h=h, mode='fault', opt=dict(fault_step=s, fault_call=j), src=b['src'],
                                 must=bool(last and j >= n - 3)))
            if last and quick:
                for j in (n - 3, n - 2):
                    if j > 0 and j not in js:
                        jobs.append(dict(u=b['u'], h=h, mode='fault', opt=dict(fault_step=s, fault_call=j), src=b['src'], must=True))
    if quick and len(jobs) > 420:
        must = [j for j in jobs if j.get('must')]
        must = must if len(must) <= 160 else rnd.sample(must, 160)
        rest = [j for j in jobs if not j.get('must')]
        jobs = must + rnd.sample(rest, max(0, 420 - len(must)))
    # fault points that once exposed a defect, re-evaluated by the current specification
    jobs += [dict(j, src=j['src']) for j in props.regress_jobs(pid, scratch)]
    n_hist_faults = len(jobs)
    for k in range(2 if quick else 8):
        jobs.append(dict(u=base[0]['u'], h=[], mode='fault-addresses', opt=dict(seed=vlib.seed() + k), src='fault-addresses'))
    results = props.replay_jobs(scratch, jobs)
    # code -> spec with faults: everything runs freely, up to three storage faults hit steps of the follower and updates of
    # the worker at random; every line (fault, rollback, commit with its state, resume ...) must be explained by
    # spec/WalletTrace.tla (HandleBlockFault, WorkerFaultT: nothing durable, task re-queued, follower resumed), and the
    # system must become quiescent afterwards
    tjobs, tres, tjudged, tstates = props.trace_stage(scratch, [
        ('Gen_Pay.cfg', 'MC_Pay.tla', {}, dict(props.LIFE), 'trace-f', 40 if quick else 800, 16),
        ('Gen_Stake.cfg', 'MC_Stake.tla', props.STAKE_X, dict(props.REMOVE_ONLY), 'trace-f', 25 if quick else 500, 16),
        ('Gen_Imp.cfg', 'MC_Imp.tla', {}, dict(props.IMPORT_ONLY), 'trace-f', 25 if quick else 500, 18)])
    jobs += tjobs
    results += tres
    redo = [i for i, r in enumerate(results) if jobs[i]['mode'] != 'trace-f' and (r is None or r.get('died') or 'stuck-after-fault' in props.kinds_of(r))]
    if redo and len(redo) <= 40:
        for i, r in zip(redo, props.replay_jobs(scratch, [jobs[i] for i in redo])):
            if r is not None and not r.get('died'):
                r['index'] = i
                results[i] = r
    violations, infra, by_action = [], 0, {}
    for job, res in zip(jobs, results):
        ks = set(props.kinds_of(res))
        if 'infra' in ks:
            infra += 1
            continue
        if job['mode'] == 'fault':
            a = job['h'][job['opt']['fault_step']]['a']
            by_action[a] = by_action.get(a, 0) + 1
        if ks & set(KINDS):
            violations.append((job, res))
    if infra > max(5, len(jobs) // 8):
        raise Infra('%d of %d fault replays inconclusive' % (infra, len(jobs)))
    seen = set()
    for job, res in violations:
        sig = ','.join(sorted(set(props.kinds_of(res)) & set(KINDS)))
        if sig in seen and len(seen) >= 3:
            continue
        seen.add(sig)
        p = vlib.save_replay(pid, '%s-%s' % (tier, vlib.short_hash(json.dumps([job['h'], job['opt']]))),
                             dict(property=pid, universe=job['u'], history=job['h'], mode=job['mode'], opt=job['opt'], result=res))
        print('VIOLATION property=%s replay=%s' % (pid, p))
        print('  kinds: %s' % sig)
        if job['mode'] == 'fault':
            print('  storage call %d of step %d (%s) fails; history: %s' % (job['opt']['fault_call'], job['opt']['fault_step'],
                  job['h'][job['opt']['fault_step']]['a'], props.describe(job['h'])))
        if job['mode'] == 'trace-f':
            print('  free-running replay with injected storage faults; history: %s' % props.describe(job['h']))
        for d in (res.get('diffs') or [])[:5]:
            print('  diff: %s %s %s want=%s got=%s' % (d['kind'], d.get('wallet', ''), d['what'], d['want'], d['got']))
        if res.get('err'):
            print('  err: %s' % res['err'])
    compared = sum((r or {}).get('compared', 0) for r in results)
    samples = [dict(history=props.describe(j['h']), failing_step=j['opt'].get('fault_step'), failing_storage_call=j['opt'].get('fault_call'))
               for j in jobs[:3]] + [dict(mode='fault-addresses', what='fault swept over every storage call of CreateWallet and NewAddress')]
    cov = dict(states=mc.get('distinct', 1), transitions=mc.get('generated', 1), traces_validated_against_impl=len(jobs) - infra,
               samples=samples, fault_free_twins=len(base), history_fault_points=n_hist_faults, faulted_steps_by_action=by_action,
               quiescent_points_compared=compared, inconclusive=infra, generator_runs=gen_runs,
               free_running_traces_with_injected_faults_judged_by_tlc=tjudged, trace_lines_by_event=dict(sorted(props.TRACE_EVENTS.items())), trace_judge_states=tstates,
               evaluations=len(jobs), distinct_nontrivial=len(set(json.dumps([j['opt'], props.describe(j['h'])]) for j in jobs)),
               rule='(history, step, storage-call index) triples: the fault-free twin counts the storage calls of each step; the chosen call then fails once; block steps must roll back and be repaired by the next tip, API calls must report and succeed when repeated, worker steps must be re-queued; at every later quiescent point the wallet API is compared with the specification (the fault-free run)',
               exhaustive=False)
    vlib.write_evidence(pid, tier, 'model_checking', cov, time.time() - t0, len(violations),
                        props.ASSUME_ENV + ['a storage fault is an error returned by one call of the mwdb.DB interface (begin, get, put, delete, iterator, commit) of the wallet database; the chain database does not fail',
                                            'faults in unconfirmed-transaction steps are not injected (the statement does not list them)'])
    print('%s %s: %d fault points on %d histories + %d address/creation sweeps, %d comparisons, %d model states, violations=%d inconclusive=%d wall=%.0fs'
          % (pid, tier, n_hist_faults, len(base), len(jobs) - n_hist_faults, compared, mc.get('distinct', 0), len(violations), infra, time.time() - t0))
    return 1 if violations else 0
