"""C11 - the wallet database gives atomic, isolated, ordered key/value transactions.

spec/KVStore.tla is the reference-map specification.  Two bindings to the real store
(masswallet/db + masswallet/db/ldb), both judged by TLC:

  spec -> code   spec/KVStoreGen.tla enumerates every operation sequence of a theme
                 (spec/KVStoreMC.tla, cfg/KVStore_gen_*.cfg) up to a depth - or random deep
                 ones with -simulate - and prints each with the expected result of every
                 operation and the expected stores; harness/cmd/kvstore executes them on a
                 fresh LevelDB directory each, reads the whole store back through every read
                 procedure after every step and records what the store answered.
  code -> spec   the same command drives seeded random operation sequences with arbitrary
                 binary keys / values / names and records them.
  judgement      spec/KVStoreTrace.tla (cfg/KVStore_trace.cfg) re-computes every recorded
                 result from the reference state and reports every deviating line, tagged
                 with the known finding whose pattern (stated in the trace spec) explains it.
                 The Go comparison of the generated behaviours is a second opinion used for
                 diagnostics; a disagreement between the two is an infrastructure failure.
"""
import glob, json, os, random, re, shutil, subprocess, threading, time
from concurrent.futures import ThreadPoolExecutor
import vlib
from vlib import Infra

IDS = ['C11']

# Deviations of the unchanged tree, reproduced and recorded (see /tmp/build/C11-report.md).  The
# pattern of each is an operator of spec/KVStoreTrace.tla (K1Op/K1Obs, K2Op) and is mirrored in
# harness/kvstorelib/compare.go.  An entry with the same id in known_findings.jsonl takes
# precedence (status "fixed" there disables the pattern, so a recurrence is a VIOLATION).
PROPOSED_KNOWN = [
    {"id": "K-C11-1", "property": "C11", "status": "known",
     "classifier": {"tla": "KVStoreTrace!K1Op / K1Obs",
                    "rule": "operation or observation through the OPEN WRITE transaction addressing a bucket at or below one removed by DeleteBucket earlier in that same transaction, the store answering as for an existing empty bucket (expected: no such bucket); or any line of a trace after a write went through such a bucket"},
     "summary": "a nested bucket deleted in the open write transaction is still returned by Bucket()/FetchBucket() of that transaction (ldb looks the name up in the committed data and in the batch's puts but never in its deletes; FetchBucket also serves it from the per-transaction cache); a write through the returned handle survives the commit as an entry no bucket owns and reappears in a bucket of the same name created later",
     "example": "begin create(/a) create(/a/s) commit | begin delb(/a/s) get(/a/s,k)->absent (want: no bucket) put(/a/s,b,v)->ok commit | begin create(/a/s) get(/a/s,b)->v (want: absent)",
     "fix": "fixes/C11-1.diff"},
    {"id": "K-C11-2", "property": "C11", "status": "known",
     "classifier": {"tla": "KVStoreTrace!K2Op",
                    "rule": "range iteration (op iter) whose Range object was already passed to NewIterator once (trace field reuse = true)"},
     "summary": "Bucket.NewIterator overwrites Start/Limit of the caller's Range with the encoded bounds; a second iterator made from the same Range object gets doubly prefixed bounds and returns no entries",
     "example": "rg := &db.Range{}; b.NewIterator(rg).Release(); b.NewIterator(rg) -> empty although the bucket has entries",
     "fix": "fixes/C11-2.diff"},
]

ASSUME = [
    "the store is driven through its public API only (db.DB / DBTransaction / ReadTransaction / Bucket / Iterator, db.Update, db.BytesPrefix) on a real goleveldb directory, one store per directory, one process per shard",
    "API usage rules are respected by the drivers: one write transaction at a time (BeginTx blocks otherwise), no handle is used after its transaction ended, buffers handed to Put are not modified afterwards and returned slices are not written to (the store keeps/returns references; the statement does not cover aliasing)",
    "read operations through a read transaction use a fresh read transaction each (the store takes no snapshot; a read transaction held open across a commit is not decided here, see C17)",
    "close/reopen is a clean Close followed by OpenDB on the same directory; crashes are C06, failing storage calls are C18",
    "iteration inside a write transaction is not held to any order/exactness (statement-faithful scope, DESIGN section 6 C11); prefix reads and listings inside a write transaction are compared as sets",
    "top-level buckets cannot be deleted: the interface's DeleteTopLevelBucket is specified as 'error, nothing changes' (what ldb documents with ErrNotSupported)",
]

GEN_MODULE = 'KVStoreMC.tla'
TRACE_CFG = 'KVStore_trace.cfg'


# ------------------------------------------------------------------ helpers
def known_entries():
    """ids of the known findings whose pattern may explain a deviation, and all C11 entries"""
    entries = {e['id']: e for e in PROPOSED_KNOWN}
    for e in vlib.load_known():
        if e.get('property') == 'C11':
            entries[e['id']] = e
    enabled = sorted(i for i, e in entries.items() if e.get('status') == 'known')
    return entries, enabled


def build(scratch):
    """Build harness/cmd/kvstore against the tree under test.  VERIF_REPO other than /repo: build
    from a private copy of the harness module whose replace directive points there."""
    if os.path.realpath(vlib.REPO) == os.path.realpath('/repo'):
        return vlib.build_go(scratch, './cmd/kvstore', 'kvstore')
    hdir = os.path.join(scratch.dir, 'harness')
    shutil.copytree(vlib.HARNESS, hdir)
    gm = open(os.path.join(hdir, 'go.mod')).read()
    gm, n = re.subn(r'(?m)^replace massnet\.org/mass-wallet => .*$', 'replace massnet.org/mass-wallet => %s' % vlib.REPO, gm)
    if n != 1:
        raise Infra('harness go.mod: replace directive not found')
    open(os.path.join(hdir, 'go.mod'), 'w').write(gm)
    try:
        shutil.copy(os.path.join(vlib.REPO, 'go.sum'), os.path.join(hdir, 'go.sum'))
    except OSError:
        pass
    out = os.path.join(scratch.dir, 'kvstore')
    p = subprocess.run(['go', 'build', '-tags', 'verif', '-o', out, './cmd/kvstore'], cwd=hdir, env=vlib.GOENV,
                       stdout=subprocess.PIPE, stderr=subprocess.STDOUT, text=True)
    if p.returncode != 0 or not os.path.exists(out):
        raise Infra('go build ./cmd/kvstore against %s failed:\n%s' % (vlib.REPO, p.stdout[-3000:]))
    return out


def tagged(log, tag):
    pre = '<<"%s", "' % tag
    out = []
    for line in log.splitlines():
        if line.startswith(pre):
            out.append(json.loads(vlib.unescape(line[len(pre):-3])))
    return out


def bs(b):
    """byte string for humans"""
    s = bytes(b)
    if s and all(32 < c < 127 for c in s):
        return s.decode()
    return '0x' + s.hex() if s else '""'


def path_s(p):
    return '/' + '/'.join(bs(n) for n in p)


def describe_op(e):
    a = e['a']
    if a in ('begin',):
        return 'begin(%s)' % ('db.Update' if e['via'] == 'u' else 'BeginTx')
    if a in ('commit', 'rollback', 'errret', 'reopen'):
        return a
    via = '' if e['via'] == 'w' and a in ('create', 'delb', 'put', 'del', 'clear') else ':' + e['via']
    if a in ('create', 'delb', 'clear', 'names'):
        return '%s%s(%s)' % (a, via, path_s(e['p']))
    if a == 'put':
        return 'put%s(%s,%s=%s)' % (via, path_s(e['p']), bs(e['k']), bs(e['v']))
    if a == 'iter':
        s = 'iter%s(%s,[%s,%s)' % (via, path_s(e['p']), bs(e['k']), bs(e['k2']))
        if e.get('s'):
            s += ',next*%d,seek %s' % (e['n'], bs(e['v']))
        if e.get('reuse'):
            s += ',range reused'
        return s + ')'
    return '%s%s(%s,%s)' % (a, via, path_s(e['p']), bs(e['k']))


def describe(h, limit=40):
    ops = [describe_op(e) for e in h]
    if len(ops) > limit:
        ops = ops[:limit // 2] + ['...(%d more)...' % (len(ops) - limit)] + ops[-limit // 2:]
    return ' '.join(ops)


# ------------------------------------------------------------------ generation plans
def EXH(theme, depth, sample=1, nav='name', merge_reads=0, **ov):
    return dict(theme=theme, depth=depth, sample=sample, nav=nav, ov=ov, sim=None, merge=merge_reads)


def SIM(theme, num, depth, nav='meta', **ov):
    return dict(theme=theme, depth=depth, sample=1, nav=nav, ov=ov, sim=num, merge=0)


PLAN = {
    'quick': dict(
        gens=[EXH('order', 4, sample=48), EXH('order', 3, sample=6, nav='meta'),
              EXH('keys', 2, sample=12), EXH('keys', 1, nav='meta'),
              EXH('names', 2, sample=4), EXH('names', 1, nav='meta'),
              EXH('reads', 1, sample=4, merge_reads=150),
              EXH('reads', 1, sample=4, merge_reads=150, nav='meta', GPrefix='<- R_PrefixDisk'),
              EXH('reads', 1, sample=2, merge_reads=150, GPrefix='<- R_PrefixW'),
              SIM('sim', 30, 30)],
        random=dict(traces=160, length=80),
        mc=[('KVStore_enc.cfg', {'ESteps': '6'}, 'clean'),
            ('KVStore_enc_known.cfg', {}, 'Invariant Refines is violated')],
        budget_s=170),
    'thorough': dict(
        gens=[EXH('order', 5, sample=40), EXH('order', 4, sample=4, nav='meta'),
              EXH('keys', 3, sample=150), EXH('keys', 2, sample=2, nav='meta'),
              EXH('names', 3, sample=20), EXH('names', 2, nav='meta'),
              EXH('reads', 1, merge_reads=150),
              EXH('reads', 1, merge_reads=150, nav='meta', GPrefix='<- R_PrefixDisk'),
              EXH('reads', 1, merge_reads=150, GPrefix='<- R_PrefixW'),
              SIM('sim', 500, 40)],
        random=dict(traces=2400, length=140),
        mc=[('KVStore_enc.cfg', {'ESteps': '7'}, 'clean'),
            ('KVStore_enc.cfg', {'ESteps': '6', 'EVals': '<- E_Vals', 'ENames': '<- E_NamesX'}, 'clean'),
            ('KVStore_enc_known.cfg', {}, 'Invariant Refines is violated'),
            ('KVStore_enc_nonames.cfg', {}, 'Invariant Refines is violated')],
        budget_s=1700),
}


def run_gen(g, scratch, seed_):
    cfg = 'KVStore_gen_%s.cfg' % g['theme']
    ov = dict(g['ov'])
    ov['GenDepth'] = str(g['depth'])
    sim = None
    if g['sim']:
        ov['GenRandom'] = 'TRUE'
        sim = dict(num=g['sim'], depth=g['depth'] + 16, seed=seed_)
    else:
        ov['GSample'] = str(g['sample'])
        ov['GSeed'] = str(seed_ % max(1, g['sample']))
    r = vlib.tlc(cfg, GEN_MODULE, scratch, overrides=ov, simulate=sim, timeout=2400)
    vlib.require_clean(r, 'generator %s %s' % (cfg, ov))
    if r['universe'] is None:
        raise Infra('generator %s printed no universe' % cfg)
    prefs = tagged(r['log'], 'PREF')
    if not prefs:
        raise Infra('generator %s printed no prefix' % cfg)
    r['prefix'] = prefs[0]
    return r


def jobs_of(g, r, tag):
    """behaviours of one generator run -> replay jobs"""
    uni, pref = r['universe'], r['prefix']
    frees = [json.loads(h) for h in sorted(set(r['histories']))]
    jobs = []
    if g['merge']:
        # read operations change nothing (KVStore!Eff is the identity for them), so the histories
        # prefix.r1, prefix.r2, ... are replayed as prefix.r1.r2...: a legal history of the
        # specification with the same expected results
        for f in frees:
            if any(e['a'] not in ('get', 'pget', 'names', 'iter', 'iterp') for e in f):
                raise Infra('merge: a free part is not read-only')
        flat = [e for f in frees for e in f]
        for c in range(0, len(flat), g['merge']):
            jobs.append(dict(id='%s-m%d' % (tag, c // g['merge']), nav=g['nav'], u=uni, h=pref + flat[c:c + g['merge']], src=tag,
                             histories=len(flat[c:c + g['merge']])))
    else:
        for i, f in enumerate(frees):
            jobs.append(dict(id='%s-%d' % (tag, i), nav=g['nav'], u=uni, h=pref + f, src=tag, histories=1))
    return jobs, len(frees)


# ------------------------------------------------------------------ running the real store
def run_replay(binary, jobs, scratch, tag):
    jf = os.path.join(scratch.dir, 'jobs-%s.jsonl' % tag)
    with open(jf, 'w') as f:
        for j in jobs:
            f.write(json.dumps(j) + '\n')
    tdir = scratch.sub('traces-' + tag)

    def args(a, b, sdir):
        return ['-mode', 'replay', '-jobs', jf, '-from', str(a), '-to', str(b), '-scratch', sdir,
                '-trace', os.path.join(tdir, 't-%d-%s' % (a, os.path.basename(sdir)))]
    res = vlib.run_children(binary, args, len(jobs), scratch, per_item_timeout=60)
    return res, sorted(glob.glob(os.path.join(tdir, '*.ndjson')))


def run_random(binary, n, length, seed_, scratch, tag, overlap=0):
    tdir = scratch.sub('traces-' + tag)

    def args(a, b, sdir):
        return ['-mode', 'random', '-seed', str(seed_), '-len', str(length), '-from', str(a), '-to', str(b), '-scratch', sdir,
                '-overlap', str(overlap), '-trace', os.path.join(tdir, 'r-%d-%s' % (a, os.path.basename(sdir)))]
    res = vlib.run_children(binary, args, n, scratch, per_item_timeout=60)
    return res, sorted(glob.glob(os.path.join(tdir, '*.ndjson')))


# ------------------------------------------------------------------ judgement by TLC
def judge(files, enabled, scratch, workers=4, parallel=4):
    """KVStoreTrace over every trace file.  Returns (deviations, lines judged, tlc runs)."""
    kn = '{' + ', '.join('"%s"' % k for k in enabled) + '}'
    devs, lines, runs = [], 0, 0
    lock = threading.Lock()

    def one(path):
        nonlocal lines, runs
        n = sum(1 for _ in open(path))
        if n == 0:
            return
        r = vlib.tlc(TRACE_CFG, 'KVStoreTrace.tla', scratch, overrides={'TraceFile': '"%s"' % path, 'KnownEnabled': kn},
                     workers=workers, timeout=2400)
        vlib.require_clean(r, 'trace judgement %s' % os.path.basename(path))
        if r.get('distinct') != n:
            raise Infra('trace judgement %s: %s of %d lines judged\n%s' % (os.path.basename(path), r.get('distinct'), n, r['log'][-1500:]))
        ds = tagged(r['log'], 'DEVIATION')
        for d in ds:
            d['file'] = path
        with lock:
            devs.extend(ds)
            lines += n
            runs += 1
    with ThreadPoolExecutor(max_workers=parallel) as ex:
        for f in [ex.submit(one, p) for p in files]:
            f.result()
    return devs, lines, runs


def trace_stats(files):
    """what the recorded traces contain: operation x result class counts (measured)"""
    st = {}
    traces = 0
    for p in files:
        for line in open(p):
            if line.startswith('{"t":"reset"'):
                traces += 1
            elif line.startswith('{"t":"op"'):
                m = re.match(r'\{"t":"op","a":"(\w+)","via":"([\w-]+)"', line)
                c = re.search(r'"res":\{"c":"(\w+)"', line)
                k = '%s:%s->%s' % (m.group(1), m.group(2), c.group(1) if c else '?')
                st[k] = st.get(k, 0) + 1
            elif line.startswith('{"t":"obs"'):
                m = re.match(r'\{"t":"obs","how":"(\w+)","via":"(\w)"', line)
                k = 'obs:%s:%s' % (m.group(1), m.group(2))
                st[k] = st.get(k, 0) + 1
    return st, traces


def trace_of(path, tid):
    """the lines of trace tid in file path"""
    out, on = [], False
    for line in open(path):
        if line.startswith('{"t":"reset"'):
            on = json.loads(line).get('id') == tid
        if on:
            out.append(json.loads(line))
    return out


# ------------------------------------------------------------------ binding demonstration (thorough)
def binding_demo(files, enabled, scratch):
    """Corrupt ONE recorded field of a conforming trace and show that TLC rejects exactly that line."""
    demos = []
    rnd = random.Random(vlib.seed())
    for want_kind in ('val', 'ents', 'obs'):
        done = False
        for path in files:
            lines = open(path).read().splitlines()
            idx = list(range(len(lines)))
            rnd.shuffle(idx)
            for i in idx:
                l = json.loads(lines[i])
                if want_kind == 'val' and l.get('t') == 'op' and l['res']['c'] == 'val' and l['res']['x']:
                    l['res']['x'][0] = (l['res']['x'][0] + 1) % 256
                    what = 'one byte of a value returned by Get changed'
                elif want_kind == 'ents' and l.get('t') == 'op' and l['a'] in ('iter', 'iterp') and l['res']['c'] == 'ents' and len(l['res']['x']) >= 2 and l['res']['x'][0] != l['res']['x'][1]:
                    l['res']['x'][0], l['res']['x'][1] = l['res']['x'][1], l['res']['x'][0]
                    what = 'two entries returned by an iterator swapped'
                elif want_kind == 'obs' and l.get('t') == 'obs' and l['via'] == 'r' and l['how'] == 'pget' and any(g['e'] for g in l['got']):
                    g = next(g for g in l['got'] if g['e'])
                    g['e'] = g['e'][1:]
                    what = 'one committed entry dropped from a prefix read'
                else:
                    continue
                # cut the file down to the trace that contains line i (keeps the run short)
                start = max(j for j in range(i + 1) if lines[j].startswith('{"t":"reset"'))
                end = next((j for j in range(i + 1, len(lines)) if lines[j].startswith('{"t":"reset"')), len(lines))
                mut = lines[start:i] + [json.dumps(l, separators=(',', ':'))] + lines[i + 1:end]
                mp = os.path.join(scratch.dir, 'mutated-%s.ndjson' % want_kind)
                open(mp, 'w').write('\n'.join(mut) + '\n')
                devs, n, _ = judge([mp], enabled, scratch, workers=2, parallel=1)
                hit = [d for d in devs if d['line'] == i - start + 1 and d['known'] == '']
                demos.append(dict(mutation=what, line=i - start + 1, lines=n, rejected=bool(hit), deviations=len(devs)))
                done = True
                break
            if done:
                break
        if not done:
            demos.append(dict(mutation='no line of kind %s found' % want_kind, rejected=False))
    return demos


# ------------------------------------------------------------------ the check
def check(pid, tier, scratch, replay):
    t0 = time.time()
    os.environ.setdefault('JAVA_TOOL_OPTIONS', '-Xmx6g')
    seed_ = vlib.seed()
    rnd = random.Random(seed_)
    entries, enabled = known_entries()
    binary = build(scratch)

    if replay:
        return replay_one(pid, tier, scratch, replay, binary, enabled)

    plan = PLAN[tier if tier in PLAN else 'quick']

    # 1. the design-level model (KVStoreEnc: encoding + batch overlay refine the reference map) and
    #    generation: TLC enumerates / simulates the behaviours of every theme
    gens = plan['gens']
    with ThreadPoolExecutor(max_workers=5) as ex:
        mfuts = [(cfg, ov, expect, ex.submit(vlib.tlc, cfg, 'KVStoreEncMC.tla', scratch, overrides=ov, workers=6, timeout=2400))
                 for (cfg, ov, expect) in plan['mc'] if cfg != 'KVStore_enc_known.cfg' or 'K-C11-1' in enabled]
        futs = [ex.submit(run_gen, g, scratch, seed_ * 7919 + i) for i, g in enumerate(gens)]
        gruns = [f.result() for f in futs]
        mruns = [(cfg, ov, expect, f.result()) for (cfg, ov, expect, f) in mfuts]
    jobs, gen_runs, states, transitions = [], [], 0, 0
    mc_runs = []
    for cfg, ov, expect, r in mruns:
        if expect == 'clean':
            vlib.require_clean(r, 'design model %s' % cfg)
            states += r.get('distinct', 0)
            transitions += r.get('generated', 0)
        else:
            # a configuration that states a defect of the design (known finding at model level, or a
            # deliberately broken design): TLC must find the violation, otherwise the model checks nothing
            if r['rc'] == 124 or r['error'] or not r['violated'] or expect not in r['violated']:
                raise Infra('design model %s: expected "%s", got %s\n%s' % (cfg, expect, r['violated'], r['log'][-1500:]))
        mc_runs.append(dict(cfg=cfg, overrides=ov, expected=expect, outcome=r['violated'] or 'no violation',
                            distinct=r.get('distinct'), generated=r.get('generated'), wall_s=round(r['wall'], 1)))
    for i, (g, r) in enumerate(zip(gens, gruns)):
        tag = '%s-d%d-%s-%d' % (g['theme'], g['depth'], g['nav'], i)
        js_, nh = jobs_of(g, r, tag)
        jobs += js_
        if not g['sim']:
            states += r.get('distinct', 0)
            transitions += r.get('generated', 0)
        gen_runs.append(dict(cfg='KVStore_gen_%s.cfg' % g['theme'], depth=g['depth'], overrides=g['ov'], nav=g['nav'],
                             exhaustive_enumeration=not g['sim'], emitted_1_in=g['sample'], simulate=g['sim'],
                             states=r.get('distinct'), histories=nh, replay_jobs=len(js_), wall_s=round(r['wall'], 1)))
        if nh == 0:
            raise Infra('generator %s emitted no history' % tag)
    # known-finding demonstrations: the scripted history of K-C11-1, and reads with a re-used Range (K-C11-2)
    kr = run_gen(EXH('known', 0), scratch, 0)
    kjobs, _ = jobs_of(EXH('known', 0), kr, 'known-K-C11-1')
    for nav in ('name', 'meta'):
        for j in kjobs:
            jobs.append(dict(j, id='%s-%s' % (j['id'], nav), nav=nav, demo='K-C11-1'))
    reuse = []
    for j in jobs:
        if j['src'].startswith('reads') and any(e['a'] == 'iter' for e in j['h']):
            h = [dict(e, reuse=True) if e['a'] == 'iter' else e for e in j['h']]
            reuse.append(dict(j, id=j['id'] + '+reuse', h=h, demo='K-C11-2', histories=0))
            if len(reuse) >= 2:
                break
    jobs += reuse
    rnd.shuffle(jobs)      # long (simulated) and short histories evenly over the child processes
    t_gen = time.time() - t0

    # 2. spec -> code: replay on the real store
    results, gfiles = run_replay(binary, jobs, scratch, 'gen')
    t_replay = time.time() - t0 - t_gen
    # 3. code -> spec: seeded random traces
    rp = plan['random']
    rres, rfiles = run_random(binary, rp['traces'], rp['length'], seed_, scratch, 'rnd')
    # ... and the same driver with a second writer that now and then calls BeginTx while a write transaction is open
    # and waits for the writer lock (an empty transaction, rolled back at once): the recorded history stays serial,
    # so the same judge applies - what an open transaction reads and commits must not depend on a waiting writer
    ores, ofiles = run_random(binary, rp['traces'] // 2, rp['length'], seed_ + 500009, scratch, 'ovl', overlap=3)
    rres, rfiles = rres + ores, rfiles + ofiles
    infra = [(i, r) for i, r in enumerate(results) if r is None or r.get('died') or r.get('infra') or (r.get('err') or '').startswith(('setup:', 'harness:'))]
    rinfra = [(i, r) for i, r in enumerate(rres) if r is None or r.get('died') or r.get('infra') or r.get('err')]
    if infra or rinfra:
        bad = (infra + rinfra)[0][1]
        raise Infra('%d replays / %d random traces failed for infrastructure reasons, e.g. %s' % (len(infra), len(rinfra), json.dumps(bad)[:600]))
    t_rand = time.time() - t0 - t_gen - t_replay

    # 4. judgement: TLC re-computes every recorded result
    devs, lines, truns = judge(gfiles + rfiles, enabled, scratch)
    t_judge = time.time() - t0 - t_gen - t_replay - t_rand
    by_id = {}
    for d in devs:
        by_id.setdefault(d['id'], []).append(d)
    harness_devs = [d for d in devs if d['kind'].startswith('harness')]
    if harness_devs:
        raise Infra('the trace specification rejects the driver itself: %s' % json.dumps(harness_devs[0])[:600])

    # second opinion: the Go comparison of the generated behaviours must agree with TLC, per behaviour
    disagree = []
    for j, r in zip(jobs, results):
        go_new = r.get('new_diffs', 0) > 0 or any(k not in enabled for k in r.get('known_ids', []))
        go_any = bool(r.get('diffs'))
        tl = by_id.get(j['id'], [])
        tl_new = any(d['known'] == '' for d in tl)
        if go_new != tl_new or go_any != bool(tl):
            disagree.append((j['id'], go_new, tl_new, go_any, bool(tl)))
    if disagree:
        raise Infra('Go comparison and TLC judgement disagree on %d behaviours, e.g. %s' % (len(disagree), disagree[0]))

    # 5. classify
    job_by_id = {j['id']: j for j in jobs}
    new_ids = sorted(set(d['id'] for d in devs if d['known'] == ''))
    known_hits = {}
    for d in devs:
        if d['known']:
            known_hits.setdefault(d['known'], set()).add(d['id'])
    violations = []
    for tid in new_ids[:8]:
        first = min((d for d in by_id[tid] if d['known'] == ''), key=lambda d: d['line'])
        if tid in job_by_id:
            j = job_by_id[tid]
            # reproduce alone before calling it a violation
            again, _ = run_replay(binary, [j], scratch, 'again-%s' % vlib.short_hash(tid))
            if not again[0] or not (again[0].get('new_diffs', 0) > 0 or any(k not in enabled for k in again[0].get('known_ids', []))):
                raise Infra('deviation of %s did not reproduce when replayed alone' % tid)
            obj = dict(property=pid, kind='gen', job=dict(id=j['id'], nav=j['nav'], u=j['u'], h=j['h']), source=j['src'],
                       deviation=first, go_diffs=again[0].get('diffs'), how='bin/check %s %s --replay <this file>' % (pid, tier))
            hist = describe(j['h'])
            nd = [d for d in again[0].get('diffs', []) if not d.get('known') or d['known'] not in enabled]
            if nd:
                hist = 'failing step %d: %s | %s' % (nd[0]['step'], describe_op(j['h'][nd[0]['step']]), hist)
        else:
            m = re.match(r'(?:rnd|ovl(\d+))-(\d+)-(\d+)$', tid)
            obj = dict(property=pid, kind='random', seed=int(m.group(2)), index=int(m.group(3)), overlap=int(m.group(1) or 0), length=rp['length'],
                       deviation=first, trace=trace_of(first['file'], tid)[:first['line'] + 2],
                       how='bin/check %s %s --replay <this file>' % (pid, tier))
            hist = describe([l for l in obj['trace'] if l.get('t') == 'op'])
        for d in (first,):
            d.pop('file', None)
        p = vlib.save_replay(pid, '%s-%s' % (tier, vlib.short_hash(tid + json.dumps(first)[:200])), obj)
        violations.append(tid)
        print('VIOLATION property=%s replay=%s' % (pid, p))
        print('  trace: %s   line %d: %s' % (tid, first['line'], first['kind']))
        print('  want: %s' % json.dumps(first['want'])[:400])
        print('  got:  %s' % json.dumps(first['got'])[:400])
        print('  history: %s' % hist[:1500])
    n_new = len(new_ids)

    stale = []
    for kid in enabled:
        e = entries[kid]
        hits = known_hits.get(kid, set())
        demo_hit = [t for t in hits if job_by_id.get(t, {}).get('demo') == kid]
        if hits:
            ex_id = (demo_hit or sorted(hits))[0]
            exh = describe(job_by_id[ex_id]['h']) if ex_id in job_by_id else ex_id
            print('KNOWN-FINDING: property=%s %s: %s (%d traces; reproduced on the scripted history: %s; e.g. %s)'
                  % (pid, kid, e['summary'][:260], len(hits), 'yes' if demo_hit else 'no', exh[:300]))
        else:
            stale.append(kid)
            print('note: known finding %s did not reproduce in this run (repaired? then mark it fixed in known_findings.jsonl)' % kid)

    # 6. binding demonstration (thorough): a corrupted record must be rejected by TLC
    demos = []
    if tier == 'thorough' or os.environ.get('VERIF_C11_DEMO'):
        clean_files = [f for f in gfiles + rfiles]
        demos = binding_demo(clean_files, enabled, scratch)
        if not all(d['rejected'] for d in demos):
            raise Infra('binding demonstration failed: %s' % json.dumps(demos))
        # and the Go side: flip one expected value of a generated behaviour
        j = next(j for j in jobs if j['src'].startswith('order'))
        h = json.loads(json.dumps(j['h']))
        e = next(e for e in reversed(h) if e.get('o') and e['r'] and any(x['e'] for x in e['r']))
        rec = next(x for x in e['r'] if x['e'])
        rec['e'][0][1] = rec['e'][0][1] + [1]
        flipped, _ = run_replay(binary, [dict(j, id='flipped', h=h)], scratch, 'flip')
        ok = bool(flipped[0] and flipped[0].get('diffs'))
        demos.append(dict(mutation='one expected committed value of a generated behaviour changed', rejected=ok))
        if not ok:
            raise Infra('binding demonstration failed: a changed expectation was not noticed by the replayer')

    # 7. evidence
    stats, ntraces = trace_stats(gfiles + rfiles)
    zero = [k for k in ('put:w->ok', 'del:w->ok', 'clear:w->ok', 'create:w->ok', 'delb:w->ok', 'commit:-->ok', 'rollback:-->ok', 'errret:-->ok',
                        'reopen:-->ok', 'get:r->val', 'get:w->val', 'pget:r->ents', 'pget:w->ents', 'names:r->names', 'names:w->names',
                        'iter:r->ents', 'iterp:r->ents', 'put:w->err', 'create:w->err', 'obs:iter:r', 'obs:pget:w') if not stats.get(k)]
    if zero:
        raise Infra('vacuous run: no recorded line of kind %s' % zero)
    samples = []
    for j in (jobs[0], jobs[len(jobs) // 2], jobs[-3]):
        samples.append(dict(source=j['src'], navigation=j['nav'], history=describe(j['h'])))
    rsample = trace_of(rfiles[0], 'rnd-%d-0' % seed_)
    samples.append(dict(source='random driver seed %d trace 0' % seed_, history=describe([l for l in rsample if l.get('t') == 'op'][:30])))
    n_hist = sum(g['histories'] for g in gen_runs)
    cov = dict(states=max(states, 1), transitions=max(transitions, 1),
               traces_validated_against_impl=ntraces, samples=samples,
               trace_lines_judged_by_tlc=lines, tlc_judgement_runs=truns,
               generated_histories=n_hist, replay_jobs=len(jobs), random_traces=rp['traces'], random_trace_length=rp['length'],
               go_comparisons=sum((r or {}).get('compared', 0) for r in results),
               deviating_lines=len(devs), deviating_traces_unexplained=n_new,
               known_finding_hits={k: len(v) for k, v in known_hits.items()}, known_findings_not_reproduced=stale,
               known_patterns_enabled=enabled,
               recorded_operation_result_counts=dict(sorted(stats.items())),
               design_model_runs=mc_runs, generator_runs=gen_runs, binding_demonstrations=demos, exhaustive=False,
               phase_wall_s=dict(generate=round(t_gen, 1), replay=round(t_replay, 1), random=round(t_rand, 1), judge=round(t_judge, 1)),
               rule='generated: every operation sequence of the stated depth after the theme\'s scripted prefix (exhaustive TLC enumeration; "emitted_1_in" = deterministic hash sample taken inside the enumeration) or -simulate random sequences; random: seeded Go driver with arbitrary binary keys/values/names.  Each is executed on a fresh real LevelDB store; every operation result and, after every free step, the whole store read back by listing / point reads / prefix read / iteration through a read transaction and through the open write transaction is judged by TLC (KVStoreTrace) against the reference map',
               decides='atomic commit; rollback and error return (db.Update) leave no trace; reads, prefix reads, listings and bucket lookups inside the write transaction reflect its own puts/deletes/clears/bucket creations and deletions; uncommitted writes invisible to read transactions; isolation between buckets for adversarial keys and names; exact ascending iteration / prefix iteration / range + seek over committed entries; persistence across close/reopen; error class and no effect for illegal names, empty keys, empty values, top-level delete',
               does_not_decide='iteration order inside a write transaction; read transactions held open across a commit; aliasing of caller buffers; concurrent use from several goroutines (C17); crashes (C06) and failing storage calls (C18)')
    vlib.write_evidence(pid, tier, 'model_checking', cov, time.time() - t0, len(violations), ASSUME)
    print('%s %s: %d generated histories in %d replay jobs + %d random traces, %d trace lines judged by TLC in %d runs, %d generator states; unexplained traces=%d known-finding traces=%d wall=%.0fs (gen %.0f, replay %.0f, random %.0f, judge %.0f)'
          % (pid, tier, n_hist, len(jobs), rp['traces'], lines, truns, states, n_new, sum(len(v) for v in known_hits.values()),
             time.time() - t0, t_gen, t_replay, t_rand, t_judge))
    return 1 if violations else 0


def replay_one(pid, tier, scratch, replay, binary, enabled):
    obj = json.load(open(replay))
    if obj.get('kind') == 'random':
        res, files = run_random(binary, obj['index'] + 1, obj['length'], obj['seed'], scratch, 'one', overlap=obj.get('overlap', 0))
        tid = ('ovl%d-%d-%d' % (obj['overlap'], obj['seed'], obj['index'])) if obj.get('overlap') else 'rnd-%d-%d' % (obj['seed'], obj['index'])
    else:
        j = obj['job']
        res, files = run_replay(binary, [j], scratch, 'one')
        tid = j['id']
        print(json.dumps(res[0], indent=1)[:6000])
    devs, lines, _ = judge(files, enabled, scratch)
    mine = [d for d in devs if d['id'] == tid]
    for d in mine[:10]:
        d.pop('file', None)
        print('DEVIATION', json.dumps(d)[:1200])
    new = [d for d in mine if d['known'] == '']
    print('%s replay %s: %d lines judged, %d deviating lines in the trace, %d not explained by a known finding' % (pid, tid, lines, len(mine), len(new)))
    return 1 if new else 0
