"""C14 - Hierarchical key derivation is exactly BIP-32.

spec/Bip32.tla states the property byte for byte (Data(k,i), IL/IR split, k_i = IL + k mod n as schoolbook
arithmetic, invalid-child / depth / hardened-from-public rules, the 78-byte serialisation, fingerprints, and
the MUST-ACCEPT / MUST-REJECT / DON'T-CARE classes of the key importer).  HMAC-SHA512, secp256k1 point
arithmetic, Hash160, SHA256d and base-58 are trusted primitives: the harness evaluates them and logs the
answers; the specification forms every question itself.

  1. TLC enumerates the structural cases (spec/Bip32Gen.tla): seed lengths x fills, every
     hardened/non-hardened path shape up to depth 6 x index classes, single-byte and single-character
     corruptions of serialised keys, boundary key material.
  2. harness/cmd/bip32 fills in seeded content, searches (seeded) for parents whose private scalar has
     leading zero bytes, runs the real hdkeychain package and records an ndjson trace.
  3. TLC judges every line (spec/Bip32Trace.tla, Bip32!Verdict): ok / dontcare / known / violation / specfail.
Python only moves files, runs the tools and counts."""
import concurrent.futures, json, os, random, re, shutil, subprocess, time
import vlib
from vlib import Infra

IDS = ['C14']

# classifiers that exist in spec/Bip32.tla
SUPPORTED_KNOWN = {'K-C14-1', 'K-C14-2'}
# Used ONLY while known_findings.jsonl has no C14 entry at all (neither "known" nor "fixed"): the entries
# proposed with this check.  Once the maintainer registers K-C14-* / F-C14-* the file alone decides.
PROPOSED_KNOWN = [
    {"id": "K-C14-1", "property": "C14", "status": "known", "kinds": ["ckd-priv-hardened"],
     "classifier": {"tla": "Bip32!KnownLeadingZeroInput(parent, i) and the result equals Bip32!CKDprivWith(parent, i, DeviantData(parent, i))",
                    "input": "Child(i) with i >= 2^31 on a private extended key whose 32-byte scalar has >= 1 leading zero byte",
                    "any_other_difference": "VIOLATION"},
     "summary": "hardened derivation from a parent private key with >=1 leading zero byte differs from BIP-32: Child() feeds "
                "big.Int bytes (leading zeros stripped, left-aligned) instead of ser256(k) into HMAC-SHA512; happens for parents produced "
                "by Child() (1/256 of them); not repairable without changing ids/addresses of existing wallets",
     "example": "BIP-32 test vector 4: seed 3ddd5602285899a946114506157c7997e5444528f3003f6134712147db19b678, m/0H -> 1H"},
    {"id": "K-C14-2", "property": "C14", "status": "known", "kinds": ["parse-reject:public-key-x-out-of-range"],
     "classifier": {"tla": "Bip32!ParseClass = reject/public-key-x-out-of-range and Bip32!KnownXRangeInput",
                    "input": "NewKeyFromString of a well-formed serialisation whose public key is 02/03 || x with p <= x < 2^256 and x-p on the curve",
                    "any_other_accepted_must_reject": "VIOLATION"},
     "summary": "NewKeyFromString accepts a compressed public key whose x coordinate is not below the field prime when x mod p is on "
                "the curve (btcec.ParsePubKey does not range-check x of compressed keys); repair in fixes/C14-1.diff",
     "example": "payload of any xpub with key data 03 || ff..ff (x = 2^256-1)"},
]

BOUNDS = {
    #                 xor deltas per byte       random paths  searched leading-zero parents (1 byte / 2 bytes)
    'quick':    dict(deltas='{1, 128, 255}',    extra=500,    lz=8,  lz2=0, par=4, workers=4),
    'thorough': dict(deltas='<- AllDeltas',     extra=15000,  lz=100, lz2=3, par=5, workers=3),
}
CHUNK = 1500


def build(scratch):
    """Build harness/cmd/bip32 in a PRIVATE copy of the harness module so that the replace directive follows
    VERIF_REPO and the shared go.mod is left alone."""
    mod = scratch.sub('harness')
    os.makedirs(os.path.join(mod, 'cmd'), exist_ok=True)
    shutil.copytree(os.path.join(vlib.HARNESS, 'cmd', 'bip32'), os.path.join(mod, 'cmd', 'bip32'))
    shutil.copytree(os.path.join(vlib.HARNESS, 'bip32lib'), os.path.join(mod, 'bip32lib'))
    repo = os.path.realpath(vlib.REPO)
    gm = []
    for line in open(os.path.join(vlib.HARNESS, 'go.mod')).read().splitlines():
        if line.startswith('replace massnet.org/mass-wallet'):
            line = 'replace massnet.org/mass-wallet => %s' % repo
        gm.append(line)
    open(os.path.join(mod, 'go.mod'), 'w').write('\n'.join(gm) + '\n')
    shutil.copy(os.path.join(repo, 'go.sum'), os.path.join(mod, 'go.sum'))
    binary = os.path.join(scratch.dir, 'bip32')
    p = subprocess.run(['go', 'build', '-tags', 'verif', '-o', binary, './cmd/bip32'], cwd=mod, env=vlib.GOENV,
                       stdout=subprocess.PIPE, stderr=subprocess.STDOUT, text=True)
    if p.returncode != 0 or not os.path.exists(binary):
        msg = '\n'.join(l for l in p.stdout.splitlines() if 'ld: ' not in l and not l.startswith('#'))
        raise Infra('go build ./cmd/bip32 failed:\n%s' % msg[-3000:])
    return binary


def generate(tier, scratch, path):
    ov = {'Deltas': BOUNDS[tier]['deltas']}
    r = vlib.tlc('Bip32_Gen.cfg', 'Bip32Gen.tla', scratch, overrides=ov, workers=4, timeout=900)
    vlib.require_clean(r, 'case generation (Bip32Gen)')
    pre = '<<"CASE", "'
    kinds = {}
    n = 0
    with open(path, 'w') as f:
        for line in r['log'].splitlines():
            if line.startswith(pre):
                c = json.loads(vlib.unescape(line[len(pre):-3]))
                k = c['t'] + (':' + c['level'] + (':refix' if c.get('refix') else '') if c['t'] == 'corrupt' else '')
                kinds[k] = kinds.get(k, 0) + 1
                f.write(json.dumps(c) + '\n')
                n += 1
    if not n or n != r.get('distinct'):
        raise Infra('case generation: %d cases printed for %s distinct states\n%s' % (n, r.get('distinct'), r['log'][-1500:]))
    r['log'] = ''
    return n, kinds, r, ov


VLINE = re.compile(r'^"V\|(\d+)\|(\w+)\|([^|]*)\|(.*)"$')


def judge(scratch, content, known, what, workers):
    """One TLC run over one trace chunk; returns (tlc result, {line index: (verdict, clause, why)})."""
    r = vlib.tlc('Bip32_Trace.cfg', 'Bip32Trace.tla', scratch,
                 overrides={'Known': '{' + ', '.join('"%s"' % k for k in sorted(known)) + '}'},
                 workers=workers, timeout=1500, extra=['-continue'], extra_files={'trace.ndjson': content})
    verdicts = {}
    for line in r['log'].splitlines():
        m = VLINE.match(line)
        if m:
            verdicts[int(m.group(1))] = (m.group(2), m.group(3), vlib.unescape(m.group(4)))
    if r['rc'] == 124:
        raise Infra('%s: TLC timed out' % what)
    if 'did not answer the oracle question' in r['log']:
        raise Infra('%s: oracle question not answered (the specification asked the trusted primitives something the harness had not evaluated)' % what)
    if r['error'] or (r['rc'] != 0 and not r['violated']):
        tail = '\n'.join(l for l in r['log'].splitlines() if not l.startswith('"V|'))
        raise Infra('%s: TLC failed rc=%s\n%s' % (what, r['rc'], tail[-2500:]))
    r['log'] = ''
    return r, verdicts


def summary_of(line):
    """the input of a trace line, written out (for samples and replays)"""
    d = {'op': line['op'], 'tag': line['tag']}
    if line['op'] == 'master':
        d['seed_hex'] = bytes(line['seed']).hex()
    elif line['op'] == 'child':
        d['parent'] = line['parent']
        d['parent_obtained_by'] = line['psrc']
        d['index'] = ("%d'" % line['i']['n']) if line['i']['hard'] else str(line['i']['n'])
    elif line['op'] == 'parse':
        d['text'] = line['s']
    im = line.get('impl', {})
    if line['op'] != 'const':
        d['implementation'] = ({'key': im['obs']['str'], 'public_child_of_neutered_parent': im['pub']['str'] or im['pub']['err']}
                               if im.get('ok') else {'rejected': im.get('err', ''), 'panic': im.get('panic', False)})
    return d


def required_of(line):
    """what the specification requires for a deviating line, as far as the oracle list shows it"""
    encs = [q['sout'] for q in line['or'] if q['f'] == 'base58-encode']
    return encs[0] if encs and line['op'] in ('master', 'child') else None


def binding_demo(scratch, pool, known, rnd, workers):
    """Corrupt one recorded field of a line TLC judged conforming / one oracle answer: TLC must reject the trace."""
    def m_key(l):
        l['impl']['obs']['eckey'][-1] ^= 1
        return 'last byte of the recorded private key accessor flipped'

    def m_str(l):
        l['impl']['obs']['str'] = l['impl']['pub']['str']
        return 'recorded serialisation of the child replaced by that of its public twin'

    def m_fp(l):
        l['impl']['obs']['fp'][0] ^= 0x80
        return 'recorded parent fingerprint accessor changed'

    def m_pub(l):
        l['impl']['pub']['str'] = l['impl']['obs']['str']
        return 'recorded public-derivation result replaced by the private child'

    def m_oracle(l):
        q = next(q for q in l['or'] if q['f'] == 'hmac-sha512')
        q['out'][40] ^= 1
        return 'one byte of the recorded HMAC-SHA512 answer (chain-code half) flipped'

    def one(arg):
        mut, pick = arg
        good = json.loads(json.dumps(pick))
        bad = json.loads(json.dumps(good))
        how = mut(bad)
        content = json.dumps(good) + '\n' + json.dumps(bad) + '\n'
        try:
            r, v = judge(scratch, content, known, 'binding demonstration', workers)
            rejected = v.get(2, ('',))[0] in ('violation', 'specfail') and v.get(1, ('',))[0] == 'ok'
            verdict = list(v.get(2, ()))
        except Infra as e:      # TLC stopping on an unanswered oracle question is a rejection, too
            rejected, verdict = 'oracle question not answered' in str(e), ['tlc-error', '', str(e)[:120]]
        return {'mutation': how, 'line': summary_of(good)['tag'], 'tlc_verdict_on_corrupted_line': verdict, 'rejected': bool(rejected)}

    with concurrent.futures.ThreadPoolExecutor(max_workers=5) as ex:
        demos = list(ex.map(one, [(m, rnd.choice(pool)) for m in (m_key, m_str, m_fp, m_pub, m_oracle)]))
    for d in demos:
        if not d['rejected']:
            raise Infra('binding demonstration: TLC accepted a corrupted trace line (%s): %s' % (d['mutation'], d['tlc_verdict_on_corrupted_line']))
    return demos


def check(pid, tier, scratch, replay):
    t0 = time.time()
    if tier not in BOUNDS:
        raise Infra('unknown tier %s' % tier)
    if replay:
        rp = json.load(open(replay))
        os.environ['VERIF_SEED'] = str(rp.get('seed', vlib.seed()))
        tier = rp.get('tier', tier)
    b = BOUNDS[tier]
    rnd = random.Random(vlib.seed())

    listed = [k for k in vlib.load_known() if k.get('property') == pid]
    source = 'known_findings.jsonl'
    if not listed:
        listed, source = PROPOSED_KNOWN, 'bin/p_C14.py PROPOSED_KNOWN (known_findings.jsonl has no C14 entry yet)'
    known = {k['id']: k for k in listed if k.get('status') == 'known'}
    unsupported = sorted(set(known) - SUPPORTED_KNOWN)
    if unsupported:
        raise Infra('known_findings.jsonl lists %s for C14 but spec/Bip32.tla has no classifier of that name' % unsupported)

    binary = build(scratch)
    cases_path = os.path.join(scratch.dir, 'cases.ndjson')
    ncases, case_kinds, gen_r, gen_ov = generate(tier, scratch, cases_path)
    t_gen = time.time() - t0

    tdir = scratch.sub('trace')
    p = subprocess.run([binary, '-cases', cases_path, '-out', tdir, '-seed', str(vlib.seed()), '-extra', str(b['extra']),
                        '-lz', str(b['lz']), '-lz2', str(b['lz2']), '-chunk', str(CHUNK)],
                       env=vlib.GOENV, stdout=subprocess.PIPE, stderr=subprocess.PIPE, text=True, timeout=3000)
    if p.returncode != 0:
        raise Infra('harness command bip32 failed rc=%s: %s' % (p.returncode, (p.stderr or p.stdout)[-1500:]))
    rec = json.loads(p.stdout.strip().splitlines()[-1])
    t_rec = time.time() - t0 - t_gen
    if rec['leading_zero_parents'] < 1:
        raise Infra('the seeded search found no parent with a leading zero byte (%d seeds tried)' % rec['leading_zero_seeds_tried'])

    # ---- TLC judges every chunk (several TLC processes side by side)
    chunks = list(rec['files'])

    def judge_file(path, what):
        return judge(scratch, open(path).read(), set(known), what, b['workers'])
    states = gen_r.get('distinct', 0)
    transitions = gen_r.get('generated', 0)
    results = [None] * len(chunks)
    with concurrent.futures.ThreadPoolExecutor(max_workers=b['par']) as ex:
        futs = {ex.submit(judge_file, c, 'trace chunk %d' % i): i for i, c in enumerate(chunks)}
        for f in concurrent.futures.as_completed(futs):
            results[futs[f]] = f.result()

    tally, by_verdict = {}, {}
    deviating = []          # (verdict, clause, why, line)
    judged = 0
    dontcare_obs = {}
    samples, sampled = [], set()
    tlc_flagged = 0
    for ci, (r, verdicts) in enumerate(results):
        lines = open(chunks[ci]).read().splitlines()
        if len(verdicts) != len(lines) or r.get('distinct') != len(lines):
            raise Infra('trace chunk %d: %d lines, %d verdicts, %s states' % (ci, len(lines), len(verdicts), r.get('distinct')))
        states += r.get('distinct', 0)
        transitions += r.get('generated', 0)
        if r['violated']:
            tlc_flagged += 1
        for i in range(1, len(lines) + 1):
            v, clause, why = verdicts[i]
            judged += 1
            key = '%s %s' % (v, clause)
            tally[key] = tally.get(key, 0) + 1
            by_verdict[v] = by_verdict.get(v, 0) + 1
            if v == 'dontcare':
                k2 = '%s -> %s' % (clause, why)
                dontcare_obs[k2] = dontcare_obs.get(k2, 0) + 1
            if v in ('known', 'violation', 'specfail') or key not in sampled:
                line = json.loads(lines[i - 1])
                if v in ('known', 'violation', 'specfail'):
                    deviating.append((v, clause, why, line))
                if key not in sampled and len(samples) < 40:
                    sampled.add(key)
                    s = summary_of(line)
                    s['tlc_verdict'] = {'verdict': v, 'clause': clause, 'why': why}
                    samples.append(s)
    if judged != rec['lines']:
        raise Infra('%d lines recorded, %d judged' % (rec['lines'], judged))
    viol = [d for d in deviating if d[0] == 'violation']
    if bool(viol) != bool(tlc_flagged):
        raise Infra('TLC reported invariant NoViolation violated in %d chunks but %d violation verdicts were printed' % (tlc_flagged, len(viol)))

    # ---- binding demonstration on lines TLC has just judged conforming
    pool = []
    for i, raw in enumerate(open(chunks[0]).read().splitlines(), 1):
        if results[0][1][i][0] == 'ok' and '"op":"child"' in raw and '"parent":"xprv' in raw:
            l = json.loads(raw)
            if l['impl']['ok'] and l['impl']['pub']['ok']:
                pool.append(l)
        if len(pool) >= 50:
            break
    demos = binding_demo(scratch, pool, set(known), rnd, 2) if pool else []
    if not pool and not viol:
        raise Infra('binding demonstration: no conforming private derivation to corrupt')

    # ---- known findings
    known_hits = {}
    for v, clause, why, line in deviating:
        if v == 'known':
            known_hits.setdefault(clause, []).append((why, line))
    notes = []
    for kid in sorted(known):
        hits = known_hits.get(kid, [])
        if hits:
            why, line = hits[0]
            s = summary_of(line)
            what = ('%s Child(%s) -> %s ; BIP-32 requires %s (differs in: %s)' % (s.get('parent'), s.get('index'), s['implementation'].get('key'), required_of(line), why)
                    if line['op'] == 'child' else 'NewKeyFromString("%s") %s' % (s.get('text'), why))
            print('KNOWN-FINDING: property=%s %s %s [%d instances in this run; e.g. %s]' % (pid, kid, known[kid].get('summary', '')[:160], len(hits), what))
        else:
            notes.append('%s is listed as known but no explored input showed it (stale entry, or repaired)' % kid)
            print('NOTE: property=%s known finding %s did not reproduce on the inputs of this run (stale?)' % (pid, kid))

    # ---- violations
    replays = []
    seen = set()
    for v, clause, why, line in viol:
        sig = '%s|%s' % (clause, why)
        if sig in seen and len(replays) >= 5:
            continue
        seen.add(sig)
        obj = {'property': pid, 'seed': vlib.seed(), 'tier': tier, 'clause': clause, 'why': why, 'input': summary_of(line),
               'required_by_spec': required_of(line), 'trace_line': line}
        path = vlib.save_replay(pid, '%s-%s' % (tier, vlib.short_hash(json.dumps(summary_of(line), sort_keys=True))), obj)
        replays.append(path)
        print('VIOLATION property=%s replay=%s' % (pid, path))
        print('  %s: %s -- %s' % (clause, why, json.dumps(summary_of(line))[:700]))
        if len(replays) >= 12:
            break

    spec_fail = [d for d in deviating if d[0] == 'specfail']
    if spec_fail and not viol:
        v, clause, why, line = spec_fail[0]
        raise Infra('the specification / trusted primitives disagree with themselves on %d lines, e.g. %s (%s) at %s' % (len(spec_fail), clause, why, json.dumps(summary_of(line))[:600]))
    coverage = {
        'states': states, 'transitions': transitions,
        'traces_validated_against_impl': judged,
        'trace_chunks': len(chunks),
        'samples': samples,
        'exhaustive': False,
        'rule': 'one state per trace line; a line is one call of NewMaster / Child (+ Neuter().Child) / NewKeyFromString on the real package with '
                'the answers of the trusted primitives; TLC evaluates Bip32!Verdict on it',
        'structural_cases_from_tlc': ncases, 'structural_cases_by_kind': case_kinds, 'generator_overrides': gen_ov,
        'lines_by_operation': rec['by_op'],
        'verdicts': by_verdict, 'verdicts_by_clause': tally,
        'dont_care_inputs_observed': dontcare_obs,
        'leading_zero_parents_found': rec['leading_zero_parents'], 'leading_zero_seeds_tried': rec['leading_zero_seeds_tried'],
        'known_finding_instances': {k: len(v) for k, v in known_hits.items()},
        'known_findings_source': source,
        'invalid_child_lines (IL>=n or ki=0; not constructible without an HMAC preimage)': sum(n for k, n in tally.items() if 'invalid-child' in k or 'master-invalid' in k),
        'binding_demonstration': demos,
        'wall_split_s': {'build+generate': round(t_gen, 1), 'record': round(t_rec, 1), 'judge': round(time.time() - t0 - t_gen - t_rec, 1)},
        'notes': notes,
    }
    assumptions = [
        'trusted primitives (evaluated by the harness, not specified): HMAC-SHA512 (crypto/hmac, crypto/sha512), k*G and point addition on secp256k1 (btcec), '
        'x^3+7 is a square mod p (math/big), RIPEMD160(SHA256) (x/crypto/ripemd160), SHA256d, base-58 (own math/big code)',
        'path-level equality with BIP-32 follows from step-level equality: each Child step is judged against the parent as the implementation serialises it; '
        'the one hidden field (length of the stored scalar) is what K-C14-1 is about',
        'the invalid-child rules (IL >= n, ki = 0, point at infinity) are stated in the specification but no input reaching them can be constructed (needs an HMAC-SHA512 preimage)',
        'inputs are bounded: seeds 16..64 bytes, paths to depth 6, corruptions of a few base keys; see coverage',
    ]
    vlib.write_evidence(pid, tier, 'model_checking', coverage, time.time() - t0, len(viol), assumptions)
    print('C14 %s: %d structural cases from TLC, %d trace lines judged by TLC in %d chunks (%s), %d known-finding instances, %d violations, %.0f s'
          % (tier, ncases, judged, len(chunks), ', '.join('%s=%d' % kv for kv in sorted(by_verdict.items())), sum(len(v) for v in known_hits.values()), len(viol), time.time() - t0))
    return 1 if viol else 0
