#!/bin/bash
# Runs the repository's pinned baseline (guard off) and reports every stable-pass test of
# /root/.vp/BASELINE.json that does not pass now.
export GOFLAGS=-mod=mod GOPROXY=off GOSUMDB=off GOTOOLCHAIN=local
out=${1:-/tmp/baseline.json}
(cd ${BASE_REPO:-/repo} && go test -json -vet=off -count=1 -timeout 25m ./... > $out 2>/dev/null)
python3 - "$out" <<'PY'
import json,sys
base=json.load(open('/root/.vp/BASELINE.json'))
want=set(base['stable_pass'])
got=set()
for l in open(sys.argv[1],errors='replace'):
    try: e=json.loads(l)
    except Exception: continue
    if e.get('Action')=='pass' and e.get('Test'):
        got.add('%s::%s'%(e['Package'],e['Test']))
missing=sorted(want-got)
print('baseline: %d stable-pass tests, %d pass now, %d missing'%(len(want),len(want&got),len(missing)))
for m in missing: print('  NOT PASSING:',m)
sys.exit(1 if missing else 0)
PY
