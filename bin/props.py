"""Per-property checks.  Every check: TLC on the property's model (exhaustive,
invariants) -> TLC as behaviour generator -> replay into the real code built
from /repo's working tree -> classify -> evidence."""
import glob, json, os, random, time
import vlib
from vlib import Infra

ASSUME_ENV = [
    "blocks are delivered by the node's own DB call sequences (SubmitBlock/SyncAttachBlock/Commit, DeleteBlock/SyncDetachBlock/Commit) on a real mass-core chain DB on memory storage; mass-core's ProcessBlock consensus validation is not driven (no valid proofs of capacity)",
    "consensus maturity constants are scaled through mass-core's exported variables",
    "node mempool (TxMemPool) is empty; unconfirmed transactions reach the wallet through OnTransactionReceived only",
]

# which diff kinds decide which property
KINDS = {
    'C01': ['coin-not-buildable', 'synced-height', 'total-balance', 'utxo-missing', 'utxo-extra', 'utxo-differs', 'utxo-duplicate',
            'utxo-confirmations', 'balance-total', 'balance-spendable', 'balance-wstaking', 'balance-wbinding',
            'address-balance-missing', 'address-balance-extra', 'address-balance-differs', 'use-wallet', 'api-error',
            'free-not-quiescent', 'trace-rejected', 'died', 'timeout', 'step-error'],
    'C09': ['trace-rejected', 'utxo-sbu', 'deposit-sbu', 'pending-deposit-missing', 'pending-deposit-extra', 'pending-deposit-differs',
            'pending-set-missing', 'pending-set-extra', 'pending-unreadable', 'pending-not-settled', 'selected-pending-spent',
            'died', 'timeout', 'step-error'],
    'C10': ['trace-rejected', 'deposit-missing', 'deposit-extra', 'deposit-differs', 'pending-deposit-missing', 'pending-deposit-extra', 'pending-deposit-differs',
            'binding-target', 'balance-wstaking',
            'balance-wbinding', 'balance-spendable', 'withdraw-sequence', 'withdraw-boundary', 'died', 'timeout', 'step-error'],
    'C12': ['address-used', 'address-not-listed', 'died', 'timeout', 'step-error'],
}


# with wallets being imported / removed the model's pending set is an approximation (which wallet a
# transaction was on record for while a rescan raced with block steps): not compared there
PENDING_KINDS = ['pending-set-missing', 'pending-set-extra', 'pending-not-settled', 'utxo-sbu', 'deposit-sbu',
                 'pending-deposit-missing', 'pending-deposit-extra']


def replay_jobs(scratch, jobs, race=False):
    binary = vlib.build_go(scratch, './cmd/replay', 'replay', race=race)
    jf = os.path.join(scratch.dir, 'jobs.jsonl')
    with open(jf, 'w') as f:
        for j in jobs:
            u = j.get('u')
            if isinstance(u, dict):   # TLC prints a function with an empty domain as []
                for k in ('txins', 'txouts'):
                    if u.get(k) == []:
                        u[k] = {}
            f.write(json.dumps(j) + '\n')

    def args(a, b, sdir):
        return ['-jobs', jf, '-from', str(a), '-to', str(b), '-scratch', sdir]
    return vlib.run_children(binary, args, len(jobs), scratch)


def regress_jobs(pid, scratch):
    """Regression histories are stored as action scripts; TLC follows the script (Gen.tla, Script)
    and recomputes the expected views with the CURRENT specification."""
    out = []
    for p in sorted(glob.glob(os.path.join(vlib.ROOT, 'regress', '*.json'))):
        r = json.load(open(p))
        if pid not in r.get('properties', []) or r.get('family') == 'gap':
            continue
        th = r['theme']
        base = th['module'][:-4]
        script = vlib.tla(r['actions'])
        mod = '---- MODULE MC_Reg ----\nEXTENDS %s\nRegScript == %s\n====\n' % (base, script)
        ov = dict(th.get('overrides', {}))
        ov.update({'GenDepth': str(len(r['actions'])), 'Script': '<- RegScript', 'GenForkLen': '3', 'GenForkDepth': '9', 'GenPending': 'TRUE'})
        t = vlib.tlc(th['cfg'], 'MC_Reg.tla', scratch, overrides=ov, extra_files={'MC_Reg.tla': mod}, workers=2, timeout=300)
        vlib.require_clean(t, 'regression script %s' % os.path.basename(p))
        if len(t['histories']) != 1:
            raise Infra('regression script %s: the specification admits %d behaviours for it (expected 1)\n%s' % (os.path.basename(p), len(t['histories']), t['log'][-1500:]))
        uni = dict(t['universe'])
        uni.update(th.get('universe_extra', {}))
        out.append(dict(u=uni, h=json.loads(t['histories'][0]), mode=r.get('mode', ''), opt=r.get('opt', {}),
                        src='regress/' + os.path.basename(p)))
    return out


# what the judged traces contained (event kind -> lines), for the evidence: a trace spec whose actions were never exercised proves nothing
TRACE_EVENTS = {}


def judge_traces(scratch, jobs, results):
    """code -> spec: the lines recorded by mode 'trace' replays are judged by TLC against spec/WalletTrace.tla
    (same universe module and constants as the generator that produced the history).  A trace that TLC cannot
    consume to its end turns the result into a failure of kind 'trace-rejected'.  Returns (judged, rejected, tlc states)."""
    import concurrent.futures, re
    todo = [i for i, (j, r) in enumerate(zip(jobs, results)) if j.get('mode') in ('trace', 'trace-q', 'trace-f') and r and r.get('lines')]
    cfgs = {}

    def one(i):
        j, r = jobs[i], results[i]
        tj = j['trace']
        key = (tj['cfg'], tj['pend'])
        text = '\n'.join(json.dumps(l) for l in r['lines']) + '\n'
        mod = '---- MODULE TR ----\nEXTENDS %s, WalletTrace\n====\n' % tj['module'][:-4]
        t = vlib.tlc(cfgs[key], 'TR.tla', scratch, overrides=tj['overrides'], workers=1, timeout=900,
                     extra_files={'TR.tla': mod, 'trace.ndjson': text})
        m = re.search(r'"MAXL", (\d+), (\d+)', t['log'])
        acc = bool(t['violated'] and 'NotAccepted' in t['violated'])
        return i, acc, (int(m.group(1)) if m else None), t
    for i in todo:
        tj = jobs[i]['trace']
        key = (tj['cfg'], tj['pend'])
        if key not in cfgs:
            cfgs[key] = vlib.trace_cfg(tj['cfg'], scratch, tj['pend'])
    judged = rejected = states = 0
    with concurrent.futures.ThreadPoolExecutor(max(2, vlib.NPROC - 2)) as ex:
        for i, acc, maxl, t in ex.map(one, todo):
            r = results[i]
            lines = r.pop('lines')
            r['trace_lines'] = len(lines)
            for ln in lines:
                k = ln.get('ev', '?') + (('/' + ln['role']) if ln.get('role') else '') + (('/' + ln['op']) if ln.get('op') and ln.get('op') != 'none' else '')
                TRACE_EVENTS[k] = TRACE_EVENTS.get(k, 0) + 1
            states += t.get('distinct') or 0
            if acc:
                judged += 1
                continue
            if maxl is None or t['rc'] == 124 or (t['error'] and not t['violated']):
                r.update(ok=False, infra=True, err='harness: trace judge failed: rc=%s %s' % (t['rc'], t['log'][-800:]))
                continue
            judged += 1
            rejected += 1
            ctx = [json.dumps(l) for l in lines[max(0, maxl - 5):maxl]]
            r['ok'] = False
            r['trace'] = lines
            r.setdefault('diffs', []).append(dict(kind='trace-rejected', wallet='', what='line %d of %d (%s)' % (maxl, len(lines), lines[maxl - 1].get('ev') if 0 < maxl <= len(lines) else '?'),
                                                  want='every recorded line is explained by a step of spec/WalletTrace.tla and every commit carries the state the specification computes',
                                                  got='longest explained prefix ends before this line; context: ' + ' | '.join(ctx)))
    for j, r in zip(jobs, results):
        if r:
            r.pop('lines', None)
    return judged, rejected, states


def trace_stage(scratch, items, seed_mul=29):
    """free-running replays recorded and judged by TLC (spec/WalletTrace.tla) for the plug-in checks.
    items: (gen cfg, module, universe extras, generator overrides, replay mode, number, depth).
    A rejected trace or a run that does not become quiescent is replayed once more alone; only what comes back
    keeps its failing result, the rest is marked inconclusive.  Returns (jobs, results, traces judged, TLC states)."""
    tjobs = []
    for cfg, mod, extra, ov, mode, n, depth in items:
        sp = SIM(n, depth, **ov)
        r = vlib.tlc(cfg, mod, scratch, overrides=sp['overrides'], simulate=dict(num=sp['simulate']['num'], depth=sp['simulate']['depth'], seed=vlib.seed() * seed_mul + len(tjobs)))
        vlib.require_clean(r, 'generator (traces) ' + cfg)
        u = dict(r['universe'])
        u.update(extra)
        for k, h in enumerate(x for x in (json.loads(y) for y in sorted(set(r['histories']))) if free_runnable(x)):
            tjobs.append(dict(u=u, h=h, mode=mode, opt=dict(seed=vlib.seed() * 13 + k), src=cfg + ' (' + mode + ')',
                              trace=dict(cfg=cfg, module=mod, overrides={a: b for a, b in sp['overrides'].items() if a not in ('GenDepth', 'GenRandom')},
                                         pend=ov.get('Lifecycle') != 'TRUE' or ov.get('Removable') == '{}')))
    tres = replay_jobs(scratch, tjobs)
    judged, rejected, tstates = judge_traces(scratch, tjobs, tres)
    bad = {'trace-rejected', 'free-not-quiescent', 'died', 'timeout'}
    again = [i for i, r in enumerate(tres) if r is None or (set(kinds_of(r)) & bad)]
    if again and len(again) <= 60:
        res2 = replay_jobs(scratch, [tjobs[i] for i in again])
        judge_traces(scratch, [tjobs[i] for i in again], res2)
        for i, r2 in zip(again, res2):
            if not (r2 and set(kinds_of(r2)) & bad):
                tres[i] = dict(tres[i] or {}, ok=False, infra=True, err='harness: failing free-running replay did not fail again when replayed alone')
            else:
                r2['index'] = i
                tres[i] = r2
    return tjobs, tres, judged, tstates


def kinds_of(res):
    if res is None:
        return ['infra']
    if res.get('ok'):
        return []
    if res.get('died'):
        return ['timeout' if res.get('timed_out') else 'died']
    if res.get('infra') or res.get('err', '').startswith('setup:') or res.get('err', '').startswith('harness:'):
        return ['infra']
    if res.get('diffs'):
        return sorted(set(d['kind'] for d in res['diffs']))
    return ['step-error']


def pending_blame(job):
    """tx ids whose presence in the pending set is explained by an announcement accepted
    'stale' or 'ahead' (see spec/Gen.tla AcceptedHow), transitively through pending parents."""
    how = {}
    for s in job['h']:
        if s['a'] == 'HandleTx' and s.get('acc'):
            how[s['t']] = s.get('why', 'ok')
    ins = job['u'].get('txins', {})
    blamed = {}

    def walk(t, seen):
        if t in blamed:
            return blamed[t]
        if t in seen:
            return None
        seen = seen | {t}
        r = how.get(t) if how.get(t) in ('stale', 'ahead') else None
        if r is None:
            for op in ins.get(t, []):
                r = walk(op[0], seen)
                if r:
                    break
        blamed[t] = r
        return r
    return lambda t: walk(t, frozenset())


def match_known(pid, job, res, known):
    """A known finding lists the property, the diff kinds it explains and a machine-checkable
    classifier of the failing history.  Every diff of the result must be explained by some listed
    finding; returns the entry explaining the first one, or None (=> a new violation)."""
    import re
    mine = [d for d in (res.get('diffs') or []) if d['kind'] in KINDS.get(pid, [])]
    ks = set(kinds_of(res)) & set(KINDS.get(pid, []))
    if not ks:
        return None
    cands = [k for k in known if k.get('property') == pid and k.get('status') == 'known'
             and ('mode' not in k.get('classifier', {}) or k['classifier']['mode'] == job.get('mode', ''))]
    if not mine:
        # no diffs (died / step-error ...): the kinds alone decide
        for k in cands:
            if ks <= set(k.get('kinds', [])) and not (set(k.get('classifier', {})) - {'mode'}):
                return k
        return None
    blame = None
    dead = None

    def explains(k, d):
        nonlocal blame, dead
        if d['kind'] not in k.get('kinds', []):
            return False
        cl = k.get('classifier', {})
        if 'pending_accepted_how' in cl:
            if blame is None:
                blame = pending_blame(job)
            if d['kind'] in ('utxo-sbu', 'deposit-sbu'):
                # a flag on a coin: explained when a transaction that spends this coin was accepted that way
                if not cl.get('coin_spent_by_blamed'):
                    return False
                try:
                    src, vout = d['what'].rsplit(':', 1)
                    vout = int(vout.split()[0])
                except ValueError:
                    return False
                spenders = [t for t, ins in job['u'].get('txins', {}).items() if any(op[0] == src and int(op[1]) == vout + 1 for op in ins)]
                if not any(blame(t) in cl['pending_accepted_how'] for t in spenders):
                    return False
            elif blame(d['what']) not in cl['pending_accepted_how']:
                return False
        if cl.get('stranger_dead'):
            if dead is None:
                step = res.get('step', -1)
                dead = set((job['h'][step].get('exp') or {}).get('sdead') or []) if 0 <= step < len(job['h']) else set()
            if d['what'] not in dead:
                return False
        if 'what_regex' in cl and not re.search(cl['what_regex'], d['what']):
            return False
        return True
    first = None
    for d in mine:
        k = next((k for k in cands if explains(k, d)), None)
        if k is None:
            return None
        first = first or k
    return first


def describe(h):
    if isinstance(h, dict):     # gap history
        h = h['steps']
    out = []
    for s in h:
        a = s['a']
        if a in ('Extend', 'Fork', 'MineSide'):
            out.append('%s(b%s on b%s %s)' % (a, s.get('b'), s.get('p'), s.get('txs')))
        elif a in ('HandleBlock', 'SwitchTo'):
            out.append('%s(b%s)' % (a, s.get('b')))
        elif a in ('Announce', 'HandleTx'):
            out.append('%s(%s)' % (a, s.get('t')))
        else:
            out.append('%s(%s)' % (a, ','.join('%s=%s' % (k, v) for k, v in s.items() if k not in ('a', 'exp'))))
    return ' '.join(out)


def follower_check(pid, tier, scratch, replay, plan):
    """plan: dict(mc=[(cfg, module, overrides)], gens=[dict(cfg, module, quick=..., thorough=...)], level, notes)"""
    t0 = time.time()
    rnd = random.Random(vlib.seed())
    known = vlib.load_known()
    own = set(KINDS[pid])
    if replay:
        r = json.load(open(replay))
        jobs = [dict(u=r['universe'], h=r['history'], mode=r.get('mode', ''), opt=r.get('opt', {}), src=replay)]
        res = replay_jobs(scratch, jobs)
        print(json.dumps(res[0], indent=1))
        bad = set(kinds_of(res[0])) & own
        return 1 if bad else 0
    # 1. the model: exhaustive TLC runs
    states = transitions = 0
    mc_runs = []
    for (cfg, module, ov) in plan.get('mc', {}).get(tier, plan.get('mc', {}).get('quick', [])):
        r = vlib.tlc(cfg, module, scratch, overrides=ov, timeout=plan.get('mc_timeout', 3000))
        vlib.require_clean(r, 'model %s' % cfg)
        states += r.get('distinct', 0)
        transitions += r.get('generated', 0)
        mc_runs.append(dict(cfg=cfg, overrides=ov, distinct=r.get('distinct'), generated=r.get('generated'), wall_s=round(r['wall'], 1)))
    # 2. behaviours
    jobs = regress_jobs(pid, scratch)
    n_regress = len(jobs)
    gen_runs = []
    for g in plan['gens']:
        for spec in g[tier]:
            ov = dict(spec.get('overrides', {}))
            sim = None
            if 'simulate' in spec:
                sim = dict(num=spec['simulate']['num'], depth=spec['simulate']['depth'], seed=vlib.seed() * 7919 + len(gen_runs))
            r = vlib.tlc(g['cfg'], g['module'], scratch, overrides=ov, simulate=sim, timeout=spec.get('timeout', 3000))
            vlib.require_clean(r, 'generator %s' % g['cfg'])
            if r['universe'] is None:
                raise Infra('generator %s printed no universe' % g['cfg'])
            hs = sorted(set(r['histories']))
            if g.get('filter'):
                hs = [h for h in hs if g['filter'](json.loads(h))]
            take = vlib.sample(hs, spec.get('sample', len(hs)), rnd)
            uni = dict(r['universe'])
            uni.update(g.get('universe_extra', {}))
            for h in take:
                if g.get('mode') in ('trace', 'trace-q', 'trace-f'):
                    tr = dict(cfg=g['cfg'], module=g['module'], overrides={k: v for k, v in ov.items() if k not in ('GenDepth', 'GenRandom')},
                              pend=g.get('trace_pend', ov.get('Lifecycle') != 'TRUE'))
                # the inputs of a model transaction are a set: every other replay lists them in reverse order
                jobs.append(dict(u=dict(uni, revins=(len(jobs) % 2 == 1)), h=json.loads(h), mode=g.get('mode', ''), trace=tr if g.get('mode') in ('trace', 'trace-q', 'trace-f') else None, opt=dict(g.get('opt', {}), seed=vlib.seed() * 7 + len(jobs)), src=g['cfg'] + (' (free)' if g.get('mode') == 'free' else ''),
                                 ignore=PENDING_KINDS if ov.get('Lifecycle') == 'TRUE' else []))
            if not sim:
                states += r.get('distinct', 0)
                transitions += r.get('generated', 0)
            gen_runs.append(dict(cfg=g['cfg'], overrides=ov, simulate=sim, histories=len(hs), replayed=len(take),
                                 exhaustive_enumeration=(sim is None), wall_s=round(r['wall'], 1)))
    for stage in plan.get('stages', []):
        sj, smc, sgen, sst, str_ = stage(tier, scratch, rnd)
        n_regress += sum(1 for j in sj if j['src'].startswith('regress/'))
        jobs += sj
        mc_runs += smc
        gen_runs += sgen
        states += sst
        transitions += str_
    if not jobs:
        raise Infra('no behaviours generated')
    # 3. conformance: replay into the real code
    results = replay_jobs(scratch, jobs)
    tj, trej, tst = judge_traces(scratch, jobs, results)
    # a verdict needs reproducible behaviour: anything that died or timed out is re-run alone
    # ... and so is anything whose verdict rests on a time limit (a loaded machine must not raise an alarm)
    TIMED = {'free-not-quiescent', 'timeout', 'trace-rejected'}
    redo = [i for i, r in enumerate(results) if r is None or r.get('died') or r.get('infra') or (set(kinds_of(r)) & TIMED)]
    flaky = 0
    if redo and len(redo) <= 40:
        again = replay_jobs(scratch, [jobs[i] for i in redo])
        a2, r2, s2 = judge_traces(scratch, [jobs[i] for i in redo], again)
        tj, tst = tj + a2, tst + s2
        for i, r in zip(redo, again):
            if r is not None and 'trace-rejected' in kinds_of(results[i]) and 'trace-rejected' not in kinds_of(r) and not r.get('died'):
                # a rejection that does not come back on the same history (the schedule is the Go runtime's): no verdict
                note = vlib.save_replay(pid, 'note-%s-%s' % (tier, vlib.short_hash(json.dumps(jobs[i]['h']))),
                                        dict(property=pid, note='trace rejected once, accepted when the same history was replayed again (no verdict)',
                                             universe=jobs[i]['u'], history=jobs[i]['h'], mode='trace', result=results[i]))
                results[i] = dict(results[i], infra=True, err='harness: trace rejected once, accepted when re-run (kept in %s): ' % note + json.dumps(results[i].get('diffs'))[:1500])
                continue
            if r is not None and not r.get('died'):
                flaky += 1 if r.get('ok') or not (set(kinds_of(r)) & TIMED) else 0
                r['index'] = i
                results[i] = r
    compared = sum((r or {}).get('compared', 0) for r in results)
    violations, known_hits, infra, other = [], {}, [], 0
    sigs = {}
    for job, res in zip(jobs, results):
        ks = set(kinds_of(res))
        if 'infra' in ks:
            infra.append((job, res))
            continue
        mine = (ks & own) - set(job.get('ignore', []))
        if ks - own:
            other += 1
        if not mine:
            continue
        k = match_known(pid, job, res, known)
        if k:
            known_hits.setdefault(k['id'], []).append((job, res))
            continue
        violations.append((job, res))
    if len(infra) > max(2, len(jobs) // 20):
        raise Infra('%d of %d replays failed for infrastructure reasons, e.g. %s' % (len(infra), len(jobs), (infra[0][1] or {}).get('err')))
    for job, res in infra[:4]:
        print('note: no verdict for one behaviour (%s): %s' % (job['src'], ((res or {}).get('err') or 'no result')[:700]))
    # 4. report
    distinct_acts = len(set(describe(j.get('desc', j['h'])) for j in jobs))
    samples = [dict(source=j['src'], history=describe(j.get('desc', j['h'])), quiescent_points_compared=(r or {}).get('compared'))
               for j, r in list(zip(jobs, results))[:3]]
    for kid, hits in known_hits.items():
        k = next(x for x in known if x['id'] == kid)
        print('KNOWN-FINDING: property=%s %s (%d behaviours; e.g. %s)' % (pid, k['summary'], len(hits), describe(hits[0][0].get('desc', hits[0][0]['h']))))
    paths = []
    seen = set()
    for job, res in violations:
        sig = ','.join(sorted((set(kinds_of(res)) & own) - set(job.get('ignore', []))))
        if sig in seen and len(paths) >= 3:
            continue
        seen.add(sig)
        p = vlib.save_replay(pid, '%s-%s' % (tier, vlib.short_hash(json.dumps(job['h']))),
                             dict(property=pid, universe=job['u'], history=job['h'], mode=job.get('mode', ''), opt=job.get('opt', {}),
                                  source=job['src'], result=res, how='bin/check %s %s --replay <this file>' % (pid, tier)))
        paths.append(p)
        print('VIOLATION property=%s replay=%s' % (pid, p))
        print('  kinds: %s' % sig)
        print('  history: %s' % describe(job.get('desc', job['h'])))
        for d in (res.get('diffs') or [])[:6]:
            print('  diff: %s %s %s want=%s got=%s' % (d['kind'], d.get('wallet', ''), d['what'], d['want'], d['got']))
        if res.get('err'):
            print('  err: %s' % res['err'])
    cov = dict(states=max(states, 1), transitions=max(transitions, 1), traces_validated_against_impl=len(jobs) - len(infra),
               samples=samples, quiescent_points_compared=compared, distinct_histories=distinct_acts,
               regression_histories=n_regress, model_runs=mc_runs, generator_runs=gen_runs,
               free_running_traces_judged_by_tlc=tj, trace_judge_states=tst, trace_lines_by_event=dict(sorted(TRACE_EVENTS.items())),
               trace_spec='spec/WalletTrace.tla: every chain action, scheduling point and database commit of a free-running replay is consumed by TLC; each commit line carries synced chain, status records, rescan cursors, mined balances and pending set read through the committing transaction',
               replays_failed_for_infrastructure=len(infra), died_once_but_not_when_rerun_alone=flaky, behaviours_with_only_other_properties_diffs=other,
               known_finding_hits={k: len(v) for k, v in known_hits.items()},
               decided_diff_kinds=sorted(own), exhaustive=False,
               rule='behaviours = every history (exhaustive generator runs) or seeded random histories (simulate runs) of spec/Gen.tla over the listed universes; each is stepped through the real follower goroutine and at every quiescent point the wallet API is compared with the view computed by the specification')
    vlib.write_evidence(pid, tier, plan.get('level', 'model_checking'), cov, time.time() - t0, len(violations), ASSUME_ENV + plan.get('assume', []))
    print('%s %s: %d behaviours replayed (%d regression), %d quiescent comparisons, %d model states, violations=%d known=%d infra=%d wall=%.0fs'
          % (pid, tier, len(jobs), n_regress, compared, states, len(violations), sum(len(v) for v in known_hits.values()), len(infra), time.time() - t0))
    return 1 if violations else 0


# ------------------------------------------------------------------ plans
def gen(cfg, module, quick, thorough, **kw):
    d = dict(cfg=cfg, module=module, quick=quick, thorough=thorough)
    d.update(kw)
    return d


SIM = lambda num, depth, **ov: dict(simulate=dict(num=num, depth=depth + 1), overrides=dict({'GenDepth': str(depth), 'GenRandom': 'TRUE'}, **ov))
EXH = lambda depth, sample, **ov: dict(overrides=dict({'GenDepth': str(depth)}, **ov), sample=sample)

STAKE_X = {'minfrozen': 1}
NBIND_X = {'minfrozen': 1, 'warmup': 1}
P = {'GenPending': 'TRUE'}
# reorganisations at the grain of the chain database (single disconnects / connects that handler steps interleave with)
MS = {'GenMulti': 'TRUE', 'MultiStep': 'TRUE'}
MSMC = {'MultiStep': 'TRUE'}

PLAN_C01 = dict(
    mc=dict(quick=[('MC_Sync.cfg', 'MC_Sync.tla', {'MaxBlocks': '6'}), ('MC_Sync.cfg', 'MC_Sync.tla', dict(MSMC, MaxBlocks='6'))],
            thorough=[('MC_Sync.cfg', 'MC_Sync.tla', {'MaxBlocks': '8'}), ('MC_Sync.cfg', 'MC_Sync.tla', dict(MSMC, MaxBlocks='7')),
                      ('MC_Ledger.cfg', 'MC_Ledger.tla', {'MaxBlocks': '6'}), ('MC_Ledger.cfg', 'MC_Ledger.tla', dict(MSMC, MaxBlocks='6'))]),
    gens=[gen('Gen_Pay.cfg', 'MC_Pay.tla',
              quick=[SIM(120, 12), SIM(60, 14, **P), SIM(60, 16, **MS)],
              thorough=[EXH(6, 4000), SIM(1500, 14), SIM(1500, 16, **P), SIM(1500, 18, **MS), SIM(800, 18, **dict(MS, **P))]),
          gen('Gen_Stake.cfg', 'MC_Stake.tla', universe_extra=STAKE_X,
              quick=[SIM(60, 14), SIM(30, 16, **MS)],
              thorough=[SIM(1000, 16), SIM(500, 16, **P), SIM(800, 18, **MS)]),
          gen('Gen_NBind.cfg', 'MC_NBind.tla', universe_extra=NBIND_X,
              quick=[SIM(40, 12)],
              thorough=[SIM(600, 14)]),
          gen('Gen_In.cfg', 'MC_In.tla',
              quick=[SIM(50, 14), SIM(25, 16, **MS)],
              thorough=[EXH(6, 3000), SIM(1200, 16), SIM(600, 18, **MS)]),
          # steered: a block holding a transaction with several inputs (owners mixed in theme "incoming") is disconnected
          gen('Gen_In.cfg', 'MC_In.tla',
              quick=[dict(SIM(300, 14, GenWant='"rb-multi"'), sample=25)],
              thorough=[dict(SIM(6000, 16, GenWant='"rb-multi"'), sample=400)]),
          gen('Gen_Pay.cfg', 'MC_Pay.tla',
              quick=[dict(SIM(200, 14, GenWant='"rb-multi"'), sample=15)],
              thorough=[dict(SIM(5000, 16, GenWant='"rb-multi"'), sample=300)]),
          # follower running freely: block steps overlap further chain changes, also in the middle of a step
          gen('Gen_Pay.cfg', 'MC_Pay.tla', mode='free',
              quick=[SIM(15, 16, **MS)],
              thorough=[SIM(750, 18, **MS), SIM(500, 18)]),
          # ... and with every chain action, scheduling point and commit recorded and judged by TLC (spec/WalletTrace.tla)
          gen('Gen_Pay.cfg', 'MC_Pay.tla', mode='trace',
              quick=[SIM(40, 16, **dict(MS, **P))],
              thorough=[SIM(600, 18, **dict(MS, **P)), SIM(400, 18, **P)]),
          gen('Gen_In.cfg', 'MC_In.tla', mode='trace',
              quick=[SIM(25, 16, **P)],
              thorough=[SIM(400, 18, **P)]),
          gen('Gen_Stake.cfg', 'MC_Stake.tla', universe_extra=STAKE_X, mode='free',
              quick=[SIM(30, 16)],
              thorough=[SIM(500, 18, **MS)])],
)

PLAN_C09 = dict(
    mc=dict(quick=[('MC_Ledger.cfg', 'MC_Ledger.tla', {'MaxBlocks': '5'})],
            thorough=[('MC_Ledger.cfg', 'MC_Ledger.tla', {'MaxBlocks': '6', 'MaxQ': '3'})]),
    gens=[gen('Gen_Pay.cfg', 'MC_Pay.tla',
              quick=[SIM(160, 14, **P)],
              thorough=[EXH(6, 3000, **P), SIM(2500, 16, **P)]),
          gen('Gen_Stake.cfg', 'MC_Stake.tla', universe_extra=STAKE_X,
              quick=[SIM(80, 14, **P)],
              thorough=[SIM(1500, 16, **P)]),
          gen('Gen_NBind.cfg', 'MC_NBind.tla', universe_extra=NBIND_X,
              quick=[SIM(40, 12, **P)],
              thorough=[SIM(600, 14, **P)]),
          gen('Gen_In.cfg', 'MC_In.tla',
              quick=[SIM(80, 14, **P)],
              thorough=[EXH(6, 3000, **P), SIM(2000, 16, **P)]),
          # free-running follower, every commit's pending set judged by TLC against the interleaving that really happened
          gen('Gen_Pay.cfg', 'MC_Pay.tla', mode='trace',
              quick=[SIM(40, 16, **P)],
              thorough=[SIM(750, 18, **P)]),
          gen('Gen_Stake.cfg', 'MC_Stake.tla', universe_extra=STAKE_X, mode='trace',
              quick=[SIM(30, 16, **P)],
              thorough=[SIM(500, 18, **dict(MS, **P))])],
    assume=['theme "incoming" has stranger-owned inputs: a conflict on a stranger\'s coin is invisible to the follower (K-C09-2); the model transcribes the code\'s purge rule and the ideal (Settle) is compared separately'],
)

PLAN_C10 = dict(
    mc=dict(quick=[('MC_Ledger.cfg', 'MC_Ledger.tla', {'MaxBlocks': '5'})],
            thorough=[('MC_Ledger.cfg', 'MC_Ledger.tla', {'MaxBlocks': '6'})]),
    gens=[gen('Gen_Stake.cfg', 'MC_Stake.tla', universe_extra=STAKE_X,
              quick=[SIM(120, 16), SIM(60, 16, **P), SIM(40, 18, **MS)],
              thorough=[EXH(6, 3000), SIM(2500, 18), SIM(1000, 18, **P), SIM(1000, 20, **MS)]),
          gen('Gen_NBind.cfg', 'MC_NBind.tla', universe_extra=NBIND_X,
              quick=[SIM(60, 12), SIM(30, 12, **P)],
              thorough=[SIM(1000, 14), SIM(500, 14, **P)]),
          gen('Gen_Stake.cfg', 'MC_Stake.tla', universe_extra=STAKE_X, mode='trace',
              quick=[SIM(30, 16, **MS)],
              thorough=[SIM(500, 18, **MS)])],
    assume=['withdrawals of new-style bindings are never mined: the pinned mass-core AddrIndexer cannot attach such a block (Amount.AddInt underflow); they occur as unconfirmed transactions only'],
)


def no_crash(h):
    return not any(s['a'] in ('Crash', 'Restart', 'RestartCrash', 'RemoveStepCrash') for s in h)


def free_runnable(h):
    """free-running replays wait for a background task only where a later API call on the same wallet needs it
    done; such a wait cannot end while a step-by-step reorganisation that the history completes later is in
    progress (a rescan does not pass heights on which node and wallet differ): those histories are left to the
    gated replay"""
    if not no_crash(h):
        return False
    inprog = False
    for i, s in enumerate(h):
        if s['a'] == 'ForkSlow':
            inprog = True
        elif s['a'] == 'ReorgStep' and s.get('done'):
            inprog = False
        elif inprog and s['a'] in ('ImportStep', 'RemoveStep', 'RemoveStepB'):
            if any(t['a'] in ('Import', 'Remove') and t.get('w') == s.get('w') for t in h[i + 1:]):
                return False
    return True


def one_task_at_a_time(h):
    """offset worlds run the unscaled rescan batches below the modelled chain silently right after the
    Import call, which is only possible while no other background task is queued"""
    pending = 0
    for s in h:
        if s['a'] in ('Import', 'Remove'):
            if pending:
                return False
            pending += 1
        elif s['a'] == 'ImportStep' and s.get('done'):
            pending -= 1
        elif s['a'] == 'RemoveStep':
            pending -= 1
    return True


# a chain of 2005 stranger-only blocks below the modelled part: Start's fast-forward (no ready wallet, more than
# 2000 blocks behind), catch-up over thousands of blocks, rescans in the code's own 1000-height batches
OFFSET = {'offset': 2005}


def plan_check(plan):
    return lambda pid, tier, scratch, replay: follower_check(pid, tier, scratch, replay, plan)


PROPS = {'C01': plan_check(PLAN_C01), 'C09': plan_check(PLAN_C09), 'C10': plan_check(PLAN_C10)}

KINDS['C06'] = ['quiescent-not-on-best', 'synced-height', 'total-balance', 'utxo-missing', 'utxo-extra', 'utxo-differs', 'utxo-duplicate',
                'balance-total', 'balance-spendable', 'balance-wstaking', 'balance-wbinding', 'deposit-missing', 'deposit-extra', 'deposit-differs',
                'address-not-listed', 'address-used', 'pending-set-missing', 'pending-set-extra', 'pending-unreadable', 'utxo-sbu',
                'use-wallet', 'api-error', 'died', 'timeout', 'step-error']
CR = {'Crashes': 'TRUE'}
PLAN_C06 = dict(
    level='model_checking',
    mc=dict(quick=[('MC_Crash.cfg', 'MC_Sync.tla', {'MaxBlocks': '5'}), ('MC_Crash.cfg', 'MC_Sync.tla', dict(MSMC, MaxBlocks='5'))],
            thorough=[('MC_Crash.cfg', 'MC_Sync.tla', {'MaxBlocks': '6'}), ('MC_Crash.cfg', 'MC_Sync.tla', dict(MSMC, MaxBlocks='6'))]),
    gens=[gen('Gen_Pay.cfg', 'MC_Pay.tla',
              quick=[SIM(140, 14, **CR), SIM(60, 14, **dict(CR, **P)), SIM(60, 16, **dict(CR, **MS))],
              thorough=[EXH(6, 3000, **CR), SIM(2000, 16, **CR), SIM(1000, 16, **dict(CR, **P)), SIM(1500, 18, **dict(CR, **MS))]),
          gen('Gen_Stake.cfg', 'MC_Stake.tla', universe_extra=STAKE_X,
              quick=[SIM(60, 14, **CR)],
              thorough=[SIM(1000, 16, **dict(CR, **P))])],
    assume=['a crash is a process crash: the wallet database directory is copied as the OS sees it right after the last commit (LevelDB writes are handed to the OS at commit, not fsynced); power loss is outside the statement',
            'every handler step is one database commit, so a Crash action between any two actions of a history is a crash at every commit boundary; RestartCrash(k) places a crash after the k-th commit of the catch-up'],
)
def crash_traceable(h):
    return not any(s['a'] == 'RemoveStepCrash' for s in h)


# code -> spec with crashes: the database of the free-running instance is frozen at an arbitrary instant (also in the middle of
# a step), Start's catch-up commits are recorded one by one (spec/WalletTrace.tla EvCrash / EvRestartCommit / EvRestarted)
PLAN_C06['gens'].append(gen('Gen_Pay.cfg', 'MC_Pay.tla', mode='trace', filter=crash_traceable,
                            quick=[SIM(50, 16, **dict(CR, **P))],
                            thorough=[SIM(750, 18, **dict(CR, **P)), SIM(400, 18, **dict(CR, **MS))]))
PLAN_C06['gens'].append(gen('Gen_Stake.cfg', 'MC_Stake.tla', universe_extra=STAKE_X, mode='trace', filter=crash_traceable,
                            quick=[SIM(30, 16, **CR)],
                            thorough=[SIM(500, 18, **dict(CR, **P))]))
KINDS['C06'] += ['trace-rejected', 'free-not-quiescent']
PROPS['C06'] = plan_check(PLAN_C06)



LEDGER_KINDS = ['coin-not-buildable', 'synced-height', 'total-balance', 'utxo-missing', 'utxo-extra', 'utxo-differs', 'utxo-duplicate',
                'balance-total', 'balance-spendable', 'balance-wstaking', 'balance-wbinding',
                'address-balance-missing', 'address-balance-extra', 'address-balance-differs',
                'deposit-missing', 'deposit-extra', 'deposit-differs', 'use-wallet', 'api-error', 'died', 'timeout', 'step-error']
KINDS['C07'] = LEDGER_KINDS + ['wallet-status', 'unready-wallet-selectable', 'importing-wallet-removable', 'quiescent-not-on-best', 'free-not-quiescent', 'trace-rejected']
KINDS['C08'] = LEDGER_KINDS + ['wallet-status', 'unready-wallet-selectable', 'removed-residue', 'free-not-quiescent', 'trace-rejected']
LIFE = {'Lifecycle': 'TRUE', 'InitAbsent': '{"w2"}', 'Removable': '{"w1", "w2"}'}
IMPORT_ONLY = {'Lifecycle': 'TRUE', 'InitAbsent': '{"w2"}', 'Removable': '{}'}
REMOVE_ONLY = {'Lifecycle': 'TRUE', 'InitAbsent': '{}', 'Removable': '{"w1", "w2"}'}
PLAN_C07 = dict(
    mc=dict(quick=[('MC_Life.cfg', 'MC_Ledger.tla', {'MaxBlocks': '5'})],
            thorough=[('MC_Life.cfg', 'MC_Ledger.tla', {'MaxBlocks': '6'})]),
    gens=[gen('Gen_Pay.cfg', 'MC_Pay.tla',
              quick=[SIM(140, 14, **IMPORT_ONLY), SIM(60, 16, **LIFE)],
              thorough=[SIM(2000, 16, **IMPORT_ONLY), SIM(1000, 18, **LIFE), SIM(600, 16, **dict(IMPORT_ONLY, ImportBatch='1'))]),
          gen('Gen_Imp.cfg', 'MC_Imp.tla',
              quick=[SIM(150, 16, **IMPORT_ONLY), SIM(900, 18, **dict(IMPORT_ONLY, GenWant='"import-reorg"')), SIM(60, 18, **dict(IMPORT_ONLY, **MS))],
              thorough=[SIM(3000, 18, **IMPORT_ONLY), SIM(1500, 20, **dict(IMPORT_ONLY, Crashes='TRUE')), SIM(1500, 20, **dict(IMPORT_ONLY, **MS)),
                        SIM(12000, 18, **dict(IMPORT_ONLY, GenWant='"import-reorg"')),
                        SIM(6000, 20, **dict(IMPORT_ONLY, GenWant='"import-reorg"', ImportBatch='2'))]),
          gen('Gen_Stake.cfg', 'MC_Stake.tla', universe_extra=STAKE_X,
              quick=[SIM(40, 16, **IMPORT_ONLY), SIM(40, 16, **dict(IMPORT_ONLY, InitAbsent='{"w1"}'))],
              thorough=[SIM(1500, 18, **IMPORT_ONLY), SIM(1500, 18, **dict(IMPORT_ONLY, InitAbsent='{"w1"}')), SIM(800, 18, **dict(IMPORT_ONLY, InitAbsent='{"w1", "w2"}'))]),
          gen('Gen_Imp.cfg', 'MC_Imp.tla', mode='free',
              quick=[SIM(15, 16, **IMPORT_ONLY)],
              thorough=[SIM(750, 18, **IMPORT_ONLY)]),
          gen('Gen_Imp.cfg', 'MC_Imp.tla', mode='trace', filter=free_runnable,
              quick=[SIM(40, 18, **dict(IMPORT_ONLY, **MS))],
              thorough=[SIM(750, 18, **dict(IMPORT_ONLY, **MS)), SIM(400, 18, **dict(IMPORT_ONLY, ImportBatch='1'))]),
          gen('Gen_Imp.cfg', 'MC_Imp.tla', universe_extra=OFFSET, filter=one_task_at_a_time,
              quick=[dict(SIM(20, 14, **dict(IMPORT_ONLY, InitAbsent='{"w1", "w2"}')), sample=12), dict(SIM(12, 14, **IMPORT_ONLY), sample=8)],
              thorough=[dict(SIM(300, 16, **dict(IMPORT_ONLY, InitAbsent='{"w1", "w2"}')), sample=160), dict(SIM(150, 16, **IMPORT_ONLY), sample=80)])],
    assume=['offset worlds: 2005 stranger-only blocks lie below the modelled chain (abstract height h = concrete height 2005 + h), so that Start fast-forwards when no wallet is ready and rescans run the code\'s own 1000-height batches first; histories in which an import is requested while another background task is queued are not replayed there',
            'the rescan batch is shortened from 1000 heights to ImportBatch (2) by a verif-tagged hook so that multi-batch imports happen on short chains',
            'behaviours on which the model mispredicts whether a batch completed the import (rescan racing with an unprocessed reorganisation) give no verdict; they are counted under replays_failed_for_infrastructure'],
)
PLAN_C08 = dict(
    mc=dict(quick=[('MC_Life.cfg', 'MC_Ledger.tla', {'MaxBlocks': '5'})],
            thorough=[('MC_Life.cfg', 'MC_Ledger.tla', {'MaxBlocks': '6'})]),
    gens=[gen('Gen_Pay.cfg', 'MC_Pay.tla',
              quick=[SIM(120, 14, **REMOVE_ONLY), SIM(60, 16, **dict(LIFE, Crashes='TRUE'))],
              thorough=[SIM(2000, 16, **REMOVE_ONLY), SIM(1200, 18, **dict(LIFE, Crashes='TRUE'))]),
          gen('Gen_Stake.cfg', 'MC_Stake.tla', universe_extra=STAKE_X,
              quick=[SIM(80, 16, **REMOVE_ONLY), SIM(60, 16, **dict(REMOVE_ONLY, **MS))],
              thorough=[SIM(1500, 18, **dict(REMOVE_ONLY, Crashes='TRUE')), SIM(1500, 18, **dict(REMOVE_ONLY, **MS))]),
          gen('Gen_Pay.cfg', 'MC_Pay.tla',
              quick=[SIM(60, 16, **dict(REMOVE_ONLY, **MS))],
              thorough=[SIM(1500, 18, **dict(REMOVE_ONLY, **MS)), SIM(1000, 18, **dict(LIFE, Crashes='TRUE', **MS))]),
          gen('Gen_Pay.cfg', 'MC_Pay.tla', mode='free', filter=no_crash,
              quick=[SIM(15, 16, **LIFE)],
              thorough=[SIM(750, 18, **LIFE)]),
          gen('Gen_Stake.cfg', 'MC_Stake.tla', universe_extra=STAKE_X, mode='free', filter=no_crash,
              quick=[SIM(15, 16, **REMOVE_ONLY)],
              thorough=[SIM(750, 18, **LIFE)]),
          gen('Gen_Pay.cfg', 'MC_Pay.tla', mode='trace', filter=no_crash,
              quick=[SIM(40, 16, **LIFE)],
              thorough=[SIM(750, 18, **LIFE)]),
          gen('Gen_Stake.cfg', 'MC_Stake.tla', universe_extra=STAKE_X, mode='trace', filter=free_runnable,
              quick=[SIM(40, 16, **dict(REMOVE_ONLY, **MS))],
              thorough=[SIM(500, 18, **dict(LIFE, **MS))])],
    assume=['a removal deletes fewer than 20000 credits, i.e. it completes in one removal round after the first phase',
            'with MultiStep the removal is two model steps (RemoveStepA: phase 1, RemoveStepB: the round of phase 2) and block steps fall between them; mode "free": follower and worker run without step gates, only the final ledger is compared'],
)
PLAN_C07['stages'] = [lambda tier, scratch, rnd: gap_stage_c07(tier, scratch, rnd)]
KINDS['C07'] += ['restore-failed', 'restore-other-wallet', 'restore-foreign-address', 'restore-extra', 'restore-short', 'restore-used',
                 'restore-missed-funded', 'restore-coins']
PROPS['C07'] = plan_check(PLAN_C07)
PROPS['C08'] = plan_check(PLAN_C08)
# announcements racing with a wallet import (F-C09-2 was found here): without removals the model's pending set is exact
def import_race_history(h):
    """announcements racing with the import of w2, pending set compared at every commit: only transactions whose inputs all
    belong to wallets that exist from the start - a pending transaction that spends a coin of a wallet imported LATER was
    indexed when that coin was a stranger's, so a conflict on it stays invisible (the pattern of K-C09-2; the model's purge
    rule looks at the owners at purge time and is not exact there)"""
    return free_runnable(h) and not any(s['a'] == 'Announce' and s['t'] in ('p2', 'p4', 'p5') for s in h)


PLAN_C09['gens'].append(gen('Gen_Pay.cfg', 'MC_Pay.tla', mode='trace', trace_pend=True, filter=import_race_history,
                            quick=[SIM(60, 16, **dict(IMPORT_ONLY, **P))],
                            thorough=[SIM(750, 18, **dict(IMPORT_ONLY, **P))]))
# crashes during background import / removal belong to C06 as well
PLAN_C06['gens'][0]['quick'].append(SIM(60, 16, **dict(LIFE, Crashes='TRUE')))
PLAN_C06['gens'][0]['thorough'].append(SIM(1500, 18, **dict(LIFE, Crashes='TRUE')))
# steered: the process dies while a removal is queued or between its commits (RemoveStepCrash(k), Crash with a removal pending)
PLAN_C06['gens'].append(gen('Gen_Pay.cfg', 'MC_Pay.tla',
                            quick=[dict(SIM(300, 16, **dict(LIFE, Crashes='TRUE', GenWant='"rm-crash"')), sample=30)],
                            thorough=[dict(SIM(6000, 18, **dict(LIFE, Crashes='TRUE', GenWant='"rm-crash"')), sample=400)]))
KINDS['C06'] += ['wallet-status', 'removed-residue']   # a removal interrupted by a crash is completed after the restart: nothing of the wallet is left


# ---- C12, second sentence: spec/Gap.tla (issue rule, restore scan) ----
GAP_KINDS = ['issue-refused', 'issue-not-next-index', 'issue-beyond-gap', 'issue-error', 'restart-wallet-lost', 'address-unexpected',
             'restore-failed', 'restore-other-wallet', 'restore-foreign-address', 'restore-extra', 'restore-short', 'restore-used',
             'restore-missed-funded', 'restore-missed-funded-predicted', 'restore-coins', 'synced', 'api-error']
KINDS['C12'] = KINDS['C12'] + GAP_KINDS
GAP_TIERS = dict(
    quick=dict(mc=[{'G': '2', 'MaxIssue': '6', 'MaxBlocks': '5'}, {'G': '3', 'MaxIssue': '7', 'MaxBlocks': '4'}],
               gens=[dict(G='2', num=70, len=14), dict(G='3', num=50, len=16), dict(G='4', num=20, len=18, MaxIssue='9'), dict(G='2', num=6000, len=12, want='miss', sample=3),
                     dict(G='2', num=1500, len=12, want='edge', sample=8), dict(G='3', num=3000, len=14, want='edge', sample=8),
                     dict(G='2', num=4000, len=12, want='stale', sample=12), dict(G='3', num=6000, len=14, want='stale', sample=8)]),
    thorough=dict(mc=[{'G': '2', 'MaxIssue': '7', 'MaxBlocks': '6'}, {'G': '3', 'MaxIssue': '8', 'MaxBlocks': '5'}, {'G': '4', 'MaxIssue': '9', 'MaxBlocks': '4'}],
                  gens=[dict(G='2', num=900, len=16), dict(G='3', num=700, len=18), dict(G='4', num=400, len=20, MaxIssue='10'),
                        dict(G='5', num=200, len=24, MaxIssue='12', MaxBlocks='12'),
                        dict(G='2', num=30000, len=12, want='miss', sample=40),
                        dict(G='2', num=10000, len=14, want='edge', sample=80), dict(G='3', num=20000, len=16, want='edge', sample=80), dict(G='4', num=30000, len=18, want='edge', sample=60, MaxIssue='10'),
                        dict(G='2', num=30000, len=14, want='stale', sample=80), dict(G='3', num=40000, len=16, want='stale', sample=80)]),
)


def gap_stage(tier, scratch, rnd):
    """returns (jobs, model runs, generator runs, states, transitions)"""
    return gap_stage_for(GAP_TIERS[tier], scratch, rnd)


# C07, first clause: the restore of a mnemonic finds every address with history (issue rule / scan coupling of spec/Gap.tla),
# on fewer histories than C12 runs
GAP_TIERS_C07 = dict(
    quick=dict(mc=[], reorg_mc=False, regress=False,
               gens=[dict(G='2', num=40, len=14), dict(G='3', num=30, len=16), dict(G='4', num=15, len=18, MaxIssue='9'),
                     dict(G='2', num=1500, len=12, want='edge', sample=6), dict(G='3', num=3000, len=14, want='edge', sample=6)]),
    thorough=dict(mc=[], reorg_mc=False, regress=False,
                  gens=[dict(G='2', num=400, len=16), dict(G='3', num=300, len=18), dict(G='4', num=200, len=20, MaxIssue='10'),
                        dict(G='3', num=20000, len=16, want='edge', sample=60)]))


def gap_stage_c07(tier, scratch, rnd):
    return gap_stage_for(GAP_TIERS_C07[tier], scratch, rnd)


def gap_stage_for(T, scratch, rnd):
    jobs, mc_runs, gen_runs, states, transitions = [], [], [], 0, 0
    for ov in T['mc']:
        r = vlib.tlc('MC_Gap.cfg', 'Gap.tla', scratch, overrides=ov, timeout=3000)
        vlib.require_clean(r, 'model MC_Gap.cfg %s' % ov)
        states += r.get('distinct', 0)
        transitions += r.get('generated', 0)
        mc_runs.append(dict(cfg='MC_Gap.cfg', overrides=ov, distinct=r.get('distinct'), generated=r.get('generated'), wall_s=round(r['wall'], 1),
                            invariants='RestoreFindsFunded GapInv RestoreTight (the chain only grows)'))
    # with reorganisations the restore guarantee does not follow from the issue rule: the model must still show it
    # (this is the model-level statement of known finding K-C12-1; the conformance below shows the code does the same)
    if T.get('reorg_mc', True):
        r = vlib.tlc('MC_Gap_reorg.cfg', 'Gap.tla', scratch, timeout=1200)
        if not (r['violated'] and 'RestoreFindsFunded' in r['violated']):
            raise Infra('MC_Gap_reorg.cfg: expected RestoreFindsFunded to be violated once payments can be reorganised away, got %s\n%s' % (r['violated'], r['log'][-1500:]))
        mc_runs.append(dict(cfg='MC_Gap_reorg.cfg', expected_violation='RestoreFindsFunded', wall_s=round(r['wall'], 1)))

    def add(hist_text, src):
        h = json.loads(hist_text)
        jobs.append(dict(u={}, h=[], desc=h, mode='gap', opt={'gaphist': h}, src=src))
    for p in (sorted(glob.glob(os.path.join(vlib.ROOT, 'regress', '*.json'))) if T.get('regress', True) else []):
        rj = json.load(open(p))
        if rj.get('family') != 'gap':
            continue
        mod = '---- MODULE GapReg ----\nEXTENDS GapGen\nRegScript == %s\n====\n' % vlib.tla(rj['actions'])
        ov = dict(rj.get('overrides', {}))
        ov.update({'GenLen': str(len(rj['actions'])), 'Script': '<- RegScript', 'GenRandom': 'FALSE', 'MaxIssue': '10', 'MaxBlocks': '16', 'MaxReorg': '3',
                   'Hints': '{0, 1, 2, 3, 4, 5, 6, 7, 8}'})
        t = vlib.tlc('Gen_Gap.cfg', 'GapReg.tla', scratch, overrides=ov, extra_files={'GapReg.tla': mod}, workers=2, timeout=300)
        vlib.require_clean(t, 'regression script %s' % os.path.basename(p))
        hs = sorted(set(t['histories']))
        if len(hs) != 1:
            raise Infra('regression script %s: the specification admits %d behaviours for it (expected 1)\n%s' % (os.path.basename(p), len(hs), t['log'][-1500:]))
        add(hs[0], 'regress/' + os.path.basename(p))
    for k, g in enumerate(T['gens']):
        ov = {'G': g['G'], 'GenLen': str(g['len']), 'GenWant': '"%s"' % g.get('want', '')}
        for c in ('MaxIssue', 'MaxBlocks'):
            if c in g:
                ov[c] = g[c]
        sim = dict(num=g['num'], depth=g['len'], seed=vlib.seed() * 104729 + k)
        r = vlib.tlc('Gen_Gap.cfg', 'GapGen.tla', scratch, overrides=ov, simulate=sim, timeout=3000)
        vlib.require_clean(r, 'generator Gen_Gap.cfg %s' % ov)
        hs = sorted(set(r['histories']))
        take = vlib.sample(hs, g.get('sample', len(hs)), rnd)
        for h in take:
            add(h, 'Gen_Gap.cfg')
        gen_runs.append(dict(cfg='Gen_Gap.cfg', overrides=ov, simulate=sim, histories=len(hs), replayed=len(take), exhaustive_enumeration=False, wall_s=round(r['wall'], 1)))
    return jobs, mc_runs, gen_runs, states, transitions


PLAN_C12 = dict(
    stages=[gap_stage],
    mc=dict(quick=[('MC_Crash.cfg', 'MC_Sync.tla', {'MaxBlocks': '5'})],
            thorough=[('MC_Crash.cfg', 'MC_Sync.tla', {'MaxBlocks': '6'})]),
    gens=[gen('Gen_Pay.cfg', 'MC_Pay.tla',
              quick=[SIM(160, 14), SIM(80, 14, **CR)],
              thorough=[EXH(6, 3000), SIM(2500, 16), SIM(1500, 16, **CR)]),
          gen('Gen_Imp.cfg', 'MC_Imp.tla',
              quick=[SIM(80, 14)],
              thorough=[SIM(1500, 16)]),
          gen('Gen_Stake.cfg', 'MC_Stake.tla', universe_extra=STAKE_X,
              quick=[SIM(80, 14)],
              thorough=[SIM(1500, 16, **CR)])],
    assume=['first sentence (listed from then on, also after restart; used flag true exactly when the best chain contains a payment) is decided on the follower universes and again on the Gap histories, which issue addresses of both classes dynamically and compare every issued address with an independent derivation at its index',
            'second sentence: spec/Gap.tla transcribes the issue rule of nextAddresses and the scan of createManagerKeyScope; TLC shows RestoreFindsFunded while the chain only grows, and shows it violated once a reorganisation removes the payment that justified issuing further (K-C12-1); every Issue outcome and every restore result of the real code is compared with the model',
            'gap limits 2..5 (the rule is the same arithmetic for every limit; the default 20 is not run)',
            'GetAddresses also lists the standard form of a staking address that received funds (same key): accepted, it is not an address of another key'],
)
PROPS['C12'] = plan_check(PLAN_C12)


# ------------------------------------------------------------------ plug-in checks
# bin/p_<ID>.py (or p_<name>.py listing several ids in IDS) exposes check(pid, tier, scratch, replay) -> exit code
def _load_plugins():
    import importlib
    for f in sorted(glob.glob(os.path.join(os.path.dirname(os.path.abspath(__file__)), 'p_*.py'))):
        try:
            m = importlib.import_module(os.path.basename(f)[:-3])
        except Exception as e:  # a broken plug-in must not take the other checks down
            import sys
            print('warning: plug-in %s not loaded: %s' % (os.path.basename(f), e), file=sys.stderr)
            continue
        for pid in getattr(m, 'IDS', []):
            PROPS[pid] = m.check


_load_plugins()
