#!/bin/bash
# record_seed.sh <seed-name> <agent-outdir> <needs-to-manifest text> <check-id>... :
#  copy a sub-agent's delivery to seeded/<name>/, confirm it in a scratch worktree (verify_seed.sh), then run the named
#  quick checks with the change applied to /repo (run_seed.sh) and write meta.json.  /repo is clean again afterwards.
set -u
name=$1; out=$2; needs=$3; shift 3
sd=/verif/seeded/$name
mkdir -p $sd; cp $out/patch.diff $out/demo_test.go $out/notes.md $sd/ || exit 2
pkg=$(head -1 $sd/notes.md | sed 's/^pkgdir: *//; s/[` ]//g')
/verif/bin/verify_seed.sh $name $sd TestSeed $pkg > /dev/null
/verif/bin/run_seed.sh $name "$@" > $sd/run_checks.txt 2>&1
(cd /verif && git checkout -- evidence/)
python3 - "$name" "$needs" "$pkg" "$sd" <<'P'
import json,sys,re
name,needs,pkg,sd=sys.argv[1:5]
runs={}
for l in open(sd+'/run_checks.txt'):
    m=re.match(r'\S+ (\S+) rc=(\d+) (\d+) violation',l)
    if m: runs[m.group(1)]=["exit %s, %s VIOLATION lines"%(m.group(2),m.group(3))]
caught=[c for c,v in runs.items() if v[0].startswith('exit 1') and not v[0].endswith(' 0 VIOLATION lines')]
meta={"property":name.split('-')[0],
 "source":"independent sub-agent (round 6) given only the property text, the sites earlier seeded changes had used, and a scratch worktree",
 "needs_to_manifest":needs,
 "demo":"demo_test.go -> %s/ ; go test -vet=off -count=1 -run TestSeed"%pkg,
 "confirmed_by_me":{"what":"bin/verify_seed.sh in a scratch worktree of /repo HEAD: patch applies, module builds, demo passes without / fails with the change, ./masswallet/... ./cmd/... suites pass with the change","result":json.load(open(sd+'/verify.json'))},
 "caught_by":", ".join("bin/check %s quick"%c for c in caught) or "NONE (as the checks stood)",
 "checks_run_with_the_change_applied":runs}
json.dump(meta,open(sd+'/meta.json','w'),indent=1)
print(json.dumps(meta["confirmed_by_me"]["result"])); print(meta["caught_by"])
P
