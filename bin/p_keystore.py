"""C04 - wallet id and addresses are a function of the mnemonic; keys match addresses.
C05 - secrets are never stored or returned in clear; only the right passphrase unlocks.

spec/Keystore.tla states both properties over instances, wallets = (mnemonic, private passphrase)
with uninterpreted Id / Addr / Pub, outcome classes MUST-ACCEPT / MUST-REJECT(passphrase error) /
DON'T-CARE, and the rule that a refused operation changes nothing.

  model         spec/KeystoreGen.tla MCSpec (cfg/Keystore_MC.cfg): the statements on the design,
                exhaustive; cfg/Keystore_MC_asfound.cfg: the design as found (SignHash leaves the
                wallet unlocked) MUST violate GateOK - TLC finds sign, export, reveal-mnemonic.
  spec -> code  GenSpec enumerates every operation sequence of a theme up to a depth (hash-sampled
                1 in m inside the enumeration) and -simulate draws deep random ones;
                harness/cmd/keystore replays each on real WalletManager instances (own LevelDB
                directory and public passphrase each), expands every "wrong" candidate into
                concrete byte strings, and records per operation: outcome class, answers, what the
                instance lists before / after, commits, database digest, and the result of
                searching ALL raw database file bytes, the logical key/value content and every
                returned text for the wallet's secrets (raw / hex / base58 / base64).
  judgement     spec/KeystoreTrace.tla (cfg/Keystore_trace.cfg): TLC re-computes the reference
                state with Keystore!Eff and judges every recorded line; every failed clause is a
                DEVIATION tagged with its property (C04 / C05) and the known finding whose pattern
                (an operator of the trace specification) explains it.
One invocation serves one id: it reports only that id's deviations and writes only its evidence."""
import glob, json, os, random, re, shutil, subprocess, threading, time
from concurrent.futures import ThreadPoolExecutor
import vlib
from vlib import Infra

IDS = ['C04', 'C05']

# Deviation of the unchanged tree, reproduced and recorded (see /tmp/build/C04-report.md).  The pattern is
# the operator K1 of spec/KeystoreTrace.tla.  An entry with the same id in known_findings.jsonl takes
# precedence (status "fixed" there disables the pattern, so a recurrence is a VIOLATION).
PROPOSED_KNOWN = [
    {"id": "K-C05-1", "property": "C05", "status": "known",
     "kinds": ["cache-not-empty", "right-refused"],
     "classifier": {"tla": "KeystoreTrace!K1",
                    "rule": "tag cache-not-empty on an instance where, per Keystore!Eff with AsFound, a wallet signed with the right passphrase since the last restart and exactly those wallets show cached keys; or tag right-refused on getmn(right) answered with a non-passphrase error for a wallet whose passphrase was checked by export(right) while it was unlocked by such a sign (st.inst[i].mz); or tag right-refused answered with a passphrase error for such an unlocked wallet on which the empty candidate was tried since (st.inst[i].sz)"},
     "summary": "WalletManager.SignHash leaves the wallet unlocked (private keys and the derived master key stay cached; signWitnessTx clears them, SignHash does not); on an unlocked wallet a later ExportWallet with the right passphrase wipes the master key without locking, after which GetMnemonic with the right passphrase fails with 'unable to decrypt', and any attempt with the empty string wipes the salt of the unlocked-state passphrase hash (append aliases the salt array), after which the right passphrase is refused - both until the next restart",
     "example": "create(A,w1) newaddr(A,w1,std) sign(A,w1,right,0)->ok [1 key cached] export(A,w1,right)->ok getmn(A,w1,right)->'unable to decrypt' (want: mnemonic); sign(right) export(A,w1,'')->refused sign(A,w1,right)->'invalid passphrase' (want: signature)",
     "fix": "fixes/C05-1.diff (+ fixes/C05-3.diff for the two latent defects behind the consequences)"},
    {"id": "K-C05-2", "property": "C05", "status": "known",
     "kinds": ["wrong-accepted", "leak", "cache-not-empty", "right-refused", "refused-unlocked", "refused-altered", "wrong-error-class"],
     "classifier": {"tla": "KeystoreTrace!K2",
                    "rule": "candidate = the right private passphrase followed by one or more NUL bytes (trace field cc = 'nul'), or any C05 clause on an instance after such a candidate was accepted there; the replayer draws that class only in the scripted history P_Known2 while the finding is recorded"},
     "summary": "the right private passphrase followed by NUL bytes is accepted as the passphrase by every gated operation (scrypt's PBKDF2-HMAC-SHA256 zero-pads its key, so P and P||00.. derive the same master key): SignHash signs, GetMnemonic reveals the mnemonic, ExportWallet exports, RemoveWallet removes; reachable through the gRPC API, which checks only the length (6..40) of a passphrase",
     "example": "create(A,w1) newaddr(A,w1,std) sign(A,w1,right+'\\x00',0)->ok (want: passphrase error) getmn(A,w1,right+'\\x00')->mnemonic",
     "fix": "fixes/C05-2.diff"},
]

ASSUME = [
    "instances are real masswallet.WalletManager objects (started, over a real LevelDB wallet database wrapped by harness/dbwrap) on a node environment whose chain is never advanced: no address is ever used on chain, so the discovery rule of an import restores exactly the hinted / exported count (the gap-limit rule and discovery of used addresses are C12 / C07)",
    "scrypt cost is lowered to N=16 (keystore.DefaultScryptOptions); public-passphrase change goes through the verif-tagged accessor VerifKeystoreManager (WalletManager has no such method); the number of cached private keys is read through ManagedAddress.PrivKey()",
    "Id / Addr / Pub of a wallet are the repository's own derivation from the mnemonic the wallet was made from (keystore.NewSeed, hdkeychain m/44'/coin'/1'/0/i; mass-core MultiSigScript + witness script hash); that this derivation is BIP-39 / BIP-32 is C13 / C14",
    "secrets searched for: mnemonic (whole and every run of three consecutive words), entropy, seed, extended private keys and private scalars of master, purpose, coin type, account, both branches and the first 10 keys of each branch, every private and public passphrase in use - as is, lower/upper hex, base58, base64 - in all raw bytes of every file of the instance's database directory, in the logical key/value content read through the store (decompressed), and in every text / error the operation returned (the mnemonic returned by create and by reveal-mnemonic with the right passphrase excepted); process memory and log files are outside the statement",
    "entropy of wallets made by create is the implementation's own (crypto/rand): such histories are not bit-reproducible; wallets first made by mnemonic import use entropy drawn from VERIF_SEED (five sizes)",
    "the form (standard / staking) in which an import lists a restored address is not fixed by the statement (DON'T-CARE); the answer to an import of a wallet the instance already holds is DON'T-CARE as long as nothing changes",
    "ChangePrivPassphrase is dead code for the only keystore version (KeystoreVersionLatest == KeystoreVersion0) and is not driven; SignRawTx is C03's",
]

GEN_MODULE = 'KeystoreMC.tla'
TRACE_CFG = 'Keystore_trace.cfg'
OWN = {'C04', 'C05'}


# ------------------------------------------------------------------ helpers
def known_entries():
    entries = {e['id']: e for e in PROPOSED_KNOWN}
    for e in vlib.load_known():
        if e.get('property') in OWN and e.get('id'):
            entries[e['id']] = e
    for e in list(entries.values()):       # a "fixed" entry retires the known findings it names
        if e.get('status') == 'fixed':
            for r_ in e.get('retires', []):
                if r_ in entries:
                    entries[r_] = dict(entries[r_], status='fixed')
    # VERIF_KNOWN_OFF=K-C05-1,K-C05-2 treats the listed findings as repaired (used to try a repair, or a
    # mutation, against a tree other than the registered one: their patterns explain nothing then)
    off = set(x for x in os.environ.get('VERIF_KNOWN_OFF', '').split(',') if x)
    enabled = sorted(i for i, e in entries.items() if e.get('status') == 'known' and i not in off)
    return entries, enabled


def build(scratch):
    """Build harness/cmd/keystore against the tree under test (VERIF_REPO other than /repo: from a
    private copy of the harness module whose replace directive points there)."""
    if os.path.realpath(vlib.REPO) == os.path.realpath('/repo'):
        return vlib.build_go(scratch, './cmd/keystore', 'keystore')
    hdir = os.path.join(scratch.dir, 'harness')
    shutil.copytree(vlib.HARNESS, hdir)
    gm = open(os.path.join(hdir, 'go.mod')).read()
    gm, n = re.subn(r'(?m)^replace massnet\.org/mass-wallet => .*$', 'replace massnet.org/mass-wallet => %s' % vlib.REPO, gm)
    if n != 1:
        raise Infra('harness go.mod: replace directive not found')
    open(os.path.join(hdir, 'go.mod'), 'w').write(gm)
    try:
        shutil.copy(os.path.join(vlib.REPO, 'go.sum'), os.path.join(hdir, 'go.sum'))
    except OSError:
        pass
    out = os.path.join(scratch.dir, 'keystore')
    p = subprocess.run(['go', 'build', '-tags', 'verif', '-o', out, './cmd/keystore'], cwd=hdir, env=vlib.GOENV,
                       stdout=subprocess.PIPE, stderr=subprocess.STDOUT, text=True)
    if p.returncode != 0 or not os.path.exists(out):
        raise Infra('go build ./cmd/keystore against %s failed:\n%s' % (vlib.REPO, p.stdout[-3000:]))
    return out


def tlc_run(*a, **kw):
    """vlib.tlc with a retry: a sibling check's timeout handler kills every TLC on the machine."""
    for attempt in range(3):
        r = vlib.tlc(*a, **kw)
        if r['rc'] in (137, 143, -9, -15) and not r['violated']:
            time.sleep(2 + 3 * attempt)
            continue
        return r
    return r


def tagged(log, tag):
    pre = '<<"%s", "' % tag
    out = []
    for line in log.splitlines():
        if line.startswith(pre):
            out.append(json.loads(vlib.unescape(line[len(pre):-3])))
    return out


def describe_op(e):
    a = e['a']
    if a == 'create':
        return 'create(%s,%s,%dbit)' % (e['i'], e['w'], e['k'])
    if a == 'newaddr':
        return 'newaddr(%s,%s,%s)' % (e['i'], e['w'], e['c'])
    if a in ('export', 'getmn', 'remove'):
        return '%s(%s,%s,%s)' % (a, e['i'], e['w'], e.get('cc') or e['c'])
    if a == 'sign':
        return 'sign(%s,%s,#%d,%s)' % (e['i'], e['w'], e['k'], e.get('cc') or e['c'])
    if a == 'hold':
        return 'hold(%s,%s,#%d)' % (e['i'], e['w'], e['k'])
    if a == 'lock':
        return 'lock(%s)' % e['i']
    if a == 'impks':
        return 'impks(%s,%s,exported@%d,%s)' % (e['i'], e['w'], e['k'], e.get('cc') or e['c'])
    if a == 'impmn':
        return 'impmn(%s,%s,hint=%d)' % (e['i'], e['w'], e['k'])
    if a == 'restart':
        return 'restart(%s)' % e['i']
    if a == 'chpub':
        return 'chpub(%s,%s)' % (e['i'], e['c'])
    return a


def describe(h, limit=40):
    ops = [describe_op(e) for e in h]
    if len(ops) > limit:
        ops = ops[:limit // 2] + ['...(%d more)...' % (len(ops) - limit)] + ops[-limit // 2:]
    return ' '.join(ops)


# ------------------------------------------------------------------ plans
def EXH(theme, depth, sample=1, wrong=3, **ov):
    return dict(theme=theme, depth=depth, sample=sample, ov=ov, sim=None, wrong=wrong)


def SIM(theme, num, depth, wrong=3, **ov):
    return dict(theme=theme, depth=depth, sample=1, ov=ov, sim=num, wrong=wrong)


# measured on the unchanged tree (histories = behaviours emitted; TLC wall on a loaded 16-core box):
#   fn   depth 1: 39 states / 34 histories     depth 2: 1,271 / 1,232     depth 3: 48,493 / 47,222 (20-120 s)
#   gate depth 1: 40 / 34                      depth 2: 1,188 / 1,148     depth 3: 40,148 / 38,960 (20 s)
#   Keystore_MC.cfg (2 wallets over one mnemonic, MaxAddr 1): 3,844 distinct / 143,425 generated, 4 s
PLAN = {
    'quick': dict(
        gens=[EXH('fn', 2, sample=4), EXH('gate', 2, sample=4), EXH('fn', 3, sample=400), EXH('gate', 3, sample=400),
              EXH('hold', 2, sample=2), SIM('sim', 30, 16)],
        mc=[('Keystore_MC.cfg', {}, 'clean'), ('Keystore_MC_asfound.cfg', {}, 'Invariant GateOK is violated')]),
    'thorough': dict(
        # wrong=0: every class of wrong candidate at every "wrong" operation
        gens=[EXH('fn', 2), EXH('gate', 2, wrong=0), EXH('fn', 3, sample=40), EXH('gate', 3, sample=40, wrong=0),
              EXH('hold', 2, wrong=0), EXH('hold', 3, sample=10, wrong=4),
              SIM('sim', 200, 20, wrong=5), SIM('sim', 60, 30, wrong=5, MaxAddr='5')],
        mc=[('Keystore_MC.cfg', {'MaxAddr': '2'}, 'clean'), ('Keystore_MC.cfg', {}, 'clean'),
                     ('Keystore_MC_asfound.cfg', {}, 'Invariant GateOK is violated')]),
}


def run_gen(g, scratch, seed_):
    cfg = 'Keystore_gen_%s.cfg' % g['theme']
    ov = dict(g['ov'])
    ov['GenDepth'] = str(g['depth'])
    sim = None
    if g['sim']:
        ov['GenRandom'] = 'TRUE'
        sim = dict(num=g['sim'], depth=g['depth'] + 2, seed=seed_)
    else:
        ov['GSample'] = str(g['sample'])
        ov['GSeed'] = str(seed_ % max(1, g['sample']))
    r = tlc_run(cfg, GEN_MODULE, scratch, overrides=ov, simulate=sim, workers=4, timeout=2400)
    vlib.require_clean(r, 'generator %s %s' % (cfg, ov))
    if r['universe'] is None:
        raise Infra('generator %s printed no universe' % cfg)
    return r


# ------------------------------------------------------------------ running the real code
def run_replay(binary, jobs, scratch, tag):
    jf = os.path.join(scratch.dir, 'jobs-%s.jsonl' % tag)
    with open(jf, 'w') as f:
        for j in jobs:
            f.write(json.dumps(j) + '\n')
    tdir = scratch.sub('traces-' + tag)

    def args(a, b, sdir):
        return ['-jobs', jf, '-from', str(a), '-to', str(b), '-scratch', sdir,
                '-trace', os.path.join(tdir, 't-%06d-%s.ndjson' % (a, os.path.basename(sdir)))]
    res = vlib.run_children(binary, args, len(jobs), scratch, per_item_timeout=120)
    return res, sorted(glob.glob(os.path.join(tdir, '*.ndjson')))


# ------------------------------------------------------------------ judgement by TLC
def judge(files, enabled, scratch, workers=2, parallel=6):
    """KeystoreTrace over every trace file.  Returns (deviations, lines judged, tlc runs, states, transitions)."""
    kn = '{' + ', '.join('"%s"' % k for k in enabled) + '}'
    devs, tot = [], dict(lines=0, runs=0, states=0, transitions=0)
    lock = threading.Lock()

    def one(path):
        n = sum(1 for _ in open(path))
        if n == 0:
            return
        r = tlc_run(TRACE_CFG, 'KeystoreTrace.tla', scratch, overrides={'TraceFile': '"%s"' % path, 'KnownEnabled': kn},
                    workers=workers, timeout=2400)
        vlib.require_clean(r, 'trace judgement %s' % os.path.basename(path))
        if r.get('distinct') != n:
            raise Infra('trace judgement %s: %s of %d lines judged\n%s' % (os.path.basename(path), r.get('distinct'), n, r['log'][-1500:]))
        ds = tagged(r['log'], 'DEVIATION')
        for d in ds:
            d['file'] = path
        with lock:
            devs.extend(ds)
            tot['lines'] += n
            tot['runs'] += 1
            tot['states'] += r.get('distinct', 0)
            tot['transitions'] += r.get('generated', 0)
    with ThreadPoolExecutor(max_workers=parallel) as ex:
        for f in [ex.submit(one, p) for p in files]:
            f.result()
    return devs, tot


def split_files(files, scratch, max_lines=2500):
    """cut trace files at reset lines into pieces of about max_lines (a JVM start is ~1 s; a linear
    chain of states uses one TLC worker, many initial states use them all)"""
    out = []
    pdir = scratch.sub('pieces')
    k = 0
    for p in files:
        cur, n = [], 0
        for line in open(p):
            if line.startswith('{"t":"reset"') and n >= max_lines:
                q = os.path.join(pdir, 'p-%05d.ndjson' % k)
                open(q, 'w').write(''.join(cur))
                out.append(q)
                k += 1
                cur, n = [], 0
            cur.append(line)
            n += 1
        if cur:
            q = os.path.join(pdir, 'p-%05d.ndjson' % k)
            open(q, 'w').write(''.join(cur))
            out.append(q)
            k += 1
    return out


def trace_stats(files):
    st, traces, leaks_checked = {}, 0, 0
    for p in files:
        for line in open(p):
            if line.startswith('{"t":"reset"'):
                traces += 1
            elif line.startswith('{"t":"op"'):
                l = json.loads(line)
                k = '%s:%s->%s' % (l['a'], l['cc'] if l['cc'] not in ('-',) else l['c'], l['res'])
                st[k] = st.get(k, 0) + 1
                leaks_checked += 1
    return st, traces, leaks_checked


def trace_of(path, tid):
    out, on = [], False
    for line in open(path):
        if line.startswith('{"t":"reset"'):
            on = json.loads(line).get('id') == tid
        if on:
            out.append(json.loads(line))
    return out


# ------------------------------------------------------------------ binding demonstration (thorough)
def binding_demo(files, enabled, scratch):
    """Corrupt ONE recorded field of a conforming trace; TLC must reject exactly that line with the expected clause."""
    rnd = random.Random(vlib.seed())
    wants = [
        ('addr', 'C04', 'address-set', 'one listed address dropped from what the instance shows'),
        ('id', 'C04', 'wallet-id', 'one character of a listed wallet id changed'),
        ('sig', 'C04', 'key-mismatch', 'signature verification result of a successful sign flipped'),
        ('leak', 'C05', 'leak', 'one leak entry added (entropy found in a database file)'),
        ('accept', 'C05', 'wrong-accepted', 'outcome of a wrong-candidate attempt changed from passphrase error to ok'),
        ('commit', 'C05', 'refused-altered', 'a refused attempt recorded as having committed one write transaction'),
    ]
    demos = []
    for kind, prop, tag, what in wants:
        done = False
        for path in files:
            lines = open(path).read().splitlines()
            idx = list(range(len(lines)))
            rnd.shuffle(idx)
            for i in idx:
                l = json.loads(lines[i])
                if l.get('t') != 'op':
                    continue
                if kind == 'addr' and l['res'] == 'ok' and any(len(v['std']) > 0 for v in l['view']):
                    v = next(v for v in l['view'] if v['std'])
                    v['std'] = v['std'][1:]
                elif kind == 'id' and l['res'] == 'ok' and l['view']:
                    v = l['view'][0]
                    v['id'] = v['id'][:-1] + ('q' if v['id'][-1] != 'q' else 'p')
                elif kind == 'sig' and l['a'] == 'sign' and l['res'] == 'ok' and l['got']['sigok']:
                    l['got']['sigok'] = False
                elif kind == 'leak' and l['res'] == 'ok' and not l['leaks']:
                    l['leaks'] = ['file/000001.log:w1:entropy:raw']
                elif kind == 'accept' and l['res'] == 'pass' and l['c'] == 'wrong':
                    l['res'], l['err'] = 'ok', ''
                elif kind == 'commit' and l['res'] == 'pass' and l['c'] == 'wrong' and l['dbw'] == 0:
                    l['dbw'] = 1
                else:
                    continue
                start = max(j for j in range(i + 1) if lines[j].startswith('{"t":"reset"'))
                end = next((j for j in range(i + 1, len(lines)) if lines[j].startswith('{"t":"reset"')), len(lines))
                mut = lines[start:i] + [json.dumps(l, separators=(',', ':'))] + lines[i + 1:end]
                mp = os.path.join(scratch.dir, 'mutated-%s.ndjson' % kind)
                open(mp, 'w').write('\n'.join(mut) + '\n')
                devs, tot = judge([mp], enabled, scratch, workers=2, parallel=1)
                hit = [d for d in devs if d['rel'] == i - start + 1 and d['prop'] == prop and d['tag'] == tag and d['known'] == '']
                demos.append(dict(mutation=what, expected='%s %s' % (prop, tag), line=i - start + 1, lines=tot['lines'], rejected=bool(hit)))
                done = True
                break
            if done:
                break
        if not done:
            demos.append(dict(mutation='no line suitable for: ' + what, rejected=False))
    return demos


# ------------------------------------------------------------------ replay of a stored violation
def replay_one(pid, tier, scratch, replay, binary, enabled):
    obj = json.load(open(replay))
    j = obj['job']
    res, files = run_replay(binary, [j], scratch, 'replay')
    print(json.dumps(res[0], indent=1)[:3000])
    if not files:
        return 2
    devs, tot = judge(files, enabled, scratch, workers=2, parallel=1)
    for d in devs:
        print('deviation: line %d %s %s known=%s op=%s' % (d['line'], d['prop'], d['tag'], d['known'] or '-', describe_op(d['op']) if d['op'] else ''))
    return 1 if any(d['prop'] == pid and d['known'] == '' for d in devs) else 0


# ------------------------------------------------------------------ the check
def check(pid, tier, scratch, replay):
    t0 = time.time()
    os.environ.setdefault('JAVA_TOOL_OPTIONS', '-Xmx4g')
    seed_ = vlib.seed()
    rnd = random.Random(seed_)
    entries, enabled = known_entries()
    binary = build(scratch)
    if replay:
        return replay_one(pid, tier, scratch, replay, binary, enabled)
    plan = PLAN[tier if tier in PLAN else 'quick']

    # 1. the design-level model and the generators, concurrently
    gens = plan['gens']
    with ThreadPoolExecutor(max_workers=4) as ex:
        mfuts = [(cfg, ov, expect, ex.submit(tlc_run, cfg, GEN_MODULE, scratch, overrides=ov, workers=4, timeout=2400))
                 for (cfg, ov, expect) in plan['mc']]
        futs = [ex.submit(run_gen, g, scratch, seed_ * 7919 + i) for i, g in enumerate(gens)]
        kfut = ex.submit(run_gen, EXH('known', 0), scratch, 0)
        kfut2 = ex.submit(run_gen, EXH('known2', 0), scratch, 0)
        gruns = [f.result() for f in futs]
        kr, kr2 = kfut.result(), kfut2.result()
        mruns = [(cfg, ov, expect, f.result()) for (cfg, ov, expect, f) in mfuts]
    states = transitions = 0
    mc_runs = []
    for cfg, ov, expect, r in mruns:
        if expect == 'clean':
            vlib.require_clean(r, 'design model %s' % cfg)
            states += r.get('distinct', 0)
            transitions += r.get('generated', 0)
        elif r['rc'] == 124 or r['error'] or not r['violated'] or expect not in r['violated']:
            # the as-found design must violate the gate statement, otherwise the model says nothing about it
            raise Infra('design model %s: expected "%s", got %s\n%s' % (cfg, expect, r['violated'], r['log'][-1500:]))
        mc_runs.append(dict(cfg=cfg, overrides=ov, expected=expect, outcome=r['violated'] or 'no violation',
                            distinct=r.get('distinct'), generated=r.get('generated'), wall_s=round(r['wall'], 1)))
    jobs, gen_runs = [], []
    for i, (g, r) in enumerate(zip(gens, gruns)):
        tag = '%s-d%d-%d' % (g['theme'], g['depth'], i)
        hs = sorted(set(r['histories']))
        for k, h in enumerate(hs):
            jobs.append(dict(id='%s-%d' % (tag, k), u=r['universe'], h=json.loads(h), seed=seed_ * 1000003 + len(jobs), wrong=g['wrong'], src=tag))
        if not g['sim']:
            states += r.get('distinct', 0)
            transitions += r.get('generated', 0)
        gen_runs.append(dict(cfg='Keystore_gen_%s.cfg' % g['theme'], depth=g['depth'], overrides=g['ov'], exhaustive_enumeration=not g['sim'],
                             emitted_1_in=g['sample'], simulate=g['sim'], wrong_candidates_per_wrong_operation=g['wrong'] or 'all classes', states=r.get('distinct'), histories=len(hs), wall_s=round(r['wall'], 1)))
        if not hs:
            raise Infra('generator %s emitted no history' % tag)
    # while K-C05-2 is a recorded finding its candidate class is drawn only in its scripted history
    skip = ['nul'] if 'K-C05-2' in enabled else []
    for j in jobs:
        j['skip'] = skip
    # the scripted histories of the known findings are replayed on every run (stale detection); their
    # "wrong" candidates are pinned to the class the finding is about
    for kid, kres, cls in (('K-C05-1', kr, 'empty'), ('K-C05-2', kr2, 'nul')):
        for k, h in enumerate(sorted(set(kres['histories']))):
            hh = json.loads(h)
            for e in hh:
                if e['c'] == 'wrong':
                    e['cc'] = cls
            jobs.append(dict(id='known-%s-%d' % (kid, k), u=kres['universe'], h=hh, seed=seed_, wrong=1, src='known', demo=kid, skip=[]))
    for j in jobs:
        for e in j['h']:
            e.pop('want', None)
            e.pop('impl', None)
    rnd.shuffle(jobs)
    t_gen = time.time() - t0

    # 2. spec -> code: replay on real instances
    results, files = run_replay(binary, jobs, scratch, 'gen')
    redo = [i for i, r in enumerate(results) if r is None or r.get('died') or r.get('infra') or not r.get('ok')]
    died = []
    if redo:
        if len(redo) > max(3, len(jobs) // 50):
            bad = results[redo[0]]
            raise Infra('%d of %d replays failed, e.g. %s' % (len(redo), len(jobs), json.dumps(bad)[:900]))
        again, afiles = run_replay(binary, [jobs[i] for i in redo], scratch, 'again')
        files += afiles
        for i, r in zip(redo, again):
            if r is None or r.get('infra') or (not r.get('ok') and not r.get('died') and not (r.get('err') or '').startswith('panic:')):
                raise Infra('replay of %s failed twice for infrastructure reasons: %s' % (jobs[i]['id'], json.dumps(r)[:900]))
            if r.get('died') or (r.get('err') or '').startswith('panic:'):
                died.append((jobs[i], r))
            results[i] = r
    t_replay = time.time() - t0 - t_gen

    # 3. judgement: TLC re-computes the reference state and judges every recorded line
    pieces = split_files(files, scratch)
    devs, tot = judge(pieces, enabled, scratch)
    t_judge = time.time() - t0 - t_gen - t_replay
    # an operation that is no longer usable in the reference state because an EARLIER line of the same trace
    # deviated (e.g. a wrong candidate was granted a removal) is not the driver's fault
    first_dev = {}
    for d in devs:
        if d['prop'] != 'HARNESS':
            first_dev[d['id']] = min(first_dev.get(d['id'], 1 << 60), d['line'])
    harness_devs = [d for d in devs if d['prop'] == 'HARNESS' and not (d['tag'] == 'operation-not-usable' and first_dev.get(d['id'], 1 << 60) < d['line'])]
    # (raised below, after the deviations of the property have been reproduced alone: a driver that lost its way in one
    # history - e.g. because an import restored fewer addresses than the code as found does - does not hide a violation
    # that another history shows and that reproduces on its own)
    # a history that the driver had to cut short (a precondition of its next operation was lost) must show a deviation
    dev_ids = set(d['id'] for d in devs)
    cut = [(j, r) for j, r in zip(jobs, results) if r and r.get('cut')]
    cut_unexplained = ['history %s was cut short (%s) although no recorded line deviates' % (j['id'], r['cut'])
                       for j, r in cut if j['id'] not in dev_ids]   # (raised below, for the same reason)
    # a trace recorded twice (first run died half-way, then re-run alone) is judged twice: keep one deviation per (id, line, tag)
    seen, uniq = set(), []
    for d in devs:
        k = (d['id'], d['line'], d['prop'], d['tag'])
        if k not in seen:
            seen.add(k)
            uniq.append(d)
    devs = uniq

    # 4. classify: only this property's clauses
    mine = [d for d in devs if d['prop'] == pid]
    other = [d for d in devs if d['prop'] != pid]
    job_by_id = {j['id']: j for j in jobs}
    res_by_id = {j['id']: r for j, r in zip(jobs, results)}
    known_hits = {}
    for d in mine:
        if d['known']:
            known_hits.setdefault(d['known'], set()).add(d['id'])
    new_by_trace = {}
    for d in mine:
        if not d['known']:
            new_by_trace.setdefault(d['id'], []).append(d)
    violations = []
    shown = set()
    for tid in sorted(new_by_trace, key=lambda t: (len(job_by_id[t]['h']), t)):
        first = min(new_by_trace[tid], key=lambda d: d['line'])
        sig = (first['tag'], first['op'].get('a'))
        if sig in shown and len(violations) >= 3:
            continue
        j = dict(job_by_id[tid])
        r0 = res_by_id.get(tid) or {}
        lines = []
        for p in files:
            lines = trace_of(p, tid)
            if lines:
                break
        # the replay job is the RECORDED operation sequence: every expansion of a "wrong" candidate is an
        # operation of its own with its concrete class pinned, passphrases and imported mnemonics pinned too
        j['h'] = [dict(a=l['a'], i=l['i'], w=l['w'], c=l['c'], k=l['k'], cc=(l['cc'] if l['cc'] != '-' else ''), ch=l.get('ch', ''))
                  for l in lines if l.get('t') == 'op'] or j['h']
        j['pin_pass'] = r0.get('pass') or {}
        j['pin_mn'] = {k: v for k, v in (r0.get('mn') or {}).items()
                       if not any(e['a'] == 'create' and j['u']['wal'][e['w']]['mn'] == k for e in j['h'])}
        # reproduce alone before calling it a violation
        again, afiles = run_replay(binary, [j], scratch, 'confirm-%s' % vlib.short_hash(tid))
        adevs, _ = judge(afiles, enabled, scratch, workers=2, parallel=1) if afiles else ([], None)
        if not any(d['prop'] == pid and d['tag'] == first['tag'] and not d['known'] for d in adevs):
            raise Infra('deviation %s %s of %s did not reproduce when replayed alone' % (pid, first['tag'], tid))
        shown.add(sig)
        pth = vlib.save_replay(pid, '%s-%s' % (tier, vlib.short_hash(tid + json.dumps(j['h']))),
                               dict(property=pid, job=j, deviation=first, all_deviations=new_by_trace[tid][:10],
                                    failing_line=lines[first['rel'] - 1] if 0 < first['rel'] <= len(lines) else None,
                                    how='bin/check %s %s --replay <this file>' % (pid, tier)))
        violations.append((tid, first, pth))
        print('VIOLATION property=%s replay=%s' % (pid, pth))
        print('  clause: %s at line %d of the trace: %s -> %s %s' % (first['tag'], first['rel'], describe_op(first['op']), first['op']['res'], first['op']['err']))
        print('  history: %s' % describe(j['h']))
    if harness_devs and not violations:
        raise Infra('the trace specification rejects the driver itself: %s' % json.dumps(harness_devs[0])[:700])
    if cut_unexplained and not violations:
        raise Infra(cut_unexplained[0])
    for jd, r in died:
        # a wallet operation that kills the process is no answer at all: MUST-ACCEPT / MUST-REJECT both failed
        pth = vlib.save_replay(pid, '%s-died-%s' % (tier, vlib.short_hash(jd['id'])), dict(property=pid, job=jd, result=r,
                               how='bin/check %s %s --replay <this file>' % (pid, tier)))
        violations.append((jd['id'], dict(tag='process-died', line=0, rel=0), pth))
        print('VIOLATION property=%s replay=%s' % (pid, pth))
        print('  the process ended (panic / FATAL) during: %s' % describe(jd['h']))
        print('  %s' % (r.get('err') or r.get('tail') or '')[-600:])
    stale = []
    for kid in enabled:
        e = entries[kid]
        if e.get('property') != pid:
            continue
        if kid in known_hits:
            ex = next((d for d in mine if d['known'] == kid and d['tag'] == 'right-refused'), None) or next(d for d in mine if d['known'] == kid)
            print('KNOWN-FINDING: property=%s %s [%s] (%d behaviours; e.g. %s: %s -> %s %s)' % (
                pid, e['summary'], kid, len(known_hits[kid]), ex['id'], describe_op(ex['op']), ex['op']['res'], ex['op']['err']))
        else:
            stale.append(kid)
            print('note: known finding %s no longer reproduces (its scripted history conforms): entry is stale' % kid)

    # 5. binding demonstration (thorough)
    demos = None
    if tier == 'thorough':
        demos = binding_demo(pieces[:4], enabled, scratch)
        if not all(d['rejected'] for d in demos):
            raise Infra('binding demonstration failed: %s' % json.dumps([d for d in demos if not d['rejected']]))

    # 6. evidence
    st, traces, nops = trace_stats(pieces)
    sample_lines = []
    for p in pieces[:1]:
        for line in open(p):
            l = json.loads(line)
            if l.get('t') == 'op' and l['a'] in ('impks', 'sign') and len(sample_lines) < 2:
                l.pop('pre', None)
                sample_lines.append(l)
    clauses = {'C04': ['must-accept-refused', 'create-id', 'import-id', 'import-count', 'newaddr-address', 'mnemonic-differs', 'export-not-a-keystore',
                       'key-mismatch', 'address-not-managed', 'wallet-id', 'address-unknown', 'address-set', 'address-form', 'dup-import-altered'],
               'C05': ['leak', 'wrong-accepted', 'wrong-error-class', 'right-refused', 'refused-altered', 'refused-unlocked', 'cache-not-empty']}
    cov = dict(states=max(states + tot['states'], 1), transitions=max(transitions + tot['transitions'], 1),
               traces_validated_against_impl=traces, samples=sample_lines,
               lines_judged_by_tlc=tot['lines'], operations_executed_on_real_instances=nops, tlc_trace_runs=tot['runs'],
               behaviours_replayed=len(jobs), operation_outcomes=st,
               model_runs=mc_runs, generator_runs=gen_runs,
               wrong_candidate_classes=['other wallet\'s passphrase', 'public passphrase', 'prefix', 'extension', 'case flip', 'empty', 'trailing space',
                                        'trailing NUL', 'non-ASCII', 'over-long', 'too short', 'random bytes', 'random legal passphrase'],
               decided_clauses=clauses[pid], deviations_of_this_property=len(mine), deviations_of_the_sibling_property=len(other),
               known_finding_hits={k: len(v) for k, v in known_hits.items()}, stale_known_findings=stale,
               processes_died=len(died), histories_cut_short_after_a_deviation=len(cut), binding_demonstration=demos,
               timing_s=dict(model_and_generation=round(t_gen, 1), replay=round(t_replay, 1), judgement=round(t_judge, 1)),
               exhaustive=False,
               rule='behaviours = every operation sequence of the themed alphabets after a scripted prefix up to the stated depth (hash-sampled 1 in m where stated) plus seeded random deep ones (simulate) of spec/KeystoreGen.tla; each is executed on two real wallet-manager instances; TLC (spec/KeystoreTrace.tla) judges every recorded line')
    vlib.write_evidence(pid, tier, 'model_checking', cov, time.time() - t0, len(violations), ASSUME)
    print('%s %s: %d behaviours replayed on real instances, %d operations / %d lines judged by TLC in %d runs, %d model states; deviations of %s: %d (known %d), violations=%d wall=%.0fs (gen %.0f, replay %.0f, judge %.0f)'
          % (pid, tier, len(jobs), nops, tot['lines'], tot['runs'], states, pid, len(mine), sum(1 for d in mine if d['known']), len(violations),
             time.time() - t0, t_gen, t_replay, t_judge))
    return 1 if violations else 0
