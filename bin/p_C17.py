"""C17 - queries racing with synchronisation see one block boundary; no data races.
Model: spec/ReadIso.tla (a query as a sequence of reads; commits in between).  Binding: for
TLC-generated histories that end with j queued tips, a real query (WalletBalance / GetUtxo) is
parked at its k-th storage call, the follower commits the j block steps, the query resumes; its
answer must equal the specification's boundary view after one of those steps (or before them).
Second clause (data races): the same racing replays are run in a -race build in the thorough tier;
reports whose both stacks are in massnet.org/mass-wallet are violations (supplemental, see DESIGN)."""
import json, os, random, re, subprocess, time
import vlib, props
from vlib import Infra

IDS = ['C17']
KINDS = ['trace-rejected', 'query-mixes-boundaries', 'query-error', 'concurrent-write-lost', 'api-write-hangs', 'data-race', 'died', 'timeout']
props.KINDS['C17'] = KINDS


def final_run(h):
    j = 0
    for s in reversed(h):
        if s['a'] != 'HandleBlock':
            break
        j += 1
    return j


def race_run(scratch, jobs):
    """Second clause, supplemental: the same racing replays in a -race build.  A report counts only when
    BOTH access stacks contain a frame of massnet.org/mass-wallet and neither is topped by mass-core/logging
    (the logging package races with itself on every concurrent log line: third-party noise)."""
    binary = vlib.build_go(scratch, './cmd/replay', 'replay-race', race=True)
    jf = os.path.join(scratch.dir, 'race-jobs.jsonl')
    with open(jf, 'w') as f:
        for j in jobs:
            f.write(json.dumps(j) + '\n')
    procs, n = [], len(jobs)
    per = max(1, (n + 7) // 8)
    for a in range(0, n, per):
        sd = scratch.sub('race-%d' % a)
        fo = open(os.path.join(sd, 'out.txt'), 'w')
        env = dict(vlib.GOENV, GORACE='halt_on_error=0')
        procs.append((subprocess.Popen([binary, '-jobs', jf, '-from', str(a), '-to', str(min(n, a + per)), '-scratch', sd], stdout=fo, stderr=subprocess.STDOUT, cwd=sd, env=env), fo, sd))
    reports = []
    for p, fo, sd in procs:
        try:
            p.wait(timeout=1500)
        except subprocess.TimeoutExpired:
            p.kill()
        fo.close()
        text = open(os.path.join(sd, 'out.txt'), errors='replace').read()
        for blk in re.findall(r'WARNING: DATA RACE\n(.*?)\n==================', text, re.S):
            parts = re.split(r'\n\n', blk)
            stacks = [x for x in parts if x.startswith(('Write at', 'Read at', 'Previous write', 'Previous read'))]
            if len(stacks) < 2:
                continue
            def ours(st):
                frames = [l for l in st.splitlines()[1:] if not l.startswith(' ')]
                return any('massnet.org/mass-wallet/' in f for f in frames) and not (frames and 'mass-core/logging' in frames[0])
            if all(ours(st) for st in stacks[:2]):
                reports.append(blk)
    uniq = {}
    for r in reports:
        key = '\n'.join(l for l in r.splitlines() if 'massnet.org/mass-wallet/' in l)[:400]
        uniq.setdefault(key, r)
    return list(uniq.values()), n


def check(pid, tier, scratch, replay):
    t0 = time.time()
    rnd = random.Random(vlib.seed())
    quick = tier == 'quick'
    if replay:
        r = json.load(open(replay))
        res = props.replay_jobs(scratch, [dict(u=r['universe'], h=r['history'], mode='readiso', opt=r['opt'])])
        print(json.dumps(res[0], indent=1))
        return 1 if set(props.kinds_of(res[0])) & set(KINDS) else 0
    states = trans = 0
    runs = []
    m = vlib.tlc('MC_ReadIso.cfg', 'MC_ReadIso.tla', scratch, workers=4, timeout=600)
    vlib.require_clean(m, 'model MC_ReadIso (snapshot reads)')
    states += m.get('distinct', 0)
    trans += m.get('generated', 0)
    a = vlib.tlc('MC_ReadIso_asfound.cfg', 'MC_ReadIso.tla', scratch, workers=4, timeout=600)
    runs.append(dict(cfg='MC_ReadIso.cfg', distinct=m.get('distinct')))
    runs.append(dict(cfg='MC_ReadIso_asfound.cfg', violated=a['violated'], note='live reads (no snapshot): the model itself admits mixed answers'))
    jobs = []
    # the fourth universe has a coinbase maturity of 3, so that immature coins exist at most boundaries
    for cfg, mod, extra, n, cbmat in (('Gen_Pay.cfg', 'MC_Pay.tla', {}, 40 if quick else 150, '1'), ('Gen_Stake.cfg', 'MC_Stake.tla', props.STAKE_X, 20 if quick else 80, '1'),
                                      ('Gen_Imp.cfg', 'MC_Imp.tla', {}, 20 if quick else 80, '1'), ('Gen_Pay.cfg', 'MC_Pay.tla', {}, 40 if quick else 150, '3')):
        o = {'GenDepth': '12', 'GenRandom': 'TRUE', 'MaxQ': '4', 'CbMat': cbmat}
        r = vlib.tlc(cfg, mod, scratch, overrides=o, simulate=dict(num=n * 4, depth=13, seed=vlib.seed() * 11 + len(runs)))
        vlib.require_clean(r, 'generator ' + cfg)
        u = dict(r['universe'])
        u.update(extra)
        hs = [json.loads(h) for h in sorted(set(r['histories']))]
        hs = [h for h in hs if final_run(h) >= 2 and any(s['a'] == 'HandleBlock' for s in h[:len(h) - final_run(h)])]
        hs = vlib.sample(hs, n, rnd)
        runs.append(dict(cfg=cfg, histories_with_two_or_more_queued_tips=len(hs)))
        # an API write overlapping the follower's last block step
        hs1 = [json.loads(x) for x in sorted(set(r['histories']))]
        hs1 = [x for x in hs1 if x[-1]['a'] == 'HandleBlock' and x[-1]['exp'].get('q')]
        for x in vlib.sample(hs1, 12 if quick else 60, rnd):
            for k in (rnd.sample(range(2, 40), 3) if quick else range(2, 60, 4)):
                jobs.append(dict(u=u, h=x, mode='write-overlap', opt=dict(park=k), src=cfg))
        for h in hs:
            for api in ('balance', 'utxo', 'build'):
                ks = list(range(1, 15)) if not quick else rnd.sample(range(1, 15), 3)
                if api == 'build':
                    # a building call has few storage calls before its coins are read: every early position,
                    # in the universe with immature coins
                    ks = list(range(1, 7)) if cbmat != '1' else (ks if not quick else ks[:1])
                for k in ks:
                    jobs.append(dict(u=u, h=h, mode='readiso', opt=dict(api=api, park=k), src=cfg))
    if quick and len(jobs) > 900:
        keep = [j for j in jobs if j['opt'].get('api') == 'build' and j['u'].get('cbmat') != 1]
        rest = [j for j in jobs if j not in keep]
        jobs = keep + rnd.sample(rest, max(0, 900 - len(keep)))
    # code -> spec (spec/WalletTrace.tla): everything runs freely - chain changes, announcements, follower, worker with
    # rescans - while a query thread asks for balance and unspent outputs; TLC places every answer on ONE committed
    # boundary between the query's start and end (q.begin / q.end lines), and checks that the worker's updates fall only
    # inside windows in which the follower is suspended (no update of one goroutine inside a step of the other)
    tjobs = []
    for cfg, mod, extra, ov, mode, n, depth in (('Gen_Pay.cfg', 'MC_Pay.tla', {}, dict(props.MS, **props.P), 'trace-q', 30 if quick else 800, 16),
                                                ('Gen_Stake.cfg', 'MC_Stake.tla', props.STAKE_X, dict(props.P), 'trace-q', 20 if quick else 500, 16),
                                                ('Gen_Imp.cfg', 'MC_Imp.tla', {}, dict(props.IMPORT_ONLY), 'trace', 40 if quick else 800, 18),
                                                ('Gen_Pay.cfg', 'MC_Pay.tla', {}, dict(props.LIFE), 'trace', 30 if quick else 600, 16)):
        sp = props.SIM(n, depth, **ov)
        r = vlib.tlc(cfg, mod, scratch, overrides=sp['overrides'], simulate=dict(num=sp['simulate']['num'], depth=sp['simulate']['depth'], seed=vlib.seed() * 29 + len(tjobs)))
        vlib.require_clean(r, 'generator (traces) ' + cfg)
        u = dict(r['universe'])
        u.update(extra)
        for k, h in enumerate(x for x in (json.loads(y) for y in sorted(set(r['histories']))) if props.free_runnable(x)):
            tjobs.append(dict(u=u, h=h, mode=mode, opt=dict(seed=vlib.seed() * 13 + k), src=cfg + ' (' + mode + ')',
                              trace=dict(cfg=cfg, module=mod, overrides={a: b for a, b in sp['overrides'].items() if a not in ('GenDepth', 'GenRandom')},
                                         pend=ov.get('Lifecycle') != 'TRUE' or ov.get('Removable') == '{}')))
    tres = props.replay_jobs(scratch, tjobs)
    judged, rejected, tstates = props.judge_traces(scratch, tjobs, tres)
    nq = sum((r or {}).get('trace_lines', 0) for r in tres)
    again = [i for i, r in enumerate(tres) if r and 'trace-rejected' in props.kinds_of(r)]
    if again:
        res2 = props.replay_jobs(scratch, [tjobs[i] for i in again])
        props.judge_traces(scratch, [tjobs[i] for i in again], res2)
        for i, r2 in zip(again, res2):
            if not (r2 and 'trace-rejected' in props.kinds_of(r2)):
                tres[i] = dict(tres[i], infra=True, err='harness: trace rejected once, accepted when re-run')
    jobs += tjobs
    results = props.replay_jobs(scratch, jobs[:len(jobs) - len(tjobs)]) + tres
    # second clause (data races): a -race build of the replays that run goroutines against each other -
    # queries and API writes racing with commits, the follower and the worker running freely with
    # imports / removals and chain changes, free-running shutdown scenarios
    rjobs = vlib.sample([j for j in jobs if j['mode'] not in ('trace', 'trace-q')], 24 if quick else 160, rnd)
    o = {'GenDepth': '14', 'GenRandom': 'TRUE'}
    for cfg, mod, extra, ov in (('Gen_Pay.cfg', 'MC_Pay.tla', {}, dict(props.LIFE, **props.P)), ('Gen_Stake.cfg', 'MC_Stake.tla', props.STAKE_X, dict(props.REMOVE_ONLY, **props.P)),
                                ('Gen_Pay.cfg', 'MC_Pay.tla', {}, dict(props.MS, **props.P))):
        oo = dict(o)
        oo.update(ov)
        r = vlib.tlc(cfg, mod, scratch, overrides=oo, simulate=dict(num=20 if quick else 200, depth=15, seed=vlib.seed() * 17 + 5))
        vlib.require_clean(r, 'generator (free-running, race build) ' + cfg)
        u = dict(r['universe'])
        u.update(extra)
        hs = [h for h in (json.loads(x) for x in sorted(set(r['histories']))) if props.no_crash(h)]
        for k, h in enumerate(vlib.sample(hs, 14 if quick else 150, rnd)):
            rjobs.append(dict(u=u, h=h, mode='free', opt=dict(seed=vlib.seed() * 100 + k)))
    g5 = vlib.tlc('Gen_Pay.cfg', 'MC_Pay.tla', scratch, overrides={'GenDepth': '2', 'GenForkLen': '0', 'Lifecycle': 'TRUE', 'ImportBatch': '1',
                  'Wallets': '{"w1", "w2", "w3", "w4", "w5"}', 'InitAbsent': '{"w2", "w3", "w4", "w5"}'})
    vlib.require_clean(g5, 'universe with five wallets')
    scen = [(['import', 'import'], 3), (['remove'], 2), (['import', 'remove', 'import', 'import'], 4), (['remove', 'import'], 3)]
    for i in range(8 if quick else 80):
        t, b = scen[i % len(scen)]
        rjobs.append(dict(u=g5['universe'], h=[], mode='stop-free', opt=dict(tasks=t, blocks=b, seed=vlib.seed() * 1000 + i, final='stopped')))
    race_reports, race_jobs = race_run(scratch, rjobs)
    known = [k for k in vlib.load_known() if k.get('property') == pid and k.get('status') == 'known']
    viol, hits, infra, raced = [], {}, 0, 0
    for job, res in zip(jobs, results):
        ks = set(props.kinds_of(res))
        if 'infra' in ks:
            infra += 1
            continue
        raced += (res or {}).get('compared', 0) if job['mode'] not in ('trace', 'trace-q') else 0
        mine = {k.split(':')[0] for k in ks} & set(KINDS)
        if not mine:
            continue
        def fits(k):
            if not mine <= set(k.get('kinds', [])):
                return False
            cl = k.get('classifier', {})
            if 'api' in cl and job['opt'].get('api') != cl['api']:
                return False
            if 'got_regex' in cl and not all(re.search(cl['got_regex'], d.get('got', '')) for d in (res.get('diffs') or [])):
                return False
            return True
        k = next((k for k in known if fits(k)), None)
        if k:
            hits.setdefault(k['id'], []).append((job, res))
        else:
            viol.append((job, res))
    for rep in race_reports[:3]:
        p = vlib.save_replay(pid, '%s-race-%s' % (tier, vlib.short_hash(rep)), dict(property=pid, kind='data-race', report=rep))
        print('VIOLATION property=%s replay=%s' % (pid, p))
        print('  data race between two accesses inside massnet.org/mass-wallet:\n' + '\n'.join('    ' + l for l in rep.splitlines()[:24]))
    if infra > max(5, len(jobs) // 8):
        raise Infra('%d of %d racing replays inconclusive: %s' % (infra, len(jobs), [(r or {}).get('err') for r in results if r and r.get('err')][:2]))
    if raced == 0:
        raise Infra('no query was actually raced with a commit (vacuous run)')
    for kid, hs in hits.items():
        k = next(x for x in known if x['id'] == kid)
        d = hs[0][1]['diffs'][0]
        print('KNOWN-FINDING: property=%s %s (%d racing queries; e.g. %s: got %s)' % (pid, k['summary'], len(hs), d['what'], d['got'][:200]))
    seen = set()
    for job, res in viol:
        sig = ','.join(sorted({k.split(':')[0] for k in props.kinds_of(res)} & set(KINDS))) + job['opt'].get('api', job['mode'])
        if sig in seen:
            continue
        seen.add(sig)
        p = vlib.save_replay(pid, '%s-%s' % (tier, vlib.short_hash(json.dumps([job['h'], job['opt']]))), dict(property=pid, universe=job['u'], history=job['h'], opt=job['opt'], result=res))
        print('VIOLATION property=%s replay=%s' % (pid, p))
        for d in (res.get('diffs') or [])[:2]:
            print('  %s %s: %s\n    want %s\n    got  %s' % (d['kind'], d.get('wallet', ''), d['what'], d['want'][:600], d['got'][:300]))
        print('  history: %s' % props.describe(job['h']))
    cov = dict(states=max(states, 1), transitions=max(trans, 1), traces_validated_against_impl=len(jobs) - infra,
               samples=[dict(history=props.describe(j['h']), mode=j['mode'], query=j['opt'].get('api'), parked_at_storage_call=j['opt'].get('park')) for j in jobs[:3]],
               free_running_traces_judged_by_tlc=judged, trace_lines_by_event=dict(sorted(props.TRACE_EVENTS.items())), trace_lines=nq, trace_judge_states=tstates,
               queries_actually_raced_with_commits=raced, mixed_answers=len(viol) + sum(len(v) for v in hits.values()), model_runs=runs, inconclusive=infra,
               known_finding_hits={k: len(v) for k, v in hits.items()}, race_detector_jobs=race_jobs, race_reports_inside_wallet_code=len(race_reports),
               rule='(history ending in j >= 2 queued tips, query, k): the query goroutine is parked inside its k-th storage call, the follower commits the j block steps, the query resumes; its answer must equal the boundary view the specification gives before or after one of those steps')
    vlib.write_evidence(pid, tier, 'model_checking', cov, time.time() - t0, len(viol),
                        props.ASSUME_ENV + ['the data-race clause is not decided by the model; see DESIGN.md section 7'])
    print('%s %s: %d racing queries (%d actually overlapped commits), mixed answers: %d new, %d known; %d model states; inconclusive=%d wall=%.0fs'
          % (pid, tier, len(jobs), raced, len(viol), sum(len(v) for v in hits.values()), states, infra, time.time() - t0))
    return 1 if (viol or race_reports) else 0
