"""C16 - Output-script classification agrees with consensus templates and never crashes.

  spec/PkScript.tla       the property: tokeniser, templates, expected reading Exp(s) with its
                          MUST / DON'T-CARE classes, judgement of one evaluation, finding classifiers
  spec/PkScriptGen.tla    TLC enumerates token sequences / builder cases (+ model-level consistency)
  spec/PkScriptTrace.tla  TLC judges every recorded evaluation of the real code
  harness/cmd/pkscript    concretises the cases, adds seeded random / mutated / truncated inputs,
                          evaluates utils.ParsePkScript, api.extractAddressInfos, DecodeRawTransaction,
                          the builders and the consensus library under recover(); compares nothing

Unexported helpers (extractAddressInfos, constructStakingTxOut, parseBindingTarget) are reached through
two files added to the build with `go build -overlay`; /repo is not edited."""
import concurrent.futures, json, os, random, re, shutil, subprocess, time
import vlib
from vlib import Infra

IDS = ['C16']

# Findings of this property on the unchanged tree.  Each has a repair prepared in fixes/C16-<n>.diff.
# Until the maintainer lists them in known_findings.jsonl (a line there with the same id, or a "fixed"
# line naming the id under "retires", takes precedence) they are treated as known here, so that any
# OTHER failure is still a violation.  The classifier of each finding is the operator Known(l, tag) of
# spec/PkScript.tla: TLC decides which failures a finding excuses.
PENDING = [
    {"id": "K-C16-1", "property": "C16", "status": "known", "fix": "fixes/C16-1.diff",
     "classifier": {"spec": "PkScript!Known", "tag": "P:nontemplate-error-instead-of-unsupported",
                    "where": "script does not parse or matches no pay template (Exp.part = NONE) and utils.ParsePkScript returns an error other than ErrUnsupportedScript"},
     "summary": "utils.ParsePkScript answers a script that matches no pay template (empty, OP_RETURN data, multisig, unparsable) with the error 'invalid script hash type' instead of ErrUnsupportedScript; the chain follower skips an output only on ErrUnsupportedScript, so a block containing such an output is refused for good",
     "example": "script 6a020102 (OP_RETURN 0102)"},
    {"id": "K-C16-2", "property": "C16", "status": "known", "fix": "fixes/C16-2.diff",
     "classifier": {"spec": "PkScript!Known", "tag": "A:panic | D:panic",
                    "where": "binding template whose 22-byte target the consensus address codec refuses (type byte not 0/1 or size byte outside 20..200; Exp.part = PARTIAL)"},
     "summary": "api.extractAddressInfos indexes addrs[1] although the consensus library returned only the holder address: index-out-of-range panic, reachable through DecodeRawTransaction / GetRawTransaction with a client-supplied script",
     "example": "script 0020<32 bytes>16<20 bytes>0720 (target type 7)"},
    {"id": "K-C16-3", "property": "C16", "status": "known", "fix": "fixes/C16-3.diff",
     "classifier": {"spec": "PkScript!Known", "tag": "A:panic | D:panic",
                    "where": "consensus class multisig and txscript.ExtractPkScriptAddrs itself panics on the script (a pushed key that does not parse)"},
     "summary": "api.extractAddressInfos crashes on a multisig-shaped script with a key that is not a valid public key, because mass-core's ExtractPkScriptAddrs dereferences the nil address; reachable through DecodeRawTransaction with a client-supplied script",
     "example": "script 5121<33 zero bytes>51ae"},
]

TIERS = {
    # MaxFull/MaxCore/MaxPrefix: token-sequence lengths (spec/PkScriptGen.tla); reps: payload draws per sequence
    'quick': dict(gen={'MaxFull': '2', 'MaxCore': '3', 'MaxPrefix': '4'}, reps=2,
                  random=4000, mut=9000, long=300, build=1500, chunk=30000, tlc_par=3),
    'thorough': dict(gen={'MaxFull': '3', 'MaxCore': '4', 'MaxPrefix': '4'}, reps=2,
                     random=40000, mut=90000, long=4000, build=15000, chunk=40000, tlc_par=4),
}

# The tokeniser of the specification is a recursive operator: one level per token.  TLC's default thread
# stack (1 MB) holds about 200 levels; scripts of this check have up to ~1500 tokens.
os.environ['JAVA_TOOL_OPTIONS'] = (os.environ.get('JAVA_TOOL_OPTIONS', '') + ' -Xss512m').strip()

INFRA_PREFIX = ('O:', 'G:', 'T:')   # oracle / generator / trace-format inconsistencies: never a verdict on the wallet
NBLOCKS = 64


def active_known():
    """ids the TLC judgement may excuse, and their records"""
    recs = {e['id']: dict(e) for e in PENDING}
    for e in vlib.load_known():
        if e.get('property') != 'C16':
            continue
        recs[e['id']] = e
        for rid in e.get('retires', []):
            recs.pop(rid, None)
    return {k: v for k, v in recs.items() if v.get('status') == 'known'}


def build_pkscript(scratch):
    """go build of cmd/pkscript against vlib.REPO's working tree, in a private copy of the harness module
    (replace => REPO; two build-tagged export files added by -overlay)."""
    dst = scratch.sub('harness-c16')
    mod = open(os.path.join(vlib.HARNESS, 'go.mod')).read()
    mod, n = re.subn(r'(?m)^replace massnet\.org/mass-wallet => .*$', 'replace massnet.org/mass-wallet => ' + vlib.REPO, mod)
    if n != 1:
        raise Infra('harness go.mod: replace directive not found')
    open(os.path.join(dst, 'go.mod'), 'w').write(mod)
    shutil.copy(os.path.join(vlib.REPO, 'go.sum'), os.path.join(dst, 'go.sum'))
    shutil.copytree(os.path.join(vlib.HARNESS, 'pkscriptlib'), os.path.join(dst, 'pkscriptlib'))
    os.makedirs(os.path.join(dst, 'cmd'))
    shutil.copytree(os.path.join(vlib.HARNESS, 'cmd', 'pkscript'), os.path.join(dst, 'cmd', 'pkscript'))
    ov = os.path.join(vlib.HARNESS, 'pkscriptlib', 'overlay')
    overlay = {'Replace': {
        os.path.join(vlib.REPO, 'api', 'verif_c16_export.go'): os.path.join(ov, 'api_verif_c16.go.txt'),
        os.path.join(vlib.REPO, 'masswallet', 'verif_c16_export.go'): os.path.join(ov, 'masswallet_verif_c16.go.txt')}}
    json.dump(overlay, open(os.path.join(dst, 'overlay.json'), 'w'))
    out = os.path.join(scratch.dir, 'pkscript')
    p = subprocess.run(['go', 'build', '-tags', 'verif', '-overlay', 'overlay.json', '-o', out, './cmd/pkscript'],
                       cwd=dst, env=vlib.GOENV, stdout=subprocess.PIPE, stderr=subprocess.STDOUT, text=True)
    if p.returncode != 0 or not os.path.exists(out):
        msg = '\n'.join(l for l in p.stdout.splitlines() if 'ld: ' not in l)
        raise Infra('go build ./cmd/pkscript failed:\n%s' % msg[-3000:])
    return out


def gen_cases(scratch, tier, stats):
    """TLC enumerates the structural cases; returns the path of the case file"""
    path = os.path.join(scratch.dir, 'cases.ndjson')
    n = 0
    with open(path, 'w') as fo:
        for mode, ov in (('tokens', dict(TIERS[tier]['gen'])), ('build', {})):
            ov['Mode'] = '"%s"' % mode
            r = vlib.tlc('PkScript_Gen.cfg', 'PkScriptGen.tla', scratch, overrides=ov, timeout=1500)
            vlib.require_clean(r, 'generator PkScript_Gen.cfg Mode=%s' % mode)
            # TLC's workers print in no fixed order; the harness draws payloads in file order, so sort (VERIF_SEED reproducibility)
            got = sorted(vlib.unescape(line[len('<<"CASE", "'):-3]) for line in r['log'].splitlines() if line.startswith('<<"CASE", "'))
            k = len(got)
            fo.write(''.join(x + '\n' for x in got))
            if k == 0 or k != r.get('distinct'):
                raise Infra('generator Mode=%s printed %d cases for %s distinct states' % (mode, k, r.get('distinct')))
            n += k
            stats['states'] += r.get('distinct', 0)
            stats['transitions'] += r.get('generated', 0)
            stats['model_runs'].append(dict(cfg='PkScript_Gen.cfg', overrides=ov, distinct=r.get('distinct'), generated=r.get('generated'),
                                            cases=k, invariant='Consistent (token-level prediction = byte-level specification on the canonical concretisation)',
                                            wall_s=round(r['wall'], 1)))
    return path, n


def run_go(binary, args, scratch, name):
    logdir = scratch.sub('golog')
    p = subprocess.run([binary] + args + ['-logdir', logdir], cwd=scratch.dir, env=vlib.GOENV, stdout=subprocess.PIPE,
                       stderr=subprocess.STDOUT, text=True, timeout=1800)
    m = re.search(r'(?m)^SUMMARY (.*)$', p.stdout)
    txt = p.stdout if len(p.stdout) < 1600 else p.stdout[:1100] + '\n...\n' + p.stdout[-400:]
    return p.returncode, (json.loads(m.group(1)) if m else None), txt


def evaluate(binary, base_args, scratch, chunk):
    """run the harness over all cases in parallel ranges; returns (trace files, summary, crash)"""
    rc, summ, tail = run_go(binary, base_args + ['-from', '0', '-to', '0', '-out', os.path.join(scratch.dir, 'none.ndjson')], scratch, 'count')
    if rc != 0 or not summ:
        raise Infra('pkscript (counting) failed rc=%s: %s' % (rc, tail))
    total = summ['total']
    ranges = [(a, min(a + chunk, total)) for a in range(0, total, chunk)]
    files, by_src = [], {}

    def one(ab):
        a, b = ab
        out = os.path.join(scratch.dir, 'trace-%d.ndjson' % a)
        rc, s, tail = run_go(binary, base_args + ['-from', str(a), '-to', str(b), '-out', out], scratch, 'eval')
        return a, b, out, rc, s, tail
    crash = None
    with concurrent.futures.ThreadPoolExecutor(max_workers=min(vlib.NPROC, 8)) as ex:
        for a, b, out, rc, s, tail in ex.map(one, ranges):
            if rc == 3:
                raise Infra('pkscript failed: %s' % tail)
            if rc != 0:
                # the process itself died (a crash recover() cannot catch): locate the case
                done = sum(1 for _ in open(out)) if os.path.exists(out) else 0
                crash = crash or find_crash(binary, base_args, scratch, a + done, b, tail)
                continue
            for k, v in s['by_source'].items():
                by_src[k] = by_src.get(k, 0) + v
            files.append((a, b, out))
    return files, total, by_src, crash


def find_crash(binary, base_args, scratch, lo, hi, tail):
    for i in range(lo, min(hi, lo + 300)):
        out = os.path.join(scratch.dir, 'one.ndjson')
        rc, s, t = run_go(binary, base_args + ['-from', str(i), '-to', str(i + 1), '-out', out], scratch, 'one')
        if rc not in (0, 3):
            dp = os.path.join(scratch.dir, 'crash-input.json')
            run_go(binary, base_args + ['-from', str(i), '-to', str(i + 1), '-dump', '-out', dp], scratch, 'dump')
            inp = json.load(open(dp))[0] if os.path.exists(dp) else None
            return dict(index=i, rc=rc, tail=t, input=inp)
    raise Infra('pkscript died (%s) but no single case reproduces it' % tail[-400:])


BUILD_NOT_OK = re.compile(r'"k":"build".*?"b":\{"st":"(?!ok")')
FAIL_RE = re.compile(r'^<<"FAIL", (\d+), "([^"]*)", "([^"]*)">>$')
CLS_RE = re.compile(r'^<<"CLS", (\d+), "([^"]*)", "([^"]*)">>$')


def judge(scratch, trace, nlines, known_ids, classes=True):
    """TLC judges every line of one trace file"""
    ov = {'TracePath': '"%s"' % trace, 'KnownIds': '{%s}' % ', '.join('"%s"' % k for k in sorted(known_ids)),
          'NBlocks': str(NBLOCKS), 'Classes': 'TRUE' if classes else 'FALSE'}
    r = vlib.tlc('PkScript_Trace.cfg', 'PkScriptTrace.tla', scratch, overrides=ov, workers=2, timeout=3000, extra=['-continue'])
    fails, cls = [], {}
    for line in r['log'].splitlines():
        m = FAIL_RE.match(line)
        if m:
            fails.append((int(m.group(1)), m.group(2), m.group(3)))
            continue
        m = CLS_RE.match(line)
        if m:
            cls[int(m.group(1))] = (m.group(2), m.group(3))
    if r['rc'] == 124:
        raise Infra('trace validation timed out')
    if r['error'] or 'Evaluating invariant' in r['log'] or 'unexpected exception' in r['log']:
        raise Infra('trace validation: TLC failed\n%s' % '\n'.join(x for x in r['log'].splitlines() if not x.startswith('<<"'))[-3000:])
    if r.get('distinct') != 1 + NBLOCKS + nlines:
        raise Infra('trace validation judged %s states for %d lines\n%s' % (r.get('distinct'), nlines, '\n'.join(x for x in r['log'].splitlines() if not x.startswith('<<"'))[-2000:]))
    if classes:
        # every input that reached the readers must have been classified (guards against lost output lines)
        skipped = sum(1 for line in open(trace) if BUILD_NOT_OK.search(line[:600]))
        if len(cls) != nlines - skipped:
            raise Infra('trace validation: %d classification lines for %d inputs' % (len(cls), nlines - skipped))
    unexcused = [f for f in fails if f[2] not in known_ids]
    if bool(unexcused) != bool(r['violated']):
        raise Infra('trace validation: invariant verdict (%s) and printed failures (%d) disagree' % (r['violated'], len(unexcused)))
    return r, fails, cls


def hexs(a):
    return ''.join('%02x' % x for x in a)


def input_of(l):
    if l['k'] == 'build':
        fr = sum(b << (8 * i) for i, b in enumerate(l['in']['frozen'][:4]))
        return dict(k='build', bk=l['bk'], hash=hexs(l['in']['hash']), frozen=fr, target=hexs(l['in']['target']), script='')
    return dict(k='read', script=hexs(l['s']), bk='', hash='', frozen=0, target='')


def brief(l):
    d = dict(source=l['src'], input=input_of(l), ParsePkScript=l['p']['st'], extractAddressInfos=l['a']['st'],
             DecodeRawTransaction=l['d']['st'], consensus_class=l['o']['cls'])
    if l['k'] == 'build':
        d['builder'] = l['b']['st']
        d['built_script'] = hexs(l['s'])
    if l['p']['st'] == 'ok':
        d['owner'] = l['p']['own']['str']
        d['second'] = l['p']['sec']['str']
        d['maturity_le'] = hexs(l['p']['mat'])
    return d


def load_lines(path, ids):
    out = {}
    if not ids:
        return out
    for line in open(path):
        m = re.match(r'\{"id":(\d+),', line)
        if m and int(m.group(1)) in ids:
            out[int(m.group(1))] = json.loads(line)
    return out


def report(pid, tier, all_fails, lines, known, tag_src='bin/check'):
    """prints KNOWN-FINDING / VIOLATION lines; returns (violations, known_hits, infra_tags)"""
    by_known, viol, infra = {}, {}, {}
    for (i, tag, kid) in all_fails:
        if tag.startswith(INFRA_PREFIX):
            infra.setdefault(tag, []).append(i)
        elif kid in known:
            by_known.setdefault(kid, []).append((i, tag))
        else:
            viol.setdefault(i, []).append(tag)
    for kid in sorted(by_known):
        hits = by_known[kid]
        ex = lines.get(hits[0][0])
        print('KNOWN-FINDING: property=%s %s: %s (%d failures on %d inputs; e.g. %s)' % (
            pid, kid, known[kid]['summary'], len(hits), len(set(h[0] for h in hits)),
            json.dumps(input_of(ex)) if ex else known[kid].get('example', '')))
    return viol, by_known, infra


def save_violations(pid, tier, viol, lines, limit=5):
    paths, seen = [], set()
    for i in sorted(viol):
        sig = ','.join(sorted(viol[i]))
        if sig in seen and len(paths) >= limit:
            continue
        seen.add(sig)
        l = lines.get(i)
        obj = dict(property=pid, failures=sorted(viol[i]), input=input_of(l) if l else None, observed=l,
                   how='bin/check %s %s --replay <this file>' % (pid, tier))
        p = vlib.save_replay(pid, '%s-%s' % (tier, vlib.short_hash(json.dumps(obj['input']) + sig)), obj)
        paths.append(p)
        print('VIOLATION property=%s replay=%s' % (pid, p))
        print('  failed clauses: %s' % sig)
        if l:
            print('  input: %s' % json.dumps(input_of(l)))
            print('  observed: %s' % json.dumps(brief(l)))
        if len(paths) >= 12:
            break
    return paths


def demo_binding(scratch, files, cls_all, known_ids):
    """Binding demonstration: corrupt ONE recorded implementation field of a line TLC accepted and
    show that TLC now rejects exactly that line."""
    a, b, path = files[0]
    want = {'owner': None, 'maturity': None}
    keep = []
    for line in open(path):
        l = json.loads(line)
        c = cls_all.get(l['id'])
        if l['k'] != 'read' or not c or c[0] != 'FULL' or l['p']['st'] != 'ok':
            continue
        if want['owner'] is None and c[1] == 'witness_v0_scripthash':
            want['owner'] = l
        elif want['maturity'] is None and c[1] == 'staking_scripthash':
            want['maturity'] = l
        elif len(keep) < 20:
            keep.append(l)
        if all(want.values()) and len(keep) >= 20:
            break
    if not all(want.values()):
        raise Infra('binding demonstration: no accepted standard/staking line found')
    res = []
    for what, l in want.items():
        bad = json.loads(json.dumps(l))
        if what == 'owner':
            bad['p']['ownBytes'][0] ^= 1
        else:
            bad['p']['mat'][0] ^= 1
        tp = os.path.join(scratch.dir, 'demo-%s.ndjson' % what)
        with open(tp, 'w') as fo:
            for x in keep + [bad]:
                fo.write(json.dumps(x) + '\n')
        r, fails, _ = judge(scratch, tp, len(keep) + 1, known_ids, classes=False)
        got = sorted(t for (i, t, k) in fails if i == bad['id'])
        others = [f for f in fails if f[0] != bad['id'] and f[2] not in known_ids]
        ok = bool(r['violated']) and got == ['P:' + ('owner' if what == 'owner' else 'maturity')] and not others
        res.append(dict(corrupted_field='p.ownBytes[0]' if what == 'owner' else 'p.mat[0]', line_id=bad['id'], tlc_rejected=ok, failures=got))
        if not ok:
            raise Infra('binding demonstration failed: corrupted %s of line %d, TLC reported %s' % (what, bad['id'], got))
    return res


def check(pid, tier, scratch, replay):
    t0 = time.time()
    if tier not in TIERS:
        tier = 'quick'
    cfg = TIERS[tier]
    known = active_known()
    known_ids = set(known)
    binary = build_pkscript(scratch)

    if replay:
        r = json.load(open(replay))
        rp = os.path.join(scratch.dir, 'replay-in.json')
        json.dump([r['input']], open(rp, 'w'))
        out = os.path.join(scratch.dir, 'replay.ndjson')
        rc, summ, tail = run_go(binary, ['-replay', rp, '-out', out], scratch, 'replay')
        if rc == 3 or (rc == 0 and not summ):
            raise Infra('pkscript -replay failed: %s' % tail)
        if rc != 0:
            print('VIOLATION property=%s replay=%s' % (pid, replay))
            print('  the evaluating process died on this input (rc=%s): %s' % (rc, tail[:600]))
            return 1
        lines = {json.loads(x)['id']: json.loads(x) for x in open(out)}
        _, fails, cls = judge(scratch, out, len(lines), known_ids)
        viol, hits, infra = report(pid, tier, fails, lines, known)
        if viol:
            print('VIOLATION property=%s replay=%s' % (pid, replay))
            print('  failed clauses: %s' % ','.join(sorted(set(t for ts in viol.values() for t in ts))))
        for i, l in lines.items():
            print(json.dumps(dict(observed=brief(l), spec_class=cls.get(i), failures=[(t, k) for (j, t, k) in fails if j == i]), indent=1))
        if infra:
            raise Infra('specification and consensus library disagree on this input: %s' % sorted(infra))
        return 1 if viol else 0

    stats = dict(states=0, transitions=0, model_runs=[])
    # 1. TLC enumerates the structural cases (and checks the two levels of the specification against each other)
    cases, ncases = gen_cases(scratch, tier, stats)
    # 2. the harness concretises them, adds seeded inputs and evaluates the real code
    base = ['-cases', cases, '-reps', str(cfg['reps']), '-seed', str(vlib.seed()), '-pinned',
            '-random', str(cfg['random']), '-mut', str(cfg['mut']), '-long', str(cfg['long']), '-build', str(cfg['build'])]
    tg = time.time()
    files, total, by_src, crash = evaluate(binary, base, scratch, cfg['chunk'])
    go_wall = time.time() - tg
    if crash:
        p = vlib.save_replay(pid, '%s-died-%d' % (tier, crash['index']), dict(property=pid, failures=['process died'], case_index=crash['index'], input=crash['input'],
                             tail=crash['tail'], how='bin/check %s %s --replay <this file>' % (pid, tier)))
        print('VIOLATION property=%s replay=%s' % (pid, p))
        print('  the evaluating process died on input %s (a crash that recover() cannot catch): %s' % (json.dumps(crash['input']), crash['tail'][:300]))
        vlib.write_evidence(pid, tier, 'model_checking', dict(states=max(stats['states'], 1), transitions=max(stats['transitions'], 1),
                            traces_validated_against_impl=0, samples=[dict(case_index=crash['index'])]), time.time() - t0, 1, ASSUME)
        return 1
    # 3. TLC judges every line
    tj = time.time()
    all_fails, cls_all = [], {}
    with concurrent.futures.ThreadPoolExecutor(max_workers=cfg['tlc_par']) as ex:
        futs = [ex.submit(judge, scratch, path, b - a, known_ids) for (a, b, path) in files]
        for f, (a, b, path) in zip(futs, files):
            r, fails, cls = f.result()
            all_fails += fails
            cls_all.update(cls)
            stats['states'] += r.get('distinct', 0)
            stats['transitions'] += r.get('generated', 0)
    judge_wall = time.time() - tj
    # 4. classify and report
    need = set(i for (i, t, k) in all_fails)
    lines = {}
    for (a, b, path) in files:
        lines.update(load_lines(path, set(i for i in need if a < i <= b)))
    viol, hits, infra = report(pid, tier, all_fails, lines, known)
    if infra:
        ex = {t: [input_of(lines[i]) for i in ids[:2] if i in lines] for t, ids in infra.items()}
        raise Infra('the specification does not transcribe the consensus library / the generator (no verdict on the wallet): %s' % json.dumps(ex)[:2000])
    paths = save_violations(pid, tier, viol, lines)
    stale = sorted(k for k in known_ids if k not in hits)
    for k in stale:
        print('note: recorded finding %s did not reproduce on its pinned inputs (repaired?) - entry is stale' % k)
    demo = demo_binding(scratch, files, cls_all, known_ids) if tier == 'thorough' and not viol else None
    # 5. evidence
    builders = {}
    bre = re.compile(r'"k":"build".*?"bk":"(\w*)".*?"b":\{"st":"(\w*)"')
    for (a, b, path) in files:
        for line in open(path):
            m = bre.search(line[:400])
            if m:
                key = '%s/%s' % m.groups()
                builders[key] = builders.get(key, 0) + 1
    for must in ('std/ok', 'stk/ok', 'stk/err', 'bind/ok', 'bind/skip'):
        if builders.get(must, 0) == 0 and not viol:   # vacuity matters for a pass only
            raise Infra('vacuous run: no builder case with outcome %s' % must)
    by_class = {}
    for (part, cname) in cls_all.values():
        key = '%s/%s' % (part, cname)
        by_class[key] = by_class.get(key, 0) + 1
    for must in ('FULL/witness_v0_scripthash', 'FULL/staking_scripthash', 'FULL/binding_scripthash', 'PARTIAL/binding_scripthash',
                 'NONE/nonstandard', 'NONE/nulldata', 'NONE/multisig'):
        if by_class.get(must, 0) == 0 and not viol:
            raise Infra('vacuous run: no input of specification class %s' % must)
    rnd = random.Random(vlib.seed())
    a, b, path = files[0]
    sample_ids = set(rnd.sample(range(a + 1, b + 1), min(4, b - a)))
    first = {}
    for i, c in sorted(cls_all.items()):
        if a < i <= b and c[0] == 'FULL' and c[1] not in first:
            first[c[1]] = i
    sample_ids |= set(first.values())
    samples = []
    for i, l in sorted(load_lines(path, sample_ids).items()):
        s = brief(l)
        s['spec_class'] = '/'.join(cls_all.get(i, ('', '')))
        samples.append(s)
    cov = dict(states=max(stats['states'], 1), transitions=max(stats['transitions'], 1), traces_validated_against_impl=total,
               samples=samples, exhaustive=False,
               cases_enumerated_by_tlc=ncases, evaluations_by_source=by_src, inputs_by_specification_class=by_class, builder_outcomes=builders,
               failure_tags={t: sum(1 for f in all_fails if f[1] == t) for t in sorted(set(f[1] for f in all_fails))},
               known_finding_hits={k: len(set(h[0] for h in v)) for k, v in hits.items()}, stale_known_findings=stale,
               model_runs=stats['model_runs'], harness_wall_s=round(go_wall, 1), judging_wall_s=round(judge_wall, 1),
               trace_files=len(files), binding_demonstration=demo,
               decided_clauses=['ParsePkScript: class / owner / staking or binding-target address / maturity = Exp(script) for every pay template (FULL)',
                                'ParsePkScript: scripts matching no pay template are read as unsupported (ErrUnsupportedScript), nothing else',
                                'extractAddressInfos: class / recipient / staking address / binding target = Exp(script); no classification of non-templates',
                                'no panic in ParsePkScript, extractAddressInfos, DecodeRawTransaction, builders',
                                'builders: PayToWitnessV0Address / constructStakingTxOut (every other case as the third output of one request of four: same address with another period and another address with the same period before it, the same address after it) / binding script read back to the inputs'],
               rule='TLC enumerates token sequences over an adversarial alphabet (spec/PkScriptGen.tla) and builder cases; cmd/pkscript fills payloads (seeded), adds random byte strings, mutated templates, every template prefix and long scripts, evaluates the real code and the consensus library; TLC judges every line (spec/PkScriptTrace.tla Judged)')
    vlib.write_evidence(pid, tier, 'model_checking', cov, time.time() - t0, len(viol), ASSUME)
    print('%s %s: %d cases enumerated by TLC, %d evaluations judged by TLC (%s), %d model states, violations=%d known=%d wall=%.0fs'
          % (pid, tier, ncases, total, ', '.join('%s=%d' % kv for kv in sorted(by_src.items())), stats['states'], len(viol),
             sum(len(set(h[0] for h in v)) for v in hits.values()), time.time() - t0))
    return 1 if viol else 0


ASSUME = [
    'the address codec of the consensus library (massutil.DecodeAddress / EncodeAddress: bech32, base58check) is a trusted primitive: "agrees with the consensus address encoding" is checked as "decodes to the expected kind and bytes for this network and re-encodes to the same string"',
    'scripts are shorter than 65536 bytes (inputs of this check are at most about 1 KB)',
    'the binding builder is exercised as checkWitnessAddress + parseBindingTarget + the PayToBindingScriptHashScript call of masswallet/tx.go transcribed in the overlay export; the path through a funded wallet is covered by C10',
    '"never panics" is exercised on enumerated, random, mutated and truncated inputs, not proved for all byte strings',
    'unexported helpers are reached through two build-tagged files added with go build -overlay; /repo is not modified',
]
