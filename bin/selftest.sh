#!/bin/bash
# run every registered quick check with several seeds on the unchanged tree; print one line per run
cd "$(dirname "$0")/.."
ids=$(python3 -c "import json;print(' '.join(c['property_id'] for c in json.load(open('MANIFEST.json'))['checks']))")
for s in ${SEEDS:-1 2 3}; do
  for id in $ids; do
    t0=$(date +%s)
    out=$(VERIF_SEED=$s bin/check $id quick 2>&1); rc=$?
    echo "seed=$s $id rc=$rc $(( $(date +%s) - t0 ))s $(echo "$out" | grep -c '^VIOLATION') violations | $(echo "$out" | tail -1 | cut -c1-160)"
  done
done
