#!/bin/bash
# runs every registered thorough check once, sequentially; one summary line each
cd "$(dirname "$0")/.."
for p in ${@:-C20 C12 C09 C10 C01 C08 C06 C07 C18 C17 C02 C13 C14 C15 C16 C11 C19}; do
  s=$(date +%s)
  bin/check $p thorough > /tmp/thorough-$p.log 2>&1; rc=$?
  e=$(date +%s)
  echo "$p rc=$rc $((e-s))s viol=$(grep -c '^VIOLATION' /tmp/thorough-$p.log) | $(grep -v '^KNOWN-FINDING\|^  ' /tmp/thorough-$p.log | tail -1 | cut -c1-220)"
done
