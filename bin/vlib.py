#!/usr/bin/env python3
"""Shared plumbing of the /verif checks: scratch handling, building the Go
conformance harness against /repo's current working tree, running TLC,
parallel replay with child-death handling, known findings, evidence."""
import json, os, random, re, shutil, subprocess, sys, tempfile, time, hashlib

ROOT = os.path.dirname(os.path.dirname(os.path.abspath(__file__)))
SPEC = os.path.join(ROOT, 'spec')
HARNESS = os.path.join(ROOT, 'harness')
REPO = os.environ.get('VERIF_REPO', '/repo')
NPROC = int(os.environ.get('VERIF_PROCS', '16'))

GOENV = dict(os.environ, GOFLAGS='-mod=mod', GOPROXY='off', GOSUMDB='off', GOTOOLCHAIN='local', CGO_ENABLED='1')


def seed():
    try:
        return int(os.environ.get('VERIF_SEED', '1'))
    except ValueError:
        return 1


class Scratch:
    def __init__(self, tag):
        base = os.environ.get('VERIF_SCRATCH') or tempfile.gettempdir()
        self.dir = tempfile.mkdtemp(prefix='verif-%s-' % tag, dir=base)

    def sub(self, name):
        p = os.path.join(self.dir, name)
        os.makedirs(p, exist_ok=True)
        return p

    def cleanup(self):
        shutil.rmtree(self.dir, ignore_errors=True)


class Infra(Exception):
    """Infrastructure trouble: the check is inconclusive (exit 2), never a violation."""


def build_go(scratch, pkg, name, race=False):
    """Build harness command pkg (e.g. ./cmd/replay) against /repo's working tree with -tags verif."""
    out = os.path.join(scratch.dir, name)
    # the harness module replaces massnet.org/mass-wallet by /repo; keep go.sum in step with it
    try:
        shutil.copy(os.path.join(REPO, 'go.sum'), os.path.join(HARNESS, 'go.sum'))
    except OSError:
        pass
    cmd = ['go', 'build', '-tags', 'verif']
    if race:
        cmd.append('-race')
    cmd += ['-o', out, pkg]
    p = subprocess.run(cmd, cwd=HARNESS, env=GOENV, stdout=subprocess.PIPE, stderr=subprocess.STDOUT, text=True)
    if p.returncode != 0 or not os.path.exists(out):
        msg = '\n'.join(l for l in p.stdout.splitlines() if 'ld: ' not in l and not l.startswith('#'))
        raise Infra('go build %s failed:\n%s' % (pkg, msg[-3000:]))
    return out


def unescape(s):
    return s.replace('\\"', '"').replace('\\\\', '\\')


def _compact(text):
    """TLC's pretty-printer output of one value -> the single-line form TLC uses for short values"""
    out, i, n, instr = [], 0, len(text), False
    while i < n:
        c = text[i]
        if instr:
            out.append(c)
            if c == '\\' and i + 1 < n:
                out.append(text[i + 1])
                i += 1
            elif c == '"':
                instr = False
        elif c == '"':
            instr = True
            out.append(c)
        elif c in ' \t\n':
            if out and out[-1] != ' ':
                out.append(' ')
        else:
            out.append(c)
        i += 1
    t = ''.join(out).strip()
    # outside strings: no blank after an opening or before a closing bracket
    res, instr, k = [], False, 0
    while k < len(t):
        c = t[k]
        if instr:
            res.append(c)
            if c == '\\' and k + 1 < len(t):
                res.append(t[k + 1])
                k += 1
            elif c == '"':
                instr = False
        elif c == '"':
            instr = True
            res.append(c)
        elif c == ' ' and res and (res[-1] in '{[(' or ''.join(res[-2:]) == '<<'):
            pass
        elif c == ' ' and k + 1 < len(t) and (t[k + 1] in '}])' or t[k + 1:k + 3] == '>>'):
            pass
        else:
            res.append(c)
        k += 1
    return ''.join(res)


def unwrap_values(lines):
    """TLC breaks a printed value that is wider than 80 columns over several lines ('<< "TAG",' first);
    such a value is joined and compacted, so that line-based parsers see every printed value on one line"""
    buf = None
    for line in lines:
        if buf is None:
            if line.startswith('<< "') and not line.rstrip().endswith('>>'):
                buf = [line]
                continue
            if line.startswith('<< "') and line.rstrip().endswith('>>'):
                yield _compact(line) + '\n'
                continue
            yield line
        else:
            buf.append(line)
            if line.rstrip().endswith('>>') and not line.startswith('<< "'):
                yield _compact(''.join(buf)) + '\n'
                buf = None
            elif len(buf) > 5000:
                for b in buf:
                    yield b
                buf = None
    if buf:
        for b in buf:
            yield b


def tlc(*a, **k):
    """tlc_once; a TLC killed from outside (negative rc: OOM killer, a foreign pkill) is started again, twice at most"""
    for attempt in range(3):
        r = tlc_once(*a, **k)
        if r['rc'] >= 0:
            break
        time.sleep(2 + 3 * attempt)
    return r


def tlc_once(cfg, module, scratch, overrides=None, simulate=None, workers=None, timeout=3600, coverage=False, deadlock=None, extra=None, extra_files=None):
    """Run TLC; returns dict(rc, generated, distinct, violated, error, universe, histories, log).
    cfg is a file under spec/cfg; overrides replace 'NAME = value' lines."""
    work = tempfile.mkdtemp(prefix='tlc-', dir=scratch.dir)
    for f in os.listdir(SPEC):
        if f.endswith('.tla'):
            shutil.copy(os.path.join(SPEC, f), work)
    for name, content in (extra_files or {}).items():
        open(os.path.join(work, name), 'w').write(content)
    text = open(cfg if os.path.isabs(cfg) else os.path.join(SPEC, 'cfg', cfg)).read()
    for k, v in (overrides or {}).items():
        text, n = re.subn(r'(?m)^(\s*)%s\s*(=|<-).*$' % re.escape(k), (r'\g<1>%s ' % k) + v.replace('\\', '\\\\') if v.startswith('<-') else (r'\g<1>%s = ' % k) + v.replace('\\', '\\\\'), text)
        if n != 1:
            raise Infra('override %s: %d matches in %s' % (k, n, cfg))
    open(os.path.join(work, 'run.cfg'), 'w').write(text)
    cmd = ['tlc', '-metadir', os.path.join(work, 'meta'), '-noGenerateSpecTE', '-config', 'run.cfg']
    if simulate:
        cmd += ['-workers', '1', '-simulate', 'num=%d' % simulate['num'], '-depth', str(simulate['depth']), '-seed', str(simulate['seed'])]
    else:
        cmd += ['-workers', str(workers or NPROC)]
    if coverage:
        cmd += ['-coverage', '1']
    cmd += list(extra or [])
    cmd += [module]
    out = os.path.join(work, 'out.txt')
    t0 = time.time()
    with open(out, 'w') as fo:
        # own session: on timeout only this TLC (wrapper script and JVM) is killed, never a sibling check's
        pr = subprocess.Popen(cmd, cwd=work, stdout=fo, stderr=subprocess.STDOUT, start_new_session=True)
        try:
            rc = pr.wait(timeout=timeout)
        except subprocess.TimeoutExpired:
            try:
                os.killpg(pr.pid, 9)
            except OSError:
                pass
            pr.wait()
            rc = 124
    univ, hists, rest = None, [], []
    with open(out, errors='replace') as fi:
        for line in unwrap_values(fi):
            if line.startswith('<<"HIST", "'):
                hists.append(unescape(line.rstrip('\n')[len('<<"HIST", "'):-3]))
            elif line.startswith('<<"UNIV", "'):
                univ = json.loads(unescape(line.rstrip('\n')[len('<<"UNIV", "'):-3]))
            else:
                rest.append(line)
    log = ''.join(rest)
    r = dict(rc=rc, universe=univ, histories=hists, log=log, wall=time.time() - t0, cfg=cfg)
    m = re.findall(r'(\d+) states generated, (\d+) distinct states found', log)
    if m:
        r['generated'], r['distinct'] = int(m[-1][0]), int(m[-1][1])
    m = re.search(r'The number of states generated: (\d+)', log)
    if m and 'generated' not in r:
        r['generated'] = int(m.group(1))
        r['distinct'] = 0
    m = re.search(r'Invariant (\S+) is violated|Action property (\S+) is violated|Temporal properties were violated|Deadlock reached', log)
    r['violated'] = m.group(0) if m else None
    r['error'] = bool(re.search(r'Error: ', log)) and not r['violated']
    if coverage:
        r['zero_coverage'] = re.findall(r'(?m)^<(\w+) line .*>: 0:0$', log)
    shutil.rmtree(work, ignore_errors=True)
    return r


def trace_cfg(gen_cfg, scratch, trace_pend=True):
    """the configuration of a trace judge (spec/WalletTrace.tla) derived from a generator configuration:
    same universe constants, no queue bound, TraceSpec instead of GenSpec, acceptance by NotAccepted"""
    text = open(os.path.join(SPEC, 'cfg', gen_cfg)).read()
    text = text.replace('SPECIFICATION GenSpec', 'SPECIFICATION TraceSpec')
    text, n = re.subn(r'(?m)^(\s*)MaxQ\s*=.*$', r'\g<1>MaxQ = 99', text)
    text, m = re.subn(r'(?m)^INVARIANTS\s*\n\s*Emit\s*$', 'INVARIANTS\n    NotAccepted\nCONSTRAINT\n    Progress\nPOSTCONDITION\n    PrintProgress', text)
    text, k = re.subn(r'(?m)^CONSTANTS\s*$', 'CONSTANTS\n    TracePend = %s' % ('TRUE' if trace_pend else 'FALSE'), text, count=1)
    if n != 1 or m != 1 or k != 1 or 'SPECIFICATION TraceSpec' not in text:
        raise Infra('trace_cfg: %s does not have the expected shape' % gen_cfg)
    p = os.path.join(scratch.dir, 'Trace_%s_%s' % ('P' if trace_pend else 'N', gen_cfg))
    open(p, 'w').write(text)
    return p


def require_clean(r, what):
    """A model-checking run must finish without error; a violated invariant in the MODEL is not a
    verdict on the code (DESIGN section 5) - it makes the check inconclusive."""
    if r['rc'] == 124:
        raise Infra('%s: TLC timed out' % what)
    if r['violated']:
        raise Infra('%s: model-level %s (a statement about the specification, not the code)\n%s' % (what, r['violated'], r['log'][-2500:]))
    if r['error'] or r['rc'] != 0:
        raise Infra('%s: TLC failed rc=%s\n%s' % (what, r['rc'], r['log'][-2500:]))


def run_children(binary, args_for_range, n_items, scratch, procs=None, per_item_timeout=120):
    """Run `binary` over item indexes 0..n_items-1 split over processes.  The child prints
    'BEGIN i' before and 'RESULT json' after each item.  A child that dies (follower panic ->
    FATAL log -> os.Exit) is recorded for the item that was running and restarted after it.
    Returns list of result dicts (None where no result)."""
    procs = procs or NPROC
    results = [None] * n_items
    if n_items == 0:
        return results
    # a child handles at most 25 items (a child that had run 60 free-running worlds held 6-7 GB; 16 of them do not fit): worlds leave garbage behind (chain DBs on memory storage,
    # abandoned goroutines of crashed instances) and a long-lived child grows without bound
    chunk = max(1, min((n_items + procs - 1) // procs, 25))
    pending = [(a, min(a + chunk, n_items)) for a in range(0, n_items, chunk)]
    running = []

    def start(a, b, k):
        sdir = os.path.join(scratch.dir, 'child-%d-%d' % (a, k))
        os.makedirs(sdir, exist_ok=True)
        outp = os.path.join(sdir, 'out.txt')
        fo = open(outp, 'w')
        p = subprocess.Popen([binary] + args_for_range(a, b, sdir), stdout=fo, stderr=subprocess.STDOUT, cwd=sdir, env=GOENV)
        return dict(p=p, a=a, b=b, k=k, out=outp, fo=fo, dir=sdir, t0=time.time())

    deadline_per = per_item_timeout
    while running or pending:
        while pending and len(running) < procs:
            a, b = pending.pop(0)
            running.append(start(a, b, 0))
        time.sleep(0.05)
        for c in list(running):
            rc = c['p'].poll()
            timed_out = rc is None and time.time() - c['t0'] > deadline_per * max(1, c['b'] - c['a'])
            if rc is None and not timed_out:
                continue
            if timed_out:
                c['p'].kill()
                c['p'].wait()
            c['fo'].close()
            running.remove(c)
            cur = None
            tail = []
            with open(c['out'], errors='replace') as f:
                for line in f:
                    if line.startswith('BEGIN '):
                        cur = int(line.split()[1])
                        tail = []
                    elif line.startswith('RESULT '):
                        r = json.loads(line[7:])
                        results[r['index']] = r
                        cur = None
                    else:
                        tail.append(line)
            if cur is not None:
                try:
                    lg = open(os.path.join(c['dir'], 'logs', 'verif.log'), errors='replace').read()
                    fatal = [l for l in lg.splitlines() if 'level=fatal' in l or 'level=panic' in l]
                    tail.append('\n'.join(fatal[-3:])[-4000:])
                except OSError:
                    pass
            shutil.rmtree(c['dir'], ignore_errors=True)
            if cur is not None:
                # the child ended while item cur was running
                results[cur] = dict(index=cur, ok=False, died=True, timed_out=timed_out, rc=rc,
                                    err='process ended during this item (follower panic / FATAL exit)' if not timed_out else 'timed out',
                                    tail=''.join(tail)[-3000:], sig='died' if not timed_out else 'timeout')
                if cur + 1 < c['b']:
                    running.append(start(cur + 1, c['b'], c['k'] + 1))
            elif rc not in (0, None) and any(results[i] is None for i in range(c['a'], c['b'])):
                first = next(i for i in range(c['a'], c['b']) if results[i] is None)
                results[first] = dict(index=first, ok=False, infra=True, err='child failed rc=%s: %s' % (rc, ''.join(tail)[-1500:]), sig='infra')
                if first + 1 < c['b']:
                    running.append(start(first + 1, c['b'], c['k'] + 1))
    return results


# ---------------------------------------------------------------- known findings
def load_known():
    p = os.path.join(ROOT, 'known_findings.jsonl')
    out = []
    if os.path.exists(p):
        for line in open(p):
            line = line.strip()
            if line and not line.startswith('#'):
                out.append(json.loads(line))
    return out


# ---------------------------------------------------------------- evidence
def write_evidence(pid, tier, level, coverage, wall, violations, assumptions):
    os.makedirs(os.path.join(ROOT, 'evidence'), exist_ok=True)
    ev = dict(property_id=pid, tier=tier, seed=seed(), level=level, coverage=coverage,
              assumptions=assumptions, wall_s=round(wall, 2), violations=violations)
    tmp = os.path.join(ROOT, 'evidence', '.%s.json.tmp' % pid)
    json.dump(ev, open(tmp, 'w'), indent=1, sort_keys=True)
    os.replace(tmp, os.path.join(ROOT, 'evidence', '%s.json' % pid))


def save_replay(pid, name, obj):
    d = os.path.join(ROOT, 'out')
    os.makedirs(d, exist_ok=True)
    p = os.path.join(d, '%s-%s.json' % (pid, name))
    json.dump(obj, open(p, 'w'), indent=1)
    return p


def short_hash(s):
    return hashlib.sha1(s.encode()).hexdigest()[:10]


def sample(items, n, rnd):
    if len(items) <= n:
        return list(items)
    return rnd.sample(items, n)


def tla(v):
    """JSON value -> TLA+ literal"""
    if isinstance(v, bool):
        return 'TRUE' if v else 'FALSE'
    if isinstance(v, int):
        return str(v)
    if isinstance(v, str):
        return '"%s"' % v
    if isinstance(v, list):
        return '<<' + ', '.join(tla(x) for x in v) + '>>'
    if isinstance(v, dict):
        return '[' + ', '.join('%s |-> %s' % (k, tla(x)) for k, x in v.items()) + ']'
    raise ValueError(v)
