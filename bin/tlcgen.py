#!/usr/bin/env python3
"""Run TLC on a Gen_* config and extract the universe and the histories it prints."""
import json, os, re, subprocess, sys, shutil, tempfile

SPEC = os.path.join(os.path.dirname(os.path.abspath(__file__)), '..', 'spec')

def unescape(s):
    # TLC prints a TLA+ string: \" and \\ are the only escapes ToJson output needs
    return s.replace('\\"', '"').replace('\\\\', '\\')

def run(cfg, module, outdir, overrides=None, simulate=None, workers=16, timeout=1800, extra_constants=None):
    """cfg: file name under spec/cfg.  overrides: dict CONSTANT -> value text replacing lines 'NAME = ...'.
    simulate: None or dict(num=, depth=, seed=).  Returns (universe dict, list of history JSON strings, stats)."""
    work = tempfile.mkdtemp(prefix='tlc', dir=outdir)
    for f in os.listdir(SPEC):
        if f.endswith('.tla'):
            shutil.copy(os.path.join(SPEC, f), work)
    text = open(os.path.join(SPEC, 'cfg', cfg)).read()
    for k, v in (overrides or {}).items():
        text, n = re.subn(r'(?m)^(\s*)%s\s*=.*$' % re.escape(k), r'\g<1>%s = %s' % (k, v), text)
        if n != 1:
            raise SystemExit('override %s: %d matches in %s' % (k, n, cfg))
    open(os.path.join(work, 'run.cfg'), 'w').write(text)
    cmd = ['tlc', '-metadir', os.path.join(work, 'meta'), '-noGenerateSpecTE', '-config', 'run.cfg']
    if simulate:
        cmd += ['-workers', str(simulate.get('workers', 1)), '-simulate', 'num=%d' % simulate['num'], '-depth', str(simulate['depth']), '-seed', str(simulate['seed'])]
    else:
        cmd += ['-workers', str(workers)]
    cmd += [module]
    env = dict(os.environ)
    out = os.path.join(work, 'out.txt')
    with open(out, 'w') as fo:
        try:
            rc = subprocess.run(cmd, cwd=work, stdout=fo, stderr=subprocess.STDOUT, timeout=timeout, env=env).returncode
        except subprocess.TimeoutExpired:
            rc = 124
    univ, hists, rest = None, [], []
    with open(out, errors='replace') as fi:
        for line in fi:
            if line.startswith('<<"HIST", "'):
                hists.append(unescape(line.rstrip('\n')[len('<<"HIST", "'):-3]))
            elif line.startswith('<<"UNIV", "'):
                univ = json.loads(unescape(line.rstrip('\n')[len('<<"UNIV", "'):-3]))
            else:
                rest.append(line)
    log = ''.join(rest)
    stats = {'rc': rc}
    m = re.search(r'(\d+) states generated, (\d+) distinct states found', log)
    if m:
        stats['generated'], stats['distinct'] = int(m.group(1)), int(m.group(2))
    stats['error'] = bool(re.search(r'Error:|is violated|Exception', log))
    stats['log_tail'] = log[-3000:]
    shutil.rmtree(work, ignore_errors=True)
    return univ, hists, stats

if __name__ == '__main__':
    cfg, module, outdir = sys.argv[1:4]
    u, h, st = run(cfg, module, outdir)
    json.dump(u, open(os.path.join(outdir, 'universe.json'), 'w'))
    with open(os.path.join(outdir, 'histories.jsonl'), 'w') as f:
        for x in h:
            f.write(x + '\n')
    print(len(h), {k: v for k, v in st.items() if k != 'log_tail'})
    if st['error'] or st['rc'] != 0:
        print(st['log_tail'])
