"""C15 - Amount strings and integer amounts convert exactly.

spec/Amount.tla states the property (FORMAT / ROUND TRIP / PARSE with MUST-ACCEPT, MUST-REJECT and
DON'T-CARE classes).  TLC enumerates the bounded case space (spec/AmountGen.tla: every string of
length <= n over an adversarial alphabet, mutations of boundary numerals, every integer up to k digits,
boundary integers up to and beyond the supply) and checks the specification's own consistency on it;
harness/cmd/amount evaluates the implementation (api.StringToAmount, the CLI's stringToAmount,
api.AmountToString, masswallet.AmountToString, round trip) on those cases and on seeded random ones and
records an ndjson trace; TLC judges every line of the trace (spec/AmountTrace.tla).  Python only moves
files and counts."""
import json, os, random, shutil, subprocess, time
import vlib
from vlib import Infra

IDS = ['C15']

# classifiers that exist in spec/Amount.tla (KnownFor in AmountTrace.tla)
SUPPORTED_KNOWN = {'K-C15-1'}
# Used ONLY while known_findings.jsonl has no C15 entry at all (neither "known" nor "fixed"): the entry
# proposed with this check (see fixes/C15-1.diff for the repair).  Once the maintainer registers
# K-C15-1 (known) or F-C15-1 (fixed) the file alone decides.
PROPOSED_KNOWN = [{
    "id": "K-C15-1", "property": "C15", "status": "known", "kinds": ["must-reject-accepted"],
    "classifier": {"tla": "Amount!KnownSignTolerated", "functions": ["api.StringToAmount", "cli.stringToAmount"]},
    "summary": "StringToAmount tolerates one sign character in front of the integer part (after leading zeros) and one "
               "directly after the decimal point ('-' only before zeros): '+1' = 1, '-0.5' = 0.5, '00+7' = 7, '1.+5' = 1.05, '1.-' = 1",
    "example": "1.+5",
}]

BOUNDS = {
    'quick':    dict(EnumLen=6, IntLen=4, TernLen=9, random=50000, gen_workers=4, demo=1),
    'thorough': dict(EnumLen=7, IntLen=5, TernLen=11, random=400000, gen_workers=4, demo=3),
}
ALPHABET = '{48, 49, 57, 46, 43, 45, 101, 95}'          # 0 1 9 . + - e _
CHUNK = 250000                                          # trace lines per TLC run

EXPORT_GO = '''package cmd

import "github.com/massnetorg/mass-core/massutil"

// added to the build by overlay only (bin/p_C15.py); nothing is written to the repository
func VerifStringToAmount(s string) (massutil.Amount, error) { return stringToAmount(s) }
'''


def show(b):
    """byte list -> readable string"""
    return ''.join(chr(x) if 32 <= x < 127 and x != 92 else '\\x%02x' % x for x in b)


def num(d):
    return ''.join(str(x) for x in d)


def build(scratch):
    """Build harness/cmd/amount in a PRIVATE copy of the harness module: the replace directive follows
    VERIF_REPO, and the extra dependencies of the CLI package never reach the shared go.mod."""
    mod = scratch.sub('harness')
    os.makedirs(os.path.join(mod, 'cmd'), exist_ok=True)
    shutil.copytree(os.path.join(vlib.HARNESS, 'cmd', 'amount'), os.path.join(mod, 'cmd', 'amount'))
    if os.path.isdir(os.path.join(vlib.HARNESS, 'amountlib')):
        shutil.copytree(os.path.join(vlib.HARNESS, 'amountlib'), os.path.join(mod, 'amountlib'))
    gm = open(os.path.join(vlib.HARNESS, 'go.mod')).read()
    repo = os.path.realpath(vlib.REPO)
    out = []
    for line in gm.splitlines():
        if line.startswith('replace massnet.org/mass-wallet'):
            line = 'replace massnet.org/mass-wallet => %s' % repo
        out.append(line)
    open(os.path.join(mod, 'go.mod'), 'w').write('\n'.join(out) + '\n')
    shutil.copy(os.path.join(repo, 'go.sum'), os.path.join(mod, 'go.sum'))
    exp = os.path.join(scratch.dir, 'verif_c15_export.go')
    open(exp, 'w').write(EXPORT_GO)
    ov = os.path.join(scratch.dir, 'overlay.json')
    json.dump({'Replace': {os.path.join(repo, 'cmd', 'masswalletcli', 'cmd', 'verif_c15_export.go'): exp}}, open(ov, 'w'))
    binary = os.path.join(scratch.dir, 'amount')

    def go(args):
        p = subprocess.run(['go', 'build'] + args + ['-o', binary, './cmd/amount'], cwd=mod, env=vlib.GOENV,
                           stdout=subprocess.PIPE, stderr=subprocess.STDOUT, text=True)
        msg = '\n'.join(l for l in p.stdout.splitlines() if 'ld: ' not in l and not l.startswith('#'))
        return p.returncode == 0 and os.path.exists(binary), msg

    ok, msg = go(['-tags', 'verif,verif_cli', '-overlay', ov])
    if ok:
        return binary, True, ''
    ok2, msg2 = go(['-tags', 'verif'])
    if not ok2:
        raise Infra('go build ./cmd/amount failed:\n%s' % (msg2 or msg)[-3000:])
    return binary, False, msg[-600:]


def tlc_lines(log, tag):
    pre = '<<"%s", "' % tag
    out = []
    for line in log.splitlines():
        if line.startswith(pre):
            out.append(json.loads(vlib.unescape(line[len(pre):-3])))
    return out


def generate(tier, scratch, cases_path):
    """TLC enumerates the case space and prints one CASE line per distinct state; the lines are moved to
    cases_path (the specification's class stays behind as bookkeeping).  Returns (count, tlc result, overrides,
    per-family counts, per-class counts)."""
    b = BOUNDS[tier]
    ov = {'EnumLen': str(b['EnumLen']), 'IntLen': str(b['IntLen']), 'TernLen': str(b['TernLen']),
          'Alphabet': ALPHABET, 'MutOn': 'TRUE'}
    r = vlib.tlc('Amount_Gen.cfg', 'AmountGen.tla', scratch, overrides=ov, workers=b['gen_workers'], timeout=1500)
    vlib.require_clean(r, 'case generation (AmountGen)')
    n, fam_count, cls_count = 0, {}, {}
    pre = '<<"CASE", "'
    keep = []
    with open(cases_path, 'w') as f:
        for line in r['log'].splitlines():
            if not line.startswith(pre):
                keep.append(line)
                continue
            c = json.loads(vlib.unescape(line[len(pre):-3]))
            count_case(c, fam_count, cls_count)
            f.write(json.dumps({k: v for k, v in c.items() if k in ('k', 'fam', 'in', 'neg', 'd')}) + '\n')
            n += 1
    r['log'] = '\n'.join(keep)
    if not n or n != r.get('distinct', 0) - 1:
        raise Infra('case generation: %d cases printed for %s distinct states' % (n, r.get('distinct')))
    return n, r, ov, fam_count, cls_count


def count_case(c, fam_count, cls_count):
    fam_count[c.get('fam', '?')] = fam_count.get(c.get('fam', '?'), 0) + 1
    key = '%s:%s' % (c.get('cls', '?'), c.get('why', '?')) if c['k'] == 'parse' else 'fmt:%s' % c.get('cls', '?')
    cls_count[key] = cls_count.get(key, 0) + 1


def run_go(binary, args, what):
    p = subprocess.run([binary] + args, env=vlib.GOENV, stdout=subprocess.PIPE, stderr=subprocess.STDOUT, text=True, timeout=1200)
    if p.returncode != 0 or 'EVALUATED' not in p.stdout:
        raise Infra('%s: harness command failed rc=%s: %s' % (what, p.returncode, p.stdout[-1500:]))
    return int(p.stdout.split('EVALUATED')[1].split()[0])


def judge(scratch, path, enabled, strict, what, workers=None):
    r = vlib.tlc('Amount_Trace.cfg', 'AmountTrace.tla', scratch,
                 overrides={'TraceFile': '"%s"' % path,
                            'KnownEnabled': '{' + ', '.join('"%s"' % k for k in sorted(enabled)) + '}',
                            'StrictMode': 'TRUE' if strict else 'FALSE'},
                 workers=workers or 4, timeout=1500)
    if r['rc'] == 124 or r['error'] or (r['rc'] != 0 and not r['violated']):
        raise Infra('%s: TLC failed rc=%s\n%s' % (what, r['rc'], r['log'][-2500:]))
    if r['violated'] and 'Conforms' not in r['violated']:
        raise Infra('%s: unexpected %s\n%s' % (what, r['violated'], r['log'][-2500:]))
    return r, tlc_lines(r['log'], 'DEVIATION')


def describe(line, dv):
    """human-readable account of one deviating trace line"""
    if line['k'] == 'parse':
        res = line['api'] if dv['fn'].startswith('api') else line['cli']
        got = 'panic' if res['panic'] else ('accepted as %s Maxwell' % num(res['val']) if res['ok'] else 'rejected')
        req = {'must-reject-accepted': 'must be rejected (%s)' % dv['why'],
               'must-accept-rejected': 'must be accepted',
               'wrong-value': 'must yield value x 10^8 exactly',
               'panic': 'must not panic'}.get(dv['clause'], dv['clause'])
        return '%s("%s") %s; %s' % (dv['fn'], show(line['in']), got, req)
    m = ('-' if line['neg'] else '') + num(line['d'])
    if dv['fn'].startswith('api.StringToAmount('):
        rt = line['rt']
        return 'round trip of %s: formatted "%s", parsed back %s' % (m, show(line['fapi']['out']), num(rt['val']) if rt['ok'] else 'rejected')
    res = line['fapi'] if dv['fn'].startswith('api') else line['fmw']
    got = 'panic' if res['panic'] else ('"%s"' % show(res['out']) if res['ok'] else 'error')
    return '%s(%s) = %s; %s' % (dv['fn'], m, got, dv['clause'])


def case_of(line):
    if line['k'] == 'parse':
        return {'k': 'parse', 'fam': line.get('fam', ''), 'in': line['in']}
    return {'k': 'fmt', 'fam': line.get('fam', ''), 'neg': line['neg'], 'd': line['d']}


def binding_demo(scratch, hdr, lines, enabled, how_many, rnd):
    """Corrupt one recorded field of an otherwise conforming line; TLC (StrictMode) must reject the trace."""
    def conforming(l):
        if l['k'] == 'parse':
            return l['api']['ok'] and len(l['api']['val']) >= 1 and all(48 <= c <= 57 or c == 46 for c in l['in']) and l['in'] and l['in'][0] != 46 and l['in'][-1] != 46
        return l['k'] == 'fmt' and l['fapi']['ok'] and l['hasrt']
    pool_p = [l for l in lines if l['k'] == 'parse' and conforming(l)]
    pool_f = [l for l in lines if l['k'] == 'fmt' and conforming(l)]
    if not pool_p or not pool_f:
        raise Infra('binding demonstration: no conforming accepted line to corrupt')
    demos = []

    def flip_val(l):
        l['api']['val'][-1] = (l['api']['val'][-1] + 1) % 10
        return 'last digit of the recorded api value changed'

    def flip_ok(l):
        l['api']['ok'] = False
        l['api']['val'] = []
        return 'recorded acceptance turned into a rejection'

    def flip_out(l):
        l['fmw']['out'] = l['fmw']['out'] + [48]
        return 'a "0" appended to the recorded masswallet.AmountToString output'
    plans = [(pool_p, flip_val), (pool_f, flip_out), (pool_p, flip_ok)][:how_many]
    context = rnd.sample(lines, min(40, len(lines)))
    for k, (pool, fn) in enumerate(plans):
        victim = json.loads(json.dumps(rnd.choice(pool)))
        clean = json.loads(json.dumps(victim))
        what = fn(victim)
        for name, v, expect in (('corrupt', victim, True), ('clean', clean, False)):
            if name == 'clean' and k > 0:
                continue
            path = os.path.join(scratch.dir, 'demo-%d-%s.ndjson' % (k, name))
            with open(path, 'w') as f:
                for l in [hdr] + context[:20] + [v] + context[20:]:
                    f.write(json.dumps(l) + '\n')
            r, devs = judge(scratch, path, enabled, True, 'binding demonstration', workers=1)
            rejected = bool(r['violated'])
            if rejected != expect:
                raise Infra('binding demonstration %d (%s): TLC %s the %s trace' % (k, what, 'rejected' if rejected else 'accepted', name))
        demos.append({'corruption': what, 'case': case_of(victim), 'tlc_rejected_corrupt_trace': True})
    return demos


def check(pid, tier, scratch, replay):
    t0 = time.time()
    if tier not in BOUNDS:
        tier = 'quick'
    b = BOUNDS[tier]
    rnd = random.Random(vlib.seed())
    walls = {}

    # ---- known findings
    mine = [k for k in vlib.load_known() if k.get('property') == pid]
    proposed_in_use = False
    if not mine:
        mine = PROPOSED_KNOWN
        proposed_in_use = True
    enabled = {k['id'] for k in mine if k.get('status') == 'known' and k['id'] in SUPPORTED_KNOWN}
    summaries = {k['id']: k.get('summary', '') for k in mine}

    # ---- build
    t = time.time()
    binary, cli_linked, cli_msg = build(scratch)
    walls['go_build'] = round(time.time() - t, 2)
    if not cli_linked:
        print('NOTE: property=%s the CLI package could not be linked with the export overlay; cli.stringToAmount is NOT evaluated in this run (%s)'
              % (pid, cli_msg.strip().splitlines()[-1][-200:] if cli_msg.strip() else ''))

    # ---- cases
    gen_r, gen_ov, fam_count, cls_count = None, None, {}, {}
    cases_path = os.path.join(scratch.dir, 'cases.ndjson')
    if replay:
        obj = json.load(open(replay))
        rc = obj['cases'] if isinstance(obj, dict) else obj
        with open(cases_path, 'w') as f:
            for c in rc:
                count_case(c, fam_count, cls_count)
                f.write(json.dumps({k: v for k, v in c.items() if k in ('k', 'fam', 'in', 'neg', 'd')}) + '\n')
        n_cases, n_random = len(rc), 0
    else:
        t = time.time()
        n_cases, gen_r, gen_ov, fam_count, cls_count = generate(tier, scratch, cases_path)
        walls['tlc_generate'] = round(time.time() - t, 2)
        n_random = b['random']
    n_parse = sum(v for k, v in cls_count.items() if not k.startswith('fmt:'))

    # ---- implementation
    t = time.time()
    tr_enum = os.path.join(scratch.dir, 'trace-enum.ndjson')
    n_enum = run_go(binary, ['-cases', cases_path, '-out', tr_enum], 'enumerated cases')
    if n_enum != n_cases:
        raise Infra('harness evaluated %d of %d cases' % (n_enum, n_cases))
    files = [tr_enum]
    if n_random:
        tr_rand = os.path.join(scratch.dir, 'trace-rand.ndjson')
        if run_go(binary, ['-random', str(n_random), '-seed', str(vlib.seed()), '-out', tr_rand], 'random cases') != n_random:
            raise Infra('harness evaluated fewer random cases than asked')
        files.append(tr_rand)
    walls['impl_eval'] = round(time.time() - t, 2)

    # ---- split into TLC-sized chunks, each with the header line
    hdr, raw = None, []
    for p in files:
        with open(p) as f:
            h = f.readline()
            hdr = hdr or h
            if h != hdr:
                raise Infra('trace headers differ')
            raw.extend(f)
    hdr_obj = json.loads(hdr)
    chunks = []
    for a in range(0, len(raw), CHUNK):
        path = os.path.join(scratch.dir, 'trace-%d.ndjson' % (a // CHUNK))
        with open(path, 'w') as f:
            f.write(hdr)
            f.writelines(raw[a:a + CHUNK])
        chunks.append((path, a, min(CHUNK, len(raw) - a)))

    # ---- TLC judges every line
    t = time.time()
    devs, judged_states, judged_lines, strict_clean = [], 0, 0, True
    for path, base, n in chunks:
        r, d = judge(scratch, path, enabled, True, 'trace judgement')
        if r['violated']:
            # a deviation no known finding explains: let TLC report ALL deviating lines of this chunk
            strict_clean = False
            r, d = judge(scratch, path, enabled, False, 'trace judgement (report mode)')
        if r.get('distinct') != n + 1:
            raise Infra('trace judgement: TLC judged %s of %d lines\n%s' % (r.get('distinct'), n + 1, r['log'][-1500:]))
        judged_states += r['distinct']
        judged_lines += n
        for x in d:
            if x['line'] == 1:
                raise Infra('the linked mass-core uses other constants than Amount.tla (max=%s unit=%s): the specification must be revisited'
                            % (num(hdr_obj.get('max', [])), num(hdr_obj.get('unit', []))))
            x['idx'] = base + x['line'] - 2
            devs.append(x)
    walls['tlc_judge'] = round(time.time() - t, 2)

    lines_cache = {}

    def line_at(i):
        if i not in lines_cache:
            lines_cache[i] = json.loads(raw[i])
        return lines_cache[i]

    known_hits, unknown = {}, []
    for x in devs:
        if x['known']:
            known_hits.setdefault((x['known'], x['fn']), []).append(x)
        else:
            unknown.append(x)

    # ---- violations: confirm on the real code (fresh evaluation of exactly these inputs, TLC strict), save replay
    violations, replay_path = 0, None
    if unknown:
        seen, idxs = set(), []
        for i in sorted({x['idx'] for x in unknown}, key=lambda i: (len(raw[i]), i)):     # shortest first, one per distinct input
            key = json.dumps(case_of(line_at(i)), sort_keys=True)
            if key not in seen:
                seen.add(key)
                idxs.append(i)
        keep = set(idxs)
        unknown = sorted((x for x in unknown if x['idx'] in keep), key=lambda x: (len(raw[x['idx']]), x['idx']))
        vcases = [case_of(line_at(i)) for i in idxs]
        cp = os.path.join(scratch.dir, 'confirm-cases.ndjson')
        with open(cp, 'w') as f:
            for c in vcases[:5000]:
                f.write(json.dumps(c) + '\n')
        ct = os.path.join(scratch.dir, 'confirm-trace.ndjson')
        run_go(binary, ['-cases', cp, '-out', ct], 'confirmation')
        r, d = judge(scratch, ct, enabled, True, 'confirmation', workers=1)
        if not r['violated']:
            raise Infra('deviations reported for %d inputs did not reproduce on a second evaluation' % len(idxs))
        groups = {}
        for x in unknown:
            groups.setdefault((x['fn'], x['clause'], x['why']), []).append(x)
        obj = {'property': pid, 'tier': tier, 'seed': vlib.seed(), 'cases': vcases[:5000],
               'deviations': [{'fn': k[0], 'clause': k[1], 'why': k[2], 'count': len(v),
                               'examples': [describe(line_at(x['idx']), x) for x in v[:10]]} for k, v in sorted(groups.items())]}
        replay_path = replay if replay else vlib.save_replay(pid, '%s-%s' % (tier, vlib.short_hash(json.dumps(vcases[:50]))), obj)
        for k, v in sorted(groups.items()):
            print('  %s %s%s: %d inputs, e.g. %s' % (k[0], k[1], ' (%s)' % k[2] if k[2] else '', len(v),
                                                    ' | '.join(describe(line_at(x['idx']), x) for x in v[:3])))
        violations = len(idxs)

    # ---- known findings
    known_report = []
    for (kid, fn), v in sorted(known_hits.items()):
        ex = [describe(line_at(x['idx']), x) for x in sorted(v, key=lambda x: len(line_at(x['idx']).get('in', [])))[:3]]
        print('KNOWN-FINDING: property=%s %s %s accepts signed input on %d of the judged inputs (%s), e.g. %s'
              % (pid, kid, fn, len(v), summaries.get(kid, ''), ' | '.join(ex)))
        known_report.append({'id': kid, 'fn': fn, 'inputs': len(v), 'examples': ex})
    stale = sorted(k for k in enabled if not any(kid == k for (kid, _) in known_hits))
    if stale and not replay:
        print('NOTE: property=%s known finding %s was not observed in this run (repaired? the entry is stale)' % (pid, ', '.join(stale)))
    if proposed_in_use and enabled:
        print('NOTE: property=%s known_findings.jsonl has no C15 entry yet; the built-in PROPOSED entry K-C15-1 classifies the sign findings '
              '(repair: fixes/C15-1.diff)' % pid)

    # ---- binding demonstration
    demos = []
    if not replay and not unknown:
        t = time.time()
        sample_lines = [line_at(i) for i in rnd.sample(range(len(raw)), min(4000, len(raw)))]
        demos = binding_demo(scratch, hdr_obj, sample_lines, enabled, b['demo'], rnd)
        walls['binding_demo'] = round(time.time() - t, 2)

    # ---- evidence
    samples = []
    want = ['accept', 'reject', 'dontcare', 'fmt']
    for i in rnd.sample(range(len(raw)), min(3000, len(raw))):
        l = line_at(i)
        if l['k'] == 'parse':
            s = {'kind': 'parse', 'family': l['fam'], 'input': show(l['in']),
                 'api.StringToAmount': num(l['api']['val']) if l['api']['ok'] else 'error',
                 'cli.stringToAmount': num(l['cli']['val']) if l['cli']['ok'] else 'error'}
        else:
            s = {'kind': 'format', 'family': l['fam'], 'maxwell': ('-' if l['neg'] else '') + num(l['d']),
                 'api.AmountToString': show(l['fapi']['out']) if l['fapi']['ok'] else 'error',
                 'masswallet.AmountToString': show(l['fmw']['out']) if l['fmw']['ok'] else 'error',
                 'parsed_back': num(l['rt']['val']) if l['rt']['ok'] else None}
        tag = 'fmt' if l['k'] == 'fmt' else ('accept' if l['api']['ok'] else 'reject')
        if sum(1 for x in samples if x['_t'] == tag) < 4:
            s['_t'] = tag
            samples.append(s)
        if len(samples) >= 12:
            break
    for s in samples:
        del s['_t']
    for (kid, fn), v in sorted(known_hits.items())[:1]:
        samples.append({'kind': 'known-finding', 'id': kid, 'examples': [describe(line_at(x['idx']), x) for x in v[:4]]})

    coverage = {
        'states': (gen_r['distinct'] if gen_r else 0) + judged_states,
        'transitions': (gen_r['generated'] if gen_r else 0) + judged_states,
        'traces_validated_against_impl': judged_lines,
        'samples': samples,
        'exhaustive': False,
        'generator_states': gen_r['distinct'] if gen_r else 0,
        'trace_lines_judged_by_tlc': judged_lines,
        'enumerated_cases': n_cases,
        'enumerated_parse_cases': n_parse,
        'enumerated_format_cases': n_cases - n_parse,
        'random_cases': n_random,
        'random_seed': vlib.seed(),
        'cases_by_family': fam_count,
        'spec_class_of_enumerated_cases': cls_count,
        'bounds': dict(gen_ov or {}, alphabet='0 1 9 . + - e _', note='every string of length <= EnumLen over the alphabet; every integer of <= IntLen digits; '
                       'digit strings over {0,1,9} of <= TernLen digits; d*10^k+{-1,0,1} for k <= 18; mutations (20 byte sequences x insert/replace x every position) of 20 boundary numerals'),
        'functions_judged': ['api.StringToAmount', 'cli.stringToAmount' if cli_linked else 'cli.stringToAmount (NOT LINKED)', 'api.AmountToString',
                             'masswallet.AmountToString', 'api.StringToAmount(api.AmountToString(m))'],
        'cli_parser_linked': cli_linked,
        'deviating_inputs_unknown': violations,
        'known_findings': known_report,
        'known_findings_enabled': sorted(enabled),
        'known_findings_source': 'built-in proposed entry (known_findings.jsonl has no C15 entry)' if proposed_in_use else 'known_findings.jsonl',
        'known_findings_stale': stale,
        'strict_invariant_held_with_known_excluded': strict_clean,
        'model_invariants_on_generated_space': ['ClassTotal', 'ShortestOK'] if gen_r else [],
        'binding_demonstration': demos,
        'wall_by_phase_s': walls,
        'replay_of': replay,
    }
    assumptions = [
        'decimal printing of integers (strconv, math/big) in the harness and JSON transport are trusted',
        'the supply limit is mass-core consensus.MaxMass = 206438400 MASS; the trace header carries the linked value and TLC compares it with Amount.tla',
        'strings "", ".", ".5", "5." (empty integer or fractional part) are DON\'T-CARE for acceptance; an accepted one must carry the natural value',
        'formatting outside [0, MaxAmount] is DON\'T-CARE between an error and the exact signed decimal',
        'the CLI parser is held to the property on strings its preprocessing (TrimSuffix "MASS", TrimSpace) cannot touch; on decorated strings only the value is checked',
        'error messages / kinds are not compared',
    ]
    if not cli_linked:
        assumptions.append('the CLI package could not be linked with the export overlay (%s); its parser was NOT evaluated in this run' % cli_msg.strip()[-200:])
    vlib.write_evidence(pid, tier, 'model_checking', coverage, time.time() - t0, violations, assumptions)

    print('C15 %s: %d enumerated + %d random cases, %d trace lines judged by TLC, %d known-finding inputs, %d unexplained; %.1fs'
          % (tier, n_cases, n_random, judged_lines, len({x['idx'] for x in devs if x['known']}), violations, time.time() - t0))
    if violations:
        print('VIOLATION property=%s replay=%s' % (pid, replay_path))
        return 1
    return 0
