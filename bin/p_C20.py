"""C20 - shutdown always completes; follower and worker never deadlock.
Model: spec/Stop.tla (channel-level protocol of handle / worker / Stop), checked by TLC for
deadlock freedom, task-queue capacity and - under weak fairness - termination of Stop, processing of
every tip and completion of every task.  Binding: every maximal behaviour of the model whose steps
can be forced through the scheduling gates is replayed on the real goroutines."""
import json, re, os, random, time
import vlib, props
from vlib import Infra

IDS = ['C20']
KINDS = ['free-not-quiescent', 'trace-rejected', 'stop-hangs', 'task-lost', 'tip-not-processed', 'task-refused', 'schedule-not-followed', 'died', 'timeout', 'step-error']
props.KINDS['C20'] = KINDS
AMBIGUOUS_AFTER_CLOSE = ('WTake', 'HBlock', 'Suspend', 'Resume')   # a select with quit closed AND another ready case picks at random


def forceable(actions):
    if 'SClose' not in actions:
        return True
    after = actions[actions.index('SClose') + 1:]
    return not any(a in AMBIGUOUS_AFTER_CLOSE for a in after)


def tlc_hist(cfg, module, scratch, ov):
    r = vlib.tlc(cfg, module, scratch, overrides=ov, workers=4, timeout=900)
    vlib.require_clean(r, 'generator %s %s' % (cfg, ov))
    return r


def judge_traces(scratch, traces):
    """each trace (list of event dicts) -> dict(accepted, maxl): TLC on StopTrace.tla; accepted iff the whole trace is consumed"""
    import concurrent.futures

    def one(lines):
        r = vlib.tlc('Stop_Trace.cfg', 'StopTrace.tla', scratch, workers=1, timeout=600,
                     extra_files={'trace.ndjson': '\n'.join(json.dumps(x) for x in lines) + '\n'})
        if r['rc'] == 124 or r['error']:
            raise Infra('trace judge failed: rc=%s\n%s' % (r['rc'], r['log'][-1500:]))
        m = re.search(r'"MAXL", (\d+), (\d+)', r['log'])
        return dict(accepted=bool(r['violated'] and 'NotAccepted' in r['violated']), maxl=int(m.group(1)) if m else 0,
                    states=r.get('distinct', 0))
    with concurrent.futures.ThreadPoolExecutor(max_workers=8) as ex:
        return list(ex.map(one, traces))


def check(pid, tier, scratch, replay):
    t0 = time.time()
    rnd = random.Random(vlib.seed())
    quick = tier == 'quick'
    uni = None
    if replay:
        r = json.load(open(replay))
        res = props.replay_jobs(scratch, [dict(u=r['universe'], h=[], mode='stop-schedule', opt=r['opt'])])
        print(json.dumps(res[0], indent=1))
        return 1 if set(props.kinds_of(res[0])) & set(KINDS) else 0
    states = trans = 0
    runs = []
    for cfg, ov in (('MC_Stop.cfg', {}), ('MC_Stop_queue.cfg', {}), ('MC_Stop.cfg', {'Tasks': '<- TasksI4', 'Rounds': '2' if quick else '3', 'Blocks': '1'})):
        m = vlib.tlc(cfg, 'MC_Stop.tla', scratch, overrides=ov, workers=4, timeout=1800)
        vlib.require_clean(m, 'model %s %s' % (cfg, ov))
        states += m.get('distinct', 0)
        trans += m.get('generated', 0)
        runs.append(dict(cfg=cfg, overrides=ov, distinct=m.get('distinct')))
    # the universe of the replay worlds (wallet w1 present, w2 restorable, one-height rescan batches)
    g = vlib.tlc('Gen_Pay.cfg', 'MC_Pay.tla', scratch, overrides={'GenDepth': '2', 'GenForkLen': '0', 'Lifecycle': 'TRUE', 'InitAbsent': '{"w2"}', 'ImportBatch': '1'})
    vlib.require_clean(g, 'universe')
    uni = g['universe']
    jobs = []
    total = 0
    for tasks, blocks in (('TasksR', 1), ('TasksI', 0), ('TasksNone', 2)):
        r = tlc_hist('Gen_Stop.cfg', 'StopGen.tla', scratch, {'Tasks': '<- ' + tasks, 'Blocks': str(blocks)})
        hs = [json.loads(h) for h in sorted(set(r['histories']))]
        total += len(hs)
        ok = [h for h in hs if forceable(h['actions'])]
        take = vlib.sample(ok, 60 if quick else 10000, rnd)
        for h in take:
            jobs.append(dict(u=uni, h=[], mode='stop-schedule', opt=dict(actions=h['actions'], tasks=h['tasks'], final=h['final']), src='Gen_Stop ' + tasks))
        runs.append(dict(cfg='Gen_Stop.cfg', tasks=tasks, behaviours=len(hs), forceable=len(ok), replayed=len(take)))
    # task queue capacity: four restores accepted back to back, each needing two rescan batches
    g5 = vlib.tlc('Gen_Pay.cfg', 'MC_Pay.tla', scratch, overrides={'GenDepth': '2', 'GenForkLen': '0', 'Lifecycle': 'TRUE', 'ImportBatch': '1',
                  'Wallets': '{"w1", "w2", "w3", "w4", "w5"}', 'InitAbsent': '{"w2", "w3", "w4", "w5"}'})
    vlib.require_clean(g5, 'universe with five wallets')
    r = vlib.tlc('Gen_Stop.cfg', 'StopGen.tla', scratch, overrides={'Tasks': '<- TasksI', 'Blocks': '0', 'MaxAccept': '3', 'StopEnabled': 'FALSE'},
                 simulate=dict(num=400 if quick else 6000, depth=80, seed=vlib.seed() + 17), timeout=900)
    vlib.require_clean(r, 'generator Gen_Stop (accepts)')
    hs = [json.loads(h) for h in sorted(set(r['histories']))]
    total += len(hs)
    idle = [h for h in hs if h['final'] == 'idle']
    stopped = [h for h in hs if h['final'] == 'stopped' and forceable(h['actions'])]
    for h in vlib.sample(idle, 40 if quick else 3000, rnd) + vlib.sample(stopped, 20 if quick else 2000, rnd):
        jobs.append(dict(u=g5['universe'], h=[], mode='stop-schedule', opt=dict(actions=h['actions'], tasks=h['tasks'], final=h['final']), src='Gen_Stop TasksI + 3 accepts'))
    runs.append(dict(cfg='Gen_Stop.cfg', tasks='TasksI + 3 accepts', behaviours=len(hs), never_stopped=len(idle)))
    n_sched = len(jobs)
    # code -> spec: free-running goroutines, random placement of the stop request, traces judged by TLC (StopTrace.tla)
    scen = [(['import', 'import'], 3), (['remove'], 2), (['import', 'remove', 'import', 'import'], 4), ([], 3),
            (['import', 'import', 'import', 'import'], 2), (['remove', 'import'], 3)]
    n_free = 48 if quick else 900
    for i in range(n_free):
        t, b = scen[i % len(scen)]
        jobs.append(dict(u=g5['universe'], h=[], mode='stop-free', src='free-run',
                         opt=dict(tasks=t, blocks=b, seed=vlib.seed() * 100003 + i, final='idle' if i % 5 == 4 else 'stopped')))
    results = props.replay_jobs(scratch, jobs)
    redo = [i for i, r in enumerate(results) if r is None or r.get('died') or (r.get('diffs') and not r.get('ok'))]
    if redo and len(redo) <= 30:
        for i, r in zip(redo, props.replay_jobs(scratch, [jobs[i] for i in redo])):
            if r is not None and r.get('ok'):
                results[i] = dict(r, index=i, flaky=True)
    # judge the recorded traces
    tr = [(i, r) for i, r in enumerate(results) if jobs[i]['mode'] == 'stop-free' and r and r.get('lines')]
    judged = judge_traces(scratch, [r['lines'] for _, r in tr])
    rejected = [(jobs[i], r, j) for (i, r), j in zip(tr, judged) if not j['accepted']]
    events = sum(len(r['lines']) for _, r in tr)
    if rejected:
        job, r, j = rejected[0]
        p = vlib.save_replay(pid, '%s-trace-%s' % (tier, vlib.short_hash(json.dumps(r['lines']))), dict(property=pid, opt=job['opt'], trace=r['lines'], longest_explained_prefix=j['maxl']))
        raise Infra('%d of %d traces of the free-running system are not behaviours of spec/Stop.tla (first: %d of %d events explained, next event %s; trace kept in %s): '
                    'the specification no longer describes the code - no verdict' % (len(rejected), len(tr), j['maxl'] - 1, len(r['lines']),
                    r['lines'][j['maxl'] - 1] if 0 < j['maxl'] <= len(r['lines']) else None, p))
    # liveness with storage faults (code -> spec, spec/WalletTrace.tla): follower and worker run freely with imports and
    # removals while up to three storage calls fail at random; after a failed update the worker must resume the
    # follower and re-queue its task, every announced tip must still be processed and every task must still finish
    tjobs, tres, tjudged, tstates = props.trace_stage(scratch, [
        ('Gen_Pay.cfg', 'MC_Pay.tla', {}, dict(props.LIFE), 'trace-f', 30 if quick else 600, 16),
        ('Gen_Stake.cfg', 'MC_Stake.tla', props.STAKE_X, dict(props.REMOVE_ONLY), 'trace-f', 30 if quick else 600, 16),
        # announcements (every third one relayed twice) between the tips: every notification must still be consumed
        ('Gen_Pay.cfg', 'MC_Pay.tla', {}, dict(props.P), 'trace', 30 if quick else 600, 14)], seed_mul=41)
    jobs += tjobs
    results += tres
    violations, infra = [], 0
    for job, res in zip(jobs, results):
        ks = set(props.kinds_of(res))
        if 'infra' in ks:
            infra += 1
        elif ks & set(KINDS):
            violations.append((job, res))
    if infra > max(3, len(jobs) // 10):
        raise Infra('%d of %d schedule replays inconclusive: %s' % (infra, len(jobs), [r.get('err') for r in results if r and r.get('err')][:2]))
    seen = set()
    for job, res in violations:
        sig = ','.join(sorted(set(props.kinds_of(res)) & set(KINDS)))
        if sig in seen and len(seen) >= 2:
            continue
        seen.add(sig)
        p = vlib.save_replay(pid, '%s-%s' % (tier, vlib.short_hash(json.dumps(job['opt']))), dict(property=pid, universe=job['u'], opt=job['opt'], result=res))
        print('VIOLATION property=%s replay=%s' % (pid, p))
        print('  schedule: %s (tasks %s, model final state: %s)' % (' '.join(job['opt'].get('actions') or ['free-running']), job['opt'].get('tasks'), job['opt'].get('final')))
        if job['mode'] == 'trace-f':
            print('  free-running replay with injected storage faults; history: %s' % props.describe(job['h']))
        for d in (res.get('diffs') or [])[:2]:
            print('  %s: want=%s got=%s' % (d['kind'], d['want'], d['got'][:1500]))
        if res.get('err'):
            print('  err: %s' % res['err'])
    cov = dict(states=max(states, 1), transitions=max(trans, 1), traces_validated_against_impl=len(jobs) - infra,
               samples=[dict(schedule=j['opt']['actions'], tasks=j['opt']['tasks'], final=j['opt']['final']) for j in jobs[:4]],
               free_running_traces_judged_by_TLC=len(tr), free_running_trace_events=events, free_running_without_stop_request=sum(1 for i, _ in tr if jobs[i]['opt']['final'] == 'idle'),
               trace_spec='spec/StopTrace.tla (every trace accepted: all events consumed)',
               free_running_traces_with_injected_faults_judged_by_tlc=tjudged, trace_lines_by_event=dict(sorted(props.TRACE_EVENTS.items())), fault_trace_judge_states=tstates,
               model_runs=runs, maximal_behaviours_of_model=total, inconclusive=infra,
               liveness_checked=['StopReturns', 'TipsProcessed', 'TasksFinish'],
               rule='every maximal behaviour of spec/Stop.tla for three scenarios (removal + a tip, two-batch import, tips only); those whose steps after close(quit) are forced (no select with two ready cases) are replayed: each model action releases the goroutine(s) performing it from its scheduling gate and waits for the next gate; the final state says whether Stop must have returned')
    vlib.write_evidence(pid, tier, 'model_checking', cov, time.time() - t0, len(violations),
                        ['the scheduling gates are build-tagged no-op calls at the points named in MANIFEST.hooks; with quit closed a Go select with a second ready case picks at random, so behaviours that take such a step after close(quit) are model-checked but not replayed',
                         'liveness is checked on the model under weak fairness of every step; on the code Stop must return within 8 s of the last forced step'])
    print('%s %s: %d model states, %d of %d maximal behaviours replayed on real goroutines, %d free-running traces (%d events) accepted by TLC, violations=%d inconclusive=%d wall=%.0fs'
          % (pid, tier, states, n_sched, total, len(tr), events, len(violations), infra, time.time() - t0))
    return 1 if violations else 0
