"""C19 - No client request or chain event can crash or silently stall the wallet.

spec/Api.tla states the contract: wallet states as an abstract state (selected wallet, status of
three wallets, queued tasks, what the chain history did with one coin), requests as
(method, shape), the response CLASS admissible for a case in a state (MUST-ACCEPT, MUST-REJECT
incl. the dedicated codes "no wallet in use" / "wallet unready", DON'T-CARE), the successor state,
and what must hold in EVERY class: the request is answered (no panic, no dead process, no
unanswered request), follower and worker are alive afterwards, no block or unconfirmed transaction
stalls the follower.

  model      spec/ApiMC.tla: the request/response state machine explored exhaustively by TLC
             (type invariant, selected wallet never absent/importing, every unsettled wallet has a
             queued task, the contract always admits a successor; every scripted state class is
             reachable).
  spec->code spec/ApiGen.tla: TLC enumerates state class x method x shape, chain events
             (state class x block|tx x relevance x output-script shape) and start-up faults, one
             JSON case each.  harness/cmd/api reaches each state class by a scripted history on the
             real follower (harness/replay.World), issues the calls against the real handlers of
             api.APIServer under recover(), one child process per state class, and records per call
             the abstract state before/after (through the wallet's own observers), returned /
             panicked / timed out, the response class; the supervisor records processes that died.
             After the calls of a child a block is delivered and queued tasks must finish.
  judgement  spec/ApiTrace.tla: TLC judges every recorded line (a call line must be a step of the
             state machine), tagging deviations with the known finding whose classifier explains
             them.  Anything else is re-run once in isolation (fresh processes) and judged again;
             what reproduces is a VIOLATION.  Python moves files, orders the plan and counts.
"""
import json, os, random, re, shutil, subprocess, time
import vlib
from vlib import Infra

IDS = ['C19']

# Deviations of the unchanged tree, reproduced and recorded (see /tmp/build/C19-report.md).  The
# classifier of each is an operator of spec/ApiTrace.tla.  An entry with the same id in
# known_findings.jsonl takes precedence; status "fixed" there disables the classifier, so a
# recurrence is a VIOLATION.
PROPOSED_KNOWN = [
    {"id": "K-C19-1", "property": "C19", "status": "known", "kinds": ["unanswered:panicked", "unanswered:died"],
     "classifier": {"tla": "ApiTrace!KnownSignPending", "rule": "SignRawTransaction of a transaction one of whose inputs is an output of a PENDING (announced, unmined) transaction of the selected wallet"},
     "summary": "SignRawTransaction panics (nil block meta dereferenced in signWitnessTx, masswallet/tx.go cacheMeta[..].Height) when an input spends an output of a pending wallet transaction; over gRPC the process ends",
     "example": "Announce(pp) HandleTx(pp); SignRawTransaction(raw tx spending pp:0, right passphrase, ALL)", "fix": "fixes/C19-1.diff"},
    {"id": "K-C19-2", "property": "C19", "status": "known", "kinds": ["unanswered:panicked", "unanswered:died"],
     "classifier": {"tla": "ApiTrace!KnownPendingVout", "rule": "CreateRawTransaction whose input names an output index that a PENDING wallet transaction does not have"},
     "summary": "CreateRawTransaction panics (index out of range in constructTxIn: prevTx.TxOut[vout] unchecked) when the input names a non-existent output of a pending wallet transaction",
     "example": "Announce(pp) HandleTx(pp); CreateRawTransaction(inputs [{pp, vout 7}])", "fix": "fixes/C19-2.diff"},
    {"id": "K-C19-3", "property": "C19", "status": "known", "kinds": ["unanswered:panicked", "unanswered:died"],
     "classifier": {"tla": "ApiTrace!KnownBech1", "rule": "any address-valued request field holding 'ms1' + exactly one data character + a valid bech32 checksum"},
     "summary": "an address string with the right prefix, a valid checksum and a single data character makes mass-core's DecodeAddress index past its data (decodeSegWitAddress reads data[1] after checking len >= 1): ValidateAddress, TxHistory, AutoCreateTransaction, CreateRawTransaction, CreateStakingTransaction, CreateBindingTransaction, CreatePoolPkCoinbaseTransaction, GetTransactionFee (has_binding) and CheckTargetBinding panic",
     "example": "ValidateAddress(bech32.Encode('ms', [0]))", "fix": "fixes/C19-3.diff"},
    {"id": "K-C19-4", "property": "C19", "status": "known", "kinds": ["unanswered:timeout", "unanswered:hung"],
     "classifier": {"tla": "ApiTrace!KnownBigIndex", "rule": "ImportMnemonic with external_index or internal_index, or ImportWallet with hdPath.ExternalChildNum, of 4000000 (the harness's 'big'; the fields admit 2^32-1)"},
     "summary": "restoring a wallet derives and checks index+gap addresses one by one (about 0.25 ms each on an idle 16-core machine, every one kept in memory) inside the keystore's write transaction while holding the manager's write lock: index 100000 takes 25 s, with 4000000 the request is unanswered after 30 s and every other API call blocks meanwhile; 2^32-1 would take days and exhaust memory",
     "example": "ImportMnemonic(fresh mnemonic, external_index 4000000)"},
    {"id": "K-C19-5", "property": "C19", "status": "known", "kinds": ["start:died"],
     "classifier": {"tla": "ApiTrace!KnownWorkerStart", "rule": "wallet start during which the first storage read of the worker goroutine fails"},
     "summary": "worker() ignores the error of its initial read; taskChan stays nil and the next statement dereferences it: the goroutine panics and the process ends through the FATAL log right after a start that reported success",
     "example": "NewWalletManager; Start with the third begin-read failing", "fix": "fixes/C19-5.diff"},
]
SUPPORTED_KNOWN = {k['id'] for k in PROPOSED_KNOWN}

ASSUME = [
    "blocks are delivered by the node's own DB call sequences on a real mass-core chain DB (memory storage); consensus validation (ProcessBlock) is not driven; event transactions pass mass-core's CheckTransactionSanity and the address indexer, otherwise they are recorded as undeliverable",
    "handlers are called directly as Go methods, after the request went through the protobuf wire format; a panic of the calling goroutine is recovered by the harness (over gRPC it would end the process: the server has no recovery interceptor)",
    "requests are (method, one changed dimension of a valid baseline request); concrete values are chosen by harness/apilib/shapes.go - not all byte strings",
    "a request counts as unanswered after %d s; an unexplained deviation is a violation only if it reproduces in a fresh process",
    "the reservation a transaction-building call leaves on the coins it selected is released by the harness after every call (reservation is C02's subject)",
    "the node's transaction pool relay channel is drained by the harness as the node's server does",
    "specific error codes are demanded only for 'no wallet in use' (1303) and 'wallet unready' (1306); elsewhere any error class satisfies MUST-REJECT",
    "block_service.go methods (GetBestBlock, GetBlockByHeight, GetBlockStakingReward) are not exercised: the harness's blocks carry no real coinbase payload / proof",
    "consensus.MinStakingValue is scaled to 2 MASS, MinFrozenPeriod to 1, CoinbaseMaturity to 1 (mass-core's exported variables)",
]

ALL_STATES = ['none', 'ready', 'pending', 'spent', 'importing', 'removing', 'removingsel', 'removed', 'afterevents']
BOUNDS = {
    'quick': dict(call_states=ALL_STATES, big_states=['ready'], grpc_states=['pending'], grpc_all=False, ev_states=['ready', 'pending'], ev_kinds=['block', 'tx'],
                  rounds=1, marker_every=0, call_timeout=30, demo=1, procs=16),
    'thorough': dict(call_states=ALL_STATES, big_states=ALL_STATES, grpc_states=['ready', 'pending'], grpc_all=True,
                     ev_states=['ready', 'pending', 'importing', 'removing'],
                     ev_kinds=['block', 'tx'], rounds=6, marker_every=150, call_timeout=30, demo=5, procs=16),
}

os.environ.setdefault('JAVA_TOOL_OPTIONS', '-Xmx4g')


def tset(l):
    return '{' + ', '.join('"%s"' % x for x in l) + '}'


def tagged(log, tag):
    pre = '<<"%s", "' % tag
    out = []
    for line in log.splitlines():
        if line.startswith(pre):
            out.append(json.loads(vlib.unescape(line[len(pre):-3])))
    return out


def tlc_run(*a, **kw):
    """vlib.tlc; a sibling check's timeout handler (pkill of every TLC) or the OOM killer can take this run down: retry."""
    r = None
    for attempt in range(4):
        r = vlib.tlc(*a, **kw)
        if r['rc'] in (137, 143, -9, -15) or (r['rc'] != 0 and not r['violated'] and 'Finished in' not in r['log'] and 'Error:' not in r['log']):
            time.sleep(3 + 5 * attempt)
            continue
        return r
    return r


def build(scratch):
    """Build harness/cmd/api in a private copy of the harness module (replace follows VERIF_REPO; new direct
    imports never reach the shared go.mod)."""
    hdir = os.path.join(scratch.dir, 'harness')
    shutil.copytree(vlib.HARNESS, hdir)
    gm = open(os.path.join(hdir, 'go.mod')).read()
    repo = os.path.realpath(vlib.REPO)
    gm, n = re.subn(r'(?m)^replace massnet\.org/mass-wallet => .*$', 'replace massnet.org/mass-wallet => %s' % repo, gm)
    if n != 1:
        raise Infra('harness go.mod: replace directive not found')
    open(os.path.join(hdir, 'go.mod'), 'w').write(gm)
    try:
        shutil.copy(os.path.join(repo, 'go.sum'), os.path.join(hdir, 'go.sum'))
    except OSError:
        pass
    out = os.path.join(scratch.dir, 'api')
    p = subprocess.run(['go', 'build', '-tags', 'verif', '-o', out, './cmd/api'], cwd=hdir, env=vlib.GOENV,
                       stdout=subprocess.PIPE, stderr=subprocess.STDOUT, text=True)
    if p.returncode != 0 or not os.path.exists(out):
        msg = '\n'.join(l for l in p.stdout.splitlines() if 'ld: ' not in l and not l.startswith('#'))
        raise Infra('go build ./cmd/api against %s failed:\n%s' % (repo, msg[-3000:]))
    return out


def generate(b, scratch):
    ov = {'CallStates': '<- GenCallStates', 'EvStates': '<- GenEvStates', 'EvKinds': '<- GenEvKinds', 'BigStates': '<- GenBigStates',
          'GrpcStates': '<- GenGrpcStates', 'GrpcAll': 'TRUE' if b['grpc_all'] else 'FALSE'}
    mod = ('---- MODULE ApiGenRun ----\nEXTENDS ApiGen\nGenCallStates == %s\nGenEvStates == %s\nGenEvKinds == %s\nGenBigStates == %s\nGenGrpcStates == %s\n====\n'
           % (tset(b['call_states']), tset(b['ev_states']), tset(b['ev_kinds']), tset(b['big_states']), tset(b['grpc_states'])))
    r = tlc_run('Api_Gen.cfg', 'ApiGenRun.tla', scratch, overrides=ov, extra_files={'ApiGenRun.tla': mod}, workers=4, timeout=900)
    cases = tagged(r['log'], 'CASE')
    r['log'] = '\n'.join(l for l in r['log'].splitlines() if not l.startswith('<<"CASE"'))
    vlib.require_clean(r, 'case generation (ApiGen)')
    if not cases or len(cases) != r.get('distinct'):
        raise Infra('case generation: %d cases printed for %s distinct states' % (len(cases), r.get('distinct')))
    return cases, r


def order_plan(cases, rnd, rounds):
    """One child process per (state class, kind).  Within a group: the calls that leave the abstract state alone
    first (seeded order), the state-changing ones last (seeded order); rounds > 1 append further seeded orders of
    ALL calls, so that later calls meet the states earlier ones produced."""
    groups = {}
    for c in cases:
        groups.setdefault((c['kind'], c['state'], c.get('via', '')), []).append(c)
    plan = []
    for key in sorted(groups):
        g = sorted(groups[key], key=lambda c: (c['m'], c['sh'], c['ev'], c['rel']))
        if key[0] != 'call':
            rnd.shuffle(g)
            plan += g
            continue
        still = [c for c in g if not c['mut']]
        # state-changing calls the contract refuses in this class first (they leave the class as it is)
        refused = [c for c in g if c['mut'] and 'ok' not in c.get('allowed', ['ok'])]
        mut = [c for c in g if c['mut'] and 'ok' in c.get('allowed', ['ok'])]
        rnd.shuffle(still)
        rnd.shuffle(refused)
        rnd.shuffle(mut)
        plan += still + refused + mut
    out = []
    for i, c in enumerate(plan):
        d = {k: c[k] for k in ('kind', 'state', 'm', 'sh', 'ev', 'rel', 'mut', 'via')}
        d['id'] = i
        out.append(d)
    extra = []
    for rd in range(1, rounds):
        for key in sorted(groups):
            if key[0] != 'call' or key[2] == 'grpc':
                continue
            g = [c for c in groups[key] if not re.search(r'=big$|bigindex', c['sh'])]
            g = sorted(g, key=lambda c: (c['m'], c['sh']))
            rnd.shuffle(g)
            for c in g:
                d = {k: c[k] for k in ('kind', 'm', 'sh', 'ev', 'rel', 'mut', 'via')}
                d['state'] = c['state']
                d['round'] = rd
                extra.append(d)
    return out, extra


def run_api(binary, plan, scratch, tag, b):
    pdir = scratch.sub('run-' + tag)
    pf = os.path.join(pdir, 'plan.ndjson')
    with open(pf, 'w') as f:
        for c in plan:
            f.write(json.dumps(c) + '\n')
    tr, full = os.path.join(pdir, 'trace.ndjson'), os.path.join(pdir, 'full.ndjson')
    cmd = [binary, '-plan', pf, '-out', tr, '-full', full, '-scratch', pdir, '-procs', str(min(b['procs'], vlib.NPROC)),
           '-marker-every', str(b['marker_every']), '-call-timeout', str(b['call_timeout'])]
    try:
        p = subprocess.run(cmd, env=vlib.GOENV, stdout=subprocess.PIPE, stderr=subprocess.STDOUT, text=True, timeout=5400)
    except subprocess.TimeoutExpired:
        raise Infra('harness command timed out (%s)' % tag)
    infra = [l[6:] for l in p.stdout.splitlines() if l.startswith('INFRA ')]
    if 'EVALUATED' not in p.stdout:
        raise Infra('harness command failed rc=%s: %s' % (p.returncode, p.stdout[-2000:]))
    lines = [json.loads(l) for l in open(tr)]
    fulls = [json.loads(l) for l in open(full)]
    if len(lines) != len(fulls):
        raise Infra('trace files differ in length')
    return tr, lines, fulls, infra


def judge(scratch, path, enabled, strict, what, workers=4):
    r = tlc_run('Api_Trace.cfg', 'ApiTrace.tla', scratch,
                overrides={'TraceFile': '"%s"' % path, 'KnownEnabled': tset(sorted(enabled)), 'StrictMode': 'TRUE' if strict else 'FALSE'},
                workers=workers, timeout=1800)
    if r['rc'] == 124 or r['error'] or (r['rc'] != 0 and not r['violated']):
        raise Infra('%s: TLC failed rc=%s\n%s' % (what, r['rc'], r['log'][-2500:]))
    if r['violated'] and 'Conforms' not in r['violated']:
        raise Infra('%s: unexpected %s\n%s' % (what, r['violated'], r['log'][-2500:]))
    return r, tagged(r['log'], 'DEVIATION')


def judge_all(scratch, path, n_lines, enabled, what):
    """strict first (the invariant with the known findings excluded); on a violation report mode lists everything"""
    r, devs = judge(scratch, path, enabled, True, what)
    strict_clean = not r['violated']
    if r['violated']:
        r, devs = judge(scratch, path, enabled, False, what + ' (report mode)')
    if r.get('distinct') != n_lines:
        raise Infra('%s: TLC judged %s of %d lines\n%s' % (what, r.get('distinct'), n_lines, r['log'][-1500:]))
    return r, devs, strict_clean


def show(l, f):
    k = l['kind']
    if k == 'call':
        o = f.get('out') or {}
        got = o.get('outcome', '?')
        if got == 'returned':
            got = 'answered %s%s' % (l['class'], (' (%s)' % o['msg']) if o.get('msg') else '')
        elif o.get('panic'):
            got = 'panicked: %s at %s' % (o['panic'][:120], o.get('where', ''))
        elif got == 'timeout':
            got = 'unanswered after %d s at %s' % (o.get('ms', 0) // 1000, o.get('where', ''))
        elif got in ('died', 'hung'):
            got = 'process %s: %s' % (got, ' '.join((f.get('tail') or '').split())[:240])
        pre = l['pre']
        return '%s(%s) in state sel=%s st=%s tasks=%s coins=%s [class %s]: %s' % (
            l['m'], l['sh'], pre['sel'], ','.join('%s:%s' % kv for kv in sorted(pre['st'].items())), pre['tasks'], pre['coins'], l['state'], got)
    if k == 'event':
        e = f.get('event') or {}
        return 'event %s/%s/%s in class %s: %s synced=%s tip=%s after=%s/%s %s %s' % (
            l['ev'], l['rel'], l['sh'], l['state'], l['e']['outcome'], l['e']['synced'], l['e']['tip'], l['e']['aftersynced'], l['e']['aftertip'],
            e.get('err', ''), ' '.join((f.get('tail') or '').split())[:240])
    if k == 'start':
        return 'start with %s: %s %s' % (l['sh'], json.dumps(l['s']), ' '.join((f.get('tail') or '').split())[:240])
    return 'marker after the calls of class %s: %s %s' % (l['state'], json.dumps(l['k']), json.dumps(f.get('marker') or {})[:300])


def case_of(f):
    return {k: f.get(k) for k in ('kind', 'state', 'm', 'sh', 'ev', 'rel', 'mut', 'via') if f.get(k) is not None}


def model_check(scratch, tier):
    ov = {'MaxTasks': '3', 'MaxExtra': '1'} if tier == 'quick' else {'MaxTasks': '4', 'MaxExtra': '2'}
    r = tlc_run('Api_MC.cfg', 'ApiMC.tla', scratch, overrides=ov, workers=4, timeout=1500)
    reached = {x[0] if isinstance(x, list) else x for x in []}
    reached = set(re.findall(r'<<"REACHED", "(\w+)">>', r['log']))
    r['log'] = '\n'.join(l for l in r['log'].splitlines() if not l.startswith('<<"REACHED"'))
    vlib.require_clean(r, 'model ApiMC')
    missing = sorted(set(ALL_STATES) - reached)
    if missing:
        raise Infra('model ApiMC: scripted state classes not reachable in the state machine: %s' % missing)
    return dict(cfg='Api_MC.cfg', overrides=ov, distinct=r.get('distinct'), generated=r.get('generated'), wall_s=round(r['wall'], 1),
                invariants=['TypeOK', 'SelValid', 'TasksCover', 'Determined'], state_classes_reached=sorted(reached))


def binding_demo(scratch, lines, enabled, how_many, rnd):
    """Corrupt one recorded field of a conforming line; TLC (strict) must reject the trace, and accept the clean one."""
    ok_calls = [l for l in lines if l['kind'] == 'call' and l['outcome'] == 'returned' and l['class'] == 'ok']
    err_calls = [l for l in lines if l['kind'] == 'call' and l['outcome'] == 'returned' and l['class'].startswith('e')]
    markers = [l for l in lines if l['kind'] == 'marker' and l['k']['alive']]
    events = [l for l in lines if l['kind'] == 'event' and l['e']['outcome'] == 'processed']

    def c_panic(l):
        l['outcome'], l['class'] = 'panicked', ''
        return 'an answered call recorded as panicked'

    def c_class(l):
        l['class'] = 'ok' if l['class'] != 'ok' else 'e1703'
        return 'the recorded response class flipped between a response and an error'

    def c_marker(l):
        l['k']['alive'] = False
        return 'the marker block recorded as not applied'

    def c_event(l):
        l['e']['synced'] = l['e']['synced'] - 1
        return 'the wallet recorded one block behind the tip after an event block'

    def c_post(l):
        l['post']['sel'] = 'w2' if l['post']['sel'] != 'w2' else 'w3'
        return 'the selected wallet after a call changed in the record'
    must_ok = [l for l in ok_calls if l['m'] in ('Wallets', 'QuitClient', 'GetTxStatus')]
    must_err = [l for l in err_calls if l['sh'] in ('wid=short', 'wid=long', 'pass=short', 'conf=neg', 'hex=nonhex', 'tx=nonhex')]
    plans = [(ok_calls, c_panic), (markers, c_marker), (must_ok + must_err, c_class), (events, c_event), (ok_calls, c_post)][:how_many]
    demos = []
    context = rnd.sample(lines, min(30, len(lines)))
    context = [l for l in context if not (l['kind'] == 'call' and l['outcome'] != 'returned')]
    for k, (pool, fn) in enumerate(plans):
        if not pool:
            continue
        victim = json.loads(json.dumps(rnd.choice(pool)))
        clean = json.loads(json.dumps(victim))
        what = fn(victim)
        for name, v, expect in (('corrupt', victim, True), ('clean', clean, False)):
            if name == 'clean' and k > 0:
                continue
            path = os.path.join(scratch.dir, 'demo-%d-%s.ndjson' % (k, name))
            with open(path, 'w') as f:
                for l in context[:15] + [v] + context[15:]:
                    f.write(json.dumps(l) + '\n')
            r, devs = judge(scratch, path, enabled, True, 'binding demonstration', workers=1)
            rejected = bool(r['violated'])
            # the context may contain known-finding lines only; anything else in it would have been reported already
            if rejected != expect:
                raise Infra('binding demonstration %d (%s): TLC %s the %s trace' % (k, what, 'rejected' if rejected else 'accepted', name))
        demos.append({'corruption': what, 'line': {k2: victim.get(k2) for k2 in ('kind', 'state', 'm', 'sh')}, 'tlc_rejected_corrupt_trace': True})
    return demos


def check(pid, tier, scratch, replay):
    t0 = time.time()
    if tier not in BOUNDS:
        tier = 'quick'
    b = dict(BOUNDS[tier])
    rnd = random.Random(vlib.seed())
    walls = {}

    # ---- known findings
    entries = {e['id']: e for e in PROPOSED_KNOWN}
    in_file = [e for e in vlib.load_known() if e.get('property') == pid]
    for e in in_file:
        entries[e['id']] = e
        for r_ in e.get('retires', []):
            entries.pop(r_, None) if e.get('status') == 'fixed' else None
    enabled = {i for i, e in entries.items() if e.get('status') == 'known' and i in SUPPORTED_KNOWN}

    # ---- build
    t = time.time()
    binary = build(scratch)
    walls['go_build'] = round(time.time() - t, 1)

    # ---- model
    mc = None
    if not replay:
        t = time.time()
        mc = model_check(scratch, tier)
        walls['tlc_model'] = round(time.time() - t, 1)

    # ---- plan
    gen_r = None
    if replay:
        obj = json.load(open(replay))
        plan = [dict(c, id=i) for i, c in enumerate(obj['cases'])]
        extra = []
    else:
        t = time.time()
        cases, gen_r = generate(b, scratch)
        plan, extra = order_plan(cases, rnd, b['rounds'])
        walls['tlc_generate'] = round(time.time() - t, 1)

    # ---- implementation
    t = time.time()
    path, lines, fulls, infra = run_api(binary, plan, scratch, 'main', b)
    runs = [(path, lines, fulls)]
    if extra:
        # further rounds: fresh processes, new seeded orders; every round is its own state class group set
        for rd in sorted({c['round'] for c in extra}):
            sub = [dict({k: v for k, v in c.items() if k != 'round'}, id=i) for i, c in enumerate(c for c in extra if c['round'] == rd)]
            p2, l2, f2, i2 = run_api(binary, sub, scratch, 'round%d' % rd, b)
            runs.append((p2, l2, f2))
            infra += i2
    walls['impl_eval'] = round(time.time() - t, 1)
    # the scripted history of class "afterevents" delivers chain events itself: a follower that stalls there is
    # reported by the event lines of the other classes; only if those are clean is it an infrastructure failure
    infra_after = [x for x in infra if x.startswith('afterevents/')]
    infra = [x for x in infra if x not in infra_after]
    if infra:
        raise Infra('harness: %s' % '; '.join(infra)[:3000])

    # ---- TLC judges every line
    t = time.time()
    devs_all, judged_lines, strict_clean = [], 0, True
    for ri, (p_, l_, f_) in enumerate(runs):
        r, devs, sc = judge_all(scratch, p_, len(l_), enabled, 'trace judgement (run %d)' % ri)
        strict_clean = strict_clean and sc
        judged_lines += len(l_)
        for d in devs:
            d['run'] = ri
            devs_all.append(d)
    walls['tlc_judge'] = round(time.time() - t, 1)

    def line_of(d):
        return runs[d['run']][1][d['line'] - 1], runs[d['run']][2][d['line'] - 1]

    model_dev = [d for d in devs_all if d['clause'].startswith('harness:') or d['clause'].startswith('model:')]
    model_infra = None
    if model_dev:
        # lines the specification cannot place give no verdict by themselves; deviations that ARE verdicts
        # (an unanswered request, a dead follower ...) on the same run are still reported first
        l, f = line_of(model_dev[0])
        model_infra = Infra('%d lines the specification cannot place (%s), e.g. %s\n  pre=%s post=%s' % (
            len(model_dev), model_dev[0]['clause'], show(l, f), json.dumps(l.get('pre')), json.dumps(l.get('post'))))
        devs_all = [d for d in devs_all if d not in model_dev]
    known_hits, unknown = {}, []
    for d in devs_all:
        if d['known']:
            known_hits.setdefault(d['known'], []).append(d)
        else:
            unknown.append(d)

    # ---- unexplained deviations: once more, alone, in fresh processes; what reproduces is a violation
    violations, replay_path, confirmed, not_reproduced, flaky_examples = 0, None, [], 0, []
    if unknown:
        t = time.time()
        # the state a deviating call met was produced by the state-changing calls before it in its child process
        # (a child is replaced after a call that panicked / timed out / ended it, which resets the state): one
        # confirmation child per deviation = the state-changing calls since the last replacement, in the recorded
        # order, then the deviating case (for a marker: every call since the last replacement)
        def restarted(f2):
            return f2['kind'] == 'call' and (f2.get('out') or {}).get('outcome') in ('panicked', 'timeout', 'died', 'hung')
        vcases, seen_dev = [], set()
        for d in unknown:
            l, f = line_of(d)
            sig = json.dumps([case_of(f), l.get('pre')], sort_keys=True)
            if sig in seen_dev or len(seen_dev) >= 60:
                continue
            seen_dev.add(sig)
            kind = 'call' if f['kind'] == 'marker' else f['kind']
            grp = [(i, f2) for i, f2 in enumerate(runs[d['run']][2])
                   if f2['state'] == f['state'] and f2['kind'] in (kind, 'marker') and f2.get('via', '') == f.get('via', '')]
            grp.sort(key=lambda x: x[1].get('seq', 0))
            pos = [k for k, x in enumerate(grp) if x[0] == d['line'] - 1][0]
            start = max([k + 1 for k, x in enumerate(grp[:pos]) if restarted(x[1])] or [0])
            seg = [f2 for _, f2 in grp[start:pos] if f2['kind'] == kind and (f2.get('mut') or f['kind'] == 'marker')]
            if f['kind'] != 'marker':
                seg.append(f)
            for f2 in seg:
                vcases.append(dict(case_of(f2), grp='c%d' % len(seen_dev)))
        if replay:
            confirmed = [(d,) + line_of(d) for d in unknown]
        else:
            cplan = [dict(c, id=i) for i, c in enumerate(vcases[:3000])]
            b2 = dict(b, marker_every=0)
            p3, l3, f3, i3 = run_api(binary, cplan, scratch, 'confirm', b2)
            if i3:
                raise Infra('confirmation run: %s' % '; '.join(i3)[:2000])
            r3, d3, _ = judge_all(scratch, p3, len(l3), enabled, 'confirmation')
            for d in d3:
                if d['clause'].startswith('harness:') or d['clause'].startswith('model:'):
                    raise Infra('confirmation run: %s on %s' % (d['clause'], show(l3[d['line'] - 1], f3[d['line'] - 1])))
                if d['known']:
                    known_hits.setdefault(d['known'], [])
                    continue
                confirmed.append((d, l3[d['line'] - 1], f3[d['line'] - 1]))
            again = {json.dumps(case_of(f), sort_keys=True) for _, _, f in confirmed}
            if len(unknown) > 60 and confirmed:
                again |= {json.dumps(case_of(line_of(d)[1]), sort_keys=True) for d in unknown}   # only 60 were re-run
            for d in unknown:
                l, f = line_of(d)
                if json.dumps(case_of(f), sort_keys=True) not in again and f['kind'] != 'marker':
                    flaky_examples.append('%s: %s' % (d['clause'], show(l, f)))
            not_reproduced = len(flaky_examples)
            if not_reproduced:
                for x in flaky_examples[:5]:
                    print('NOTE: property=%s not reproduced in a fresh process (no verdict): %s' % (pid, x[:500]))
            if not confirmed and len(unknown) > max(3, judged_lines // 200):
                raise Infra('%d unexplained deviations, none of which reproduced in fresh processes (machine overloaded?)' % len(unknown))
        walls['confirm'] = round(time.time() - t, 1)
        if confirmed:
            groups = {}
            for d, l, f in confirmed:
                groups.setdefault((d['clause'], l.get('m', ''), l['kind']), []).append((l, f))
            obj = {'property': pid, 'tier': tier, 'seed': vlib.seed(),
                   # each group (grp) is one child process: the state-changing calls that produce the state, then the case
                   'cases': ([c for c in vcases if c.get('grp') in {f.get('grp') for _, _, f in confirmed}] if not replay
                             else [dict(case_of(f), grp=f.get('grp', '')) for f in fulls if f['kind'] != 'marker'])[:4000],
                   'deviations': [{'clause': k[0], 'method': k[1], 'count': len(v), 'examples': [show(l, f) for l, f in v[:6]]} for k, v in sorted(groups.items())],
                   'how': 'bin/check %s %s --replay <this file>' % (pid, tier)}
            replay_path = replay if replay else vlib.save_replay(pid, '%s-%s' % (tier, vlib.short_hash(json.dumps(obj['cases'][:40]))), obj)
            for k, v in sorted(groups.items()):
                print('  %s %s: %d cases, e.g. %s' % (k[0], k[1], len(v), ' | '.join(show(l, f) for l, f in v[:2])))
            violations = len({json.dumps(case_of(f), sort_keys=True) for _, _, f in confirmed})

    if infra_after and not violations:
        raise Infra('harness: %s' % '; '.join(infra_after)[:3000])
    if model_infra and not violations:
        raise model_infra

    # ---- known findings
    known_report = []
    for kid, v in sorted(known_hits.items()):
        e = entries.get(kid, {})
        ex = []
        for d in v[:400]:
            l, f = line_of(d)
            s = show(l, f)
            if s not in ex:
                ex.append(s)
        print('KNOWN-FINDING: property=%s %s %s (%d recorded cases; e.g. %s)' % (pid, kid, e.get('summary', ''), len(v), ' | '.join(ex[:2])[:900]))
        known_report.append({'id': kid, 'cases': len(v), 'examples': ex[:4], 'repair': e.get('fix')})
    stale = sorted(k for k in enabled if k not in known_hits)
    if stale and not replay:
        print('NOTE: property=%s known finding %s was not observed in this run (repaired? the entry is stale)' % (pid, ', '.join(stale)))
    if not in_file and enabled:
        print('NOTE: property=%s known_findings.jsonl has no C19 entry yet; the built-in PROPOSED entries classify the known findings' % pid)

    # ---- binding demonstration
    demos = []
    if not replay and not confirmed:
        t = time.time()
        demos = binding_demo(scratch, runs[0][1], enabled, b['demo'], rnd)
        walls['binding_demo'] = round(time.time() - t, 1)

    # ---- evidence
    all_lines = [l for _, ls, _ in runs for l in ls]
    all_full = [f for _, _, fs in runs for f in fs]
    calls = [l for l in all_lines if l['kind'] == 'call']
    by_outcome, by_class, by_pre = {}, {}, {}
    for l in calls:
        by_outcome[l['outcome']] = by_outcome.get(l['outcome'], 0) + 1
        if l['outcome'] == 'returned':
            c = 'ok' if l['class'] == 'ok' else 'error'
            by_class[c] = by_class.get(c, 0) + 1
        pre = l['pre']
        key = 'sel=%s st=%s coins=%s' % (pre['sel'], ','.join('%s:%s' % kv for kv in sorted(pre['st'].items())), pre['coins'])
        by_pre[key] = by_pre.get(key, 0) + 1
    events = [l for l in all_lines if l['kind'] == 'event']
    ev_out = {}
    for l in events:
        ev_out[l['e']['outcome']] = ev_out.get(l['e']['outcome'], 0) + 1
    samples = []
    picks = rnd.sample(range(len(all_lines)), min(4000, len(all_lines)))
    want = {'ok': 3, 'error': 3, 'event': 2, 'marker': 1, 'start': 1}
    for i in picks:
        l, f = all_lines[i], all_full[i]
        tag = l['kind'] if l['kind'] != 'call' else ('ok' if l.get('class') == 'ok' else 'error' if l.get('outcome') == 'returned' else None)
        if tag and want.get(tag, 0) > 0:
            want[tag] -= 1
            samples.append(show(l, f))
    for kr in known_report[:3]:
        samples.append('known finding %s: %s' % (kr['id'], kr['examples'][0] if kr['examples'] else ''))
    gen_states = (gen_r or {}).get('distinct', 0) or 0
    coverage = {
        'states': (mc or {}).get('distinct', 0) + gen_states + judged_lines,
        'transitions': (mc or {}).get('generated', 0) + ((gen_r or {}).get('generated', 0) or 0) + judged_lines,
        'traces_validated_against_impl': judged_lines,
        'samples': samples,
        'exhaustive': False,
        'model_run': mc,
        'generator_states': gen_states,
        'trace_lines_judged_by_tlc': judged_lines,
        'planned_cases': len(plan) + len(extra),
        'call_lines': len(calls),
        'distinct_method_shape_cases': len({(l['m'], l['sh']) for l in calls}),
        'methods': len({l['m'] for l in calls}),
        'calls_by_outcome': by_outcome,
        'answered_calls_by_class': by_class,
        'observed_pre_states': len(by_pre),
        'calls_by_observed_pre_state_top': dict(sorted(by_pre.items(), key=lambda kv: -kv[1])[:14]),
        'event_lines': len(events),
        'events_by_outcome': ev_out,
        'marker_lines': len([l for l in all_lines if l['kind'] == 'marker']),
        'start_lines': len([l for l in all_lines if l['kind'] == 'start']),
        'rounds': len(runs),
        'bounds': {k: b[k] for k in ('call_states', 'big_states', 'ev_states', 'ev_kinds', 'rounds', 'marker_every', 'call_timeout')},
        'unexplained_deviations_first_pass': len(unknown),
        'unexplained_not_reproduced_in_fresh_process': not_reproduced,
        'unexplained_not_reproduced_examples': flaky_examples[:10],
        'violating_cases': violations,
        'known_findings': known_report,
        'known_findings_enabled': sorted(enabled),
        'known_findings_source': 'known_findings.jsonl' + ('' if in_file else ' has no C19 entry: built-in proposed entries'),
        'known_findings_stale': stale,
        'strict_invariant_held_with_known_excluded': strict_clean,
        'binding_demonstration': demos,
        'wall_by_phase_s': walls,
        'replay_of': replay,
        'rule': 'cases = TLC enumeration of spec/ApiGen.tla (state class x (method, shape) of Api!Cases; state class x block|tx x relevance x script shape; start faults); '
                'each call is issued in a real wallet whose state was reached by a scripted history on the real follower, one process per state class, '
                'state-changing calls last; every recorded line (abstract state before/after, outcome, response class) is judged by TLC against Api.tla',
    }
    assumptions = [a % b['call_timeout'] if '%d' in a else a for a in ASSUME]
    vlib.write_evidence(pid, tier, 'model_checking', coverage, time.time() - t0, violations, assumptions)
    print('C19 %s: %d cases planned, %d lines judged by TLC (%d calls over %d (method, shape) cases in %d observed wallet states, %d events, %d markers), '
          'model %s states; %d known-finding lines, %d unexplained (%d reproduced); %.0fs'
          % (tier, len(plan) + len(extra), judged_lines, len(calls), coverage['distinct_method_shape_cases'], len(by_pre), len(events),
             coverage['marker_lines'], (mc or {}).get('distinct'), sum(len(v) for v in known_hits.values()), len(unknown), violations, time.time() - t0))
    if violations:
        print('VIOLATION property=%s replay=%s' % (pid, replay_path))
        return 1
    return 0
