"""C13 - mnemonic encoding is exactly BIP-39.

spec/Bip39.tla states the property (codec on numbers, MUST-ACCEPT / MUST-REJECT / DONT-CARE classes of
input strings, judgement of one record of observations).  The run:

  1. TLC, Bip39_MC.cfg    laws of the specification itself for every value of the uninterpreted hash byte
                          + the published BIP-39 vectors as ASSUMEs
  2. TLC, Bip39_Gen.cfg   structural entropies (5 sizes x leading-zero / all-zero / all-one / ... patterns)
  3. harness `bip39 cs`   adds SHA-256(ent)[0] (trusted) and seeded random entropies + mutation descriptors
  4. TLC, Bip39_Mut.cfg   the SPEC's mnemonic of every entropy and its mutations (substitute, permute,
                          truncate, extend, re-space, near-words, garbage) as atom sequences, with the
                          bytes whose SHA-256 the harness has to supply
  5. harness `bip39 eval` spells the atoms, calls the implementation, evaluates the trusted primitives
  6. TLC, Bip39_Trace.cfg judges EVERY line (Bip39!Deviations); this driver only sorts the reported kinds
                          into recorded findings (known_findings.jsonl) and new violations
  7. binding demonstration: one recorded field is corrupted and TLC must reject the trace
"""
import concurrent.futures, hashlib, json, os, random, re, subprocess, time, unicodedata
import vlib
from vlib import Infra

IDS = ['C13']

TIERS = {
    'quick': dict(full='{"zeros", "lead2", "fill"}', sweep='{"fill"}', deltas='{1}', sweep_n=64,
                  random=120, descs=8, passes=3, mc=True),
    'thorough': dict(full='{"zeros", "ones", "fill", "lead1", "lead2", "lead3", "leadhalf", "leadmost", "lead7bits", '
                          '"lead15bits", "lowbit", "topbit", "firstonly", "trail1", "trail2", "trailhalf", "x7f", "x80", '
                          '"x55", "xaa", "zeroone"}',
                     sweep='{"fill", "zeros", "lead2"}', deltas='{1, 1024, 2047}', sweep_n=2048,
                     random=8000, descs=12, passes=18, mc=True),
}

ASSUME = [
    'SHA-256 (crypto/sha256), HMAC-SHA512 (crypto/hmac + crypto/sha512, PBKDF2 loop written in the harness, checked against the '
    'published TREZOR vector and against Python hashlib on a sample of every run) and Unicode NFKD (golang.org/x/text/unicode/norm, '
    'cross-checked against Python unicodedata) are trusted primitives; the specification treats their values as inputs',
    'the English word list is identified by the SHA-256 of the canonical english.txt (2f5eed53...dbda); the specification works on word indices; '
    'spelling atoms as strings (word lookup, upper-casing, concatenation) is done by the harness',
    'entropies: the structural patterns of Bip39Gen for all five sizes plus seeded random ones - not all 2^128..2^256; passphrases: the classes of the '
    'harness table plus seeded random strings - not all strings; invalid UTF-8 passphrases are outside BIP-39 and not tried',
    'white-space other than U+0020, and words in another letter case, are DONT-CARE inputs (statement silent); entropy sizes outside 128..256/32 are not tried',
]

SHARD_LINES = 4000   # trace lines per judge run (memory of one TLC process stays small; 16 run at a time)

PARSE = re.compile(r'^<<"(CASE|JUDGE|MUT)", (.*)>>$')


def printed(log, tag):
    out = []
    for line in log.splitlines():
        m = PARSE.match(line.strip())
        if m and m.group(1) == tag:
            out.append(m.group(2))
    return out


def jstr(s):
    """a TLC-printed string literal -> python str"""
    s = s.strip()
    if not (s.startswith('"') and s.endswith('"')):
        raise Infra('unexpected TLC output: %s' % s[:200])
    return vlib.unescape(s[1:-1])


def run(cmd, what, timeout=1800):
    p = subprocess.run(cmd, stdout=subprocess.PIPE, stderr=subprocess.STDOUT, text=True, env=vlib.GOENV, timeout=timeout)
    if p.returncode != 0:
        raise Infra('%s failed rc=%d: %s' % (what, p.returncode, p.stdout[-2000:]))
    return p.stdout


def q(s):
    return '"%s"' % s


class Stats:
    def __init__(self):
        self.states = self.transitions = 0
        self.runs = []

    def add(self, r, what):
        vlib.require_clean(r, what)
        self.states += r.get('distinct', 0)
        self.transitions += r.get('generated', 0)
        self.runs.append(dict(run=what, states=r.get('distinct', 0), wall_s=round(r['wall'], 1)))


def tlc_retry(*a, **k):
    """vlib.tlc; a TLC process killed from outside (negative rc: another check's timeout handler runs pkill on
    every TLC of the machine, or the OOM killer) is started again, twice at most"""
    for attempt in range(3):
        r = vlib.tlc(*a, **k)
        if r['rc'] >= 0:
            break
        time.sleep(2 + 3 * attempt)
    return r


def parallel(fn, items):
    with concurrent.futures.ThreadPoolExecutor(max_workers=max(1, min(vlib.NPROC, len(items)))) as ex:
        return list(ex.map(fn, items))


def generate(tier, scratch, binary, st):
    """stages 2-4: returns the path of the cases file and counters"""
    T = TIERS[tier]
    g = tlc_retry('Bip39_Gen.cfg', 'Bip39Gen.tla', scratch, overrides={'FullPatterns': T['full'], 'SweepPatterns': T['sweep']}, workers=1, timeout=600)
    st.add(g, 'Bip39Gen')
    recs = [jstr(x) for x in printed(g['log'], 'CASE')]
    if len(recs) < 5:
        raise Infra('Bip39Gen printed %d entropies\n%s' % (len(recs), g['log'][-1500:]))
    g1 = os.path.join(scratch.dir, 'g1.ndjson')
    open(g1, 'w').write('\n'.join(recs) + '\n')
    ents = os.path.join(scratch.dir, 'ents.ndjson')
    run([binary, 'cs', '-in', g1, '-out', ents, '-seed', str(vlib.seed()), '-random', str(T['random']), '-descs', str(T['descs'])], 'bip39 cs')
    lines = [l for l in open(ents).read().splitlines() if l.strip()]
    # spread the expensive (full / sweep) records over the shards
    nsh = max(1, min(len(lines), max(vlib.NPROC, len(lines) // 150)))
    shards = [[] for _ in range(nsh)]
    for i, l in enumerate(lines):
        shards[i % nsh].append(l)
    mdir = scratch.sub('mut')
    jobs = []
    for k, sh in enumerate(shards):
        f = os.path.join(mdir, 'ents-%d.ndjson' % k)
        open(f, 'w').write('\n'.join(sh) + '\n')
        jobs.append((k, f, len(sh)))

    def mut(job):
        k, f, n = job
        r = tlc_retry('Bip39_Mut.cfg', 'Bip39Mut.tla', scratch, workers=1, timeout=3000,
                     overrides={'EntFile': q(f), 'OutPrefix': q(os.path.join(mdir, 'cases-%d-' % k)),
                                'SubstDeltas': T['deltas'], 'SweepN': str(T['sweep_n'])})
        return r

    res = parallel(mut, jobs)
    cases = os.path.join(scratch.dir, 'cases.ndjson')
    ncases = 0
    with open(cases, 'w') as out:
        for (k, f, n), r in zip(jobs, res):
            st.add(r, 'Bip39Mut shard %d' % k)
            m = [x for x in printed(r['log'], 'MUT')]
            if not m or int(m[-1].split(',')[0]) != n:
                raise Infra('Bip39Mut shard %d did not finish: %s\n%s' % (k, m, r['log'][-1500:]))
            for j in range(1, n + 1):
                for l in open(os.path.join(mdir, 'cases-%d-%d.ndjson' % (k, j))):
                    if l.strip():
                        out.write(l.rstrip('\n') + '\n')
                        ncases += 1
    return cases, dict(entropies=len(lines), structural_entropies=len(recs), random_entropies=len(lines) - len(recs), cases=ncases)


def evaluate(scratch, binary, cases, passes, tag):
    tdir = scratch.sub('trace-' + tag)
    out = run([binary, 'eval', '-in', cases, '-out-prefix', os.path.join(tdir, 't-'), '-shards', str(vlib.NPROC), '-max-lines', str(SHARD_LINES),
               '-seed', str(vlib.seed()), '-passes', str(passes)], 'bip39 eval')
    m = re.search(r'EVAL cases=(\d+) lines=(\d+) shards=(\d+) wordlist=(\S+)', out)
    if not m:
        raise Infra('bip39 eval: %s' % out[-1000:])
    return [os.path.join(tdir, 't-%d.ndjson' % k) for k in range(int(m.group(3)))], int(m.group(2)), m.group(4)


def judge(scratch, files, st, strict=False):
    def one(f):
        return tlc_retry('Bip39_Trace.cfg', 'Bip39Trace.tla', scratch, workers=1, timeout=3000,
                        overrides={'TraceFile': q(f), 'Strict': 'TRUE' if strict else 'FALSE'})
    res = parallel(one, files)
    if strict:
        return res
    total = dict(lines=0, tally={}, bad=[])
    for f, r in zip(files, res):
        st.add(r, 'Bip39Trace %s' % os.path.basename(f))
        js = printed(r['log'], 'JUDGE')
        if len(js) != 1:
            raise Infra('judge of %s printed %d summaries\n%s' % (f, len(js), r['log'][-1500:]))
        j = json.loads(jstr(js[0]))
        total['lines'] += j['lines']
        for k, v in j['tally'].items():
            total['tally'][k] = total['tally'].get(k, 0) + v
        total['bad'] += j['bad']
    return total


def load_lines(files, ids=None):
    out = {}
    for f in files:
        for l in open(f):
            if l.strip():
                L = json.loads(l)
                if ids is None or L['id'] in ids:
                    out[L['id']] = L
    return out


def brief(L, cls=None, kinds=None):
    b = dict(id=L['id'], src=L['src'], mut=L['mut'], text=L['text'], passphrase=L['pass'],
             EntropyFromMnemonic=L['efm']['ok'], IsMnemonicValid=L['valid']['v'], NewSeedWithErrorChecking=L['seed']['ok'],
             seed=L['seed']['hex'][:16])
    if L['enc']['run']:
        b['entropy'] = bytes(L['ent']).hex()
        b['NewMnemonic'] = L['enc']['text']
    if cls:
        b['class'] = cls
    if kinds:
        b['deviations'] = sorted(kinds)
    return b


def crosscheck(lines, rnd):
    """the harness's primitives against Python's, on a sample (infrastructure check, not a verdict)"""
    pool = [L for L in lines.values() if L['hin']]
    n = 0
    for L in vlib.sample(pool, 25, rnd):
        if hashlib.sha256(bytes(L['hin'])).digest()[0] != L['h']:
            raise Infra('harness SHA-256 disagrees with hashlib on line %d' % L['id'])
        nf = unicodedata.normalize('NFKD', bytes.fromhex(L['pass_hex']).decode('utf-8')).encode('utf-8')
        if nf.hex() != L['nfkd_hex']:
            raise Infra('harness NFKD disagrees with unicodedata on line %d' % L['id'])
        for key, pw, salt in (('cn', L['canon'].encode(), nf), ('rr', L['text'].encode(), bytes.fromhex(L['pass_hex']))):
            if hashlib.pbkdf2_hmac('sha512', pw, b'mnemonic' + salt, 2048, 64).hex() != L['kdf'][key]:
                raise Infra('harness PBKDF2 disagrees with hashlib on line %d (%s)' % (L['id'], key))
        n += 1
    return n


def binding_demo(scratch, lines, bad_ids):
    """corrupt one recorded field of a line the judge found clean: TLC (Strict) must reject each corrupted trace,
    and must accept the uncorrupted one"""
    good = [L for L in lines.values() if L['mut'] == 'none' and L['id'] not in bad_ids and L['efm']['ok'] and L['seed']['ok']]
    if not good:
        return dict(done=False, why='no unmutated line without deviation')
    L = min(good, key=lambda x: x['id'])
    ddir = scratch.sub('demo')
    variants = {}
    v = json.loads(json.dumps(L)); variants['clean'] = v
    v = json.loads(json.dumps(L)); v['efm']['ent'][0] ^= 1; variants['entropy-byte'] = v
    v = json.loads(json.dumps(L)); v['seed']['hex'] = ('0' if v['seed']['hex'][0] != '0' else '1') + v['seed']['hex'][1:]; variants['seed-digit'] = v
    v = json.loads(json.dumps(L)); v['enc']['text'] = v['enc']['text'] + ' '; variants['mnemonic-trailing-space'] = v
    v = json.loads(json.dumps(L)); v['h'] = (v['h'] + 128) % 256; variants['hash-byte'] = v
    names = list(variants)
    files2 = []
    for nme in names:
        f = os.path.join(ddir, nme + '.ndjson')
        open(f, 'w').write(json.dumps(variants[nme], ensure_ascii=True) + '\n')
        files2.append(f)
    res = judge(scratch, files2, None, strict=True)
    out = {}
    for nme, r in zip(names, res):
        if r['rc'] == 124 or r['error']:
            raise Infra('binding demonstration %s: TLC failed\n%s' % (nme, r['log'][-1500:]))
        out[nme] = 'rejected' if r['violated'] else 'accepted'
    want = dict((nme, 'rejected') for nme in names)
    want['clean'] = 'accepted'
    if out != want:
        raise Infra('binding demonstration: the judge does not tell a corrupted trace from a clean one: %s' % out)
    return dict(done=True, line=L['id'], results=out)


def check(pid, tier, scratch, replay):
    t0 = time.time()
    # every TLC run here is single-threaded and small: do not let 16 JVMs each claim a quarter of the machine
    # (set here, not at import: this module is imported by every check)
    os.environ.setdefault('JAVA_TOOL_OPTIONS', '-Xmx4g')
    if tier not in TIERS:
        raise Infra('unknown tier %s' % tier)
    T = TIERS[tier]
    rnd = random.Random(vlib.seed())
    st = Stats()
    binary = vlib.build_go(scratch, './cmd/bip39', 'bip39')
    counters = {}
    if replay:
        rp = json.load(open(replay))
        cases = os.path.join(scratch.dir, 'cases.ndjson')
        with open(cases, 'w') as f:
            for c in rp['cases']:
                f.write(json.dumps(dict(src=c['src'], mut=c['mut'], ent=c['ent'], cs=c['cs'], atoms=c['atoms'], hin=c['hin'],
                                        pass_hex=c['pass_hex']), ensure_ascii=True) + '\n')
        counters = dict(cases=len(rp['cases']), replay=os.path.basename(replay))
    else:
        if T['mc']:
            r = tlc_retry('Bip39_MC.cfg', 'Bip39MC.tla', scratch, timeout=1500)
            st.add(r, 'Bip39MC')
            counters['spec_law_states'] = r.get('distinct', 0)
        cases, c2 = generate(tier, scratch, binary, st)
        counters.update(c2)
    files, nlines, wl = evaluate(scratch, binary, cases, T['passes'], 'main')
    verdict = judge(scratch, files, st)
    if verdict['lines'] != nlines:
        raise Infra('judge saw %d of %d lines' % (verdict['lines'], nlines))

    known = [k for k in vlib.load_known() if k.get('property') == pid and k.get('status') == 'known']
    known_kind = {}
    for k in known:
        for kind in k.get('kinds', []):
            known_kind[kind] = k['id']
    by_kind = {}
    for b in verdict['bad']:
        for kind in b['kinds']:
            by_kind.setdefault(kind, []).append(b)
    if 'trace-malformed' in by_kind:
        ids = [b['id'] for b in by_kind['trace-malformed']][:5]
        raise Infra('the judge found trace lines that contradict the specification\'s own computations (harness/driver fault): ids %s' % ids)
    bad_ids = set(b['id'] for b in verdict['bad'])
    lines = load_lines(files)
    xc = crosscheck(lines, rnd)

    viol_kinds = sorted(k for k in by_kind if k not in known_kind)
    known_seen = sorted(k for k in by_kind if k in known_kind)
    def smallest(kind):
        return lines[min(by_kind[kind], key=lambda b: (len(lines[b['id']]['text']), len(lines[b['id']]['pass_hex']), b['id']))['id']]

    for kind in known_seen:
        ex = smallest(kind)
        print('KNOWN-FINDING: property=%s %s %s on %d inputs, e.g. text=%r passphrase=%r'
              % (pid, known_kind[kind], kind, len(by_kind[kind]), ex['text'], ex['pass']))
    stale = sorted(set(known_kind) - set(by_kind)) if not replay else []
    for kind in stale:
        print('note: recorded finding %s (%s) was not reproduced by this run - stale entry?' % (known_kind[kind], kind))

    rc = 0
    nviol = 0
    if viol_kinds:
        vb = [b for b in verdict['bad'] if any(k not in known_kind for k in b['kinds'])]
        nviol = len(vb)
        # smallest inputs first
        vb.sort(key=lambda b: (len(lines[b['id']]['text']), len(lines[b['id']]['pass_hex']), b['id']))
        rcases = []
        for b in vb[:25]:
            L = lines[b['id']]
            rcases.append(dict(src=L['src'], mut=L['mut'], ent=L['ent'], cs=L['cs'], atoms=L['atoms'], hin=L['hin'], pass_hex=L['pass_hex'],
                               text=L['text'], passphrase=L['pass'], cls=b['cls'], kinds=sorted(b['kinds']), observed=brief(L)))
        path = vlib.save_replay(pid, 'violation-%s' % vlib.short_hash(json.dumps(rcases[0], sort_keys=True)),
                                dict(property=pid, kinds=viol_kinds, count=nviol, cases=rcases))
        for kind in viol_kinds:
            ex = smallest(kind)
            print('deviation %s on %d inputs, e.g. text=%r passphrase=%r entropy=%s'
                  % (kind, len(by_kind[kind]), ex['text'], ex['pass'], bytes(ex['ent']).hex()))
        print('VIOLATION property=%s replay=%s' % (pid, path))
        rc = 1

    demo = dict(done=False, why='replay run' if replay else 'skipped: violations found')
    if not replay and rc == 0:
        demo = binding_demo(scratch, lines, bad_ids)

    # samples: one per class and a few findings
    samples = []
    seen = set()
    tl = verdict['tally']
    for b in verdict['bad'][:3]:
        samples.append(brief(lines[b['id']], b['cls'], b['kinds']))
    for L in vlib.sample([x for x in lines.values() if x['id'] not in bad_ids], 400, rnd):
        key = (L['mut'].split('-')[0].split(':')[0], L['efm']['ok'])
        if key in seen or len(samples) >= 12:
            continue
        seen.add(key)
        samples.append(brief(L))
    fam = {}
    npass = set()
    nfkd_lines = 0
    for L in lines.values():
        f = re.split(r'[-:=/]', L['mut'])[0]
        f = 'rand' if f.startswith('rand') else f
        fam[f] = fam.get(f, 0) + 1
        npass.add(L['pass_hex'])
        nfkd_lines += L['pass_hex'] != L['nfkd_hex']
    cov = dict(states=st.states, transitions=st.transitions, traces_validated_against_impl=verdict['lines'], samples=samples,
               exhaustive=False, wordlist_sha256=wl, classes=dict((k, tl.get(k, 0)) for k in ('MUST-ACCEPT', 'MUST-REJECT', 'DONT-CARE')),
               reject_reasons=dict(length=tl.get('reject-length', 0), word=tl.get('reject-word', 0), checksum=tl.get('reject-checksum', 0)),
               unmutated_lines=tl.get('base', 0), mutants_still_valid_with_other_entropy=tl.get('mutant-still-valid', 0),
               lines_by_mutation_family=fam, distinct_passphrases=len(npass), lines_with_nfkd_changing_passphrase=nfkd_lines,
               deviating_lines=len(verdict['bad']), deviations_by_kind=dict((k, len(v)) for k, v in by_kind.items()),
               known_findings_reproduced=dict((fid, len(set(b['id'] for k in known_seen if known_kind[k] == fid for b in by_kind[k])))
                                              for fid in sorted(set(known_kind[k] for k in known_seen))), stale_known_findings=stale,
               primitive_crosschecks=xc, binding_demonstration=demo, tlc_runs=len(st.runs),
               tlc_wall_s=dict(mc=sum(r['wall_s'] for r in st.runs if r['run'] == 'Bip39MC'),
                               judge_max_shard=max([r['wall_s'] for r in st.runs if r['run'].startswith('Bip39Trace')] or [0])),
               bounds=dict((k, T[k]) for k in ('full', 'sweep', 'deltas', 'sweep_n', 'random', 'descs', 'passes')) if not replay else {})
    cov.update(counters)
    vlib.write_evidence(pid, tier, 'model_checking', cov, time.time() - t0, nviol, ASSUME)
    print('%s %s: %d lines judged by TLC (%d MUST-ACCEPT, %d MUST-REJECT, %d DONT-CARE), %d deviating (%d kinds known, %d new), %.0f s'
          % (pid, tier, verdict['lines'], tl.get('MUST-ACCEPT', 0), tl.get('MUST-REJECT', 0), tl.get('DONT-CARE', 0),
             len(verdict['bad']), len(known_seen), len(viol_kinds), time.time() - t0))
    return rc
