"""C02 (created transactions conserve value, spend only own / mature / free coins) and
C03 (signing yields valid witnesses, alters nothing else, needs the right passphrase).
Spec: spec/TxBuild.tla (relational post-conditions).  Binding: wallet states are reached by
replaying TLC-generated chain histories (so the coins are exactly the ledger specification's);
a battery of create / sign calls is recorded (request, decoded result, really signed size, consensus
relay fee of that size, script-engine verdict per input) and EVERY recorded call is judged by TLC."""
import json, os, random, re, time
import vlib, props
from vlib import Infra

IDS = ['C02', 'C03']
UNIT = {'unit': 1000000}   # 0.01 MASS per abstract unit: every total stays below 2^31 Maxwell for TLC


def denull(x):
    """Go marshals nil slices as null; the Json module has no null"""
    if x is None:
        return []
    if isinstance(x, dict):
        return {k: denull(v) for k, v in x.items()}
    if isinstance(x, list):
        return [denull(v) for v in x]
    return x


def judge(scratch, lines):
    """returns {line index (0-based): {'C02': set(tags), 'C03': set(tags)}}, judged count, tlc stats"""
    fails, stats = {}, dict(states=0, transitions=0)
    CH = 1500
    for off in range(0, len(lines), CH):
        chunk = lines[off:off + CH]
        r = vlib.tlc('TxBuild_Trace.cfg', 'TxBuildTrace.tla', scratch, workers=2, timeout=1200,
                     extra_files={'trace.ndjson': '\n'.join(chunk) + '\n'}, extra=['-continue'])
        if r['rc'] == 124 or r['error']:
            raise Infra('TxBuildTrace failed: %s' % r['log'][-1500:])
        if r.get('distinct', 0) < len(chunk):
            raise Infra('TxBuildTrace judged %s of %d lines\n%s' % (r.get('distinct'), len(chunk), r['log'][-1500:]))
        stats['states'] += r.get('distinct', 0)
        stats['transitions'] += r.get('generated', 0)
        for m in re.finditer(r'<<"FAIL", (\d+), "(C0[23])", \{([^}]*)\}>>', r['log']):
            i = off + int(m.group(1)) - 1
            fails.setdefault(i, {}).setdefault(m.group(2), set()).update(t.strip().strip('"') for t in m.group(3).split(','))
    return fails, stats


def check(pid, tier, scratch, replay):
    t0 = time.time()
    rnd = random.Random(vlib.seed())
    quick = tier == 'quick'
    if replay:
        r = json.load(open(replay))
        fails, _ = judge(scratch, [json.dumps(r['line'])])
        print(json.dumps({k: sorted(v) for k, v in fails.get(0, {}).items()}))
        return 1 if fails.get(0, {}).get(pid) else 0
    themes = [('Gen_Pay.cfg', 'MC_Pay.tla', {}, [({}, 30 if quick else 400), (props.P, 20 if quick else 300)]),
              ('Gen_Stake.cfg', 'MC_Stake.tla', props.STAKE_X, [({}, 20 if quick else 300), (props.P, 12 if quick else 200)])]
    jobs, runs = [], []
    for cfg, mod, extra, variants in themes:
        for ov, n in variants:
            o = {'GenDepth': '14', 'GenRandom': 'TRUE'}
            o.update(ov)
            r = vlib.tlc(cfg, mod, scratch, overrides=o, simulate=dict(num=n * 2, depth=15, seed=vlib.seed() * 13 + len(runs)))
            vlib.require_clean(r, 'generator ' + cfg)
            u = dict(r['universe'])
            u.update(extra)
            u.update(UNIT)
            hs = vlib.sample(sorted(set(r['histories'])), n, rnd)
            for k, h in enumerate(hs):
                jobs.append(dict(u=u, h=json.loads(h), mode='txbuild', opt=dict(seed=vlib.seed() * 1000 + len(jobs)), src=cfg))
            runs.append(dict(cfg=cfg, overrides=o, histories=len(hs)))
    # a wallet with many small coins (fee escalation, send-max): a scripted plain chain of 18 blocks
    acts = []
    for b in range(3, 19):
        acts += [dict(a='Extend', b=b, p=b - 1, txs=[[]]), dict(a='HandleBlock', b=b)]
    mod = '---- MODULE MC_Reg ----\nEXTENDS MC_Many\nRegScript == %s\n====\n' % vlib.tla(acts)
    t = vlib.tlc('Gen_Many.cfg', 'MC_Reg.tla', scratch, overrides={'GenDepth': str(len(acts)), 'Script': '<- RegScript'},
                 extra_files={'MC_Reg.tla': mod}, workers=2, timeout=600)
    vlib.require_clean(t, 'scripted many-coins history')
    if len(t['histories']) != 1:
        raise Infra('scripted many-coins history: %d behaviours' % len(t['histories']))
    um = dict(t['universe'])
    um.update(UNIT)
    jobs.append(dict(u=um, h=json.loads(t['histories'][0]), mode='txbuild', opt=dict(seed=vlib.seed(), sweep=True), src='Gen_Many (scripted)'))
    results = props.replay_jobs(scratch, jobs)
    lines, origin, infra = [], [], 0
    for job, res in zip(jobs, results):
        if not res or not res.get('ok'):
            infra += 1
            continue
        for l in res.get('lines', []):
            lines.append(json.dumps(denull(l)))
            origin.append(job)
    if infra > max(3, len(jobs) // 5):
        raise Infra('%d of %d battery runs inconclusive, e.g. %s' % (infra, len(jobs), [(r or {}).get('err') for r in results if not (r and r.get('ok'))][:2]))
    if not lines:
        raise Infra('no calls recorded')
    fails, stats = judge(scratch, lines)
    # binding demonstration: corrupt one recorded field, TLC must reject
    demo = json.loads(lines[next(i for i, l in enumerate(lines) if json.loads(l)['res']['ok'])])
    demo['res']['fee'] += 1
    dfails, _ = judge(scratch, [json.dumps(demo)])
    if 'fee-not-inputs-minus-outputs' not in dfails.get(0, {}).get('C02', set()):
        raise Infra('binding demonstration failed: a corrupted fee was not rejected by TLC')
    known = [k for k in vlib.load_known() if k.get('property') == pid and k.get('status') == 'known']
    viol, hits = [], {}
    by_kind, oks = {}, 0
    for i, l in enumerate(lines):
        L = json.loads(l)
        by_kind[L['kind']] = by_kind.get(L['kind'], 0) + 1
        oks += L['res']['ok']
        tags = fails.get(i, {}).get(pid, set())
        if not tags:
            continue
        k = next((k for k in known if tags <= set(k.get('kinds', [])) and
                  all(L['res'].get(f) == v for f, v in k.get('classifier', {}).get('res', {}).items()) and
                  (not k.get('classifier', {}).get('sign', {}).get('flag_prefix') or L['sign'].get('flag', '').startswith(k['classifier']['sign']['flag_prefix'])) and
                  (not k.get('classifier', {}).get('more_inputs_than_outputs') or len(L['res']['ins']) > len(L['res']['outs'])) and
                  (not k.get('classifier', {}).get('input_sbu') or any(c['sbu'] for c in L['coins'] if c['id'] in L['res']['ins']))), None)
        if k:
            hits.setdefault(k['id'], []).append(i)
        else:
            viol.append((i, sorted(tags)))
    for kid, idx in hits.items():
        k = next(x for x in known if x['id'] == kid)
        print('KNOWN-FINDING: property=%s %s (%d calls)' % (pid, k['summary'], len(idx)))
    seen = set()
    for i, tags in viol:
        sig = ','.join(tags)
        if sig in seen:
            continue
        seen.add(sig)
        L = json.loads(lines[i])
        pth = vlib.save_replay(pid, '%s-%s' % (tier, vlib.short_hash(lines[i])), dict(property=pid, line=L, tags=tags,
                               history=props.describe(origin[i]['h']), universe=origin[i]['u']))
        print('VIOLATION property=%s replay=%s' % (pid, pth))
        print('  %s call by %s: %s' % (L['kind'], L['wallet'], sig))
        print('  request: %s' % json.dumps(L['req']))
        print('  result: %s' % json.dumps(L['res']))
        if pid == 'C03':
            print('  sign: %s' % json.dumps(L['sign']))
    cov = dict(states=max(stats['states'], 1), transitions=max(stats['transitions'], 1), traces_validated_against_impl=len(lines),
               samples=[json.loads(l) for l in lines[:2]], calls_by_kind=by_kind, calls_that_built_a_transaction=oks,
               wallet_states=len(jobs) - infra, battery_runs_inconclusive=infra, generator_runs=runs,
               failing_calls=len(viol), known_finding_calls={k: len(v) for k, v in hits.items()},
               binding_demonstration='fee of one recorded result incremented -> TLC reports fee-not-inputs-minus-outputs',
               rule='wallet states = final states of TLC-generated chain histories (coins incl. immature coinbase, staking / binding, pending-spent); per state and wallet: automatic creates for amounts around the eligible total, with sender / change address, payload, lock time, two recipients, three consecutive unreleased drafts; one explicit-input create per coin (with and without fee subtraction); a staking and a binding deposit; every built transaction is signed with a wrong then the right passphrase under one of the six sighash flags and each input run through the consensus script engine; TLC judges every recorded call with TxBuild!Fails / SignFails')
    vlib.write_evidence(pid, tier, 'model_checking', cov, time.time() - t0, len(viol),
                        props.ASSUME_ENV + ['relay-fee function, dust rule, script engine and ECDSA are the consensus library\'s (trusted)',
                                            'amounts are scaled to 0.01 MASS per unit so that every total fits TLC\'s 32-bit integers'])
    print('%s %s: %d calls on %d wallet states judged by TLC (%s), %d built a transaction, failing=%d known=%d inconclusive=%d wall=%.0fs'
          % (pid, tier, len(lines), len(jobs) - infra, by_kind, oks, len(viol), sum(len(v) for v in hits.values()), infra, time.time() - t0))
    return 1 if viol else 0
