#!/bin/bash
# verify_seed.sh <name> <seed-dir> <run-regex> : confirm a seeded change in a scratch worktree of /repo HEAD:
#  demo passes without the change, fails with it; module builds; masswallet + api tests unchanged.
# Writes <seed-dir>/verify.json.  The worktree is removed afterwards.
set -u
name=$1; sd=$2; rx=$3
export GOFLAGS=-mod=mod GOPROXY=off GOSUMDB=off GOTOOLCHAIN=local
wt=/tmp/vs-$name
git -C /repo worktree remove --force $wt >/dev/null 2>&1
git -C /repo worktree add -f $wt HEAD >/dev/null 2>&1 || { echo "worktree failed"; exit 2; }
cd $wt
cp $sd/demo_test.go ${4:-masswallet}/seed_demo_test.go
go test -vet=off -count=1 -run "$rx" ./${4:-masswallet}/ > $sd/verify_demo_clean.log 2>&1; clean=$?
git apply $sd/patch.diff; ap=$?
go build ./... > $sd/verify_build.log 2>&1; bld=$?
go test -vet=off -count=1 -run "$rx" ./${4:-masswallet}/ > $sd/verify_demo_mut.log 2>&1; mut=$?
rm ${4:-masswallet}/seed_demo_test.go
go test -vet=off -count=1 ./masswallet/... ./cmd/... > $sd/verify_tests.log 2>&1; tst=$?
(cd api && go test -vet=off -count=1 -json . 2>/dev/null | grep '"Action":"fail"' | grep -o '"Test":"[^"]*"' | sort -u | tr '\n' ' ') > $sd/verify_api_fail.txt
cd /; git -C /repo worktree remove --force $wt
echo "{\"name\":\"$name\",\"head\":\"$(git -C /repo rev-parse --short HEAD)\",\"demo_clean_rc\":$clean,\"apply_rc\":$ap,\"build_rc\":$bld,\"demo_mutant_rc\":$mut,\"suite_rc\":$tst,\"api_failing\":\"$(cat $sd/verify_api_fail.txt)\"}" > $sd/verify.json
cat $sd/verify.json
