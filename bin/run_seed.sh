#!/bin/bash
# run_seed.sh <seed-name> <check-id>... : apply seeded/<name>/patch.diff to /repo, run the quick checks, undo the patch.
# Prints one line per check: <seed> <check> rc=<exit code> and keeps the output under /tmp/seedruns/.
name=$1; shift
mkdir -p /tmp/seedruns
cd /repo || exit 2
if [ -n "$(git status --porcelain)" ]; then echo "/repo is not clean"; exit 2; fi
git apply /verif/seeded/$name/patch.diff || { echo "$name: patch does not apply"; exit 2; }
for c in "$@"; do
  (cd /verif && timeout 3000 bin/check $c ${TIER:-quick} > /tmp/seedruns/$name-$c.log 2>&1); rc=$?
  echo "$name $c rc=$rc $(grep -c '^VIOLATION' /tmp/seedruns/$name-$c.log) violation lines"
done
git -C /repo checkout -- .
