---------------------------- MODULE Bip32Trace ----------------------------
(***************************************************************************)
(* Trace validation for C14: every line of an ndjson trace recorded from   *)
(* the real hdkeychain package (inputs, what the implementation returned,  *)
(* and the answers of the trusted primitives) is judged by Bip32!Verdict.  *)
(* The state is just the index of the line; the lines are independent, so  *)
(* the index advances in Stride interleaved chains and TLC's workers judge *)
(* lines in parallel.  One line is printed per judged trace line:          *)
(*    "V|index|verdict|clause|why"                                         *)
(* NoViolation / SpecSane are the invariants (TLC runs with -continue so   *)
(* that every line is judged even after a violation).                      *)
(***************************************************************************)
EXTENDS Bip32, Json

CONSTANTS TraceFile,   \* ndjson file in the working directory
          Known,       \* ids of known findings that are listed in known_findings.jsonl
          Stride

Trace == ndJsonDeserialize(TraceFile)
N == Len(Trace)

VARIABLE i

Init == i \in 1..(IF N < Stride THEN N ELSE Stride)
Next == i + Stride <= N /\ i' = i + Stride
Spec == Init /\ [][Next]_i

V == Verdict(Trace[i], Known)

Judged == PrintT("V|" \o ToString(i) \o "|" \o V.v \o "|" \o V.clause \o "|" \o V.why)
NoViolation == V.v # "violation"
SpecSane == V.v # "specfail"
=============================================================================
