----------------------------- MODULE StopTrace -----------------------------
(***************************************************************************)
(* Code -> spec: a trace recorded from the FREE-RUNNING follower, worker,  *)
(* API callers and stopper (no forced schedule; the Go scheduler and the   *)
(* random choices of select decide) is checked to be a behaviour of        *)
(* Stop.tla.  Events are written by the build-tagged scheduling points of  *)
(* masswallet/ntfnshandler.go (verifGate call sites) and by the harness    *)
(* threads, each under one mutex with a global sequence number:            *)
(*                                                                         *)
(*   handle.top handle.suspended handle.resumed         (handler's pc)     *)
(*   worker.top worker.suspend worker.resume worker.resumed remove.round   *)
(*   stop.enter (before close(quit))   stop.return (Stop has returned)     *)
(*   accept.begin kind / accept.end res     (an API call queuing a task)   *)
(*   push.begin / push.end                  (a tip notification queued)    *)
(*                                                                         *)
(* Every action of Stop.tla that moves a goroutine to a scheduling point   *)
(* makes that goroutine "owe" the events of the points it passes; it takes *)
(* no further action before they are consumed.  What the trace cannot show *)
(* (whether a round finished the task, which ready case select took) is    *)
(* left to TLC.  The trace is accepted iff all of it can be consumed.      *)
(***************************************************************************)
EXTENDS Stop, Json

VARIABLES l,        \* next trace line
          owedH,    \* events the handler still has to emit
          owedW,    \* events the worker still has to emit
          entered,  \* Stop() is past its entry point
          accKind,  \* kind of the API call in flight ("none")
          accRes,   \* its outcome once decided ("none" | "ok" | "busy")
          pushing,  \* a notification push is in flight
          pushed    \* ... and has been queued
tvars == <<vars, l, owedH, owedW, entered, accKind, accRes, pushing, pushed>>
aux == <<entered, accKind, accRes, pushing, pushed>>

NoTasks == <<>>
Trace == ndJsonDeserialize("trace.ndjson")
N == Len(Trace)

TraceInit ==
    /\ Init
    /\ l = 1 /\ owedH = <<"handle.top">> /\ owedW = <<"worker.top">>
    /\ entered = FALSE /\ accKind = "none" /\ accRes = "none" /\ pushing = FALSE /\ pushed = FALSE

Quiet == UNCHANGED <<l, aux>>

(* ------------------------------------------------ actions of Stop.tla *)
HBlockT == owedH = <<>> /\ HBlock /\ owedH' = <<"handle.top">> /\ UNCHANGED owedW /\ Quiet
HQuitT  == owedH = <<>> /\ (HQuit \/ HQuitSuspended) /\ UNCHANGED <<owedH, owedW>> /\ Quiet
SuspendT == owedH = <<>> /\ owedW = <<>> /\ Suspend /\ owedH' = <<"handle.suspended">> /\ UNCHANGED owedW /\ Quiet
ResumeT == owedH = <<>> /\ owedW = <<>> /\ Resume /\ owedH' = <<"handle.resumed", "handle.top">> /\ owedW' = <<"worker.resumed">> /\ Quiet

WQuitT == owedW = <<>> /\ WQuit /\ UNCHANGED <<owedH, owedW>> /\ Quiet
WTakeT == owedW = <<>> /\ WTake /\ owedW' = <<"worker.suspend">> /\ UNCHANGED owedH /\ Quiet
WSuspendQuitT == owedW = <<>> /\ WSuspendQuit /\ UNCHANGED <<owedH, owedW>> /\ Quiet
\* the update of a round; whether it completed the task is not in the trace
WUpdateFinish ==
    /\ wpc = "update"
    /\ held' = <<held[1], 0>>
    /\ wpc' = "send_resume"
    /\ UNCHANGED <<hpc, spc, quit, blocks, processed, taskq, first, dropped, acc>>
WUpdateT == owedW = <<>> /\ (WUpdate \/ WUpdateFinish) /\ owedW' = <<"worker.resume">> /\ UNCHANGED owedH /\ Quiet
WResumeQuitT == owedW = <<>> /\ WResumeQuit /\ owedW' = <<"worker.resumed">> /\ UNCHANGED owedH /\ Quiet
WAfterT == /\ owedW = <<>> /\ WAfter
           /\ owedW' = IF wpc' = "top" THEN <<"worker.top">> ELSE <<"remove.round", "worker.suspend">>
           /\ UNCHANGED owedH /\ Quiet

SCloseT == entered /\ SClose /\ UNCHANGED <<owedH, owedW>> /\ Quiet
SDoneT == SDone /\ UNCHANGED <<owedH, owedW>> /\ Quiet

\* an API call decides between its begin and its end whether the queue takes the task
AcceptT ==
    /\ accKind # "none" /\ accRes = "none"
    /\ \/ Len(taskq) < 3 /\ taskq' = Append(taskq, <<accKind, Rounds>>) /\ acc' = acc + 1 /\ accRes' = "ok"
       \/ Len(taskq) >= 3 /\ accRes' = "busy" /\ UNCHANGED <<taskq, acc>>
    /\ UNCHANGED <<hpc, wpc, spc, quit, blocks, processed, held, first, dropped>>
    /\ UNCHANGED <<l, owedH, owedW, entered, accKind, pushing, pushed>>
PushT ==
    /\ pushing /\ ~pushed
    /\ blocks' = blocks + 1 /\ pushed' = TRUE
    /\ UNCHANGED <<hpc, wpc, spc, quit, processed, taskq, held, first, dropped, acc>>
    /\ UNCHANGED <<l, owedH, owedW, entered, accKind, accRes, pushing>>

(* ----------------------------------------------------------- trace events *)
Ev == Trace[l]
Consume == l <= N /\ l' = l + 1
EvH == /\ Consume /\ owedH # <<>> /\ Ev.ev = Head(owedH)
       /\ owedH' = Tail(owedH) /\ UNCHANGED <<vars, owedW, aux>>
EvW == /\ Consume /\ owedW # <<>> /\ Ev.ev = Head(owedW)
       /\ owedW' = Tail(owedW) /\ UNCHANGED <<vars, owedH, aux>>
EvStopEnter == /\ Consume /\ Ev.ev = "stop.enter" /\ spc = "idle" /\ ~entered
               /\ entered' = TRUE /\ UNCHANGED <<vars, owedH, owedW, accKind, accRes, pushing, pushed>>
EvStopReturn == /\ Consume /\ Ev.ev = "stop.return" /\ spc = "stopped"
                /\ UNCHANGED <<vars, owedH, owedW, aux>>
EvAcceptBegin == /\ Consume /\ Ev.ev = "accept.begin" /\ accKind = "none"
                 /\ accKind' = Ev.kind /\ accRes' = "none"
                 /\ UNCHANGED <<vars, owedH, owedW, entered, pushing, pushed>>
EvAcceptEnd == /\ Consume /\ Ev.ev = "accept.end" /\ accKind # "none" /\ accRes = Ev.res
               /\ accKind' = "none" /\ accRes' = "none"
               /\ UNCHANGED <<vars, owedH, owedW, entered, pushing, pushed>>
EvPushBegin == /\ Consume /\ Ev.ev = "push.begin" /\ ~pushing
               /\ pushing' = TRUE /\ pushed' = FALSE
               /\ UNCHANGED <<vars, owedH, owedW, entered, accKind, accRes>>
EvPushEnd == /\ Consume /\ Ev.ev = "push.end" /\ pushing /\ pushed
             /\ pushing' = FALSE /\ pushed' = FALSE
             /\ UNCHANGED <<vars, owedH, owedW, entered, accKind, accRes>>

TraceNext == \/ HBlockT \/ HQuitT \/ SuspendT \/ ResumeT \/ WQuitT \/ WTakeT \/ WSuspendQuitT \/ WUpdateT
             \/ WResumeQuitT \/ WAfterT \/ SCloseT \/ SDoneT \/ AcceptT \/ PushT
             \/ EvH \/ EvW \/ EvStopEnter \/ EvStopReturn \/ EvAcceptBegin \/ EvAcceptEnd \/ EvPushBegin \/ EvPushEnd
TraceSpec == TraceInit /\ [][TraceNext]_tvars

\* "violated" exactly when the whole trace has been consumed: acceptance
NotAccepted == l <= N
\* progress of the longest explained prefix, for diagnosis of a rejection
ASSUME TLCSet(1, 0)
Progress == TLCSet(1, IF TLCGet(1) < l THEN l ELSE TLCGet(1))
PrintProgress == PrintT(<<"MAXL", TLCGet(1), N>>)
\* properties of Stop.tla evaluated on the states that explain the trace
TraceNoTaskDropped == dropped = 0
=============================================================================
