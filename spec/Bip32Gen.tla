------------------------------ MODULE Bip32Gen ------------------------------
(***************************************************************************)
(* Case generator for C14.  TLC enumerates the STRUCTURE of the inputs the *)
(* statement quantifies over; the harness fills in the seeded byte content *)
(* and runs the real code; Bip32Trace judges the result.                   *)
(*                                                                         *)
(*  seed    every seed length 16..64 x {all 0x00, all 0xFF, random}, plus  *)
(*          lengths just outside the quantifier (don't-care)               *)
(*  path    every hardened / non-hardened pattern up to MaxDepth x the way *)
(*          child numbers are chosen (small, 2^k edges, random)            *)
(*  corrupt every single-byte corruption (position x xor-delta) of the     *)
(*          82 bytes of a serialised private / public key, with the        *)
(*          checksum left alone (must be rejected) or recomputed (the key  *)
(*          rules decide), and single-character corruptions of the text    *)
(*  craft   key material at the boundaries of the import rules, with the   *)
(*          class the statement assigns (cross-checked against             *)
(*          Bip32!ParseClass on the concrete bytes: "generator-class")     *)
(* One line <<"CASE", json>> is printed per case.                          *)
(***************************************************************************)
EXTENDS Naturals, Sequences, TLC, Json

CONSTANTS MaxDepth,    \* longest path
          Deltas,      \* xor deltas applied to a byte (subset of 1..255)
          TextLen      \* positions of the base-58 text that are corrupted (1..111)

AllDeltas == 1..255      \* thorough tier: every single-byte corruption

Shapes == UNION {[1..d -> {"H", "N"}] : d \in 0..MaxDepth}

SeedCases == [t : {"seed"}, len : 16..64, fill : {"zero", "ff", "rand"}, expectclass : {"accept"}]
             \cup [t : {"seed"}, len : {0, 15, 65, 128}, fill : {"rand"}, expectclass : {"dontcare"}]

PathCases == [t : {"path"}, shape : Shapes, idx : {"small", "edge", "rand"}]

ByteCorruptions ==
    [t : {"corrupt"}, key : {"prv", "pub"}, level : {"byte"}, pos : 1..82, delta : Deltas, refix : {FALSE}, expectclass : {"reject"}]
    \cup [t : {"corrupt"}, key : {"prv", "pub"}, level : {"byte"}, pos : 1..78, delta : Deltas, refix : {TRUE}, expectclass : {""}]

\* text level: replace the character by its successor / predecessor in the base-58 alphabet, or by a
\* character outside the alphabet
CharCorruptions ==
    [t : {"corrupt"}, key : {"prv", "pub"}, level : {"char"}, pos : 1..TextLen,
     op : {"next", "prev", "zero", "capO", "capI", "lowl", "space"}, expectclass : {"reject"}]

\* boundary key material and framing; "" = decided by the concrete bytes only
Craft(kind, what, class) == [t |-> "craft", key |-> kind, what |-> what, expectclass |-> class]
CraftCases == {
    Craft("prv", "key=0", "reject"), Craft("prv", "key=1", "accept"), Craft("prv", "key=n-1", "accept"),
    Craft("prv", "key=n", "reject"), Craft("prv", "key=n+1", "reject"), Craft("prv", "key=max", "reject"),
    Craft("prv", "key=lead1", "accept"), Craft("prv", "key=lead2", "accept"), Craft("prv", "key=lead31", "accept"),
    Craft("pub", "x=offcurve", "reject"), Craft("pub", "x=offcurve-odd", "reject"), Craft("pub", "x=p", "reject"),
    Craft("pub", "x=p+1", "reject"), Craft("pub", "x=max", "reject"), Craft("pub", "x=0", ""),
    Craft("pub", "x>=p-reduced-on-curve", "reject"), Craft("pub", "x>=p-reduced-on-curve-odd", "reject"),
    Craft("pub", "x>=p-reduced-off-curve", "reject"),
    Craft("pub", "x=G", "accept"), Craft("pub", "flip-parity", "accept"),
    Craft("pub", "prefix=01", "reject"), Craft("pub", "prefix=04", "reject"), Craft("pub", "prefix=05", "reject"),
    Craft("pub", "prefix=06", "reject"), Craft("pub", "prefix=ff", "reject"), Craft("prv", "prefix=01", "reject"),
    Craft("prv", "prefix=04", "reject"),
    Craft("prv", "version=pub", "dontcare"), Craft("pub", "version=prv", "dontcare"),
    Craft("prv", "version=zero", "dontcare"), Craft("prv", "version=testnet", "dontcare"), Craft("pub", "version=testnet", "dontcare"),
    Craft("prv", "depth0-fp", "dontcare"), Craft("prv", "depth0-num", "dontcare"), Craft("pub", "depth0-fp", "dontcare"),
    Craft("prv", "depth=255", "accept"), Craft("pub", "depth=255", "accept"), Craft("prv", "depth=254", "accept"),
    Craft("prv", "len=77", "reject"), Craft("prv", "len=79", "reject"), Craft("pub", "len=77", "reject"),
    Craft("pub", "len=79", "reject"), Craft("prv", "no-checksum", "reject"), Craft("prv", "extra-zero-byte", "reject"),
    Craft("prv", "empty", "reject"), Craft("prv", "text-drop-last", "reject"), Craft("prv", "text-append-1", "reject"),
    Craft("prv", "text-prepend-1", "reject"), Craft("pub", "text-drop-last", "reject"), Craft("pub", "text-append-1", "reject"),
    Craft("pub", "text-prepend-1", "reject"), Craft("prv", "text-plus", "reject"), Craft("prv", "identity", "accept"),
    Craft("pub", "identity", "accept") }

VARIABLE c
Init == \/ c \in SeedCases
        \/ c \in PathCases
        \/ c \in ByteCorruptions
        \/ c \in CharCorruptions
        \/ c \in CraftCases
Next == UNCHANGED c
Spec == Init /\ [][Next]_c
Emit == PrintT(<<"CASE", ToJson(c)>>)
=============================================================================
