----------------------------- MODULE KVStoreGen -----------------------------
(***************************************************************************)
(* Behaviour generator for C11.  The history is part of the state, so      *)
(* TLC's breadth-first search enumerates EVERY operation sequence of       *)
(* length GenDepth (after the scripted prefix GPrefix) over the operation  *)
(* alphabet of the configuration, and -simulate draws random ones.         *)
(* Every history entry carries the operation, the result class/value the   *)
(* caller must see (KVStore!Res) and - when GObs - the complete committed  *)
(* store and the complete view of the open write transaction after the     *)
(* step, which the replayer compares with what it can read back from the   *)
(* real store through each read procedure (point reads, prefix reads,      *)
(* recursive listing, iteration).                                          *)
(***************************************************************************)
EXTENDS KVStore, Json

CONSTANTS
    GActs,      \* operation kinds of this theme
    GModes,     \* subset of {"m","u"}: BeginTx/Commit/Rollback by hand, or db.Update(closure)
    GPaths,     \* bucket paths addressed by put/del/clear and the reads
    GCreate,    \* bucket paths addressed by create / delete-bucket
    GKeys, GVals,
    GPre,       \* prefixes for prefix reads / prefix iteration
    GRanges,    \* <<lo, hi>> pairs for range iteration
    GSeeks,     \* seek keys
    GPreN,      \* numbers of Next() calls before the seek
    GReadVia,   \* subset of {"r","w"} for the read operations
    GPrefix,    \* scripted prefix (sequence of operations), executed through the same Next
    GProbeP, GProbeK,   \* probe paths / keys of the full observation (sequences)
    GObs,       \* TRUE: every entry carries the full expected stores
    GenDepth,   \* number of free operations after the prefix
    GenRandom,  \* TRUE (simulation only): one random instance per operation kind
    GSample, GSeed,   \* emit 1 history in GSample (see Emit)
    AvoidDead   \* TRUE: no write is issued below a bucket deleted in the open transaction
                \*       (those histories are the subject of known finding K-C11-1, see KVStore_known.cfg)

VARIABLES st, hist
gvars == <<st, hist>>

Op(a, via, p, k, v, k2, n, s) == [a |-> a, via |-> via, p |-> p, k |-> k, v |-> v, k2 |-> k2, n |-> n, s |-> s]
Ctl(a)       == Op(a, "-", <<>>, <<>>, <<>>, <<>>, 0, FALSE)
Begin(m)     == Op("begin", m, <<>>, <<>>, <<>>, <<>>, 0, FALSE)
W(a, p, k, v) == Op(a, "w", p, k, v, <<>>, 0, FALSE)
Rd(a, via, p, k) == Op(a, via, p, k, <<>>, <<>>, 0, FALSE)
It(p, lo, hi, n, s, sk) == Op("iter", "r", p, lo, sk, hi, n, s)

ActSeq == <<"begin", "commit", "rollback", "errret", "reopen", "create", "delb", "put", "del", "clear",
            "get", "pget", "names", "iter", "iterp">>

\* (Cands takes the history length only to keep TLC from evaluating it once as a constant:
\*  the random picks must be drawn anew at every step)
Pick(S) == IF GenRandom /\ S # {} THEN {RandomElement(S)} ELSE S

Universe == [pp |-> GProbeP, pk |-> GProbeK]
ASSUME PrintT(<<"UNIV", ToJson(Universe)>>)

Cands(step) ==
    UNION {
      Pick({Begin(m) : m \in GModes}),
      {Ctl("commit")}, {Ctl("rollback")}, {Ctl("errret")}, {Ctl("reopen")},
      Pick({W("create", p, <<>>, <<>>) : p \in GCreate}),
      Pick({W("delb", p, <<>>, <<>>) : p \in GCreate}),
      Pick({W("put", p, k, v) : p \in GPaths, k \in GKeys, v \in GVals}),
      Pick({W("del", p, k, <<>>) : p \in GPaths, k \in GKeys}),
      Pick({W("clear", p, <<>>, <<>>) : p \in GPaths}),
      Pick({Rd("get", via, p, k) : via \in GReadVia, p \in GPaths, k \in GKeys}),
      Pick({Rd("pget", via, p, k) : via \in GReadVia, p \in GPaths, k \in GPre}),
      Pick({Rd("names", via, p, <<>>) : via \in GReadVia, p \in GPaths \cup {<<>>}}),
      Pick({Rd("iterp", "r", p, k) : p \in GPaths, k \in GPre}),
      Pick({It(p, r[1], r[2], 0, FALSE, <<>>) : p \in GPaths, r \in GRanges}
           \cup {It(p, r[1], r[2], n, TRUE, sk) : p \in GPaths, r \in GRanges, n \in GPreN, sk \in GSeeks})
    }

Allowed(op) ==
    /\ op.a \in GActs
    /\ Usable(st, op)
    /\ (AvoidDead /\ op.a \in WriteOps) =>
           ~UnderDead(st, IF op.a \in {"create", "delb"} THEN Parent(op.p) ELSE op.p)

Entry(op, nst) ==
    op @@ [exp   |-> Res(st, op),
           o     |-> GObs /\ Len(hist) + 1 >= Len(GPrefix),   \* observe after the prefix and after every free step
           wo    |-> nst.open,
           r     |-> IF GObs /\ Len(hist) + 1 >= Len(GPrefix) THEN Snap(nst.com) ELSE {},
           w     |-> IF GObs /\ Len(hist) + 1 >= Len(GPrefix) /\ nst.open THEN Snap(nst.view) ELSE {},
           dead  |-> nst.dead,
           taint |-> nst.taint]

Step(op) == /\ Allowed(op)
            /\ st' = Eff(st, op)
            /\ hist' = Append(hist, Entry(op, Eff(st, op)))

GenInit == st = InitState /\ hist = <<>>

GenNext ==
    /\ Len(hist) < Len(GPrefix) + GenDepth
    /\ IF Len(hist) < Len(GPrefix)
       THEN LET op == GPrefix[Len(hist) + 1] IN
            /\ Usable(st, op)
            /\ st' = Eff(st, op)
            /\ hist' = Append(hist, Entry(op, Eff(st, op)))
       ELSE \E op \in Cands(Len(hist)) : Step(op)

GenSpec == GenInit /\ [][GenNext]_gvars

\* Emission (never violated).  The scripted prefix, which all histories of a run share, is printed
\* once ("PREF"); each full-length history is printed as its free part ("HIST").  GSample = 1
\* prints all of them; GSample = m prints the histories whose (deterministic) hash is congruent
\* to GSeed modulo m - a reproducible 1/m sample taken inside the enumeration.
RECURSIVE SumSeq(_)
SumSeq(s) == IF s = <<>> THEN 0 ELSE s[1] + SumSeq(Tail(s))
RECURSIVE SumPath(_)
SumPath(p) == IF p = <<>> THEN 0 ELSE SumSeq(p[1]) + 7 * SumPath(Tail(p))
ActNo(a) == CHOOSE i \in 1..Len(ActSeq) : ActSeq[i] = a
OpHash(e) == (ActNo(e.a) * 131 + SumSeq(e.k) * 3 + SumSeq(e.v) * 5 + SumSeq(e.k2) * 11 + SumPath(e.p) * 13
              + Len(e.p) * 17 + e.n * 19 + (IF e.s THEN 23 ELSE 0) + (IF e.via = "w" THEN 29 ELSE IF e.via = "u" THEN 37 ELSE 0)) % 1000003
RECURSIVE HistHash(_, _)
HistHash(h, acc) == IF h = <<>> THEN acc ELSE HistHash(Tail(h), (acc * 31 + OpHash(h[1])) % 1000003)
Free == SubSeq(hist, Len(GPrefix) + 1, Len(hist))
Emit == /\ (Len(hist) = Len(GPrefix)) => PrintT(<<"PREF", ToJson(hist)>>)
        /\ (Len(hist) = Len(GPrefix) + GenDepth /\ (GSample = 1 \/ (HistHash(Free, 7) + GSeed) % GSample = 0))
               => PrintT(<<"HIST", ToJson(Free)>>)

\* ---- the clauses of C11 as properties of the reference machine itself (checked on every
\* generator run; they hold by construction of KVStore!Eff and guard the specification
\* against edits that would silently weaken what the replays demand)
WellFormed(S) ==
    /\ \A p \in S.bk : Len(p) >= 1 /\ ValidName(Name(p)) /\ (Len(p) = 1 \/ Parent(p) \in S.bk)
    /\ \A x \in DOMAIN S.kv : x[1] \in S.bk /\ ValidKey(x[2]) /\ ValidVal(S.kv[x])
TreeOK == WellFormed(st.com) /\ WellFormed(st.view) /\ (~st.open => st.view = EmptyStore)

RECURSIVE Ascending(_)
Ascending(es) == Len(es) < 2 \/ (Less(es[1][1], es[2][1]) /\ Ascending(Tail(es)))

Clauses ==
    [][ LET e == hist'[Len(hist')] IN
        /\ e.a # "commit" => st'.com = st.com                  \* only a commit changes what read transactions see,
        /\ e.a = "commit" => st'.com = st.view /\ ~st'.open    \* and it publishes the whole view at once
        /\ e.a \in {"rollback", "errret"} => st'.com = st.com /\ ~st'.open
        /\ e.a = "begin" => st'.view = st.com /\ st'.open
        /\ e.a = "reopen" => st' = st                          \* everything committed is still there
        /\ e.exp.c \in {"err", "nobucket", "any", "noval"} => st'.view = st.view    \* an error return changes nothing
        /\ e.a \in ReadOps => st'.view = st.view /\ st'.com = st.com
        /\ (e.a \in {"pget", "iterp"} \/ (e.a = "iter" /\ ~e.s)) /\ e.exp.c \in {"ents", "entset"}
              => Ascending(e.exp.x)                            \* each matching entry once, ascending
      ]_gvars

\* the prefix must be executable (a wrong script would silently generate nothing)
PrefixOK == Len(hist) < Len(GPrefix) => Usable(st, GPrefix[Len(hist) + 1])
=============================================================================
