------------------------------- MODULE ApiMC -------------------------------
(***************************************************************************)
(* The request / response state machine of Api.tla as a model: state = the *)
(* abstract wallet state, actions = Call(method, shape) answered with any  *)
(* class the contract admits (one representative "e0" for "any error"),    *)
(* WorkerStep (a queued background task finishes) and Restart.             *)
(* TLC explores it exhaustively and checks                                 *)
(*   TypeOK      the contract keeps the state inside the abstraction       *)
(*   SelValid    the selected wallet is never one that is absent or still  *)
(*               importing                                                 *)
(*   TasksCover  every wallet that is importing / removing has a queued    *)
(*               task (nothing is left behind without a worker step)       *)
(*   Determined  PostOK admits at least one successor for every admitted   *)
(*               answer (the contract never paints itself into a corner)   *)
(* and reports (REACHED lines, demanded by the driver) that every initial   *)
(* state class the harness scripts (Api!InitStates) is a state of this     *)
(* machine reachable from "ready" - the classes are not invented by the    *)
(* harness.                                                                *)
(* This is a statement about the SPECIFICATION; the code is bound to it by *)
(* ApiTrace (every recorded call must be a step of this machine).          *)
(***************************************************************************)
EXTENDS Api

CONSTANTS MaxTasks, MaxExtra

VARIABLES s, lastm
vars == <<s, lastm>>

Answers(A) == (A \ {"err"}) \cup (IF "err" \in A THEN {"e0"} ELSE {})

Cand(p) == {p} \cup {[p EXCEPT !.sel = w] : w \in Wal}
               \cup {[p EXCEPT !.st[w] = v, !.tasks = t] : w \in Wal, v \in Status, t \in {p.tasks, p.tasks + 1}}
               \cup {[p EXCEPT !.extra = p.extra + 1, !.tasks = t] : t \in {p.tasks, p.tasks + 1}}

Succ(p, x, cl) == {q \in Cand(p) : PostOK(p, x[1], x[2], cl, q)}

\* one representative per (rule, state-changing behaviour): cases that agree on both are the same action here
Key(x) == <<x[3], IF Mutating(x[1], x[2]) THEN <<x[1], x[2]>> ELSE <<"-", "-">> >>
Reps == {CHOOSE x \in Cases : Key(x) = k : k \in {Key(x) : x \in Cases}}

Init == s = StateOf("ready") /\ lastm = "init"

Call == \E x \in Reps : \E cl \in Answers(Allowed(s, x[3])) : \E q \in Succ(s, x, cl) :
            /\ q.tasks <= MaxTasks /\ q.extra <= MaxExtra
            /\ s' = q /\ lastm' = x[1]

Worker == \E q \in Cand(s) \cup {[s EXCEPT !.st[w] = "absent", !.tasks = s.tasks - 1, !.sel = "none"] : w \in Wal}
                               \cup {[s EXCEPT !.st[w] = v, !.tasks = s.tasks - 1] : w \in Wal, v \in Status}
                               \cup {[s EXCEPT !.tasks = s.tasks - 1]} :
                /\ WorkerStep(s, q) /\ s' = q /\ lastm' = "worker"

\* the process ends and is started again: nothing is selected, persisted tasks are queued again
Restart == s' = [s EXCEPT !.sel = "none"] /\ lastm' = "restart"

Next == Call \/ Worker \/ Restart
Spec == Init /\ [][Next]_vars

TypeOK == s \in AbsState
SelValid == s.sel \in Wal => s.st[s.sel] \in {"ready", "removing"}
TasksCover == Cardinality({w \in Wal : s.st[w] \in {"importing", "removing"}}) <= s.tasks
Determined == \A x \in Reps : \A cl \in Answers(Allowed(s, x[3])) : Succ(s, x, cl) # {}

\* reachability of the scripted state classes: TLC prints each class when it first meets it; the driver
\* demands all of them.  (The classes "pending", "spent", "afterevents" differ from "ready" by the chain
\* history only, which no API call changes: they are compared up to the coins component.)
Norm(p) == [p EXCEPT !.coins = "confirmed"]
Mark == \A c \in InitStates : (Norm(s) = Norm(StateOf(c))) => PrintT(<<"REACHED", c>>)
=============================================================================
