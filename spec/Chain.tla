------------------------------- MODULE Chain -------------------------------
(***************************************************************************)
(* The environment of the wallet: what a MASS full node can hold and       *)
(* deliver.  A block tree that grows (Extend, MineSide), a best chain that *)
(* can be replaced by the path to any other leaf (SwitchTo: mass-core      *)
(* prefers capacity sum, not length, so the new best chain may be shorter),*)
(* a node mempool (Announce) and the two notification queues the wallet    *)
(* registers for (blockchain.Listener: OnBlockConnected with the NEW TIP   *)
(* ONLY, after a plain connect and after a reorganisation alike; and       *)
(* OnTransactionReceived).                                                 *)
(*                                                                         *)
(* Blocks are numbered in creation order (canonical ids), 0 is genesis.    *)
(* The transaction universe is a constant: TxIns / TxOuts give the static  *)
(* structure of every non-coinbase transaction; the coinbase of block b is *)
(* the transaction CbId[b] with the single output CbOut[b].                *)
(***************************************************************************)
EXTENDS Integers, Sequences, FiniteSets, TLC

CONSTANTS
    Wallets,        \* wallet names (strings); any other owner is a stranger
    TxIds,          \* ids of the non-coinbase transactions of the universe
    TxIns,          \* [TxIds -> SUBSET Outpoint]   Outpoint == <<txid, k>>, k from 1
    TxOuts,         \* [TxIds -> Seq(Out)]  Out == [owner, addr, class, amt, lock]
    TxOrder,        \* sequence of the TxIds that may be mined, dependency-consistent (canonical block order)
    CbId,           \* sequence: CbId[b] = id of the coinbase of block b
    CbOut,          \* sequence: CbOut[b] = the coinbase output of block b
    Base,           \* the first Base blocks form a linear prefix already synced by the wallet
    MaxBlocks,      \* bound on blocks ever created
    MaxTxPerBlock,  \* bound on non-coinbase transactions per block
    MaxQ,           \* bound on queued tip notifications
    CbMat,          \* consensus.CoinbaseMaturity
    BindLock        \* consensus.MASSIP0002BindingLockedPeriod

VARIABLES
    parent,     \* parent[b]  : parent block of b  (sequence, index = block id)
    content,    \* content[b] : sequence of TxIds in block b after the coinbase
    best,       \* best chain: best[h] = block at height h (h >= 1)
    pool,       \* node mempool: announced, still valid, unconfirmed transactions
    ntfB,       \* queued tip notifications (block ids)
    ntfT,       \* queued unconfirmed-transaction notifications
    reorg       \* 0, or the leaf a step-by-step reorganisation is heading for (see ReorgStep)

chainVars == <<parent, content, best, pool, ntfB, ntfT, reorg>>

NBlk      == Len(parent)
Blocks    == 1..NBlk
Range(s)  == {s[i] : i \in DOMAIN s}
Last(s)   == s[Len(s)]
Front(s)  == SubSeq(s, 1, Len(s) - 1)

RECURSIVE Height(_)
Height(b) == IF b = 0 THEN 0 ELSE 1 + Height(parent[b])

\* Path(b) = the chain from height 1 up to b
RECURSIVE Path(_)
Path(b) == IF b = 0 THEN <<>> ELSE Append(Path(parent[b]), b)

Tip        == IF best = <<>> THEN 0 ELSE Last(best)
OnBest(b)  == b = 0 \/ (Height(b) <= Len(best) /\ best[Height(b)] = b)
IsLeaf(b)  == \A c \in Blocks : parent[c] # b

CbIds      == {CbId[b] : b \in 1..MaxBlocks}
IsCb(t)    == t \in CbIds
CbBlock(t) == CHOOSE b \in 1..MaxBlocks : CbId[b] = t
OutsOf(t)  == IF IsCb(t) THEN <<CbOut[CbBlock(t)]>> ELSE TxOuts[t]
InsOf(t)   == IF IsCb(t) THEN {} ELSE TxIns[t]
BlockTxs(b) == <<CbId[b]>> \o content[b]

(***************************************************************************)
(* Facts about a chain.  A chain is represented by its contents            *)
(* cc = <<txs of block at height 1 (coinbase first), txs at height 2, ..>> *)
(* so that the same operators apply to the best chain, to the chain the    *)
(* wallet has applied and to hypothetical branches not yet in the tree.    *)
(***************************************************************************)
CC(c)       == [h \in DOMAIN c |-> BlockTxs(c[h])]
TxsOn(cc)   == UNION {Range(cc[h]) : h \in DOMAIN cc}
HeightOn(cc, t) == CHOOSE h \in DOMAIN cc : t \in Range(cc[h])
SpentOn(cc) == UNION {InsOf(t) : t \in TxsOn(cc)}
MaxOuts     == 3
CreatedOn(cc) == {op \in TxsOn(cc) \X (1..MaxOuts) : op[2] <= Len(OutsOf(op[1]))}
OutOf(op)   == OutsOf(op[1])[op[2]]

Maturity(o) == CASE o.class = "cb"    -> CbMat
                 [] o.class = "stk"   -> o.lock + 1
                 [] o.class = "nbind" -> BindLock
                 [] OTHER             -> 0

\* consensus: an output created at height h0 may be spent by a transaction in
\* a block at height h iff h - h0 >= Maturity (checkTxInMaturity, SequenceLockActive)
SpendableAt(op, h0, h) == h - h0 >= Maturity(OutOf(op))

(***************************************************************************)
(* Valid block content: applying txs (in canonical order) on top of chain  *)
(* cc yields a chain a node could hold: inputs exist, are unspent (earlier *)
(* transactions of the same block count) and mature, no duplicate tx.      *)
(***************************************************************************)
RECURSIVE ValidSeq(_, _, _, _)
ValidSeq(txs, created, spent, cc) ==
    IF txs = <<>> THEN TRUE
    ELSE LET t == Head(txs) IN
         /\ t \notin TxsOn(cc)
         /\ \A op \in TxIns[t] :
               /\ op \notin spent
               /\ \/ op \in created /\ OutOf(op).class = "std"   \* created earlier in this block (ordinary outputs only)
                  \/ /\ op \in CreatedOn(cc)
                     /\ SpendableAt(op, HeightOn(cc, op[1]), Len(cc) + 1)
         /\ ValidSeq(Tail(txs),
                     created \cup {<<t, k>> : k \in 1..Len(TxOuts[t])},
                     spent \cup TxIns[t], cc)

ValidContent(txs, cc) == ValidSeq(txs, {}, SpentOn(cc), cc)

\* all candidate contents: subsequences of TxOrder of length <= MaxTxPerBlock
Contents(cc) ==
    LET idx == 1..Len(TxOrder)
        one == {<<TxOrder[i]>> : i \in idx}
        two == {<<TxOrder[i], TxOrder[j]>> : <<i, j>> \in {p \in idx \X idx : p[1] < p[2]}}
        cand == {<<>>} \cup (IF MaxTxPerBlock >= 1 THEN one ELSE {})
                        \cup (IF MaxTxPerBlock >= 2 THEN two ELSE {})
    IN {s \in cand : ValidContent(s, cc)}

\* contents of a new branch of k blocks (ids n+1 .. n+k) on top of chain cc
RECURSIVE BranchContents(_, _, _)
BranchContents(cc, n, k) ==
    IF k = 0 THEN {<<>>}
    ELSE UNION {{<<txs>> \o rest : rest \in BranchContents(Append(cc, <<CbId[n + 1]>> \o txs), n + 1, k - 1)}
                  : txs \in Contents(cc)}

(***************************************************************************)
(* Node mempool: a transaction is accepted (and only then announced) when  *)
(* every input is unspent on the best chain or created by a pool           *)
(* transaction, it conflicts with nothing in the pool and is not mined.    *)
(***************************************************************************)
PoolOK(t, p, c) ==
    /\ t \notin TxsOn(c)
    /\ t \notin p
    /\ \A op \in TxIns[t] :
          /\ op \notin SpentOn(c)
          /\ \A u \in p : op \notin TxIns[u]
          /\ \/ op \in CreatedOn(c)
             \/ op[1] \in p
RECURSIVE PoolSettle(_, _)
PoolSettle(p, c) ==
    LET bad == {t \in p : \/ t \in TxsOn(c)
                          \/ \E op \in TxIns[t] :
                                \/ op \in SpentOn(c)
                                \/ ~(op \in CreatedOn(c) \/ op[1] \in p)}
    IN IF bad = {} THEN p ELSE PoolSettle(p \ bad, c)

(***************************************************************************)
(* Actions                                                                 *)
(***************************************************************************)
ChainInit ==
    /\ parent  = [b \in 1..Base |-> b - 1]
    /\ content = [b \in 1..Base |-> <<>>]
    /\ best    = [b \in 1..Base |-> b]
    /\ pool = {}
    /\ ntfB = <<>>
    /\ ntfT = <<>>
    /\ reorg = 0

\* connectBestChain, plain case: a new block on the tip; the tip is notified
Extend(txs) ==
    /\ reorg = 0
    /\ NBlk < MaxBlocks
    /\ Len(ntfB) < MaxQ
    /\ txs \in Contents(CC(best))
    /\ parent'  = Append(parent, Tip)
    /\ content' = Append(content, txs)
    /\ best'    = Append(best, NBlk + 1)
    /\ pool'    = PoolSettle(pool, CC(best)')
    /\ ntfB'    = Append(ntfB, NBlk + 1)
    /\ UNCHANGED <<ntfT, reorg>>

\* a block that does not become best: no notification at all
MineSide(p, txs) ==
    /\ reorg = 0
    /\ NBlk < MaxBlocks
    /\ p \in (Blocks \cup {0}) /\ p # Tip /\ p >= Base
    /\ txs \in Contents(CC(Path(p)))
    /\ parent'  = Append(parent, p)
    /\ content' = Append(content, txs)
    /\ UNCHANGED <<best, pool, ntfB, ntfT, reorg>>

\* reorganizeChain seen atomically: the best chain becomes the path to another
\* leaf; only the new tip is notified
SwitchTo(l) ==
    /\ reorg = 0
    /\ l \in Blocks /\ IsLeaf(l) /\ ~OnBest(l)
    /\ Len(ntfB) < MaxQ
    /\ best' = Path(l)
    /\ pool' = PoolSettle(pool, CC(best'))
    /\ ntfB' = Append(ntfB, l)
    /\ UNCHANGED <<parent, content, ntfT, reorg>>

\* a competing branch of Len(cs) new blocks on top of best-chain block p wins:
\* side blocks are invisible to the wallet (no notification, not in the chain
\* DB), so mining them and switching is one step as far as the wallet can tell
SeqFromTo(a, b) == [i \in 1..(b - a + 1) |-> a + i - 1]
Fork(p, cs) ==
    /\ reorg = 0
    /\ cs # <<>>
    /\ NBlk + Len(cs) <= MaxBlocks
    /\ Len(ntfB) < MaxQ
    /\ p \in Range(best) /\ p # Tip /\ p >= Base
    /\ parent'  = parent \o [i \in 1..Len(cs) |-> IF i = 1 THEN p ELSE NBlk + i - 1]
    /\ content' = content \o cs
    /\ best'    = Path(p) \o SeqFromTo(NBlk + 1, NBlk + Len(cs))
    /\ pool'    = PoolSettle(pool, CC(best)')
    /\ ntfB'    = Append(ntfB, NBlk + Len(cs))
    /\ UNCHANGED <<ntfT, reorg>>

(***************************************************************************)
(* The same reorganisation at the grain of the chain database: mass-core's *)
(* reorganizeChain disconnects the old branch block by block and connects  *)
(* the new one block by block, every step its own database commit, and the *)
(* wallet reads the chain database without the chain lock - so a handler   *)
(* step working on an earlier notification, a rescan batch or a query can  *)
(* observe every intermediate chain.  Only the final tip is notified.      *)
(*   ForkSlow(p, cs) : the competing branch exists (side blocks), the node *)
(*                     has decided to switch to it                         *)
(*   ReorgStep       : one disconnect (while the tip is not on the path to *)
(*                     the target) or one connect (afterwards)             *)
(***************************************************************************)
ForkSlow(p, cs) ==
    /\ reorg = 0
    /\ cs # <<>>
    /\ NBlk + Len(cs) <= MaxBlocks
    /\ Len(ntfB) < MaxQ
    /\ p \in Range(best) /\ p # Tip /\ p >= Base
    /\ parent'  = parent \o [i \in 1..Len(cs) |-> IF i = 1 THEN p ELSE NBlk + i - 1]
    /\ content' = content \o cs
    /\ reorg'   = NBlk + Len(cs)
    /\ UNCHANGED <<best, pool, ntfB, ntfT>>

ReorgBegin(l) ==     \* the node decides to switch to an existing side branch
    /\ reorg = 0
    /\ l \in Blocks /\ IsLeaf(l) /\ ~OnBest(l)
    /\ Len(ntfB) < MaxQ
    /\ reorg' = l
    /\ UNCHANGED <<parent, content, best, pool, ntfB, ntfT>>

OnPathTo(b, l) == b = 0 \/ (Height(b) <= Height(l) /\ Path(l)[Height(b)] = b)
ReorgDetaches == reorg # 0 /\ ~OnPathTo(Tip, reorg)
ReorgStep ==
    /\ reorg # 0
    /\ IF ReorgDetaches
       THEN /\ best' = Front(best)
            /\ UNCHANGED <<pool, ntfB, reorg>>
       ELSE LET nxt == Path(reorg)[Len(best) + 1] IN
            /\ best' = Append(best, nxt)
            /\ IF nxt = reorg
               THEN /\ reorg' = 0
                    /\ ntfB' = Append(ntfB, nxt)
                    /\ pool' = PoolSettle(pool, CC(best'))
               ELSE UNCHANGED <<pool, ntfB, reorg>>
    /\ UNCHANGED <<parent, content, ntfT>>
\* steps a reorganisation in progress still needs
ReorgLeft == IF reorg = 0 THEN 0
             ELSE LET common == CHOOSE h \in 0..Len(best) :
                                  /\ (h = 0 \/ OnPathTo(best[h], reorg))
                                  /\ \A g \in (h + 1)..Len(best) : ~OnPathTo(best[g], reorg)
                  IN (Len(best) - common) + (Height(reorg) - common)

\* the node accepts an unconfirmed transaction and relays it to listeners
Announce(t) ==
    /\ reorg = 0
    /\ t \in TxIds
    /\ PoolOK(t, pool, CC(best))
    /\ Len(ntfT) < MaxQ
    /\ pool' = pool \cup {t}
    /\ ntfT' = Append(ntfT, t)
    /\ UNCHANGED <<parent, content, best, ntfB, reorg>>
=============================================================================
