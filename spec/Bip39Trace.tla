----------------------------- MODULE Bip39Trace -----------------------------
(***************************************************************************)
(* C13, the judge: validates an ndjson trace written by harness/cmd/bip39. *)
(* Every line is one input string (as atoms) with the implementation's     *)
(* answers and the values of the trusted primitives; Bip39!Deviations      *)
(* decides each line.  The state machine walks the lines in order; the     *)
(* state carries the tallies and the list of lines that deviate, printed   *)
(* as one JSON record at the end.  TLC is the only place where "right" and *)
(* "wrong" are decided; the driver merely sorts the reported kinds into    *)
(* recorded findings and new violations.                                   *)
(*                                                                         *)
(* Strict = TRUE turns every deviation into an invariant violation (used   *)
(* to show that a corrupted trace is rejected).                            *)
(***************************************************************************)
EXTENDS Bip39, Json, TLC

CONSTANTS TraceFile, Strict

\* SHA-256 of the canonical BIP-39 english.txt (2048 words, newline after each)
EnglishSha256 == "2f5eed53a4727b4bf8880d8f3f199efc90e58503646d9ff8eff3a2ed3b24dbda"

Trace == ndJsonDeserialize(TraceFile)

Classes == {"MUST-ACCEPT", "MUST-REJECT", "DONT-CARE"}

\* "malformed": the record contradicts the specification's own computations - the trace, not the code, is at fault
Verdict(L) ==
    IF ~LineSane(L) THEN {"trace-malformed"}
    ELSE Deviations(L) \cup (IF L.wl # EnglishSha256 THEN {"wordlist-not-bip39"} ELSE {})

VARIABLES pos, tally, bad
vars == <<pos, tally, bad>>

Init == /\ pos = 0
        /\ tally = [c \in Classes \cup {"mutant-still-valid", "base", "reject-length", "reject-word", "reject-checksum"} |-> 0]
        /\ bad = <<>>

Bump(t, key) == [t EXCEPT ![key] = @ + 1]

Next == /\ pos < Len(Trace)
        /\ LET L   == Trace[pos + 1]
               why == RejectReason(L.atoms, L.h)
               cls == ClassOf(L.atoms, why)
               v   == Verdict(L)
               t1  == Bump(tally, cls)
               t2  == IF L.mut = "none" THEN Bump(t1, "base")
                      ELSE IF cls = "MUST-ACCEPT" /\ L.hin # L.ent THEN Bump(t1, "mutant-still-valid") ELSE t1
               t3  == IF why = "" THEN t2 ELSE Bump(t2, "reject-" \o why)
           IN  /\ tally' = t3
               /\ bad' = IF v = {} THEN bad ELSE Append(bad, [id |-> L.id, cls |-> cls, kinds |-> v])
        /\ pos' = pos + 1
Spec == Init /\ [][Next]_vars

\* never violated unless Strict
Judged == /\ (pos = Len(Trace)) => PrintT(<<"JUDGE", ToJson([lines |-> pos, tally |-> tally, bad |-> bad])>>)
          /\ Strict => bad = <<>>
=============================================================================
