------------------------------- MODULE MC_Imp -------------------------------
(* Theme "rescan": every block pays a wallet through its coinbase (two of    *)
(* three pay the wallet that is restored), one payment and one spend chain   *)
(* on top, so that a single height missed or doubly scanned by a rescan that *)
(* races with chain changes shows in the restored wallet's coins.            *)
EXTENDS Gen
S(o, a, c, v, l) == [owner |-> o, addr |-> a, class |-> c, amt |-> v, lock |-> l]
MC_TxIds   == {"q1", "q2"}
MC_TxIns   == [t \in MC_TxIds |-> CASE t = "q1" -> {<<"c2", 1>>} [] t = "q2" -> {<<"q1", 1>>}]
MC_TxOuts  == [t \in MC_TxIds |->
                 CASE t = "q1" -> <<S("w2", 1, "std", 33, 0), S("w1", 0, "std", 26, 0)>>
                   [] t = "q2" -> <<S("w1", 1, "std", 12, 0), S("w2", 0, "std", 20, 0)>>]
MC_TxOrder == <<"q1", "q2">>
MC_CbId    == <<"c1", "c2", "c3", "c4", "c5", "c6", "c7", "c8", "c9", "c10", "c11", "c12", "c13", "c14", "c15", "c16">>
MC_CbOut   == [b \in 1..16 |-> S(IF b % 3 = 1 THEN "w1" ELSE "w2", b % 2, "cb", 40 + b, 0)]
=============================================================================
