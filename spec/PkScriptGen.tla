---------------------------- MODULE PkScriptGen ----------------------------
(***************************************************************************)
(* C16 case generator.  TLC enumerates                                     *)
(*   Mode = "tokens": every token sequence (PkScript.tla, section 6) of    *)
(*     length <= MaxFull over the full adversarial alphabet, of length     *)
(*     <= MaxCore over the core alphabet, and every extension up to        *)
(*     length MaxPrefix of the common template prefix OP_0 PUSH32 by full  *)
(*     alphabet tokens;                                                    *)
(*   Mode = "build": every builder case (hash pattern x frozen-period      *)
(*     boundary, hash pattern x target length/type/size boundary).         *)
(* Each state is one case and is printed as JSON for the harness           *)
(* (cmd/pkscript), which fills in seeded payload bytes and evaluates the   *)
(* real code; PkScriptTrace.tla then judges every evaluation.              *)
(*                                                                         *)
(* Checked on the model itself (invariant Consistent): the abstract        *)
(* prediction made from the tokens alone agrees with the byte-level        *)
(* specification on a canonical concretisation, and that concretisation    *)
(* refines the tokens.                                                     *)
(***************************************************************************)
EXTENDS PkScript, Json, TLC

CONSTANTS Mode, MaxFull, MaxCore, MaxPrefix,
          MinF, MaxF, Lock     \* consensus parameters as 8 little-endian bytes (boundaries are placed around them)

VARIABLE c

\* production values of consensus.MinFrozenPeriod, wire.SequenceLockTimeMask - 1 and
\* consensus.MASSIP0002BindingLockedPeriod (a cfg file cannot hold a tuple; it substitutes these)
DefMinF == <<0, 240, 0, 0, 0, 0, 0, 0>>
DefMaxF == <<254, 255, 255, 255, 0, 0, 0, 0>>
DefLock == <<254, 255, 255, 255, 0, 0, 0, 0>>

\* lone opcodes: OP_0, OP_1NEGATE, OP_1, OP_2, OP_16, OP_RETURN, OP_CHECKSIG, OP_CHECKMULTISIG, 0xff
LoneOps == {0, 79, 81, 82, 96, 106, 172, 174, 255}
ASSUME LoneOps \cap 1..78 = {}

AlphaFull ==
    {Op(n) : n \in LoneOps}
    \cup {Push(n, "r") : n \in {1, 19, 20, 21, 23, 31, 32, 33, 65, 75}}
    \cup {Push(8, f) : f \in {"fv", "fz", "fff", "flo", "fhi"}}
    \cup {Push(22, f) : f \in {"tv", "tt", "ts"}}
    \cup {Push(33, "pk"), Push(65, "pk"), Push(32, "z"), Push(20, "z")}
    \cup {PD("pd1", n, n, "r") : n \in {0, 8, 20, 22, 32, 81}}
    \cup {PD("pd2", 32, 32, "r"), PD("pd4", 32, 32, "r"), PD("pd2", 300, 300, "r")}
    \cup {Trunc(32, 31), Trunc(32, 0), Trunc(8, 7), Trunc(22, 21), Trunc(75, 10)}
    \cup {PD("pd1", 32, 31, "r"), PD("pd2", 32, 0, "r")}
    \cup {Lit(f) : f \in {"pd1nolen", "pd2nolen", "pd4nolen", "pd4huge", "pd4neg", "pd2big"}}

AlphaCore ==
    {Op(0), Op(81), Op(106), Op(174),
     Push(1, "r"), Push(8, "fv"), Push(8, "fff"), Push(20, "r"), Push(22, "tv"), Push(22, "tt"),
     Push(32, "r"), Push(33, "pk"), Push(33, "r"),
     PD("pd1", 32, 32, "r"), Trunc(32, 31), Lit("pd1nolen")}
ASSUME AlphaCore \subseteq AlphaFull

CanExtend(ts, t) ==
    \/ Len(ts) < MaxFull
    \/ Len(ts) < MaxCore /\ t \in AlphaCore /\ \A k \in 1..Len(ts) : ts[k] \in AlphaCore
    \/ Len(ts) < MaxPrefix /\ Len(ts) >= 2 /\ ts[1] = Op(0) /\ ts[2] = Push(32, "r")

\* ---------------------------------------------------------------- builder cases
RECURSIVE DecLE(_)
DecLE(s) == IF s = <<>> THEN <<>> ELSE IF s[1] > 0 THEN <<s[1] - 1>> \o Tail(s) ELSE <<255>> \o DecLE(Tail(s))
Lo4(s) == SubSeq(s, 1, 4)
FrozenPoints ==
    {<<0, 0, 0, 0>>, <<1, 0, 0, 0>>, Lo4(DecLE(MinF)), Lo4(MinF), Lo4(IncLE(MinF)),
     <<255, 255, 255, 127>>, <<0, 0, 0, 128>>, Lo4(DecLE(MaxF)), Lo4(MaxF), Lo4(IncLE(MaxF))}
HashFills == {"r", "z", "ff", "lz"}
BCase(bk, hf, fr, tlen, tt, ts) == [bk |-> bk, hf |-> hf, fr |-> fr, tlen |-> tlen, tt |-> tt, ts |-> ts]
BuildCases ==
    {BCase("std", hf, <<0, 0, 0, 0>>, 0, 0, 0) : hf \in HashFills}
    \cup {BCase("stk", hf, fr, 0, 0, 0) : hf \in HashFills, fr \in FrozenPoints}
    \cup {BCase("bind", hf, <<0, 0, 0, 0>>, 20, 0, 0) : hf \in HashFills}
    \cup {BCase("bind", hf, <<0, 0, 0, 0>>, 22, tt, ts) :
              hf \in {"r", "z"}, tt \in {0, 1, 2, 255}, ts \in {0, 19, 20, 21, 32, 199, 200, 201, 255}}

\* ---------------------------------------------------------------- the enumeration
Init == IF Mode = "tokens" THEN c = <<>> ELSE c \in BuildCases
Next == /\ Mode = "tokens"
        /\ \E t \in AlphaFull : CanExtend(c, t) /\ c' = Append(c, t)
Spec == Init /\ [][Next]_c

\* what the tokens alone predict (regular sequences only)
AbsPart(ts) ==
    LET cls == AbsClass(ts) IN
    IF cls \notin PayClasses THEN "NONE"
    ELSE IF cls = "binding_scripthash" /\ ts[3].n = 22
    THEN (IF ts[3].f = "tv" THEN "FULL" ELSE IF ts[3].f \in {"tt", "ts"} THEN "PARTIAL" ELSE "")
    ELSE "FULL"
Abs(ts) == IF Regular(ts) THEN [regular |-> TRUE, cls |-> AbsClass(ts), part |-> AbsPart(ts)]
           ELSE [regular |-> FALSE, cls |-> "", part |-> ""]

Consistent ==
    Mode = "tokens" =>
        LET s == Canon(c) IN
        /\ IsBytes(s)
        /\ Refines(s, 1, c, MinF, MaxF)
        /\ Regular(c) => /\ ConsensusClass(s) = AbsClass(c)
                         /\ AbsPart(c) # "" => Exp(s, Lock).part = AbsPart(c)

Emit == IF Mode = "tokens"
        THEN PrintT(<<"CASE", ToJson([toks |-> c, abs |-> Abs(c)])>>)
        ELSE PrintT(<<"CASE", ToJson(c)>>)
=============================================================================
