------------------------------ MODULE Bip39Gen ------------------------------
(***************************************************************************)
(* C13, case generation, stage 1: the structural ENTROPIES.                *)
(*                                                                         *)
(* For each of the five legal sizes: the byte patterns that stress a codec *)
(* built on big-integer arithmetic - leading zero bytes (1, 2, 3, half,    *)
(* all but one), leading zero bits, all zero, all one, only the top / only *)
(* the bottom bit, trailing zeros, the classic 7f / 80 / 55 / aa fills.    *)
(* Every pattern is printed as one JSON record with the mutation plan the  *)
(* second stage (Bip39Mut) applies to it.  The harness adds the checksum   *)
(* byte (SHA-256, trusted) and seeded random entropies.                    *)
(***************************************************************************)
EXTENDS Bip39, Json, TLC

CONSTANTS FullPatterns,   \* pattern names that get the full mutation set
          SweepPatterns   \* pattern names whose last word is swept over 0..SweepN-1 (in Bip39Mut)

Fill(j) == ((j * 73 + 41) % 255) + 1          \* a fixed non-zero, non-repeating-looking byte
Const(n, b) == [j \in 1..n |-> b]
LeadZero(n, z) == [j \in 1..n |-> IF j <= z THEN 0 ELSE Fill(j)]
TrailZero(n, z) == [j \in 1..n |-> IF j > n - z THEN 0 ELSE Fill(j)]

Pattern(name, n) ==
    CASE name = "zeros"     -> Const(n, 0)
      [] name = "ones"      -> Const(n, 255)
      [] name = "fill"      -> [j \in 1..n |-> Fill(j)]
      [] name = "lead1"     -> LeadZero(n, 1)
      [] name = "lead2"     -> LeadZero(n, 2)
      [] name = "lead3"     -> LeadZero(n, 3)
      [] name = "leadhalf"  -> LeadZero(n, n \div 2)
      [] name = "leadmost"  -> LeadZero(n, n - 1)
      [] name = "lead7bits" -> [j \in 1..n |-> IF j = 1 THEN 1 ELSE Fill(j)]
      [] name = "lead15bits" -> [j \in 1..n |-> IF j = 1 THEN 0 ELSE IF j = 2 THEN 1 ELSE Fill(j)]
      [] name = "lowbit"    -> [j \in 1..n |-> IF j = n THEN 1 ELSE 0]
      [] name = "topbit"    -> [j \in 1..n |-> IF j = 1 THEN 128 ELSE 0]
      [] name = "firstonly" -> [j \in 1..n |-> IF j = 1 THEN 255 ELSE 0]
      [] name = "trail1"    -> TrailZero(n, 1)
      [] name = "trail2"    -> TrailZero(n, 2)
      [] name = "trailhalf" -> TrailZero(n, n \div 2)
      [] name = "x7f"       -> Const(n, 127)
      [] name = "x80"       -> Const(n, 128)
      [] name = "x55"       -> Const(n, 85)
      [] name = "xaa"       -> Const(n, 170)
      [] name = "zeroone"   -> [j \in 1..n |-> IF j % 2 = 1 THEN 0 ELSE 255]

PatternNames == <<"zeros", "ones", "fill", "lead1", "lead2", "lead3", "leadhalf", "leadmost",
                  "lead7bits", "lead15bits", "lowbit", "topbit", "firstonly", "trail1", "trail2",
                  "trailhalf", "x7f", "x80", "x55", "xaa", "zeroone">>
Sizes == <<16, 20, 24, 28, 32>>

ASSUME FullPatterns \subseteq {PatternNames[j] : j \in 1..Len(PatternNames)}
ASSUME SweepPatterns \subseteq {PatternNames[j] : j \in 1..Len(PatternNames)}

NCases == Len(PatternNames) * Len(Sizes)
CaseAt(c) ==
    LET name == PatternNames[((c-1) \div Len(Sizes)) + 1]
        n    == Sizes[((c-1) % Len(Sizes)) + 1]
    IN  [name |-> name \o "/" \o ToString(n),
         ent  |-> Pattern(name, n),
         plan |-> IF name \in FullPatterns THEN "full" ELSE "lite",
         sweep |-> name \in SweepPatterns,
         descs |-> <<>>]

VARIABLE ci
Init == ci = 0
Next == ci < NCases /\ ci' = ci + 1
Spec == Init /\ [][Next]_ci

\* never violated: every generated entropy is an entropy, and is printed
Emit == ci > 0 => /\ IsEntropy(CaseAt(ci).ent)
                 /\ PrintT(<<"CASE", ToJson(CaseAt(ci))>>)
=============================================================================
