-------------------------------- MODULE Stop --------------------------------
(***************************************************************************)
(* C20: the shutdown protocol and the suspend / resume hand-shake between  *)
(* the chain follower goroutine (handle), the background worker goroutine  *)
(* (worker) and a stopper (NtfnsHandler.Stop), at the grain of the         *)
(* channel operations of masswallet/ntfnshandler.go:                       *)
(*                                                                         *)
(*   handle : for { select { <-quit: return                                *)
(*                          <-sigSuspend: <-sigResume                      *)
(*                          b := <-queueBlock: process(b) } }              *)
(*   worker : for { select { <-quit: return                                *)
(*                          t := <-taskChan: run(t) } }                    *)
(*            run(t) = one or more rounds of                               *)
(*                       sigSuspend <- ; database update ; sigResume <-    *)
(*            (an import does one round and re-queues itself if unfinished;*)
(*             a removal does round after round, looking at quit before    *)
(*             every round but the first)                                  *)
(*   Stop   : close(quit); wait for both goroutines; close the database    *)
(*                                                                         *)
(* sigSuspend / sigResume are unbuffered: a send is a rendez-vous with the *)
(* matching receive.  Go's select picks any ready case.                    *)
(*                                                                         *)
(* QuitAware = FALSE is the code as found: the two sends do not look at    *)
(* quit, so a worker that has taken a task can block for ever on           *)
(* sigSuspend once the handler has returned - Stop never returns.          *)
(* QuitAware = TRUE is the repaired code: the two sends and the handler's  *)
(* wait for the resume signal select on quit too.                          *)
(***************************************************************************)
EXTENDS Integers, Sequences, FiniteSets, TLC

CONSTANTS QuitAware,   \* see above
          Blocks,      \* number of tip notifications that may be queued
          Tasks,       \* initial task queue, e.g. <<"import", "remove">>
          Rounds,      \* rounds an unfinished task needs (import batches / removal rounds)
          QueueCap,    \* capacity of the task queue (MaxWaitingTaskNum + 1 = 4)
          MaxAccept    \* further tasks the API may accept while the system runs

VARIABLES hpc,      \* handler: "top" | "suspended" | "exited"
          wpc,      \* worker : "top" | "send_suspend" | "update" | "send_resume" | "after" | "exited"
          spc,      \* stopper: "idle" | "closed" | "stopped"
          quit,     \* quit channel closed
          blocks,   \* queued tip notifications
          processed,\* tips processed
          taskq,    \* queued tasks: sequence of <<kind, roundsLeft>>
          held,     \* task the worker is running: <<kind, roundsLeft>> or <<>>
          first,    \* the held removal has not finished its first round yet
          dropped,  \* tasks whose re-queue found the queue full
          acc       \* tasks accepted by the API after the start
vars == <<hpc, wpc, spc, quit, blocks, processed, taskq, held, first, dropped, acc>>

Init ==
    /\ hpc = "top" /\ wpc = "top" /\ spc = "idle" /\ quit = FALSE
    /\ blocks = Blocks /\ processed = 0
    /\ taskq = [i \in 1..Len(Tasks) |-> <<Tasks[i], Rounds>>]
    /\ held = <<>> /\ first = FALSE /\ dropped = 0 /\ acc = 0

(* ---------------------------------------------------------------- handler *)
HQuit ==     \* select takes <-quit
    /\ hpc = "top" /\ quit
    /\ hpc' = "exited"
    /\ UNCHANGED <<wpc, spc, quit, blocks, processed, taskq, held, first, dropped, acc>>

HBlock ==    \* select takes a queued tip and processes it (one database update)
    /\ hpc = "top" /\ blocks > 0
    /\ blocks' = blocks - 1 /\ processed' = processed + 1
    /\ UNCHANGED <<hpc, wpc, spc, quit, taskq, held, first, dropped, acc>>

Suspend ==   \* rendez-vous: worker's send on sigSuspend meets the handler's select
    /\ hpc = "top" /\ wpc = "send_suspend"
    /\ hpc' = "suspended" /\ wpc' = "update"
    /\ UNCHANGED <<spc, quit, blocks, processed, taskq, held, first, dropped, acc>>

Resume ==    \* rendez-vous: worker's send on sigResume meets the handler's <-sigResume
    /\ hpc = "suspended" /\ wpc = "send_resume"
    /\ hpc' = "top" /\ wpc' = "after"
    /\ UNCHANGED <<spc, quit, blocks, processed, taskq, held, first, dropped, acc>>

\* repaired code only: the handler waiting for the resume signal returns when quit is closed
HQuitSuspended ==
    /\ QuitAware /\ hpc = "suspended" /\ quit
    /\ hpc' = "exited"
    /\ UNCHANGED <<wpc, spc, quit, blocks, processed, taskq, held, first, dropped, acc>>

(* ----------------------------------------------------------------- worker *)
WQuit ==
    /\ wpc = "top" /\ quit
    /\ wpc' = "exited"
    /\ UNCHANGED <<hpc, spc, quit, blocks, processed, taskq, held, first, dropped, acc>>

WTake ==
    /\ wpc = "top" /\ taskq # <<>>
    /\ held' = Head(taskq) /\ taskq' = Tail(taskq)
    /\ first' = TRUE
    /\ wpc' = "send_suspend"
    /\ UNCHANGED <<hpc, spc, quit, blocks, processed, dropped, acc>>

\* repaired code only: a send gives up when quit is closed (the handler may be gone)
WSuspendQuit ==
    /\ QuitAware /\ wpc = "send_suspend" /\ quit
    /\ wpc' = "update"
    /\ UNCHANGED <<hpc, spc, quit, blocks, processed, taskq, held, first, dropped, acc>>

WUpdate ==   \* the database update of the round
    /\ wpc = "update"
    /\ held' = <<held[1], held[2] - 1>>
    /\ wpc' = "send_resume"
    /\ UNCHANGED <<hpc, spc, quit, blocks, processed, taskq, first, dropped, acc>>

WResumeQuit ==
    /\ QuitAware /\ wpc = "send_resume" /\ quit
    /\ wpc' = "after"
    /\ UNCHANGED <<hpc, spc, quit, blocks, processed, taskq, held, first, dropped, acc>>

WAfter ==
    /\ wpc = "after"
    /\ IF held[2] = 0
       THEN /\ held' = <<>> /\ wpc' = "top" /\ UNCHANGED <<taskq, dropped>>      \* finished
       ELSE IF held[1] = "import"
            THEN \* PushImport: non-blocking re-queue, dropped when the queue is full
                 /\ IF Len(taskq) < QueueCap
                    THEN taskq' = Append(taskq, held) /\ UNCHANGED dropped
                    ELSE dropped' = dropped + 1 /\ UNCHANGED taskq
                 /\ held' = <<>> /\ wpc' = "top"
            ELSE \* removal: next round unless quit is closed (ErrTaskAbort: not re-queued)
                 /\ IF quit THEN held' = <<>> /\ wpc' = "top"
                            ELSE held' = held /\ wpc' = "send_suspend"
                 /\ UNCHANGED <<taskq, dropped>>
    /\ first' = FALSE
    /\ UNCHANGED <<hpc, spc, quit, blocks, processed, acc>>

(* ---------------------------------------------------------------- stopper *)
SClose ==
    /\ spc = "idle"
    /\ quit' = TRUE /\ spc' = "closed"
    /\ UNCHANGED <<hpc, wpc, blocks, processed, taskq, held, first, dropped, acc>>

SDone ==
    /\ spc = "closed" /\ hpc = "exited" /\ wpc = "exited"
    /\ spc' = "stopped"
    /\ UNCHANGED <<hpc, wpc, quit, blocks, processed, taskq, held, first, dropped, acc>>

\* API: a new task is accepted while fewer than 3 wait (IsBusy)
Accept(kind) ==
    /\ spc = "idle" /\ Len(taskq) < 3 /\ acc < MaxAccept
    /\ taskq' = Append(taskq, <<kind, Rounds>>)
    /\ acc' = acc + 1
    /\ UNCHANGED <<hpc, wpc, spc, quit, blocks, processed, held, first, dropped>>

Next == HQuit \/ HQuitSuspended \/ HBlock \/ Suspend \/ Resume \/ WQuit \/ WTake \/ WSuspendQuit \/ WUpdate
        \/ WResumeQuit \/ WAfter \/ SClose \/ SDone \/ Accept("import")

Fair == /\ WF_vars(HQuit) /\ WF_vars(HQuitSuspended) /\ WF_vars(HBlock) /\ WF_vars(Suspend) /\ WF_vars(Resume) /\ WF_vars(WQuit)
        /\ WF_vars(WTake) /\ WF_vars(WSuspendQuit) /\ WF_vars(WUpdate) /\ WF_vars(WResumeQuit)
        /\ WF_vars(WAfter) /\ WF_vars(SDone)

Spec == Init /\ [][Next]_vars /\ Fair

(* -------------------------------------------------------------- properties *)
\* no state other than "stopped", or "running idle without a stop request", is a dead end
Stuck == ~ENABLED Next
NoDeadlock == Stuck => (spc = "stopped" \/ (spc = "idle" /\ blocks = 0 /\ taskq = <<>> /\ held = <<>>))

\* an accepted task is never lost by a full queue
NoTaskDropped == dropped = 0

\* liveness (under weak fairness of every step of the three processes)
StopReturns    == (spc = "closed") ~> (spc = "stopped")
TipsProcessed  == (spc = "idle") ~> (blocks = 0 \/ spc # "idle")
TasksFinish    == (spc = "idle") ~> ((taskq = <<>> /\ held = <<>>) \/ spc # "idle")
=============================================================================
