------------------------------ MODULE Keystore ------------------------------
(***************************************************************************)
(* Specification of the wallet key store as its callers see it             *)
(* (masswallet.WalletManager over masswallet/keystore), for the properties *)
(*                                                                         *)
(*   C04  wallet id and addresses are a function of (mnemonic, private     *)
(*        passphrase, network); keys match addresses                       *)
(*   C05  secrets are never stored or returned in clear; only the right    *)
(*        passphrase unlocks                                               *)
(*                                                                         *)
(* A WALLET is a pair (mnemonic, private passphrase): WalDef names the     *)
(* wallets of a universe and says which mnemonic token and which           *)
(* passphrase token each one is made of.  Two wallets may share the        *)
(* mnemonic (different passphrase => a different wallet, a different id)   *)
(* or the passphrase.  Mnemonics exist a priori (they are just entropy):   *)
(* Create lets the implementation pick an unused one, ImportMnemonic may   *)
(* bring any.  Id(w), Addr(w, index, form), Pub(w, index) are              *)
(* UNINTERPRETED: the specification never computes them; the trace         *)
(* specification receives them as the reference table of a wallet (the     *)
(* trusted derivation from the mnemonic the wallet was made from) and      *)
(* demands that every instance, by every route (create, keystore import,   *)
(* mnemonic import, restart, public-passphrase change), shows exactly      *)
(* those values.                                                           *)
(*                                                                         *)
(* INSTANCES are independent wallet managers, each with its own database   *)
(* and its own public passphrase.  Per instance and wallet the state says  *)
(* whether the wallet is present, how many external addresses it has       *)
(* (index 0 .. n-1, issued strictly in order) and in which form each one   *)
(* is listed ("std" / "stk" where this instance issued it; "any" where it  *)
(* was restored by an import: the statement fixes the key at every index,  *)
(* not the form an import lists it in - DON'T-CARE).                       *)
(*                                                                         *)
(* OUTCOME CLASSES of an operation (Want):                                 *)
(*   "ok"    MUST-ACCEPT: create, new address, restart, public-passphrase  *)
(*           change, import into an instance that does not hold the wallet,*)
(*           and every gated operation (sign, export, reveal mnemonic,     *)
(*           remove) given the RIGHT private passphrase                    *)
(*   "pass"  MUST-REJECT with a passphrase error: every gated operation    *)
(*           and every keystore import given ANY OTHER byte string,        *)
(*           whether or not it is a legal passphrase                       *)
(*   "dup"   import of a wallet the instance already holds: the statement  *)
(*           is silent on the answer (DON'T-CARE) but nothing may change   *)
(* A refused operation changes nothing: not the database, not what the     *)
(* instance lists, not the unlocked state.                                 *)
(*                                                                         *)
(* The variables unl / mz / sz do not belong to the property.  They name   *)
(* what the code as found does beyond it (AsFound = TRUE):                 *)
(*   unl  WalletManager.SignHash leaves the wallet unlocked (keys cached); *)
(*   mz   a passphrase check of an unlocked wallet by export wipes the     *)
(*        master key without locking, after which revealing the mnemonic   *)
(*        fails although the passphrase is right;                          *)
(*   sz   an attempt with the EMPTY candidate on an unlocked wallet wipes  *)
(*        the salt of the unlocked-state passphrase hash (append aliases   *)
(*        the salt array, zero.Bytes clears it), after which the right     *)
(*        passphrase is refused until the next restart.                    *)
(* They are used by the model checking configurations (the as-found design *)
(* violates GateOK and LockedAfterCall, the repaired one does not) and by  *)
(* the known-finding pattern of the trace specification - never by a       *)
(* verdict.                                                                *)
(***************************************************************************)
EXTENDS Naturals, Sequences, FiniteSets, TLC

CONSTANTS
    WalDef,     \* [wallet |-> [mn |-> mnemonic token, pass |-> private-passphrase token]]
    Inst,       \* instance names
    Pub0,       \* [instance |-> initial public-passphrase token]
    PubToks,    \* public-passphrase tokens (never equal to a private one: that change is refused by design)
    MaxAddr,    \* bound on the number of addresses per wallet and instance (generation only)
    AsFound     \* TRUE: model the lingering unlock of the code as found (see above)

Wal       == DOMAIN WalDef
MnOf(w)   == WalDef[w].mn
PassOf(w) == WalDef[w].pass
BitSizes  == {128, 160, 192, 224, 256}
Forms     == {"std", "stk"}
CandClasses == {"right", "wrong"}
GatedOps  == {"sign", "export", "getmn", "remove"}
Max(a, b) == IF a >= b THEN a ELSE b
Range(s)  == {s[x] : x \in DOMAIN s}

NoWal == [here |-> FALSE, n |-> 0, form |-> <<>>]
InitState ==
    [bound |-> {},                          \* mnemonics some wallet has been made from
     ks    |-> [w \in Wal |-> {}],          \* exported keystores the user holds: issued count at export time
     inst  |-> [i \in Inst |-> [pub |-> Pub0[i], wal |-> [w \in Wal |-> NoWal], unl |-> {}, mz |-> {}, sz |-> {}, held |-> {}]]]

Here(S, i, w) == S.inst[i].wal[w].here
N(S, i, w)    == S.inst[i].wal[w].n
Dup(S, op)    == op.a \in {"impks", "impmn"} /\ Here(S, op.i, op.w)

(* An operation is [a, i, w, c, k]:                                        *)
(*   create  i w -    bits      newaddr i w form -      export  i w cand - *)
(*   impks   i w cand n         impmn   i w -    hint   restart i - -    - *)
(*   chpub   i - tok  -         sign    i w cand index  getmn   i w cand - *)
(*   remove  i w cand -                                                    *)
(*   hold    i w right index  : the wallet signs and STAYS unlocked, as it *)
(*                              is between two inputs of one SignRawTx     *)
(*   lock    i - -    -       : the end of that window (ClearPrivKey)      *)
(* The property demands the same answers of an unlocked wallet as of a     *)
(* locked one: the right passphrase works, every other one is refused, a   *)
(* refused attempt alters nothing.                                         *)
Usable(S, op) ==
    /\ op.i \in Inst
    /\ CASE op.a = "create"  -> op.w \in Wal /\ ~Here(S, op.i, op.w) /\ MnOf(op.w) \notin S.bound /\ op.k \in BitSizes
         [] op.a = "newaddr" -> op.w \in Wal /\ Here(S, op.i, op.w) /\ op.c \in Forms
         [] op.a \in {"export", "getmn", "remove"} -> op.w \in Wal /\ Here(S, op.i, op.w) /\ op.c \in CandClasses
         [] op.a = "sign"    -> op.w \in Wal /\ Here(S, op.i, op.w) /\ op.c \in CandClasses /\ op.k \in 0..(N(S, op.i, op.w) - 1)
         [] op.a = "impks"   -> op.w \in Wal /\ op.k \in S.ks[op.w] /\ op.c \in CandClasses
         [] op.a = "impmn"   -> op.w \in Wal /\ op.k \in Nat
         [] op.a = "restart" -> TRUE
         [] op.a = "hold"    -> op.w \in Wal /\ Here(S, op.i, op.w) /\ op.c = "right" /\ op.k \in 0..(N(S, op.i, op.w) - 1)
         [] op.a = "lock"    -> TRUE
         [] op.a = "chpub"   -> op.c \in PubToks \ {S.inst[op.i].pub}
         [] OTHER -> FALSE

Want(S, op) ==
    CASE op.a \in {"create", "newaddr", "restart", "chpub", "hold", "lock"} -> "ok"
      [] op.a \in GatedOps -> IF op.c = "right" THEN "ok" ELSE "pass"
      [] op.a = "impks" -> IF op.c # "right" THEN "pass" ELSE IF Dup(S, op) THEN "dup" ELSE "ok"
      [] op.a = "impmn" -> IF Dup(S, op) THEN "dup" ELSE "ok"

(* What the code as found answers (model checking only): as Want, except   *)
(* that the mnemonic of a wallet whose master key was wiped while unlocked *)
(* cannot be revealed, and that nothing is granted to the right passphrase *)
(* once the salt of the unlocked-state hash was wiped.                     *)
Impl(S, op) ==
    IF AsFound /\ op.a \in GatedOps /\ op.c = "right" /\ op.w \in S.inst[op.i].sz THEN "pass"
    ELSE IF AsFound /\ op.a = "getmn" /\ op.c = "right" /\ op.w \in S.inst[op.i].mz THEN "err"
    ELSE Want(S, op)

(* The concrete class of a wrong candidate, where the operation carries it *)
(* (recorded traces do, generated operations do not).                      *)
CandClass(op) == IF "cc" \in DOMAIN op THEN op.cc ELSE op.c

(* The least number of addresses an import must restore: every index the   *)
(* exported keystore / the hint covers.  How many more it restores is      *)
(* DON'T-CARE (the code restores Max(k, 1) when the chain shows no use).   *)
MustRestore(op) == op.k
Restored(op)    == Max(op.k, 1)

SetWal(S, i, w, r) == [S EXCEPT !.inst[i].wal[w] = r]

(* Eff: the state after the operation, given that it was answered as the   *)
(* property demands (a "right" candidate granted, a "wrong" one refused).   *)
(* cnt is the number of addresses an import restored (the only free        *)
(* parameter; at least MustRestore(op)).  The trace specification applies  *)
(* Eff to the operation as it was in fact granted or refused.              *)
Eff(S, op, cnt) ==
    LET i == op.i  w == op.w IN
    CASE op.a = "create" ->
             [SetWal(S, i, w, [here |-> TRUE, n |-> 0, form |-> <<>>]) EXCEPT !.bound = @ \cup {MnOf(w)}]
      [] op.a = "newaddr" ->
             SetWal(S, i, w, [here |-> TRUE, n |-> N(S, i, w) + 1, form |-> Append(S.inst[i].wal[w].form, op.c)])
      [] op.a = "export" /\ op.c = "right" ->
             [S EXCEPT !.ks[w] = @ \cup {N(S, i, w)},
                       !.inst[i].mz = IF AsFound /\ w \in S.inst[i].unl THEN @ \cup {w} ELSE @]
      [] op.a \in {"impks", "impmn"} /\ Want(S, op) = "ok" ->
             [SetWal(S, i, w, [here |-> TRUE, n |-> cnt, form |-> [x \in 1..cnt |-> "any"]])
                 EXCEPT !.bound = @ \cup {MnOf(w)},
                        \* (the conformance side signs for the change addresses a mnemonic import restores)
                        !.inst[i].held = IF op.a = "impmn" THEN {} ELSE @]
      [] op.a = "restart" -> [S EXCEPT !.inst[i].unl = {}, !.inst[i].mz = {}, !.inst[i].sz = {}, !.inst[i].held = {}]
      [] op.a = "chpub" -> [S EXCEPT !.inst[i].pub = op.c]
      \* held: wallets inside a signing window (unlocked on purpose); WalletManager.SignHash locks every wallet
      \* of the instance again when it returns, granted or refused
      [] op.a = "hold" -> [S EXCEPT !.inst[i].held = @ \cup {w}]
      [] op.a = "lock" -> [S EXCEPT !.inst[i].held = {}]
      [] op.a = "sign" /\ op.c = "right" ->
             [S EXCEPT !.inst[i].unl = IF AsFound THEN @ \cup {w} ELSE @, !.inst[i].held = {}]
      [] op.a = "sign" -> [S EXCEPT !.inst[i].held = {}]
      [] op.a = "remove" /\ op.c = "right" ->
             [SetWal(S, i, w, NoWal) EXCEPT !.inst[i].unl = @ \ {w}, !.inst[i].mz = @ \ {w}, !.inst[i].sz = @ \ {w}, !.inst[i].held = @ \ {w}]
      [] AsFound /\ op.a \in GatedOps /\ op.c # "right" /\ CandClass(op) = "empty" /\ w \in S.inst[i].unl ->
             [S EXCEPT !.inst[i].sz = @ \cup {w}]       \* (as found only; the property says: nothing changes)
      [] OTHER -> S      \* reveal mnemonic; every refused attempt; import of a wallet already held

----------------------------------------------------------------------------
(* The storage view of C05.  What an instance keeps per wallet, and what   *)
(* an exported keystore contains, each item tagged with the key that       *)
(* protects it ("clear" = stored as is).  SECRET items must never be       *)
(* "clear"; the conformance side checks exactly this on the real bytes     *)
(* (raw database files, logical key/value content, exported JSON, every    *)
(* returned text and error) for the mnemonic words, the entropy, the seed, *)
(* every extended private key and private scalar on the derivation path    *)
(* and both passphrases.                                                   *)
StoredItems ==                      \* item |-> protecting key
    [entropy        |-> "crypto-entropy-key",
     account_xprv   |-> "crypto-private-key",
     account_xpub   |-> "crypto-public-key",
     branch_xpubs   |-> "crypto-public-key",
     address_pubkey |-> "crypto-public-key",
     crypto_entropy_key |-> "master-private-key(scrypt(private passphrase))",
     crypto_private_key |-> "master-private-key(scrypt(private passphrase))",
     crypto_public_key  |-> "master-public-key(scrypt(public passphrase))",
     scrypt_params  |-> "clear",    \* salt, digest of the derived key, N, r, p: not secret
     child_counters |-> "clear",
     remarks        |-> "clear"]
ExportedItems ==
    [entropy |-> "crypto-entropy-key", crypto_entropy_key |-> "master-private-key(scrypt(private passphrase))",
     scrypt_params |-> "clear", child_counters |-> "clear", remarks |-> "clear"]
NoPlainSecret ==
    /\ \A x \in {"entropy", "account_xprv", "crypto_entropy_key", "crypto_private_key"} : StoredItems[x] # "clear"
    /\ \A x \in {"entropy", "crypto_entropy_key"} : ExportedItems[x] # "clear"
=============================================================================
