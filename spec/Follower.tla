------------------------------ MODULE Follower ------------------------------
(***************************************************************************)
(* The wallet's chain follower (masswallet/ntfnshandler.go).               *)
(*                                                                         *)
(* Durable state (wallet LevelDB):                                         *)
(*   wchain  - the blocks the wallet has applied, by height (bucket sync)  *)
(*   pend    - the pending (unconfirmed, relevant) transactions (bucket m) *)
(* Volatile state (lost by a crash):                                       *)
(*   wmem    - in-memory copy of the synced tip (NtfnsHandler.bestBlock)   *)
(*   memp    - in-memory set of known pending tx ids (NtfnsHandler.mempool)*)
(*   wexp    - blocks connected by THIS running instance (the keys of the  *)
(*             in-memory NtfnsHandler.expiredMempool): when one of them is *)
(*             disconnected its relevant transactions become "known"       *)
(*   up      - the follower goroutines are running                         *)
(*                                                                         *)
(* Every handler step is one mwdb.Update on the wallet database, hence     *)
(* atomic and all-or-nothing with respect to the durable state.            *)
(*                                                                         *)
(* HandleBlock is specified twice: Abs(..) is the abstract step used for   *)
(* conformance; Algo(..) transcribes processConnectedBlock/reorg step for  *)
(* step.  AlgoAgrees (an invariant) says they coincide in every reachable  *)
(* state, for every interleaving of chain changes and handler steps.       *)
(***************************************************************************)
EXTENDS Ledger

CONSTANT StrictOrder   \* TRUE: the node never has a tip and an unconfirmed transaction in flight to the
                       \* wallet at the same time (no race between the two notification queues);
                       \* FALSE: any interleaving (the Go select picks at random among ready queues)

CONSTANTS InitAbsent,  \* wallets that do not exist in this instance initially (they can be imported)
          ImportBatch  \* heights covered by one rescan batch (1000 in the code; scaled by a verif hook)

VARIABLES wchain, pend, wmem, memp, wexp, up,
          status,   \* per wallet: "absent" | "ready" | "importing" | "removing"   (bucket ws, durable)
          cursor,   \* per importing wallet: height up to which the rescan has recorded its history (durable)
          tasks,    \* queue of background tasks <<kind, wallet>> (volatile; rebuilt from status on restart)
          faulted   \* a block step failed on a storage error and no later block step has succeeded yet

followerVars == <<wchain, pend, wmem, memp, wexp, up, status, cursor, tasks, faulted>>

Ready == {w \in Wallets : status[w] = "ready"}
\* wallets whose transactions at height h are on record (live, or already covered by the rescan)
Tracking(h) == Ready \cup {w \in Wallets : status[w] = "importing" /\ cursor[w] >= h}

Min(a, b) == IF a < b THEN a ELSE b

(***************************************************************************)
(* Abstract block step.                                                    *)
(***************************************************************************)
Abs(wc, nb) ==
    IF wc # <<>> /\ nb = Last(wc) THEN wc                      \* duplicate notification
    ELSE IF nb \in Range(wc) THEN SubSeq(wc, 1, Height(nb))    \* stale ancestor: roll back to it
    ELSE IF OnBest(nb) THEN Path(nb)                           \* connect / reorganise
    ELSE wc                                                    \* revoked meanwhile: no effect

(***************************************************************************)
(* What a block step does to the pending set (txstore.go: Rollback,        *)
(* insertMinedTx, removeDoubleSpends, removeConflict), as the code does it:*)
(*  - every relevant non-coinbase transaction of a disconnected block      *)
(*    returns to the pending set;                                          *)
(*  - pending spenders of a disconnected wallet coinbase output are        *)
(*    dropped, with their pending descendants;                             *)
(*  - every relevant transaction of a connected block leaves the pending   *)
(*    set, and every pending transaction that spends a wallet-owned input  *)
(*    of it (a conflict) is dropped, with its pending descendants.         *)
(* Descendants are found through the pending-input index, which holds the  *)
(* wallet-owned inputs of announced transactions (the universes have no    *)
(* stranger-owned inputs, so this is every input).                         *)
(* Settle (Ledger.tla) is the ideal; PendingExact states where they meet.  *)
(***************************************************************************)
GoneBlocks(wc, wc2) == {wc[h] : h \in {i \in DOMAIN wc : i > Len(wc2) \/ wc2[i] # wc[i]}}
NewBlocks(wc, wc2)  == {wc2[h] : h \in {i \in DOMAIN wc2 : i > Len(wc) \/ wc2[i] # wc[i]}}

\* non-coinbase relevant transactions of the disconnected blocks
RolledBack(wc, wc2) ==
    UNION {{t \in Range(content[b]) : Relevant(t, Tracking(Height(b)))} : b \in GoneBlocks(wc, wc2)}

CommonLen(wc, wc2) ==
    LET same == {i \in DOMAIN wc : i <= Len(wc2) /\ \A j \in 1..i : wc[j] = wc2[j]}
    IN IF same = {} THEN 0 ELSE CHOOSE i \in same : \A j \in same : j <= i

RECURSIVE Desc(_, _)
Desc(p, R) ==
    LET more == {u \in p \ R : \E op \in TxIns[u] : op[1] \in R /\ OutOf(op).owner \in Ready}
    IN IF more = {} THEN R ELSE Desc(p, R \cup more)

PendAfter(p, wc, wc2) ==
    LET rb    == RolledBack(wc, wc2)
        p1    == p \cup rb
        \* spenders of wallet coinbase outputs of disconnected blocks
        cbGone == {<<CbId[b], 1>> : b \in {x \in GoneBlocks(wc, wc2) : CbOut[x].owner \in Ready}}
        orph  == {u \in p1 : TxIns[u] \cap cbGone # {}}
        p2    == p1 \ Desc(p1, orph)
        mined == {t \in UNION {Range(content[b]) : b \in NewBlocks(wc, wc2)} : Relevant(t, Ready)}
        confl == {u \in p2 \ mined : \E t \in mined : \E op \in TxIns[t] \cap TxIns[u] : OutOf(op).owner \in Ready}
    IN (p2 \ mined) \ Desc(p2 \ mined, confl)

(***************************************************************************)
(* The code's algorithm (processConnectedBlock + reorg), transcribed.      *)
(*   GetBlock  : chainFetcher.FetchBlockBySha - answers for blocks of the  *)
(*               current best chain only (DeleteBlock drops the index of   *)
(*               detached blocks); -1 stands for nil                       *)
(*   filterBlock accepts block b only if FetchBlockLocByHeight(height(b))  *)
(*               is b, i.e. b is on the best chain now                     *)
(***************************************************************************)
GetBlock(b) == IF b >= 0 /\ OnBest(b) THEN b ELSE -1
OnBestNow(b) == b > 0 /\ Height(b) <= Len(best) /\ best[Height(b)] = b
WAt(wc, h) == IF h = 0 THEN 0 ELSE wc[h]            \* syncStore.SyncedBlock(h)

\* step 1: walk the new tip back to the wallet's height
RECURSIVE Align(_, _, _)
Align(curH, nbk, conn) ==
    IF nbk = -1 THEN [ok |-> FALSE]
    ELSE IF curH < Height(nbk)
         THEN Align(curH, GetBlock(parent[nbk]), <<nbk>> \o conn)
         ELSE [ok |-> TRUE, nbk |-> nbk, conn |-> conn]

\* step 2b: walk both chains back to the fork
RECURSIVE ForkWalk(_, _, _, _)
ForkWalk(wc, prevH, newTail, conn) ==
    IF newTail = -1 THEN [ok |-> FALSE]
    ELSE IF parent[newTail] # WAt(wc, prevH)
         THEN ForkWalk(SubSeq(wc, 1, prevH), prevH - 1,
                       GetBlock(parent[newTail]), <<newTail>> \o conn)
         ELSE [ok |-> TRUE, wc |-> SubSeq(wc, 1, prevH), conn |-> <<newTail>> \o conn]

\* step 3: connect, each block guarded by the hash-at-height check
RECURSIVE ConnectAll(_, _)
ConnectAll(wc, conn) ==
    IF conn = <<>> THEN [ok |-> TRUE, wc |-> wc]
    ELSE IF OnBestNow(Head(conn)) /\ Height(Head(conn)) = Len(wc) + 1
         THEN ConnectAll(Append(wc, Head(conn)), Tail(conn))
         ELSE [ok |-> FALSE]

Algo(wc, mem, nb) ==
    IF parent[nb] = mem
    THEN LET r == ConnectAll(wc, <<nb>>) IN IF r.ok THEN r.wc ELSE wc
    ELSE
      LET a == Align(Len(wc), nb, <<>>) IN
      IF ~a.ok THEN wc
      ELSE IF mem = a.nbk
           THEN LET r == ConnectAll(wc, a.conn) IN IF r.ok THEN r.wc ELSE wc
           ELSE
             LET h   == Min(Len(wc), Height(a.nbk))
                 wc1 == SubSeq(wc, 1, h)                  \* disconnect down to the new tip's height
             IN IF WAt(wc1, h) = a.nbk
                THEN LET r == ConnectAll(wc1, a.conn) IN IF r.ok THEN r.wc ELSE wc
                ELSE LET f == ForkWalk(wc1, h - 1, a.nbk, a.conn) IN
                     IF ~f.ok THEN wc
                     ELSE LET r == ConnectAll(f.wc, f.conn) IN IF r.ok THEN r.wc ELSE wc

(***************************************************************************)
(* Unconfirmed transaction step (proccessReceivedTx + filterTx + onRelevantTx) *)
(***************************************************************************)
TxAccepted(t) ==
    /\ Len(wchain) + 1 >= Len(best)              \* ignored while more than one block behind the node
    /\ t \notin memp                             \* already known
    /\ \A op \in TxIns[t] : op[1] \in TxsOn(CC(best)) \/ op[1] \in pend   \* every input resolves
    /\ Relevant(t, Ready)
    /\ ~(\E k \in 1..Len(TxOuts[t]) :             \* "expired unmined credit": already an unspent coin
            TxOuts[t][k].owner \in Ready /\ <<t, k>> \in Utxo(CC(wchain), TxOuts[t][k].owner))
    /\ ~(t \in pend /\ PaysTo(t, Ready))          \* duplicate unmined credit

(***************************************************************************)
(* Actions                                                                 *)
(***************************************************************************)
FollowerInit ==
    /\ wchain = [b \in 1..Base |-> b]
    /\ pend = {}
    /\ wmem = Base
    /\ memp = {} /\ wexp = {}
    /\ up = TRUE
    /\ status = [w \in Wallets |-> IF w \in InitAbsent THEN "absent" ELSE "ready"]
    /\ cursor = [w \in Wallets |-> 0]
    /\ tasks = <<>>
    /\ faulted = FALSE

HandleBlock ==
    /\ up
    /\ ntfB # <<>>
    /\ LET nb == Head(ntfB)
           wc2 == Abs(wchain, nb)
       IN /\ wchain' = wc2
          /\ pend'   = PendAfter(pend, wchain, wc2)
          \* the in-memory tip becomes nb exactly when the Update succeeded
          /\ wmem'   = IF nb \in Range(wchain) \/ OnBest(nb) THEN nb ELSE wmem
          \* disconnectBlock pulls the rescan cursor of importing wallets back below the fork
          /\ cursor' = [w \in Wallets |->
                          IF status[w] = "importing" /\ CommonLen(wchain, wc2) < Len(wchain)
                          THEN Min(cursor[w], CommonLen(wchain, wc2)) ELSE cursor[w]]
    /\ ntfB' = Tail(ntfB)
    \* any block step that commits repairs what an earlier failed one left undone
    /\ faulted' = IF Head(ntfB) \in Range(wchain) \/ OnBest(Head(ntfB)) THEN FALSE ELSE faulted
    \* the relevant transactions of disconnected blocks that this instance had connected itself are
    \* "known" from now on (expiredMempool -> mempool): a later announcement of them is ignored
    /\ LET wc2 == Abs(wchain, Head(ntfB)) IN
       /\ memp' = memp \cup UNION {{t \in Range(content[b]) : Relevant(t, Ready)} : b \in GoneBlocks(wchain, wc2) \cap wexp}
       /\ wexp' = (wexp \ GoneBlocks(wchain, wc2)) \cup NewBlocks(wchain, wc2)
    /\ UNCHANGED <<reorg, parent, content, best, pool, ntfT, up, status, tasks>>

HandleTx ==
    /\ up
    /\ ntfT # <<>>
    /\ LET t == Head(ntfT) IN
       IF TxAccepted(t)
       THEN /\ pend' = pend \cup {t}
            /\ memp' = memp \cup {t}
       ELSE UNCHANGED <<pend, memp>>
    /\ UNCHANGED wexp
    /\ ntfT' = Tail(ntfT)
    /\ UNCHANGED <<reorg, parent, content, best, pool, ntfB, wchain, wmem, up, status, cursor, tasks, faulted>>

(***************************************************************************)
(* Crash and restart (C06).  The wallet is part of the node process: a     *)
(* crash loses every volatile variable of both - queued notifications, the *)
(* node mempool, the follower's in-memory tip and pending-id set - and     *)
(* keeps what was committed: the chain database (best) and the wallet      *)
(* database (wchain, pend).  Because every handler step is one commit, a   *)
(* crash "between any two commits" is a Crash between any two actions.     *)
(*                                                                         *)
(* Restart = NewNtfnsHandler (reads the synced tip) + Start: one           *)
(* processConnectedBlock per height from synced+1 to the node's height,    *)
(* each its own commit, through the same connect / reorganise code, before *)
(* the node starts syncing (mass.go: LoadWallet precedes server.Start), so *)
(* the chain does not move during catch-up.  RestartCrash(k) is a restart  *)
(* that dies again after k catch-up commits.                               *)
(***************************************************************************)
CatchUpBlock(wc) == best[Len(wc) + 1]

\* state after n catch-up steps (or as many as are needed): <<wchain, pend>>
\* When the node's chain is not longer than the synced chain, Start hands the node's tip to the
\* block step once if it differs from the synced tip (a reorganisation to a branch that is not
\* longer happened while the wallet was down).
NeedsTipStep(wc) == Len(best) <= Len(wc) /\ best # <<>> /\ Last(best) # Last(wc)

RECURSIVE CatchUp(_, _, _)
CatchUp(wc, p, n) ==
    IF n = 0 THEN <<wc, p>>
    ELSE IF Len(wc) < Len(best)
         THEN LET wc2 == Abs(wc, CatchUpBlock(wc))
              IN CatchUp(wc2, PendAfter(p, wc, wc2), n - 1)
         ELSE IF NeedsTipStep(wc)
              THEN LET wc2 == Abs(wc, Last(best)) IN <<wc2, PendAfter(p, wc, wc2)>>
              ELSE <<wc, p>>

\* number of commits of a full catch-up
CatchUpSteps(wc) == IF Len(best) > Len(wc) THEN Len(best) - Len(wc)
                    ELSE IF NeedsTipStep(wc) THEN 1 ELSE 0

\* background work that the persisted status says is unfinished
TaskSet == {<<"import", w>> : w \in {x \in Wallets : status[x] = "importing"}} \cup
           {<<"remove", w>> : w \in {x \in Wallets : status[x] = "removing"}}
RECURSIVE Perms(_)
Perms(S) == IF S = {} THEN {<<>>} ELSE UNION {{<<x>> \o q : q \in Perms(S \ {x})} : x \in S}
\* a catch-up that reorganises pulls rescan cursors back like any block step
CursorAfter(wc, wc2) == [w \in Wallets |->
                           IF status[w] = "importing" /\ CommonLen(wc, wc2) < Len(wc)
                           THEN Min(cursor[w], CommonLen(wc, wc2)) ELSE cursor[w]]

Crash ==
    /\ up
    /\ up' = FALSE
    /\ ntfB' = <<>> /\ ntfT' = <<>> /\ pool' = {}
    /\ memp' = {} /\ wexp' = {} /\ wmem' = 0 /\ tasks' = <<>> /\ faulted' = FALSE
    /\ reorg' = 0        \* a reorganisation in progress dies with the process; the chain database stays where it was
    /\ UNCHANGED <<parent, content, best, wchain, pend, status, cursor>>

Restart ==
    /\ ~up
    /\ LET r == CatchUp(wchain, pend, CatchUpSteps(wchain))
       IN /\ wchain' = r[1] /\ pend' = r[2]
          /\ wmem' = IF r[1] = <<>> THEN 0 ELSE Last(r[1])
          /\ cursor' = CursorAfter(wchain, r[1])
          /\ wexp' = NewBlocks(wchain, r[1])
    /\ up' = TRUE
    \* the worker re-queues unfinished background work from the persisted wallet status
    /\ tasks' \in Perms(TaskSet)     \* in the order GetAllWalletStatus yields them
    /\ UNCHANGED <<reorg, parent, content, best, pool, ntfB, ntfT, memp, status, faulted>>

RestartCrash(k) ==
    /\ ~up
    /\ k \in 1..CatchUpSteps(wchain)
    /\ LET r == CatchUp(wchain, pend, k)
       IN /\ wchain' = r[1] /\ pend' = r[2]
          /\ cursor' = CursorAfter(wchain, r[1])
    /\ UNCHANGED <<reorg, parent, content, best, pool, ntfB, ntfT, memp, wexp, wmem, up, status, tasks, faulted>>

(***************************************************************************)
(* Wallet life cycle (C07, C08): background import and removal.            *)
(*                                                                         *)
(* The API call commits the status change and queues a task (refused when  *)
(* three tasks wait).  The worker goroutine takes one task at a time; each *)
(* database update of a task runs between a suspend and a resume of the    *)
(* handler, so it is atomic with respect to block steps, and block steps   *)
(* interleave freely BETWEEN two updates of a task.                        *)
(*  ImportStep : one rescan batch of the next ImportBatch heights; when    *)
(*               the cursor reaches the wallet's tip the wallet is ready.  *)
(*  RemoveStep : deletes every record of the wallet; the wallet is gone.   *)
(***************************************************************************)
\* the task the worker has taken and holds between the two phases of a removal (RemoveStepA) is not in the queue
Held == tasks # <<>> /\ Head(tasks)[1] = "remove2"
Busy == Len(tasks) - (IF Held THEN 1 ELSE 0) >= 3

Import(w) ==
    /\ up /\ status[w] = "absent" /\ ~Busy
    /\ status' = [status EXCEPT ![w] = "importing"]
    /\ cursor' = [cursor EXCEPT ![w] = 0]
    /\ tasks' = Append(tasks, <<"import", w>>)
    /\ UNCHANGED <<chainVars, wchain, pend, wmem, memp, wexp, up, faulted>>

Remove(w) ==
    /\ up /\ status[w] = "ready" /\ ~Busy
    /\ status' = [status EXCEPT ![w] = "removing"]
    /\ tasks' = Append(tasks, <<"remove", w>>)
    /\ UNCHANGED <<chainVars, wchain, pend, wmem, memp, wexp, up, cursor, faulted>>

\* does block b contain a transaction (coinbase included) that concerns a wallet of W ?
ConcernsBlock(b, W) ==
    \/ CbOut[b].owner \in W
    \/ \E t \in Range(content[b]) : Relevant(t, W)

(***************************************************************************)
(* A rescan batch reads heights cursor+1 .. stop from the NODE's chain     *)
(* database.  It first checks that the node still has, at every height of  *)
(* the range, the block the wallet has applied; if a reorganisation that   *)
(* the handler has not processed yet touches the range, the batch has no   *)
(* effect and is retried later (ErrImportingContinuable).                  *)
(***************************************************************************)
ImportConflict(w, stop) ==
    \E h \in (cursor[w] + 1)..stop : ~(h <= Len(best) /\ best[h] = wchain[h])

ImportStep ==
    /\ up /\ tasks # <<>> /\ Head(tasks)[1] = "import"
    /\ LET w == Head(tasks)[2]
           top == Len(wchain)
           stop == Min(cursor[w] + ImportBatch, top)
       IN IF ~ImportConflict(w, stop)
          THEN /\ cursor' = [cursor EXCEPT ![w] = stop]
               /\ IF stop = top
                  THEN /\ status' = [status EXCEPT ![w] = "ready"]
                       /\ tasks' = Tail(tasks)
                  ELSE /\ UNCHANGED status
                       /\ tasks' = Append(Tail(tasks), Head(tasks))
          ELSE /\ UNCHANGED <<status, cursor>>
               /\ tasks' = Append(Tail(tasks), Head(tasks))
    /\ UNCHANGED <<chainVars, wchain, pend, wmem, memp, wexp, up, faulted>>

RemoveStep ==
    /\ up /\ tasks # <<>> /\ Head(tasks)[1] = "remove"
    /\ LET w == Head(tasks)[2] IN
       /\ status' = [status EXCEPT ![w] = "absent"]
       /\ tasks' = Tail(tasks)
       \* pending transactions that pay the wallet and no other wallet of this instance go with it
       \* (RemoveRelevantTx finds them through the wallet's pending credits)
       /\ pend' = {t \in pend : ~PaysTo(t, {w}) \/ PaysTo(t, {x \in Wallets \ {w} : status[x] # "absent"})}
    /\ UNCHANGED <<chainVars, wchain, wmem, memp, wexp, up, cursor, faulted>>

\* The same removal at the grain of its phases.  Phase 1 (asyncRemove-1: balance, unspent, address and history
\* records of the wallet go) and the rounds of phase 2 (credits, debits, transaction records, status record,
\* keystore) are separate suspend / resume windows: block steps fall between them.  The worker holds the task
\* in between ("remove2" at the head of tasks stands for that).
RemoveStepA ==
    /\ up /\ tasks # <<>> /\ Head(tasks)[1] = "remove"
    /\ tasks' = <<<<"remove2", Head(tasks)[2]>>>> \o Tail(tasks)
    /\ UNCHANGED <<chainVars, wchain, pend, wmem, memp, wexp, up, status, cursor, faulted>>
RemoveStepB ==
    /\ up /\ tasks # <<>> /\ Head(tasks)[1] = "remove2"
    /\ LET w == Head(tasks)[2] IN
       /\ status' = [status EXCEPT ![w] = "absent"]
       /\ tasks' = Tail(tasks)
       /\ pend' = {t \in pend : ~PaysTo(t, {w}) \/ PaysTo(t, {x \in Wallets \ {w} : status[x] # "absent"})}
    /\ UNCHANGED <<chainVars, wchain, wmem, memp, wexp, up, cursor, faulted>>

\* A removal is several database commits (the first phase, then the rounds; the last round deletes
\* the credits, the wallet-status record and the keystore together).  The process may die between
\* them: the status still says "removing" and a restart takes the removal up again.  k = RemoveCommits
\* is a crash right after the last commit.
RemoveCommits == 2
RemoveStepCrash(k) ==
    /\ up /\ tasks # <<>> /\ Head(tasks)[1] = "remove"
    /\ k \in 1..RemoveCommits
    /\ LET w == Head(tasks)[2] IN
       IF k < RemoveCommits
       THEN UNCHANGED <<status, pend>>
       ELSE /\ status' = [status EXCEPT ![w] = "absent"]
            /\ pend' = {t \in pend : ~PaysTo(t, {w}) \/ PaysTo(t, {x \in Wallets \ {w} : status[x] # "absent"})}
    /\ up' = FALSE
    /\ ntfB' = <<>> /\ ntfT' = <<>> /\ pool' = {}
    /\ memp' = {} /\ wexp' = {} /\ wmem' = 0 /\ tasks' = <<>> /\ faulted' = FALSE /\ reorg' = 0
    /\ UNCHANGED <<parent, content, best, wchain, cursor>>

(***************************************************************************)
(* Storage faults (C18).  A storage call of a step fails: the update is    *)
(* rolled back, so the step has no durable effect.  A block step that      *)
(* fails is not retried - the notification is consumed, the in-memory tip  *)
(* stays - and the wallet catches up through the reorganisation path when  *)
(* the NEXT tip arrives; a failed worker step re-queues its task; a failed *)
(* API call returns the error to the caller, who may repeat it.            *)
(***************************************************************************)
HandleBlockFault ==
    /\ up /\ ntfB # <<>>
    /\ ntfB' = Tail(ntfB)
    /\ faulted' = TRUE
    /\ UNCHANGED <<reorg, parent, content, best, pool, ntfT, wchain, pend, wmem, memp, wexp, up, status, cursor, tasks>>

HandleTxFault ==
    /\ up /\ ntfT # <<>>
    /\ ntfT' = Tail(ntfT)
    /\ UNCHANGED <<reorg, parent, content, best, pool, ntfB, wchain, pend, wmem, memp, wexp, up, status, cursor, tasks, faulted>>

WorkerStepFault ==
    /\ up /\ tasks # <<>>
    /\ tasks' = Append(Tail(tasks), Head(tasks))
    /\ UNCHANGED <<chainVars, wchain, pend, wmem, memp, wexp, up, status, cursor, faulted>>

(***************************************************************************)
(* Properties                                                              *)
(***************************************************************************)
Quiescent == up /\ ntfB = <<>> /\ ntfT = <<>> /\ tasks = <<>> /\ ~faulted /\ reorg = 0

\* C01 (sync part): once every notification is processed the wallet is on the best chain
\* C06: ... also after any number of crashes and restarts
SyncedWhenQuiet == Quiescent => wchain = best

\* the transcription of the code's reorg walk agrees with the abstract step
AlgoAgrees == (up /\ ntfB # <<>> /\ wmem = (IF wchain = <<>> THEN 0 ELSE Last(wchain)))
                  => Algo(wchain, wmem, Head(ntfB)) = Abs(wchain, Head(ntfB))

MemTipIsDurableTip == up => wmem = (IF wchain = <<>> THEN 0 ELSE Last(wchain))

\* C09 (design level): the pending set never contains a confirmed, conflicted or orphaned transaction
PendingExact == Quiescent => pend = Settle(pend, CC(wchain))
=============================================================================
