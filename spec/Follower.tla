------------------------------ MODULE Follower ------------------------------
(***************************************************************************)
(* The wallet's chain follower (masswallet/ntfnshandler.go).               *)
(*                                                                         *)
(* Durable state (wallet LevelDB):                                         *)
(*   wchain  - the blocks the wallet has applied, by height (bucket sync)  *)
(*   pend    - the pending (unconfirmed, relevant) transactions (bucket m) *)
(* Volatile state (lost by a crash):                                       *)
(*   wmem    - in-memory copy of the synced tip (NtfnsHandler.bestBlock)   *)
(*   memp    - in-memory set of known pending tx ids (NtfnsHandler.mempool)*)
(*   up      - the follower goroutines are running                         *)
(*                                                                         *)
(* Every handler step is one mwdb.Update on the wallet database, hence     *)
(* atomic and all-or-nothing with respect to the durable state.            *)
(*                                                                         *)
(* HandleBlock is specified twice: Abs(..) is the abstract step used for   *)
(* conformance; Algo(..) transcribes processConnectedBlock/reorg step for  *)
(* step.  AlgoAgrees (an invariant) says they coincide in every reachable  *)
(* state, for every interleaving of chain changes and handler steps.       *)
(***************************************************************************)
EXTENDS Ledger

CONSTANT StrictOrder   \* TRUE: the node never has a tip and an unconfirmed transaction in flight to the
                       \* wallet at the same time (no race between the two notification queues);
                       \* FALSE: any interleaving (the Go select picks at random among ready queues)

VARIABLES wchain, pend, wmem, memp, up

followerVars == <<wchain, pend, wmem, memp, up>>

Ready == Wallets          \* refined in Lifecycle.tla (importing / removing wallets)

Min(a, b) == IF a < b THEN a ELSE b

(***************************************************************************)
(* Abstract block step.                                                    *)
(***************************************************************************)
Abs(wc, nb) ==
    IF wc # <<>> /\ nb = Last(wc) THEN wc                      \* duplicate notification
    ELSE IF nb \in Range(wc) THEN SubSeq(wc, 1, Height(nb))    \* stale ancestor: roll back to it
    ELSE IF OnBest(nb) THEN Path(nb)                           \* connect / reorganise
    ELSE wc                                                    \* revoked meanwhile: no effect

(***************************************************************************)
(* What a block step does to the pending set (txstore.go: Rollback,        *)
(* insertMinedTx, removeDoubleSpends, removeConflict), as the code does it:*)
(*  - every relevant non-coinbase transaction of a disconnected block      *)
(*    returns to the pending set;                                          *)
(*  - pending spenders of a disconnected wallet coinbase output are        *)
(*    dropped, with their pending descendants;                             *)
(*  - every relevant transaction of a connected block leaves the pending   *)
(*    set, and every pending transaction that spends a wallet-owned input  *)
(*    of it (a conflict) is dropped, with its pending descendants.         *)
(* Descendants are found through the pending-input index, which holds the  *)
(* wallet-owned inputs of announced transactions (the universes have no    *)
(* stranger-owned inputs, so this is every input).                         *)
(* Settle (Ledger.tla) is the ideal; PendingExact states where they meet.  *)
(***************************************************************************)
GoneBlocks(wc, wc2) == {wc[h] : h \in {i \in DOMAIN wc : i > Len(wc2) \/ wc2[i] # wc[i]}}
NewBlocks(wc, wc2)  == {wc2[h] : h \in {i \in DOMAIN wc2 : i > Len(wc) \/ wc2[i] # wc[i]}}

\* non-coinbase relevant transactions of the disconnected blocks
RolledBack(wc, wc2) ==
    {t \in UNION {Range(content[b]) : b \in GoneBlocks(wc, wc2)} : Relevant(t, Ready)}

RECURSIVE Desc(_, _)
Desc(p, R) ==
    LET more == {u \in p \ R : \E op \in TxIns[u] : op[1] \in R /\ OutOf(op).owner \in Ready}
    IN IF more = {} THEN R ELSE Desc(p, R \cup more)

PendAfter(p, wc, wc2) ==
    LET rb    == RolledBack(wc, wc2)
        p1    == p \cup rb
        \* spenders of wallet coinbase outputs of disconnected blocks
        cbGone == {<<CbId[b], 1>> : b \in {x \in GoneBlocks(wc, wc2) : CbOut[x].owner \in Ready}}
        orph  == {u \in p1 : TxIns[u] \cap cbGone # {}}
        p2    == p1 \ Desc(p1, orph)
        mined == {t \in UNION {Range(content[b]) : b \in NewBlocks(wc, wc2)} : Relevant(t, Ready)}
        confl == {u \in p2 \ mined : \E t \in mined : \E op \in TxIns[t] \cap TxIns[u] : OutOf(op).owner \in Ready}
    IN (p2 \ mined) \ Desc(p2 \ mined, confl)

(***************************************************************************)
(* The code's algorithm (processConnectedBlock + reorg), transcribed.      *)
(*   GetBlock  : chainFetcher.FetchBlockBySha - answers for blocks of the  *)
(*               current best chain only (DeleteBlock drops the index of   *)
(*               detached blocks); -1 stands for nil                       *)
(*   filterBlock accepts block b only if FetchBlockLocByHeight(height(b))  *)
(*               is b, i.e. b is on the best chain now                     *)
(***************************************************************************)
GetBlock(b) == IF b >= 0 /\ OnBest(b) THEN b ELSE -1
OnBestNow(b) == b > 0 /\ Height(b) <= Len(best) /\ best[Height(b)] = b
WAt(wc, h) == IF h = 0 THEN 0 ELSE wc[h]            \* syncStore.SyncedBlock(h)

\* step 1: walk the new tip back to the wallet's height
RECURSIVE Align(_, _, _)
Align(curH, nbk, conn) ==
    IF nbk = -1 THEN [ok |-> FALSE]
    ELSE IF curH < Height(nbk)
         THEN Align(curH, GetBlock(parent[nbk]), <<nbk>> \o conn)
         ELSE [ok |-> TRUE, nbk |-> nbk, conn |-> conn]

\* step 2b: walk both chains back to the fork
RECURSIVE ForkWalk(_, _, _, _)
ForkWalk(wc, prevH, newTail, conn) ==
    IF newTail = -1 THEN [ok |-> FALSE]
    ELSE IF parent[newTail] # WAt(wc, prevH)
         THEN ForkWalk(SubSeq(wc, 1, prevH), prevH - 1,
                       GetBlock(parent[newTail]), <<newTail>> \o conn)
         ELSE [ok |-> TRUE, wc |-> SubSeq(wc, 1, prevH), conn |-> <<newTail>> \o conn]

\* step 3: connect, each block guarded by the hash-at-height check
RECURSIVE ConnectAll(_, _)
ConnectAll(wc, conn) ==
    IF conn = <<>> THEN [ok |-> TRUE, wc |-> wc]
    ELSE IF OnBestNow(Head(conn)) /\ Height(Head(conn)) = Len(wc) + 1
         THEN ConnectAll(Append(wc, Head(conn)), Tail(conn))
         ELSE [ok |-> FALSE]

Algo(wc, mem, nb) ==
    IF parent[nb] = mem
    THEN LET r == ConnectAll(wc, <<nb>>) IN IF r.ok THEN r.wc ELSE wc
    ELSE
      LET a == Align(Len(wc), nb, <<>>) IN
      IF ~a.ok THEN wc
      ELSE IF mem = a.nbk
           THEN LET r == ConnectAll(wc, a.conn) IN IF r.ok THEN r.wc ELSE wc
           ELSE
             LET h   == Min(Len(wc), Height(a.nbk))
                 wc1 == SubSeq(wc, 1, h)                  \* disconnect down to the new tip's height
             IN IF WAt(wc1, h) = a.nbk
                THEN LET r == ConnectAll(wc1, a.conn) IN IF r.ok THEN r.wc ELSE wc
                ELSE LET f == ForkWalk(wc1, h - 1, a.nbk, a.conn) IN
                     IF ~f.ok THEN wc
                     ELSE LET r == ConnectAll(f.wc, f.conn) IN IF r.ok THEN r.wc ELSE wc

(***************************************************************************)
(* Unconfirmed transaction step (proccessReceivedTx + filterTx + onRelevantTx) *)
(***************************************************************************)
TxAccepted(t) ==
    /\ Len(wchain) + 1 >= Len(best)              \* ignored while more than one block behind the node
    /\ t \notin memp                             \* already known
    /\ \A op \in TxIns[t] : op[1] \in TxsOn(CC(best)) \/ op[1] \in pend   \* every input resolves
    /\ Relevant(t, Ready)
    /\ ~(\E k \in 1..Len(TxOuts[t]) :             \* "expired unmined credit": already an unspent coin
            TxOuts[t][k].owner \in Ready /\ <<t, k>> \in Utxo(CC(wchain), TxOuts[t][k].owner))
    /\ ~(t \in pend /\ PaysTo(t, Ready))          \* duplicate unmined credit

(***************************************************************************)
(* Actions                                                                 *)
(***************************************************************************)
FollowerInit ==
    /\ wchain = [b \in 1..Base |-> b]
    /\ pend = {}
    /\ wmem = Base
    /\ memp = {}
    /\ up = TRUE

HandleBlock ==
    /\ up
    /\ ntfB # <<>>
    /\ LET nb == Head(ntfB)
           wc2 == Abs(wchain, nb)
       IN /\ wchain' = wc2
          /\ pend'   = PendAfter(pend, wchain, wc2)
          \* the in-memory tip becomes nb exactly when the Update succeeded
          /\ wmem'   = IF nb \in Range(wchain) \/ OnBest(nb) THEN nb ELSE wmem
    /\ ntfB' = Tail(ntfB)
    /\ UNCHANGED <<parent, content, best, pool, ntfT, memp, up>>

HandleTx ==
    /\ up
    /\ ntfT # <<>>
    /\ LET t == Head(ntfT) IN
       IF TxAccepted(t)
       THEN /\ pend' = pend \cup {t}
            /\ memp' = memp \cup {t}
       ELSE UNCHANGED <<pend, memp>>
    /\ ntfT' = Tail(ntfT)
    /\ UNCHANGED <<parent, content, best, pool, ntfB, wchain, wmem, up>>

(***************************************************************************)
(* Crash and restart (C06).  The wallet is part of the node process: a     *)
(* crash loses every volatile variable of both - queued notifications, the *)
(* node mempool, the follower's in-memory tip and pending-id set - and     *)
(* keeps what was committed: the chain database (best) and the wallet      *)
(* database (wchain, pend).  Because every handler step is one commit, a   *)
(* crash "between any two commits" is a Crash between any two actions.     *)
(*                                                                         *)
(* Restart = NewNtfnsHandler (reads the synced tip) + Start: one           *)
(* processConnectedBlock per height from synced+1 to the node's height,    *)
(* each its own commit, through the same connect / reorganise code, before *)
(* the node starts syncing (mass.go: LoadWallet precedes server.Start), so *)
(* the chain does not move during catch-up.  RestartCrash(k) is a restart  *)
(* that dies again after k catch-up commits.                               *)
(***************************************************************************)
CatchUpBlock(wc) == best[Len(wc) + 1]

\* state after n catch-up steps (or as many as are needed): <<wchain, pend>>
\* When the node's chain is not longer than the synced chain, Start hands the node's tip to the
\* block step once if it differs from the synced tip (a reorganisation to a branch that is not
\* longer happened while the wallet was down).
NeedsTipStep(wc) == Len(best) <= Len(wc) /\ best # <<>> /\ Last(best) # Last(wc)

RECURSIVE CatchUp(_, _, _)
CatchUp(wc, p, n) ==
    IF n = 0 THEN <<wc, p>>
    ELSE IF Len(wc) < Len(best)
         THEN LET wc2 == Abs(wc, CatchUpBlock(wc))
              IN CatchUp(wc2, PendAfter(p, wc, wc2), n - 1)
         ELSE IF NeedsTipStep(wc)
              THEN LET wc2 == Abs(wc, Last(best)) IN <<wc2, PendAfter(p, wc, wc2)>>
              ELSE <<wc, p>>

\* number of commits of a full catch-up
CatchUpSteps(wc) == IF Len(best) > Len(wc) THEN Len(best) - Len(wc)
                    ELSE IF NeedsTipStep(wc) THEN 1 ELSE 0

Crash ==
    /\ up
    /\ up' = FALSE
    /\ ntfB' = <<>> /\ ntfT' = <<>> /\ pool' = {}
    /\ memp' = {} /\ wmem' = 0
    /\ UNCHANGED <<parent, content, best, wchain, pend>>

Restart ==
    /\ ~up
    /\ LET r == CatchUp(wchain, pend, CatchUpSteps(wchain))
       IN /\ wchain' = r[1] /\ pend' = r[2]
          /\ wmem' = IF r[1] = <<>> THEN 0 ELSE Last(r[1])
    /\ up' = TRUE
    /\ UNCHANGED <<parent, content, best, pool, ntfB, ntfT, memp>>

RestartCrash(k) ==
    /\ ~up
    /\ k \in 1..CatchUpSteps(wchain)
    /\ LET r == CatchUp(wchain, pend, k)
       IN wchain' = r[1] /\ pend' = r[2]
    /\ UNCHANGED <<parent, content, best, pool, ntfB, ntfT, memp, wmem, up>>

(***************************************************************************)
(* Properties                                                              *)
(***************************************************************************)
Quiescent == up /\ ntfB = <<>> /\ ntfT = <<>>

\* C01 (sync part): once every notification is processed the wallet is on the best chain
\* C06: ... also after any number of crashes and restarts
SyncedWhenQuiet == Quiescent => wchain = best

\* the transcription of the code's reorg walk agrees with the abstract step
AlgoAgrees == (up /\ ntfB # <<>> /\ wmem = (IF wchain = <<>> THEN 0 ELSE Last(wchain)))
                  => Algo(wchain, wmem, Head(ntfB)) = Abs(wchain, Head(ntfB))

MemTipIsDurableTip == up => wmem = (IF wchain = <<>> THEN 0 ELSE Last(wchain))

\* C09 (design level): the pending set never contains a confirmed, conflicted or orphaned transaction
PendingExact == Quiescent => pend = Settle(pend, CC(wchain))
=============================================================================
