------------------------------- MODULE Bip39MC -------------------------------
(***************************************************************************)
(* C13, properties of the specification itself (no implementation here).   *)
(* The hash byte is uninterpreted in Bip39, so TLC checks the codec laws   *)
(* for EVERY value h in 0..255 of it, over the structural entropies of     *)
(* Bip39Gen, and anchors the bit order on the published BIP-39 vectors.    *)
(***************************************************************************)
EXTENDS Bip39Gen

\* published test vectors (trezor/python-mnemonic vectors.json), word indices in english.txt;
\* the hash bytes are SHA-256(00^16)[0] = 0x37, SHA-256(ff^16)[0] = 0x5a, SHA-256(7f^16)[0] = 0x87,
\* SHA-256(80^16)[0] = 0x4e, SHA-256(00^32)[0] = 0x66, SHA-256(ff^32)[0] = 0xaf
\* "abandon" x11 "about"
ASSUME Encode(Const(16, 0), 55) = <<0, 0, 0, 0, 0, 0, 0, 0, 0, 0, 0, 3>>
\* "zoo" x11 "wrong"
ASSUME Encode(Const(16, 255), 90) = <<2047, 2047, 2047, 2047, 2047, 2047, 2047, 2047, 2047, 2047, 2047, 2037>>
\* "legal winner thank year wave sausage worth useful legal winner thank yellow"
ASSUME Encode(Const(16, 127), 135) = <<1019, 2015, 1790, 2039, 1983, 1533, 2031, 1919, 1019, 2015, 1790, 2040>>
\* "letter advice cage absurd amount doctor acoustic avoid letter advice cage above"
ASSUME Encode(Const(16, 128), 78) = <<1028, 32, 257, 8, 64, 514, 16, 128, 1028, 32, 257, 4>>
\* "abandon" x23 "art"
ASSUME Encode(Const(32, 0), 102) = [j \in 1..24 |-> IF j = 24 THEN 102 ELSE 0]
\* "zoo" x23 "vote"
ASSUME Encode(Const(32, 255), 175) = [j \in 1..24 |-> IF j = 24 THEN 1967 ELSE 2047]

VARIABLE hb   \* ci (the index of the entropy pattern) is declared in Bip39Gen
\* hb = NoH: the entropy is chosen, the hash byte not yet (keeps the state graph wide, so all workers are used)
NoH == 256
MCInit == ci \in 1..NCases /\ hb = NoH
MCNext == hb = NoH /\ hb' \in 0..255 /\ ci' = ci
MCSpec == MCInit /\ [][MCNext]_<<ci, hb>>

Law(P(_, _, _)) == hb # NoH => LET e == CaseAt(ci).ent  x == Encode(e, hb) IN P(e, x, CsBitsOf(Len(e)))

ShapeP(e, x, cs)     == Len(x) = WordsOf(Len(e)) /\ Len(x) \in WordCounts /\ \A j \in 1..Len(x) : x[j] \in 0..2047
RoundTripP(e, x, cs) == DecodeEnt(x) = e /\ BytesOf(Len(x)) = Len(e)
ChecksumP(e, x, cs)  == DecodeCs(x) = TopBits(hb, cs)
\* the mnemonic of (e, hb) is accepted exactly by hash bytes that agree with hb on the checksum bits
AcceptP(e, x, cs)    == \A g \in {hb, (hb + 1) % 256, (hb + 128) % 256, 255 - hb, 0, 255} :
                            Accepts(x, g) <=> TopBits(g, cs) = TopBits(hb, cs)
\* only the first ENT/32 bits of the hash byte matter
OnlyTopBitsP(e, x, cs) == x = Encode(e, TopBits(hb, cs) * 2^(8 - cs))
\* classes: the canonical spelling is MUST-ACCEPT under the right hash byte; a changed first checksum
\* bit makes it MUST-REJECT for the reason "checksum"; one word less is MUST-REJECT for "length";
\* a tab for a space or a capitalised word moves it to DONT-CARE; a garbage token to MUST-REJECT "word"
ClassP(e, x, cs) ==
    LET a == CanonicalAtoms(x)
        flip == (hb + 128) % 256
    IN  /\ Class(a, hb) = "MUST-ACCEPT" /\ Canonical(a) /\ WellFormedAtoms(a)
        /\ HashInput(a) = e
        /\ Class(a, flip) = "MUST-REJECT" /\ RejectReason(a, flip) = "checksum"
        /\ RejectReason(SubSeq(a, 1, Len(a) - 2), hb) = "length"
        /\ Class([a EXCEPT ![2] = [k |-> "s", i |-> 0, f |-> "tab"]], hb) = "DONT-CARE"
        /\ Class([a EXCEPT ![1] = [k |-> "n", i |-> a[1].i, f |-> "cap"]], hb) = "DONT-CARE"
        /\ Class([a EXCEPT ![2] = [k |-> "s", i |-> 0, f |-> "tab"]], flip) = "MUST-REJECT"
        /\ RejectReason([a EXCEPT ![1] = [k |-> "x", i |-> 0, f |-> "zzzz"]], hb) = "word"
        /\ Class(<<[k |-> "s", i |-> 0, f |-> "sp"]>> \o a \o <<[k |-> "s", i |-> 0, f |-> "sp"], [k |-> "s", i |-> 0, f |-> "sp"]>>, hb) = "MUST-ACCEPT"

Shape == Law(ShapeP)
RoundTrip == Law(RoundTripP)
Checksum == Law(ChecksumP)
AcceptLaw == Law(AcceptP)
OnlyTopBits == Law(OnlyTopBitsP)
ClassLaw == Law(ClassP)
=============================================================================
