----------------------------- MODULE KeystoreGen -----------------------------
(***************************************************************************)
(* Behaviour generator and design-level model for C04 / C05.               *)
(*                                                                         *)
(* GenSpec: the history is part of the state, so TLC's breadth-first       *)
(* search enumerates EVERY operation sequence of length GenDepth (after    *)
(* the scripted prefix GPrefix) over the operation alphabet of the         *)
(* configuration; -simulate draws random deep ones (GenRandom = TRUE: one  *)
(* random instance per operation kind and step).  Each history is printed  *)
(* as JSON ("HIST"); harness/cmd/keystore replays it on real wallet        *)
(* managers and records what they answer; KeystoreTrace judges the record. *)
(* A "wrong" candidate stands for EVERY byte string other than the right   *)
(* passphrase: the replayer expands it into concrete ones (another         *)
(* wallet's passphrase, the public passphrase, prefix, extension, case     *)
(* flip, empty, illegal characters, over-long, random bytes ...), each an  *)
(* operation of its own in the recorded trace.                             *)
(*                                                                         *)
(* MCSpec: the same transition relation without the history (model         *)
(* checking of the statements on the design, cfg/Keystore_MC.cfg, Keystore_MC_asfound.cfg).        *)
(***************************************************************************)
EXTENDS Keystore, Json

CONSTANTS
    GActs,      \* operation kinds of this theme
    GCands,     \* candidate classes offered to gated operations / keystore imports
    GBits,      \* entropy sizes offered to create
    GHints,     \* ExternalIndex hints offered to mnemonic import
    GPrefix,    \* scripted prefix (sequence of operations) executed through the same transition relation
    GenDepth,   \* number of free operations after the prefix
    GenRandom,  \* TRUE (simulation): one random instance per operation kind and step
    GSample, GSeed   \* emit 1 history in GSample (deterministic hash), see Emit

VARIABLES st, hist
gvars == <<st, hist>>

Op(a, i, w, c, k) == [a |-> a, i |-> i, w |-> w, c |-> c, k |-> k]

ActSeq  == <<"create", "newaddr", "export", "impks", "impmn", "restart", "chpub", "sign", "getmn", "remove", "hold", "lock">>
SetToSeq(S) == CHOOSE s \in [1..Cardinality(S) -> S] : Range(s) = S
InstSeq == SetToSeq(Inst)
WalSeq  == SetToSeq(Wal)

Universe == [wal |-> WalDef, inst |-> InstSeq, pub0 |-> Pub0]
ASSUME PrintT(<<"UNIV", ToJson(Universe)>>)

\* (the parameter keeps TLC from evaluating Cands once as a constant: random picks are drawn per step)
Pick(S) == IF GenRandom /\ S # {} THEN {RandomElement(S)} ELSE S

Ok(S, T) == {o \in T : o.a \in GActs /\ Usable(S, o)}
Cands(S, step) ==
    UNION {
      Pick(Ok(S, {Op("create", i, w, "-", b) : i \in Inst, w \in Wal, b \in GBits})),
      Pick({o \in Ok(S, {Op("newaddr", i, w, f, 0) : i \in Inst, w \in Wal, f \in Forms}) : N(S, o.i, o.w) < MaxAddr}),
      Pick(Ok(S, {Op("export", i, w, c, 0) : i \in Inst, w \in Wal, c \in GCands})),
      Pick(Ok(S, {Op("impks", i, w, c, n) : i \in Inst, w \in Wal, c \in GCands, n \in 0..MaxAddr})),
      Pick(Ok(S, {Op("impmn", i, w, "-", h) : i \in Inst, w \in Wal, h \in GHints})),
      Pick(Ok(S, {Op("restart", i, "", "-", 0) : i \in Inst})),
      Pick(Ok(S, {Op("chpub", i, "", q, 0) : i \in Inst, q \in PubToks})),
      Pick(Ok(S, {Op("sign", i, w, c, k) : i \in Inst, w \in Wal, c \in GCands, k \in 0..(MaxAddr - 1)})),
      Pick(Ok(S, {Op("getmn", i, w, c, 0) : i \in Inst, w \in Wal, c \in GCands})),
      Pick(Ok(S, {Op("remove", i, w, c, 0) : i \in Inst, w \in Wal, c \in GCands})),
      Pick(Ok(S, {Op("hold", i, w, "right", k) : i \in Inst, w \in Wal, k \in 0..(MaxAddr - 1)})),
      Pick({o \in Ok(S, {Op("lock", i, "", "-", 0) : i \in Inst}) : S.inst[o.i].held # {}})
    }

Allowed(S, op) == op.a \in GActs /\ Usable(S, op)

\* an entry carries the operation, the outcome class the property demands, and what the code as found answers
Entry(S, op) == op @@ [want |-> Want(S, op), impl |-> Impl(S, op)]

GenInit == st = InitState /\ hist = <<>>

GenNext ==
    /\ Len(hist) < Len(GPrefix) + GenDepth
    /\ IF Len(hist) < Len(GPrefix)
       THEN LET op == GPrefix[Len(hist) + 1] IN
            /\ Usable(st, op)
            /\ st' = Eff(st, op, Restored(op))
            /\ hist' = Append(hist, Entry(st, op))
       ELSE \E op \in Cands(st, Len(hist)) :
            /\ Allowed(st, op)
            /\ st' = Eff(st, op, Restored(op))
            /\ hist' = Append(hist, Entry(st, op))

GenSpec == GenInit /\ [][GenNext]_gvars

\* ---- emission (never violated) ----
Pos(s, x) == CHOOSE p \in 1..Len(s) : s[p] = x
PubSeq == SetToSeq(PubToks)
CNo(c) == CASE c = "right" -> 1 [] c = "wrong" -> 2 [] c = "std" -> 3 [] c = "stk" -> 4 [] c = "-" -> 5 [] OTHER -> 6 + Pos(PubSeq, c)
WNo(w) == IF w = "" THEN 0 ELSE Pos(WalSeq, w)
OpHash(e) == (Pos(ActSeq, e.a) * 131 + Pos(InstSeq, e.i) * 17 + WNo(e.w) * 29 + CNo(e.c) * 37 + e.k * 41) % 1000003
RECURSIVE HistHash(_, _)
HistHash(h, acc) == IF h = <<>> THEN acc ELSE HistHash(Tail(h), (acc * 31 + OpHash(h[1])) % 1000003)
Free == SubSeq(hist, Len(GPrefix) + 1, Len(hist))
Emit == (Len(hist) = Len(GPrefix) + GenDepth /\ (GSample = 1 \/ (HistHash(Free, 7) + GSeed) % GSample = 0))
            => PrintT(<<"HIST", ToJson(hist)>>)

\* the prefix must be executable (a wrong script would silently generate nothing)
PrefixOK == Len(hist) < Len(GPrefix) => Usable(st, GPrefix[Len(hist) + 1])

----------------------------------------------------------------------------
(* Model checking of the statements on the design (no history).            *)
AllOps(S) ==
    UNION {
      {Op("create", i, w, "-", 128) : i \in Inst, w \in Wal},
      {o \in {Op("newaddr", i, w, f, 0) : i \in Inst, w \in Wal, f \in Forms} : N(S, o.i, o.w) < MaxAddr},
      {Op("export", i, w, c, 0) : i \in Inst, w \in Wal, c \in CandClasses},
      {Op("impks", i, w, c, n) : i \in Inst, w \in Wal, c \in CandClasses, n \in 0..MaxAddr},
      {Op("impmn", i, w, "-", h) : i \in Inst, w \in Wal, h \in 0..MaxAddr},
      {Op("restart", i, "", "-", 0) : i \in Inst},
      {Op("chpub", i, "", q, 0) : i \in Inst, q \in PubToks},
      {Op("sign", i, w, c, k) : i \in Inst, w \in Wal, c \in CandClasses, k \in 0..(MaxAddr - 1)},
      {Op("getmn", i, w, c, 0) : i \in Inst, w \in Wal, c \in CandClasses},
      {Op("remove", i, w, c, 0) : i \in Inst, w \in Wal, c \in CandClasses}
    }

MCInit == st = InitState /\ hist = <<>>
MCNext == \E op \in AllOps(st) :
            /\ Usable(st, op)
            /\ st' = Eff(st, op, Restored(op))
            /\ UNCHANGED hist
MCSpec == MCInit /\ [][MCNext]_gvars
Enabled(S) == {op \in AllOps(S) : Usable(S, op)}

TypeOK ==
    /\ st.bound \subseteq {MnOf(w) : w \in Wal}
    /\ \A w \in Wal : st.ks[w] \subseteq 0..MaxAddr
    /\ \A i \in Inst :
         /\ st.inst[i].pub \in PubToks
         /\ st.inst[i].unl \subseteq Wal /\ st.inst[i].mz \subseteq st.inst[i].unl /\ st.inst[i].sz \subseteq st.inst[i].unl
         /\ \A w \in Wal : LET r == st.inst[i].wal[w] IN
                /\ r.here \in BOOLEAN /\ r.n \in 0..MaxAddr /\ Len(r.form) = r.n
                /\ \A x \in 1..r.n : r.form[x] \in Forms \cup {"any"}
                /\ ~r.here => r = NoWal
                /\ r.here => MnOf(w) \in st.bound

(* C04 on the design: a wallet present anywhere was made from a known      *)
(* mnemonic; an exported keystore never covers more indexes than were      *)
(* issued somewhere; wherever two instances hold the same wallet their     *)
(* index sets are prefixes of the one sequence Addr(w, 0), Addr(w, 1), ... *)
(* (index sets 0..n-1: comparable by inclusion), and an import restores    *)
(* every index the keystore / hint covers.                                 *)
Comparable == \A w \in Wal, i \in Inst, j \in Inst :
                 (Here(st, i, w) /\ Here(st, j, w)) => (0..(N(st, i, w) - 1) \subseteq 0..(N(st, j, w) - 1)
                                                        \/ 0..(N(st, j, w) - 1) \subseteq 0..(N(st, i, w) - 1))
ImportRestores ==
    \A e \in Enabled(st) :
        (e.a \in {"impks", "impmn"} /\ Want(st, e) = "ok") =>
            \A cnt \in MustRestore(e)..MaxAddr : N(Eff(st, e, cnt), e.i, e.w) >= MustRestore(e)
(* C05 on the design: a refused operation changes nothing; the answer of a *)
(* gated operation depends on the candidate alone (GateOK: what the code   *)
(* answers is what the property demands - violated by the as-found design, *)
(* cfg/Keystore_MC_asfound.cfg); no call leaves keys unlocked.             *)
RefusedChangesNothing ==
    \A e \in Enabled(st) : Want(st, e) \in {"pass", "dup"} =>
        \A cls \in {"wrong", "empty"} : Eff(st, e @@ [cc |-> cls], Restored(e)) = st
GateOK == \A e \in Enabled(st) : Impl(st, e) = Want(st, e)
LockedAfterCall == \A i \in Inst : st.inst[i].unl = {}
Storage == NoPlainSecret
=============================================================================
