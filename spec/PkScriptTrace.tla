--------------------------- MODULE PkScriptTrace ---------------------------
(***************************************************************************)
(* C16 trace validation.  The harness (cmd/pkscript) evaluated the real    *)
(* readers, builders and the consensus library on every case and wrote one *)
(* JSON object per line; here every line is judged against PkScript.tla.   *)
(* Lines are independent, so the "trace" is a two-level fan-out (block,    *)
(* line) that TLC's workers share; the invariant Judged is evaluated once  *)
(* per line.  For a line with failures it prints                           *)
(*     <<"FAIL", id, tag, finding>>                                        *)
(* and it is violated unless every failure tag is excused by a finding     *)
(* listed in KnownIds (run with -continue: every line is judged).  It also *)
(* prints the specification's classification of every input                *)
(*     <<"CLS", id, part, consensus class>>                                *)
(* from which the check measures what the run covered.                     *)
(***************************************************************************)
EXTENDS PkScript, Json, TLC

CONSTANTS TracePath,   \* ndjson written by cmd/pkscript
          KnownIds,    \* findings currently recorded as known (known_findings.jsonl)
          NBlocks,     \* fan-out
          Classes      \* TRUE: print the CLS line of every input

Trace == ndJsonDeserialize(TracePath)
N == Len(Trace)

VARIABLES blk, i
vars == <<blk, i>>

Init == blk = 0 /\ i = 0
Next == \/ blk = 0 /\ blk' \in 1..NBlocks /\ i' = 0
        \/ blk > 0 /\ i = 0 /\ blk' = blk /\ i' \in {k \in 1..N : (k % NBlocks) + 1 = blk}
Spec == Init /\ [][Next]_vars

\* the line is well-formed and within the range the specification's arithmetic assumes
Shape(l) == IF IsBytes(l.s) /\ Len(l.s) < 65536 /\ Len(l.c.lock) = 8 /\ Len(l.c.minFrozen) = 8 /\ Len(l.c.maxFrozen) = 8
            THEN {} ELSE {"T:malformed-line"}

\* a case that came from the generator must be a concretisation of its token sequence, and the
\* prediction made from the tokens must agree with the byte-level specification (tags "G:": an
\* inconsistency inside the check, never a verdict on the wallet)
GenFail(l) ==
    IF ~l.hasAbs THEN {}
    ELSE (IF ~Refines(l.s, 1, l.toks, l.c.minFrozen, l.c.maxFrozen) THEN {"G:not-a-refinement"} ELSE {})
         \cup (IF l.abs.regular /\ ConsensusClass(l.s) # l.abs.cls THEN {"G:abstract-class"} ELSE {})
         \cup (IF l.abs.regular /\ l.abs.part # "" /\ Exp(l.s, l.c.lock).part # l.abs.part THEN {"G:abstract-part"} ELSE {})

Tags(l) == LET sh == Shape(l) IN IF sh # {} THEN sh ELSE Failures(l) \cup GenFail(l)

Judge(l) ==
    /\ Classes /\ (l.k # "build" \/ l.b.st = "ok")
          => PrintT(<<"CLS", l.id, Exp(l.s, l.c.lock).part, ConsensusClass(l.s)>>)
    /\ {tag \in Tags(l) : PrintT(<<"FAIL", l.id, tag, Known(l, tag)>>) /\ Known(l, tag) \notin KnownIds} = {}

Judged == i > 0 => Judge(Trace[i])
=============================================================================
