------------------------------ MODULE Bip39Mut ------------------------------
(***************************************************************************)
(* C13, case generation, stage 2: from (entropy, checksum byte) to input   *)
(* STRINGS - the valid mnemonic and everything obtained from it by         *)
(* substituting, permuting, truncating, extending or re-spacing, and by    *)
(* replacing words with near-words or garbage.                             *)
(*                                                                         *)
(* The mnemonic is the SPECIFICATION's encoding Encode(ent, cs), not the   *)
(* implementation's.  Mutations are described by a record                  *)
(*     [name, ops, lay]                                                    *)
(* ops: token operations applied in order; lay: how the tokens are spaced. *)
(* For plans "full"/"lite" and for sweeps the descriptors are enumerated   *)
(* here; plan "given" applies the (seeded random) descriptors that come    *)
(* with the record.  Every case is written with the hash input the harness *)
(* must run SHA-256 on (HashInput): the specification, not the harness,    *)
(* decides which bytes are the entropy of a word sequence.                 *)
(***************************************************************************)
EXTENDS Bip39, Json, TLC, SequencesExt

CONSTANTS EntFile,       \* ndjson: [name, ent, cs, plan, sweep, descs]
          OutPrefix,     \* cases of record k go to OutPrefix \o k \o ".ndjson"
          SubstDeltas,   \* "full": every position is substituted by word + d, d in this set
          SweepN         \* sweep: the last word is set to every index below SweepN

Ents == ndJsonDeserialize(EntFile)

W(i)  == [k |-> "w", i |-> i, f |-> ""]
Sp(f) == [k |-> "s", i |-> 0, f |-> f]
Seps(fs) == [j \in 1..Len(fs) |-> Sp(fs[j])]

-----------------------------------------------------------------------------
\* token operations; t is a sequence of token atoms; positions out of range leave t alone
ApplyOp(t, o) ==
    LET n == Len(t) IN
    CASE o.op = "subst"   -> IF o.a \in 1..n THEN [t EXCEPT ![o.a] = W((t[o.a].i + o.b) % 2048)] ELSE t
      [] o.op = "set"     -> IF o.a \in 1..n THEN [t EXCEPT ![o.a] = W(o.b % 2048)] ELSE t
      [] o.op = "swap"    -> IF o.a \in 1..n /\ o.b \in 1..n
                             THEN [t EXCEPT ![o.a] = t[o.b], ![o.b] = t[o.a]] ELSE t
      [] o.op = "rev"     -> [j \in 1..n |-> t[n + 1 - j]]
      [] o.op = "rot"     -> IF n = 0 THEN t ELSE [j \in 1..n |-> t[((j - 1 + o.a) % n) + 1]]
      [] o.op = "keep"    -> SubSeq(t, o.a, o.b)                       \* truncation
      [] o.op = "append"  -> t \o [j \in 1..o.a |-> W(o.b % 2048)]
      [] o.op = "dup"     -> t \o t
      [] o.op = "near"    -> IF o.a \in 1..n /\ t[o.a].k = "w"
                             THEN [t EXCEPT ![o.a] = [k |-> "n", i |-> t[o.a].i, f |-> o.f]] ELSE t
      [] o.op = "nearall" -> [j \in 1..n |-> IF t[j].k = "w" THEN [k |-> "n", i |-> t[j].i, f |-> o.f] ELSE t[j]]
      [] o.op = "garbage" -> IF o.a \in 1..n THEN [t EXCEPT ![o.a] = [k |-> "x", i |-> t[o.a].i, f |-> o.f]] ELSE t
      [] OTHER            -> t

RECURSIVE ApplyOps(_, _)
ApplyOps(t, ops) == IF ops = <<>> THEN t ELSE ApplyOps(ApplyOp(t, Head(ops)), Tail(ops))

\* spacing: lead, then the tokens with separator run b1 after odd and b2 after even tokens, then trail
RECURSIVE LayFrom(_, _, _)
LayFrom(t, lay, j) ==
    IF j > Len(t) THEN <<>>
    ELSE <<t[j]>> \o (IF j < Len(t) THEN Seps(IF j % 2 = 1 THEN lay.b1 ELSE lay.b2) ELSE <<>>)
                  \o LayFrom(t, lay, j + 1)
Render(t, lay) == Seps(lay.lead) \o LayFrom(t, lay, 1) \o Seps(lay.trail)

-----------------------------------------------------------------------------
\* the enumerated descriptors
Op(op, a, b, f) == [op |-> op, a |-> a, b |-> b, f |-> f]
Lay(lead, b1, b2, trail) == [lead |-> lead, b1 |-> b1, b2 |-> b2, trail |-> trail]
Canon == Lay(<<>>, <<"sp">>, <<"sp">>, <<>>)
D(name, ops, lay) == [name |-> name, ops |-> ops, lay |-> lay]
N(x) == ToString(x)

GarbageKinds == {"zzzz", "suffix", "digit", "joined", "dash"}

Layouts ==
    {<<"lead-sp", Lay(<<"sp">>, <<"sp">>, <<"sp">>, <<>>)>>,
     <<"trail-sp", Lay(<<>>, <<"sp">>, <<"sp">>, <<"sp">>)>>,
     <<"both-sp3", Lay(<<"sp", "sp", "sp">>, <<"sp">>, <<"sp">>, <<"sp", "sp">>)>>,
     <<"double", Lay(<<>>, <<"sp", "sp">>, <<"sp", "sp">>, <<>>)>>,
     <<"mixed", Lay(<<"sp">>, <<"sp">>, <<"sp", "sp", "sp">>, <<>>)>>,
     <<"crlf", Lay(<<>>, <<"cr", "lf">>, <<"cr", "lf">>, <<>>)>>,
     <<"trail-crlf", Lay(<<>>, <<"sp">>, <<"sp">>, <<"cr", "lf">>)>>}
    \cup {<<"sep-" \o m, Lay(<<>>, <<m>>, <<m>>, <<>>)>> : m \in MaySep}
    \cup {<<"trail-" \o m, Lay(<<>>, <<"sp">>, <<"sp">>, <<m>>)>> : m \in MaySep}
    \cup {<<"lead-" \o m, Lay(<<m>>, <<"sp">>, <<"sp">>, <<>>)>> : m \in MaySep}
    \cup {<<"one-" \o m, Lay(<<>>, <<"sp">>, <<"sp", m>>, <<>>)>> : m \in MaySep}

FullDescs(n) ==
       {D("none", <<>>, Canon)}
  \cup {D("subst-" \o N(p) \o "+" \o N(d), <<Op("subst", p, d, "")>>, Canon) : p \in 1..n, d \in SubstDeltas}
  \cup {D("swap-" \o N(p) \o "-" \o N(p+1), <<Op("swap", p, p+1, "")>>, Canon) : p \in 1..(n-1)}
  \cup {D("swap-1-" \o N(n), <<Op("swap", 1, n, "")>>, Canon),
        D("rev", <<Op("rev", 0, 0, "")>>, Canon),
        D("rot-1", <<Op("rot", 1, 0, "")>>, Canon),
        D("rot-3", <<Op("rot", 3, 0, "")>>, Canon),
        D("dup", <<Op("dup", 0, 0, "")>>, Canon),
        D("blank", <<Op("keep", 1, 0, "")>>, Lay(<<"sp", "sp">>, <<"sp">>, <<"sp">>, <<"sp">>))}
  \cup {D("head-" \o N(m), <<Op("keep", 1, m, "")>>, Canon) : m \in 0..(n-1)}
  \cup {D("tail-" \o N(m), <<Op("keep", n - m + 1, n, "")>>, Canon) : m \in (WordCounts \cup {1, 11}) \cap 1..(n-1)}
  \cup {D("append-" \o N(k) \o "x" \o N(w), <<Op("append", k, w, "")>>, Canon) : k \in {1, 2, 3, 6, 12}, w \in {0, 2047}}
  \cup {D("lay-" \o l[1], <<>>, l[2]) : l \in Layouts}
  \cup {D("near-" \o f \o "-" \o N(p), <<Op("near", p, 0, f)>>, Canon) : p \in {1, n}, f \in NearForms}
  \cup {D("nearall-" \o f, <<Op("nearall", 0, 0, f)>>, Canon) : f \in NearForms}
  \cup {D("garbage-" \o g \o "-" \o N(p), <<Op("garbage", p, 0, g)>>, Canon) : p \in {1, (n+1) \div 2, n}, g \in GarbageKinds}
  \* combinations: a second reason, or a reason hidden behind harmless spacing
  \cup {D("subst-" \o N(n) \o "+1/lay-" \o l[1], <<Op("subst", n, 1, "")>>, l[2]) : l \in Layouts}
  \cup {D("head-" \o N(n-1) \o "/lay-both-sp3", <<Op("keep", 1, n-1, "")>>,
          Lay(<<"sp", "sp", "sp">>, <<"sp">>, <<"sp">>, <<"sp", "sp">>)),
        D("garbage-zzzz-1/lay-sep-tab", <<Op("garbage", 1, 0, "zzzz")>>, Lay(<<>>, <<"tab">>, <<"tab">>, <<>>)),
        D("near-upper-1/subst-" \o N(n) \o "+1", <<Op("near", 1, 0, "upper"), Op("subst", n, 1, "")>>, Canon),
        D("near-cap-1/garbage-digit-2", <<Op("near", 1, 0, "cap"), Op("garbage", 2, 0, "digit")>>, Canon)}

LiteDescs(n) ==
    {D("none", <<>>, Canon),
     D("subst-1+1", <<Op("subst", 1, 1, "")>>, Canon),
     D("subst-" \o N(n) \o "+1", <<Op("subst", n, 1, "")>>, Canon),
     D("subst-" \o N(n) \o "+1024", <<Op("subst", n, 1024, "")>>, Canon),
     D("rev", <<Op("rev", 0, 0, "")>>, Canon),
     D("head-" \o N(n-1), <<Op("keep", 1, n-1, "")>>, Canon),
     D("head-" \o N(n-3), <<Op("keep", 1, n-3, "")>>, Canon),
     D("tail-" \o N(n-3), <<Op("keep", 4, n, "")>>, Canon),
     D("append-3x0", <<Op("append", 3, 0, "")>>, Canon),
     D("lay-double", <<>>, Lay(<<>>, <<"sp", "sp">>, <<"sp", "sp">>, <<>>)),
     D("lay-both-sp3", <<>>, Lay(<<"sp", "sp", "sp">>, <<"sp">>, <<"sp">>, <<"sp", "sp">>)),
     D("lay-trail-lf", <<>>, Lay(<<>>, <<"sp">>, <<"sp">>, <<"lf">>)),
     D("lay-sep-tab", <<>>, Lay(<<>>, <<"tab">>, <<"tab">>, <<>>)),
     D("nearall-upper", <<Op("nearall", 0, 0, "upper")>>, Canon),
     D("garbage-zzzz-1", <<Op("garbage", 1, 0, "zzzz")>>, Canon)}

\* the last word carries the checksum: sweeping it meets every checksum value, right and wrong
SweepDescs(n) == {D("last=" \o N(w), <<Op("set", n, w, "")>>, Canon) : w \in 0..(SweepN - 1)}

DescsOf(r) ==
    LET n == WordsOf(Len(r.ent)) IN
    (CASE r.plan = "full"  -> SetToSeq(FullDescs(n))
       [] r.plan = "lite"  -> SetToSeq(LiteDescs(n))
       [] OTHER            -> r.descs)
    \o (IF r.sweep THEN SetToSeq(SweepDescs(n)) ELSE <<>>)

CaseOf(r, d) ==
    LET idx   == Encode(r.ent, r.cs)
        atoms == Render(ApplyOps([j \in 1..Len(idx) |-> W(idx[j])], d.ops), d.lay)
    IN  [src |-> r.name, mut |-> d.name, ent |-> r.ent, cs |-> r.cs,
         atoms |-> atoms, hin |-> HashInput(atoms)]

CasesOf(r) == LET ds == DescsOf(r) IN [j \in 1..Len(ds) |-> CaseOf(r, ds[j])]

-----------------------------------------------------------------------------
VARIABLES rec, ncases
Init == rec = 0 /\ ncases = 0
AllWellFormed(out) == \A m \in 1..Len(out) : WellFormedAtoms(out[m].atoms)
Next == /\ rec < Len(Ents)
        /\ LET out == CasesOf(Ents[rec + 1])
           IN  \* (a guard, not a conjunct: TLC evaluates it as a plain expression)
               ncases' = IF AllWellFormed(out) /\ ndJsonSerialize(OutPrefix \o ToString(rec + 1) \o ".ndjson", out)
                         THEN ncases + Len(out)
                         ELSE Assert(FALSE, <<"ill-formed case generated for record", rec + 1>>)
        /\ rec' = rec + 1
Spec == Init /\ [][Next]_<<rec, ncases>>

\* never violated; reports the number of cases written
Done == rec = Len(Ents) => PrintT(<<"MUT", rec, ncases>>)
=============================================================================
