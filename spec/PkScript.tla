------------------------------ MODULE PkScript ------------------------------
(***************************************************************************)
(* C16 - Output-script classification agrees with the consensus templates  *)
(* and never crashes.                                                      *)
(*                                                                         *)
(*   For every output script the wallet's reading of it (standard,         *)
(*   staking, binding or unsupported; owner address; staking or            *)
(*   binding-target address; maturity) agrees with the consensus script    *)
(*   library's own template matching and address encoding, and scripts     *)
(*   the wallet builds for an address, frozen period or binding target     *)
(*   read back to exactly those values.  Arbitrary byte strings are        *)
(*   classified or rejected without panicking.                             *)
(*                                                                         *)
(* This module is purely functional.  A script is a sequence of bytes.     *)
(*                                                                         *)
(*  1  bytes and 64-bit numbers (as little-endian byte sequences: the      *)
(*     maturities of this property exceed TLC's 32-bit integers)           *)
(*  2  the consensus tokeniser (txscript.parseScriptTemplate)              *)
(*  3  the consensus templates (txscript.typeOfScript)                     *)
(*  4  Exp(s): the reading the property fixes for script s, with its       *)
(*     MUST / DON'T-CARE classes                                           *)
(*  5  the judgement of one recorded evaluation of the real code           *)
(*     (Failures) and the classifiers of the recorded findings (Known)     *)
(*  6  the abstract token level used to ENUMERATE cases (PkScriptGen.tla)  *)
(*     and its refinement relation to bytes                                *)
(*                                                                         *)
(* The readers under judgement:                                            *)
(*   P  utils.ParsePkScript         (masswallet/utils/txscript.go) - the   *)
(*      reader behind every relevance decision of the chain follower, the  *)
(*      ledger, coin selection and the history views                       *)
(*   A  api.extractAddressInfos     (api/util.go) - the reader behind      *)
(*      every transaction view of the API                                  *)
(*   D  APIServer.DecodeRawTransaction - public entry over A (crash only)  *)
(* The builders: masswallet.PayToWitnessV0Address, constructStakingTxOut,  *)
(* and the binding script of CreateBindingTransaction.                     *)
(*                                                                         *)
(* Uninterpreted (trusted) primitives, evaluated by the harness with the   *)
(* consensus library and recorded next to every address string: the        *)
(* address codec massutil.DecodeAddress / EncodeAddress (bech32,           *)
(* base58check).  "s is the consensus encoding of (kind, bytes)" is        *)
(* stated as: s decodes to (kind, bytes) for this network and re-encodes   *)
(* to s (IsAddr).                                                          *)
(***************************************************************************)
EXTENDS Integers, Sequences, FiniteSets

-----------------------------------------------------------------------------
(* 1. bytes and numbers *)

Rep(n, b) == [k \in 1..n |-> b]
Zero8 == Rep(8, 0)
AllFF(s) == \A k \in 1..Len(s) : s[k] = 255
IsBytes(s) == \A k \in 1..Len(s) : s[k] \in 0..255

\* s + 1 on a little-endian byte sequence (the final carry is dropped: callers exclude AllFF)
RECURSIVE IncLE(_)
IncLE(s) == IF s = <<>> THEN <<>>
            ELSE IF s[1] < 255 THEN <<s[1] + 1>> \o Tail(s)
            ELSE <<0>> \o IncLE(Tail(s))

\* a < b for little-endian byte sequences of equal length
LELess(a, b) == \E k \in 1..Len(a) : a[k] < b[k] /\ \A j \in (k+1)..Len(a) : a[j] = b[j]
LELeq(a, b) == a = b \/ LELess(a, b)

-----------------------------------------------------------------------------
(* 2. the consensus tokeniser                                              *)
(* Opcode b in 1..75 pushes the next b bytes; 76/77/78 (PUSHDATA1/2/4) are *)
(* followed by a 1/2/4-byte little-endian length and that many bytes;      *)
(* every other opcode stands alone.  A push that runs past the end makes   *)
(* the whole script unparsable.  A token is [op, lo, hi, dlen]: its data   *)
(* is s[lo..hi].  Scripts are shorter than 65536 bytes (ASSUMEd by the     *)
(* trace module), so an announced length with a non-zero third or fourth   *)
(* byte certainly runs past the end; this keeps all arithmetic in 32 bits. *)

PushWidth(b) == IF b = 76 THEN 1 ELSE IF b = 77 THEN 2 ELSE 4

\* announced data length of the PUSHDATA opcode at position i, -1 when it is >= 65536
Announced(s, i, w) ==
    IF \E k \in 3..w : s[i + k] # 0 THEN -1
    ELSE s[i + 1] + (IF w >= 2 THEN 256 * s[i + 2] ELSE 0)

RECURSIVE ParseFrom(_, _, _)
ParseFrom(s, i, acc) ==
    IF i > Len(s) THEN [ok |-> TRUE, toks |-> acc]
    ELSE LET b == s[i]
             rest == Len(s) - i   \* bytes after the opcode
         IN IF b \in 1..75
            THEN IF rest < b THEN [ok |-> FALSE, toks |-> acc]
                 ELSE ParseFrom(s, i + 1 + b, Append(acc, [op |-> b, lo |-> i + 1, hi |-> i + b, dlen |-> b]))
            ELSE IF b \in 76..78
            THEN LET w == PushWidth(b) IN
                 IF rest < w THEN [ok |-> FALSE, toks |-> acc]
                 ELSE LET l == Announced(s, i, w) IN
                      IF l < 0 \/ l > rest - w THEN [ok |-> FALSE, toks |-> acc]
                      ELSE ParseFrom(s, i + 1 + w + l,
                                     Append(acc, [op |-> b, lo |-> i + w + 1, hi |-> i + w + l, dlen |-> l]))
            ELSE ParseFrom(s, i + 1, Append(acc, [op |-> b, lo |-> i + 1, hi |-> i, dlen |-> 0]))

Parse(s) == ParseFrom(s, 1, <<>>)
Data(s, tok) == SubSeq(s, tok.lo, tok.hi)

-----------------------------------------------------------------------------
(* 3. the consensus templates (they look at op and dlen only, so they      *)
(* apply to byte-level and to abstract tokens alike)                       *)

IsStd(t)     == Len(t) = 2 /\ t[1].op = 0 /\ t[2].op = 32
IsStaking(t) == Len(t) = 3 /\ t[1].op = 0 /\ t[2].op = 32 /\ t[3].op = 8
IsBinding(t) == Len(t) = 3 /\ t[1].op = 0 /\ t[2].op = 32 /\ t[3].op \in {20, 22}

SmallInt(op) == op = 0 \/ op \in 81..96          \* OP_0, OP_1 .. OP_16
AsSmallInt(op) == IF op = 0 THEN 0 ELSE op - 80
IsMultiSig(t) ==
    LET l == Len(t) IN
    /\ l >= 4
    /\ SmallInt(t[1].op) /\ SmallInt(t[l-1].op) /\ t[l].op = 174      \* OP_CHECKMULTISIG
    /\ l - 3 = AsSmallInt(t[l-1].op)
    /\ \A k \in 2..(l-2) : t[k].dlen \in {33, 65}
IsNullData(t) ==
    \/ Len(t) = 1 /\ t[1].op = 106                                    \* OP_RETURN
    \/ Len(t) = 2 /\ t[1].op = 106 /\ t[2].op <= 78 /\ t[2].dlen <= 80

\* txscript.typeOfScript, by the library's class names
TemplateOf(t) ==
    IF IsStd(t) THEN "witness_v0_scripthash"
    ELSE IF IsStaking(t) THEN "staking_scripthash"
    ELSE IF IsBinding(t) THEN "binding_scripthash"
    ELSE IF IsMultiSig(t) THEN "multisig"
    ELSE IF IsNullData(t) THEN "nulldata"
    ELSE "nonstandard"

\* txscript.GetScriptClass
ConsensusClass(s) == LET p == Parse(s) IN IF p.ok THEN TemplateOf(p.toks) ELSE "nonstandard"

PayClasses == {"witness_v0_scripthash", "staking_scripthash", "binding_scripthash"}

\* a 22-byte binding target the consensus address codec encodes (massutil.NewAddressBindingTarget)
Encodable22(tg) == tg[21] \in {0, 1} /\ tg[22] \in 20..200

-----------------------------------------------------------------------------
(* 4. the reading the property fixes                                       *)
(*                                                                         *)
(*  cls  "standard" | "staking" | "binding" | "unsupported"                *)
(*  own  the 32-byte script hash; the owner address is its standard        *)
(*       witness address (kind wsh0)                                       *)
(*  sec  the second address [kind, bytes]: staking address of the same     *)
(*       hash (wsh1); binding target: public-key hash (pkh, 20 bytes) or   *)
(*       typed target (target, 22 bytes)                                   *)
(*  mat  maturity, 8 little-endian bytes: frozen period + 1 for staking    *)
(*       (consensus: the spending input's sequence must be frozen+1),      *)
(*       MASSIP0002BindingLockedPeriod for a 22-byte target, else 0        *)
(*                                                                         *)
(* Classes of inputs:                                                      *)
(*  FULL      script matches a pay template and all its addresses are      *)
(*            encodable: every field above is fixed (MUST-ACCEPT with      *)
(*            exactly these values).                                       *)
(*  NONE      script does not parse or matches no pay template (this       *)
(*            includes multisig and null-data): the reading MUST be        *)
(*            "unsupported" - not a classification, not a failure of       *)
(*            another kind, not a crash.  The property lists the four      *)
(*            readings; the consensus template matcher answers "not one    *)
(*            of mine" for these inputs without any error, and the chain   *)
(*            follower skips an output only on exactly that reading.       *)
(*  PARTIAL   binding template whose 22-byte target the consensus address  *)
(*            codec refuses (unknown type byte, size outside 20..200).     *)
(*            Template matching says "binding", address encoding says      *)
(*            "no such address": the two halves of the oracle disagree     *)
(*            and the statement does not say which wins.  DON'T-CARE       *)
(*            between reading it as binding (then owner and class must be  *)
(*            right), as unsupported, or rejecting it; a crash is not      *)
(*            among the choices.  (Such an output is not valid on chain:   *)
(*            blockchain/policy.go checks type and size.)                  *)
(*  matFixed  FALSE for a staking script whose frozen period is 2^64-1:    *)
(*            frozen+1 does not exist in 64 bits; maturity is DON'T-CARE.  *)

NoAddr == [kind |-> "", bytes |-> <<>>]

Exp(s, lock) ==
    LET p == Parse(s)
        t == p.toks
    IN IF ~p.ok \/ TemplateOf(t) \notin PayClasses
       THEN [cls |-> "unsupported", part |-> "NONE"]
       ELSE LET own == Data(s, t[2]) IN
            IF IsStd(t)
            THEN [cls |-> "standard", part |-> "FULL", own |-> own, sec |-> NoAddr,
                  mat |-> Zero8, matFixed |-> TRUE]
            ELSE IF IsStaking(t)
            THEN [cls |-> "staking", part |-> "FULL", own |-> own, sec |-> [kind |-> "wsh1", bytes |-> own],
                  mat |-> IncLE(Data(s, t[3])), matFixed |-> ~AllFF(Data(s, t[3]))]
            ELSE LET tg == Data(s, t[3]) IN
                 IF Len(tg) = 20
                 THEN [cls |-> "binding", part |-> "FULL", own |-> own, sec |-> [kind |-> "pkh", bytes |-> tg],
                       mat |-> Zero8, matFixed |-> TRUE]
                 ELSE IF Encodable22(tg)
                 THEN [cls |-> "binding", part |-> "FULL", own |-> own, sec |-> [kind |-> "target", bytes |-> tg],
                       mat |-> lock, matFixed |-> TRUE]
                 ELSE [cls |-> "binding", part |-> "PARTIAL", own |-> own, sec |-> NoAddr,
                       mat |-> lock, matFixed |-> FALSE]

ClassNameOf(cls) == CASE cls = "standard" -> "witness_v0_scripthash"
                      [] cls = "staking"  -> "staking_scripthash"
                      [] cls = "binding"  -> "binding_scripthash"
                      [] OTHER -> "none"

-----------------------------------------------------------------------------
(* 5. judging one recorded evaluation                                      *)
(* A decoded address d = [str, ok, kind, bytes, canon] is an address       *)
(* string with the consensus codec's verdict on it.                        *)

IsAddr(d, kind, bytes) == d.ok /\ d.canon /\ d.kind = kind /\ d.bytes = bytes
Absent(d) == d.str = ""

\* the reading P reported, in the property's vocabulary
PReading(p) ==
    IF p.st # "ok" THEN p.st           \* "unsupported" | "err" | "panic"
    ELSE IF p.cls = "witness_v0_scripthash" /\ ~p.isStk /\ ~p.isBind THEN "standard"
    ELSE IF p.cls = "staking_scripthash" /\ p.isStk /\ ~p.isBind THEN "staking"
    ELSE IF p.cls = "binding_scripthash" /\ ~p.isStk /\ p.isBind THEN "binding"
    ELSE "inconsistent"

POwnerOK(p, e) == p.ownBytes = e.own /\ IsAddr(p.own, "wsh0", e.own)
PSecondOK(p, e) ==
    IF e.sec = NoAddr THEN TRUE       \* the interface gives a standard script no second address; not read
    ELSE p.secPresent /\ p.secBytes = e.sec.bytes /\ IsAddr(p.sec, e.sec.kind, e.sec.bytes)

\* failure tags of reader P on a script with expected reading e
PFail(p, e) ==
    IF p.st = "panic" THEN {"P:panic"}
    ELSE IF e.part = "NONE"
    THEN IF p.st = "unsupported" THEN {}
         ELSE IF p.st = "err" THEN {"P:nontemplate-error-instead-of-unsupported"}
         ELSE {"P:nontemplate-classified"}
    ELSE IF e.part = "PARTIAL"
    THEN IF p.st # "ok" THEN {}
         ELSE (IF PReading(p) # "binding" THEN {"P:class"} ELSE {})
              \cup (IF ~POwnerOK(p, e) THEN {"P:owner"} ELSE {})
    ELSE \* FULL
         IF p.st # "ok" THEN {"P:template-rejected"}
         ELSE (IF PReading(p) # e.cls THEN {"P:class"} ELSE {})
              \cup (IF ~POwnerOK(p, e) THEN {"P:owner"} ELSE {})
              \cup (IF ~PSecondOK(p, e) THEN {"P:second-address"} ELSE {})
              \cup (IF e.matFixed /\ p.mat # e.mat THEN {"P:maturity"} ELSE {})

\* the binding target as the API prints it: <address>:<MASS|Chia>:<size>, type and size being
\* bytes 21 and 22 of a typed target (MASS and 0 for a plain public-key hash)
ABindingOK(a, e) ==
    /\ a.bndOk
    /\ IsAddr(a.bnd, e.sec.kind, e.sec.bytes)
    /\ IF e.sec.kind = "pkh" THEN a.ttype = "MASS" /\ a.tsize = 0
       ELSE a.ttype = (IF e.sec.bytes[21] = 1 THEN "Chia" ELSE "MASS") /\ a.tsize = e.sec.bytes[22]

\* failure tags of reader A.  A has no "unsupported" value: for NONE inputs it must either return an
\* error or report the consensus class (multisig / nulldata / nonstandard) with no address at all.
AFail(a, e, cname) ==
    IF a.st = "panic" THEN {"A:panic"}
    ELSE IF e.part = "NONE"
    THEN IF a.st = "err" THEN {}
         ELSE IF a.cls = cname /\ Absent(a.rcp) /\ Absent(a.stk) /\ a.bndRaw = "" THEN {}
         ELSE {"A:nontemplate-classified"}
    ELSE IF e.part = "PARTIAL"
    THEN IF a.st # "ok" THEN {}
         ELSE (IF a.cls # cname THEN {"A:class"} ELSE {})
              \cup (IF ~IsAddr(a.rcp, "wsh0", e.own) THEN {"A:owner"} ELSE {})
    ELSE IF a.st # "ok" THEN {"A:template-rejected"}
         ELSE (IF a.cls # cname THEN {"A:class"} ELSE {})
              \cup (IF ~IsAddr(a.rcp, "wsh0", e.own) THEN {"A:owner"} ELSE {})
              \cup (IF e.cls = "staking"
                    THEN (IF ~IsAddr(a.stk, "wsh1", e.own) THEN {"A:staking-address"} ELSE {})
                    ELSE (IF ~Absent(a.stk) THEN {"A:staking-address"} ELSE {}))
              \cup (IF e.cls = "binding"
                    THEN (IF ~ABindingOK(a, e) THEN {"A:binding-target"} ELSE {})
                    ELSE (IF a.bndRaw # "" THEN {"A:binding-target"} ELSE {}))

DFail(d) == IF d.st = "panic" THEN {"D:panic"} ELSE {}

(* The oracle named by the property - GetScriptClass, GetScriptInfo, ExtractPkScriptAddrs - is  *)
(* recorded too and compared with sections 2-4.  A disagreement here is not a verdict on the    *)
(* wallet: it means this specification does not transcribe the library (tags "O:...", the check *)
(* reports them as inconclusive).  ExtractPkScriptAddrs is not compared on multisig scripts (it *)
(* dereferences a nil address when a key does not parse - see Known).                            *)
OFail(o, s, e, cname) ==
    LET pok == Parse(s).ok
        want == IF e.part = "NONE" THEN <<>>
                ELSE IF e.cls = "staking" THEN <<[kind |-> "wsh1", bytes |-> e.own]>>
                ELSE IF e.cls = "binding" /\ e.part = "FULL" THEN <<[kind |-> "wsh0", bytes |-> e.own], e.sec>>
                ELSE <<[kind |-> "wsh0", bytes |-> e.own]>>
    IN (IF o.cls # cname THEN {"O:GetScriptClass"} ELSE {})
       \cup (IF o.icls # cname THEN {"O:GetScriptInfo"} ELSE {})
       \cup (IF cname = "multisig" THEN {}
             ELSE IF ~pok THEN (IF o.x.st # "err" THEN {"O:Extract-unparsable"} ELSE {})
             ELSE IF o.x.st # "ok" \/ o.x.cls # cname THEN {"O:Extract-class"}
             ELSE IF Len(o.x.addrs) # Len(want)
                     \/ \E k \in 1..Len(want) : ~IsAddr(o.x.addrs[k], want[k].kind, want[k].bytes)
                  THEN {"O:Extract-addresses"} ELSE {})

\* all readers on one script
ReadFail(l) ==
    LET s == l.s
        e == Exp(s, l.c.lock)
        cname == ConsensusClass(s)
    IN PFail(l.p, e) \cup AFail(l.a, e, cname) \cup DFail(l.d) \cup OFail(l.o, s, e, cname)

(* Builders.  Inputs: a 32-byte hash (given to the wallet as the consensus encoding of its      *)
(* standard / staking address), a frozen period (uint32, recorded zero-extended to 8 bytes), a  *)
(* binding target (20 or 22 bytes, given as the consensus encoding of its address; targets the  *)
(* codec has no string for cannot be asked: b.st = "skip").                                      *)
(*   MUST-ACCEPT  std: every hash.  stk: minFrozen <= frozen <= maxFrozen                        *)
(*                (wire.IsValidFrozenPeriod).  bind: every target that has an address string.    *)
(*   DON'T-CARE   whether a staking script is built for a frozen period outside that range.      *)
(*   Whenever a script is built, the specification's own reading of it must give back exactly    *)
(*   the inputs, and the wallet's readers must give that reading (ReadFail on the built script). *)
BuildFail(l) ==
    LET b == l.b
        in == l.in
    IN IF b.st = "panic" THEN {"B:panic"}
       ELSE IF b.st = "skip" THEN {}
       ELSE IF b.st = "err"
       THEN IF l.bk = "stk" /\ (LELess(in.frozen, l.c.minFrozen) \/ LELess(l.c.maxFrozen, in.frozen)) THEN {}
            ELSE {"B:refused"}
       ELSE LET e == Exp(l.s, l.c.lock) IN
            (IF e.part # "FULL" THEN {"B:not-a-template"}
             ELSE (IF e.cls # (CASE l.bk = "std" -> "standard" [] l.bk = "stk" -> "staking" [] OTHER -> "binding")
                   THEN {"B:class"} ELSE {})
                  \cup (IF e.own # in.hash THEN {"B:hash"} ELSE {})
                  \cup (IF l.bk = "stk" /\ (~e.matFixed \/ e.mat # IncLE(in.frozen)) THEN {"B:frozen-period"} ELSE {})
                  \cup (IF l.bk = "bind" /\ e.sec.bytes # in.target THEN {"B:binding-target"} ELSE {}))
            \cup ReadFail(l)

Failures(l) == IF l.k = "build" THEN BuildFail(l) ELSE ReadFail(l)

(* Recorded findings: machine-checkable classifiers over (input, observed outcome).  A failure  *)
(* tag of a line is excused only by the finding returned here, and only while that finding is   *)
(* listed as known (PkScriptTrace.KnownIds).                                                     *)
(*  K-C16-1  P answers a script of class NONE with an error other than "unsupported"            *)
(*  K-C16-2  A (and D) crash on a binding template whose 22-byte target has no address          *)
(*  K-C16-3  A (and D) crash on a multisig-shaped script because the consensus library's own    *)
(*           ExtractPkScriptAddrs crashes on it (a key that does not parse)                     *)
Known(l, tag) ==
    LET e == Exp(l.s, l.c.lock)
        built == l.k # "build" \/ l.b.st = "ok"
    IN IF ~built THEN ""
       ELSE IF tag = "P:nontemplate-error-instead-of-unsupported" /\ e.part = "NONE" /\ l.p.st = "err" THEN "K-C16-1"
       ELSE IF tag \in {"A:panic", "D:panic"} /\ e.part = "PARTIAL" THEN "K-C16-2"
       ELSE IF tag \in {"A:panic", "D:panic"} /\ ConsensusClass(l.s) = "multisig" /\ l.o.x.st = "panic" THEN "K-C16-3"
       ELSE ""

-----------------------------------------------------------------------------
(* 6. the abstract token level (case enumeration)                          *)
(* A token is [k, n, m, f]:                                                *)
(*   op     the single opcode n                                            *)
(*   push   opcode n in 1..75 followed by n data bytes (m = n)             *)
(*   trunc  opcode n followed by only m < n bytes (complete only as far    *)
(*          as later tokens supply the missing bytes)                      *)
(*   pd1 / pd2 / pd4   PUSHDATA1/2/4 announcing n bytes, m bytes present   *)
(*   lit    literal malformed PUSHDATA heads, named by f                   *)
(* f names the rule the payload obeys (FillOK).                            *)

Op(n)         == [k |-> "op",    n |-> n,  m |-> 0, f |-> ""]
Push(n, f)    == [k |-> "push",  n |-> n,  m |-> n, f |-> f]
Trunc(n, m)   == [k |-> "trunc", n |-> n,  m |-> m, f |-> "r"]
PD(k, n, m, f) == [k |-> k,      n |-> n,  m |-> m, f |-> f]
Lit(f)        == [k |-> "lit",   n |-> 0,  m |-> 0, f |-> f]

LitBytes(f) == CASE f = "pd1nolen" -> <<76>>
                 [] f = "pd2nolen" -> <<77, 32>>
                 [] f = "pd4nolen" -> <<78, 32, 0, 0>>
                 [] f = "pd4huge"  -> <<78, 255, 255, 255, 255>>
                 [] f = "pd4neg"   -> <<78, 0, 0, 0, 128>>
                 [] f = "pd2big"   -> <<77, 255, 255>>

\* the bytes before the payload
TokHead(t) == CASE t.k = "op"   -> <<t.n>>
             [] t.k \in {"push", "trunc"} -> <<t.n>>
             [] t.k = "pd1"  -> <<76, t.n>>
             [] t.k = "pd2"  -> <<77, t.n % 256, t.n \div 256>>
             [] t.k = "pd4"  -> <<78, t.n % 256, t.n \div 256, 0, 0>>
             [] t.k = "lit"  -> LitBytes(t.f)
PayLen(t) == IF t.k \in {"op", "lit"} THEN 0 ELSE t.m

\* payload rules (what the harness promises when it fills a token; checked on every case)
FillOK(f, d, minF, maxF) ==
    CASE f = "z"   -> \A k \in 1..Len(d) : d[k] = 0
      [] f = "ff"  -> AllFF(d)
      [] f = "lz"  -> Len(d) = 0 \/ d[1] = 0
      [] f = "tv"  -> Len(d) = 22 /\ Encodable22(d)
      [] f = "tt"  -> Len(d) = 22 /\ d[21] \notin {0, 1}
      [] f = "ts"  -> Len(d) = 22 /\ d[21] \in {0, 1} /\ d[22] \notin 20..200
      [] f = "fv"  -> Len(d) = 8 /\ LELeq(minF, d) /\ LELeq(d, maxF)
      [] f = "fz"  -> d = Zero8
      [] f = "fff" -> Len(d) = 8 /\ AllFF(d)
      [] f = "flo" -> Len(d) = 8 /\ LELess(d, minF)
      [] f = "fhi" -> Len(d) = 8 /\ LELess(maxF, d)
      [] OTHER     -> TRUE          \* "r", "pk": any bytes

\* s is a concretisation of the token sequence ts
RECURSIVE Refines(_, _, _, _, _)
Refines(s, i, ts, minF, maxF) ==
    IF ts = <<>> THEN i = Len(s) + 1
    ELSE LET t == Head(ts)
             h == TokHead(t)
             n == PayLen(t)
         IN /\ i + Len(h) + n - 1 <= Len(s)
            /\ SubSeq(s, i, i + Len(h) - 1) = h
            /\ (t.k \in {"push", "pd1", "pd2", "pd4"} /\ t.m = t.n
                    => FillOK(t.f, SubSeq(s, i + Len(h), i + Len(h) + n - 1), minF, maxF))
            /\ Refines(s, i + Len(h) + n, Tail(ts), minF, maxF)

\* a canonical concretisation inside TLA+ (used by the generator's own consistency invariant)
CanonFill(f, n) ==
    CASE f = "ff"  -> Rep(n, 255)
      [] f = "tv"  -> Rep(20, 7) \o <<1, 32>>
      [] f = "tt"  -> Rep(20, 7) \o <<2, 32>>
      [] f = "ts"  -> Rep(20, 7) \o <<0, 5>>
      [] f = "fv"  -> <<0, 240, 0, 0, 0, 0, 0, 0>>
      [] f = "fff" -> Rep(8, 255)
      [] f = "flo" -> <<1, 0, 0, 0, 0, 0, 0, 0>>
      [] f = "fhi" -> <<255, 255, 255, 255, 0, 0, 0, 0>>
      [] f = "pk"  -> <<2>> \o Rep(n - 1, 9)
      [] f = "r"   -> [k \in 1..n |-> (37 * k + 11) % 256]
      [] OTHER     -> Rep(n, 0)
RECURSIVE Canon(_)
Canon(ts) == IF ts = <<>> THEN <<>>
             ELSE LET t == Head(ts) IN TokHead(t) \o CanonFill(t.f, PayLen(t)) \o Canon(Tail(ts))

\* A token is complete when it carries all the bytes it announces.  A sequence is REGULAR when
\* only its last token may be incomplete: then the tokeniser's result is known without looking at
\* payload bytes, and the templates can be applied to the tokens themselves.
Complete(t) == t.k \in {"op", "push"} \/ (t.k \in {"pd1", "pd2", "pd4"} /\ t.m = t.n)
Regular(ts) == \A k \in 1..(Len(ts) - 1) : Complete(ts[k])
AbsTok(t) == [op |-> (CASE t.k \in {"op", "push"} -> t.n [] t.k = "pd1" -> 76 [] t.k = "pd2" -> 77 [] OTHER -> 78),
              dlen |-> PayLen(t)]
\* the consensus class of every concretisation of a regular sequence
AbsClass(ts) ==
    IF ts # <<>> /\ ~Complete(ts[Len(ts)]) THEN "nonstandard"
    ELSE TemplateOf([k \in 1..Len(ts) |-> AbsTok(ts[k])])

=============================================================================
