---------------------------- MODULE KVStoreTrace ----------------------------
(***************************************************************************)
(* Trace specification for C11: TLC judges every line that the Go command  *)
(* harness/cmd/kvstore recorded from the real store (masswallet/db/ldb).   *)
(*                                                                         *)
(* A file holds many traces.  A trace starts with a "reset" line (a fresh, *)
(* empty store in a fresh directory) and continues with                    *)
(*   op   one API operation and the result the store gave (class/payload)  *)
(*   obs  the whole store read back through one read procedure             *)
(* The reference state st is advanced by KVStore!Eff alone - a step of the *)
(* specification is deterministic, so every recorded result is judged as   *)
(* an invariant: Match(Res(st, op), recorded).  Nothing recorded feeds the *)
(* reference state.                                                        *)
(*                                                                         *)
(* State <<i, t0, st>>: line i is judged against st, the reference state   *)
(* after lines t0 .. i-1 of its trace (t0 = its reset line).  One initial  *)
(* state per trace, so TLC's workers share the traces.  All N lines must   *)
(* be reached (the caller checks the number of distinct states).           *)
(*                                                                         *)
(* StrictMode = FALSE: every deviating line is reported (DEVIATION ...)    *)
(* with the id of the known finding whose pattern explains it (or ""),     *)
(* and TLC goes on, so that a recorded finding cannot mask another one.    *)
(* StrictMode = TRUE: Conforms is a real invariant.                        *)
(***************************************************************************)
EXTENDS KVStore, Json

CONSTANTS TraceFile,      \* path of the ndjson trace
          KnownEnabled,   \* ids of known findings whose pattern may explain a deviation
          StrictMode

Trace == ndJsonDeserialize(TraceFile)
N == Len(Trace)

VARIABLES i, t0, st
vars == <<i, t0, st>>

Apply(s, l) == IF l.t = "op" THEN Eff(s, l) ELSE IF l.t = "reset" THEN InitState ELSE s

Init == \E j \in {x \in 1..N : Trace[x].t = "reset"} : i = j /\ t0 = j /\ st = InitState
Next == /\ i < N
        /\ Trace[i + 1].t # "reset"
        /\ i' = i + 1
        /\ t0' = t0
        /\ st' = Apply(st, Trace[i])
Spec == Init /\ [][Next]_vars

--------------------------------------------------------------------------
(* Known finding K-C11-1 (pattern): a bucket removed by DeleteBucket in the  *)
(* open write transaction is still found by Bucket()/FetchBucket() of that   *)
(* transaction and behaves like an existing empty bucket; a write through it *)
(* leaves entries that no bucket owns (st.taint), after which nothing about  *)
(* that trace is held against the store any more.                            *)
AddrOf(op) == IF op.a \in {"create", "delb"} THEN Parent(op.p) ELSE op.p
EmptyLike(op, got) ==
    CASE op.a = "get"   -> got.c \in {"absent", "err"}
      [] op.a = "pget"  -> got.c = "ents" /\ got.x = <<>>
      [] op.a = "names" -> got.c = "names" /\ got.x = <<>>
      [] op.a \in WriteOps -> got.c \in {"ok", "err"}
      [] OTHER -> FALSE
K1Op(s, op, got) ==
    \/ s.taint
    \/ /\ op.via = "w" /\ Res(s, op).c = "nobucket"
       /\ UnderDead(s, AddrOf(op)) /\ EmptyLike(op, got)
K1Obs(s, l) ==
    \/ s.taint
    \/ /\ l.via = "w" /\ l.how # "list"
       /\ ObsMatch(s.view, l.how, l.via, l.pp, l.pk,
                   SelectSeq(l.got, LAMBDA g : ~(UnderDead(s, g.p) /\ g.e = <<>>)))

(* Known finding K-C11-2 (pattern): NewIterator rewrites the Range it is   *)
(* given; a Range object used for a second iterator yields wrong entries.  *)
K2Op(op) == op.a = "iter" /\ op.reuse

KnownOp(s, op, got) ==
    IF "K-C11-1" \in KnownEnabled /\ K1Op(s, op, got) THEN "K-C11-1"
    ELSE IF "K-C11-2" \in KnownEnabled /\ K2Op(op) THEN "K-C11-2" ELSE ""
KnownObs(s, l) == IF "K-C11-1" \in KnownEnabled /\ K1Obs(s, l) THEN "K-C11-1" ELSE ""

Dev(kind, want, got, known) ==
    [line |-> i, id |-> Trace[t0].id, kind |-> kind, want |-> want, got |-> got, known |-> known]

Judged ==
    LET l == Trace[i] IN
    CASE l.t = "reset" -> {}
      [] l.t = "op" ->
            IF ~Usable(st, l) THEN {Dev("harness-misuse", l.a, <<>>, "")}
            ELSE IF Match(Res(st, l), l.res) THEN {}
            ELSE {Dev("op " \o l.a \o " via " \o l.via, Res(st, l), l.res, KnownOp(st, l, l.res))}
      [] l.t = "obs" ->
            IF l.via = "w" /\ ~st.open THEN {Dev("harness-misuse", "obs", <<>>, "")}
            ELSE IF ObsMatch(IF l.via = "w" THEN st.view ELSE st.com, l.how, l.via, l.pp, l.pk, l.got) THEN {}
            ELSE {Dev("obs " \o l.how \o " via " \o l.via,
                      Snap(IF l.via = "w" THEN st.view ELSE st.com), l.got, KnownObs(st, l))}
      [] OTHER -> {Dev("harness-unknown-line", <<>>, <<>>, "")}

Conforms ==
    LET devs == Judged
    IN  /\ \A dv \in devs : PrintT(<<"DEVIATION", ToJson(dv)>>)
        /\ StrictMode => \A dv \in devs : dv.known # ""
=============================================================================
