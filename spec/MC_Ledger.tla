------------------------------ MODULE MC_Ledger ------------------------------
(* Exhaustive model checking of Wallet.tla over the "pay" universe: every    *)
(* interleaving of chain growth, side blocks, reorganisations, announcements *)
(* and handler steps within the bounds.                                      *)
EXTENDS Wallet
S(o, a, c, v, l) == [owner |-> o, addr |-> a, class |-> c, amt |-> v, lock |-> l]
MC_TxIds   == {"p1", "p1x", "p2"}
MC_TxIns   == [t \in MC_TxIds |->
                 CASE t = "p1"  -> {<<"c1", 1>>}
                   [] t = "p1x" -> {<<"c1", 1>>}
                   [] t = "p2"  -> {<<"p1", 1>>}]
MC_TxOuts  == [t \in MC_TxIds |->
                 CASE t = "p1"  -> <<S("w2", 0, "std", 20, 0), S("w1", 1, "std", 29, 0)>>
                   [] t = "p1x" -> <<S("S", 0, "std", 49, 0)>>
                   [] t = "p2"  -> <<S("S", 0, "std", 5, 0), S("w2", 1, "std", 14, 0)>>]
MC_TxOrder == <<"p1", "p1x", "p2">>
MC_CbId    == <<"c1", "c2", "c3", "c4", "c5", "c6", "c7", "c8">>
MC_CbOut   == <<S("w1", 0, "cb", 50, 0), S("w2", 0, "cb", 60, 0), S("w1", 1, "cb", 70, 0),
                S("S", 0, "cb", 1, 0),   S("w2", 1, "cb", 80, 0), S("S", 0, "cb", 1, 0),
                S("S", 0, "cb", 1, 0),   S("S", 0, "cb", 1, 0)>>
=============================================================================
