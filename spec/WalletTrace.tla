---------------------------- MODULE WalletTrace ----------------------------
(***************************************************************************)
(* Code -> spec for the follower family: a trace recorded from the         *)
(* FREE-RUNNING wallet (real follower and worker goroutines, no step gate; *)
(* the harness thread changes the node's chain, announces transactions and *)
(* calls the API while they run) is checked to be a behaviour of           *)
(* Wallet.tla, and at every database commit the recorded projection of the *)
(* wallet database must be the state the specification computes.           *)
(*                                                                         *)
(* Events (one JSON object per line, written under ONE mutex, which the    *)
(* commit hook of the database wrapper holds across the inner commit - so  *)
(* the order of the lines is the order of the commits):                    *)
(*   chain actions of the harness thread, logged when done:                *)
(*      Extend ForkSlow ReorgBegin ReorgStep Announce Reannounce           *)
(*      (every reorganisation one disconnect / connect at a time)          *)
(*   scheduling points of the follower goroutine (build-tagged):           *)
(*      h.top  h.block  h.tx  h.suspended  h.resumed                       *)
(*   scheduling points of the worker goroutine:                            *)
(*      w.top  w.suspend  w.resume  w.resumed  w.round                     *)
(*   commit (role H | W | A, for A the API call in flight) with the        *)
(*      projection read through the committing transaction: synced chain,  *)
(*      status records, rescan cursors, mined balances, pending set        *)
(*   rollback (role) - the update of that goroutine was abandoned          *)
(*   q.begin / q.end (api, wallet, answer) - a call of the query thread    *)
(*   fault (role, call) - the harness makes this storage call fail         *)
(*   Crash / restarted - the database of the instance is frozen at this    *)
(*      instant; a fresh instance on the crash image has started (its      *)
(*      catch-up commits in between are commits of the call "Restart")     *)
(*                                                                         *)
(* A block step reads the node's chain database between its h.block and    *)
(* its commit, while the harness thread may change it: the step itself is  *)
(* a silent action that TLC places anywhere in that interval (likewise the *)
(* unconfirmed-transaction step and the worker's updates).  What the trace *)
(* does not show - which queued task the worker took - is left to TLC.     *)
(* The trace is accepted iff all of it can be consumed.                    *)
(***************************************************************************)
EXTENDS Gen

CONSTANT TracePend      \* TRUE: the recorded pending set is compared at every commit

VARIABLES l,      \* next trace line
          hst,    \* follower: "top" | "blk0" | "blk1" | "blk2" | "blkF" | "tx0" | "tx1" | "tx2" | "txF" | "susp" | "res" | "down"
          wst,    \* worker:   "top" | "s0" | "s1" | "s2" | "sF" | "r" | "rd" | "round" | "down"
          pre     \* bookkeeping of the trace: durable state before the silent step in flight (h, w), the decision of the
                  \* unconfirmed-transaction step in flight (t, acc), the chain as of the last commit (c), the open
                  \* query (qo, q), the chain when the process died (rb)
tvars == <<vars, l, hst, wst, pre>>

Trace == ndJsonDeserialize("trace.ndjson")
N == Len(Trace)
Ev == Trace[l]
Consume == l <= N /\ l' = l + 1

Durable == <<wchain, pend, status, cursor>>

TraceInit ==
    /\ GenInit
    /\ l = 1 /\ hst = "top" /\ wst = "top"
    /\ pre = [h |-> <<>>, w |-> <<>>, t |-> "", acc |-> FALSE,
              c |-> wchain,     \* the synced chain as of the last commit (what a read transaction opened now sees)
              qo |-> FALSE,     \* a query of the query thread is in flight
              q |-> {},         \* the committed chains it may have read: the one at its start and every one committed since
              rb |-> <<>>]      \* the synced chain when the process died (what a restart's catch-up starts from)

(* ---------------------------------------------------- the recorded projection *)
\* the recorded projection equals the (primed = current, after the step) state
RecStatus(e) == {<<r.w, r.s>> : r \in Range(e.status)}
RecCursor(e) == {<<r.w, r.c>> : r \in {x \in Range(e.status) : x.s = "importing"}}
RecBal(e)    == {<<r.w, r.v>> : r \in Range(e.bal)}
\* what an importing wallet has on record: the history of the heights its rescan has covered
\* stated over explicit state values so that it can be asked of the state AFTER an action (primed arguments)
DigestIn(e, wc, st, cu, pe) ==
    /\ e.chain = wc
    /\ RecStatus(e) = {<<w, st[w]>> : w \in {x \in Wallets : st[x] # "absent"}}
    /\ RecCursor(e) = {<<w, cu[w]>> : w \in {x \in Wallets : st[x] = "importing"}}
    /\ \A w \in {x \in Wallets : st[x] = "ready"} : <<w, Balance(CC(wc), w)>> \in RecBal(e)
    /\ \A w \in {x \in Wallets : st[x] = "importing"} :
          <<w, Balance(CC(SubSeq(wc, 1, Min(cu[w], Len(wc)))), w)>> \in RecBal(e)
    /\ TracePend => Range(e.pend) = pe
DigestOK(e) == DigestIn(e, wchain, status, cursor, pend)

\* a commit makes a new boundary state visible to read transactions
NoteCommit(wc) == pre' = [pre EXCEPT !.c = wc, !.q = IF pre.qo THEN pre.q \cup {wc} ELSE pre.q]

(* ------------------------------------------------ chain actions (harness thread) *)
KeepT == UNCHANGED <<hst, wst, pre>>
EvExtend   == Consume /\ Ev.ev = "Extend" /\ NBlk + 1 = Ev.b /\ Tip = Ev.p
              /\ Extend(IF Ev.txs = <<>> THEN <<>> ELSE Ev.txs[1]) /\ UNCHANGED followerVars /\ KeepT
EvFork     == Consume /\ Ev.ev = "Fork" /\ NBlk + 1 = Ev.b
              /\ Fork(Ev.p, Ev.txs) /\ UNCHANGED followerVars /\ KeepT
EvForkSlow == Consume /\ Ev.ev = "ForkSlow" /\ NBlk + 1 = Ev.b
              /\ ForkSlow(Ev.p, Ev.txs) /\ UNCHANGED followerVars /\ KeepT
EvReorgStep == Consume /\ Ev.ev = "ReorgStep" /\ ReorgDetaches = Ev.det
              /\ ReorgStep /\ (reorg' = 0) = Ev.done /\ UNCHANGED followerVars /\ KeepT
EvSwitchTo == Consume /\ Ev.ev = "SwitchTo" /\ SwitchTo(Ev.b) /\ UNCHANGED followerVars /\ KeepT
\* the harness performs every reorganisation at the grain of the chain database (ForkSlow / ReorgBegin, then one
\* ReorgStep line per disconnect / connect): a step of the follower that reads the chain database in the middle of
\* it - an unconfirmed transaction whose parent is on neither side for a moment - is then a step on a state of Chain.tla
EvReorgBegin == Consume /\ Ev.ev = "ReorgBegin" /\ ReorgBegin(Ev.b) /\ UNCHANGED followerVars /\ KeepT
EvAnnounce == Consume /\ Ev.ev = "Announce" /\ Announce(Ev.t) /\ UNCHANGED followerVars /\ KeepT

\* the node relays a transaction it had announced before (evicted from its pool and received again, re-broadcast
\* by its sender): the same notification once more, nothing else changes
EvReannounce == Consume /\ Ev.ev = "Reannounce" /\ Ev.t \in TxIds /\ up
                /\ ntfT' = Append(ntfT, Ev.t)
                /\ UNCHANGED <<reorg, parent, content, best, pool, ntfB, followerVars>> /\ KeepT

(* --------------------------------------------------------------- the follower *)
\* ... and the follower takes nothing off its queues while the worker is inside the window (update done, resume not yet sent)
EvHBlock == Consume /\ Ev.ev = "h.block" /\ hst = "top" /\ ntfB # <<>> /\ wst \notin {"s1", "s2", "sF"}
            /\ hst' = "blk0" /\ UNCHANGED <<vars, wst, pre>>
StepBlock == hst = "blk0" /\ HandleBlock /\ hst' = "blk1"
             /\ pre' = [pre EXCEPT !.h = Durable] /\ UNCHANGED <<l, wst>>
EvHTx    == Consume /\ Ev.ev = "h.tx" /\ hst = "top" /\ ntfT # <<>> /\ wst \notin {"s1", "s2", "sF"}
            /\ hst' = "tx0" /\ UNCHANGED <<vars, wst, pre>>
\* proccessReceivedTx decides in read transactions (ready wallets, inputs, known ids) and writes in a later
\* update: the decision is a silent step between h.tx and the commit, the pending record appears with the commit
StepTx   == /\ hst = "tx0" /\ up /\ ntfT # <<>>
            /\ pre' = [pre EXCEPT !.h = Durable, !.t = Head(ntfT), !.acc = TxAccepted(Head(ntfT))]
            /\ ntfT' = Tail(ntfT)
            /\ hst' = "tx1"
            /\ UNCHANGED <<reorg, parent, content, best, pool, ntfB, followerVars, l, wst>>
EvCommitH == /\ Consume /\ Ev.ev = "commit" /\ Ev.role = "H"
             /\ \/ /\ hst = "blk1" /\ hst' = "blk2"
                   /\ DigestOK(Ev)
                   /\ UNCHANGED vars
                   /\ NoteCommit(wchain)
                \/ /\ hst = "tx1" /\ hst' = "tx2"
                   /\ pre.acc                      \* an unconfirmed-transaction step commits only what it accepted
                   /\ pend' = pend \cup {pre.t} /\ memp' = memp \cup {pre.t}
                   /\ DigestIn(Ev, wchain, status, cursor, pend')
                   /\ UNCHANGED <<chainVars, wchain, wmem, wexp, up, status, cursor, tasks, faulted>>
                   /\ NoteCommit(wchain)
             /\ UNCHANGED wst
\* the update was abandoned (the tip was revoked meanwhile, ...): nothing durable may have changed
EvRollbackH == /\ Consume /\ Ev.ev = "rollback" /\ Ev.role = "H"
               /\ \/ hst = "blk1" /\ Durable = pre.h /\ hst' = "blk2"
                  \* the store refuses a transaction inside its update (a credit that is already unspent or already pending)
                  \/ hst = "tx1" /\ ~pre.acc /\ hst' = "tx2"
                  \* the abandoned update of a step that met an injected storage fault
                  \/ hst \in {"blkF", "txF"} /\ hst' = hst
               /\ UNCHANGED <<vars, wst, pre>>
\* An injected storage fault (harness: one call of the wallet database returns an error, logged as a "fault" line of
\* that goroutine before the call returns).  A block step that fails consumes its notification and changes nothing
\* durable (HandleBlockFault: the wallet catches up with the next tip); an unconfirmed-transaction step drops the
\* transaction; the step itself must not have been taken - a branch in which TLC took it early dies here.
EvFaultH == /\ Consume /\ Ev.ev = "fault" /\ Ev.role = "H"
            /\ \/ hst = "blk0" /\ HandleBlockFault /\ hst' = "blkF"
               \/ hst = "tx0" /\ HandleTxFault /\ hst' = "txF"
               \/ hst = "tx1" /\ hst' = "txF" /\ UNCHANGED vars        \* decided, the write failed: not recorded
               \* the code tolerates the failed call (a double check it only logs): then the step must have its whole
               \* fault-free effect - the commit line that follows is held to the same state as without a fault
               \/ hst \in {"blk0", "blk1", "tx0", "tx1"} /\ UNCHANGED <<vars, hst>>
            /\ UNCHANGED <<wst, pre>>
EvHSuspended == Consume /\ Ev.ev = "h.suspended" /\ hst = "top" /\ hst' = "susp" /\ UNCHANGED <<vars, wst, pre>>
EvHResumed   == Consume /\ Ev.ev = "h.resumed" /\ hst = "susp" /\ hst' = "res" /\ UNCHANGED <<vars, wst, pre>>
EvHTop == /\ Consume /\ Ev.ev = "h.top"
          /\ \/ hst \in {"blk2", "tx2", "res", "blkF", "txF"}
             \/ hst = "tx1" /\ ~pre.acc               \* a transaction that was ignored or found irrelevant opens no update
          /\ hst' = "top" /\ UNCHANGED <<vars, wst, pre>>

(* ----------------------------------------------------------------- the worker *)
\* the task the worker took is not in the trace: any queued one (the API's push and the worker's
\* re-queue race for the order of the real channel)
MoveToFront(q, i) == <<q[i]>> \o SubSeq(q, 1, i - 1) \o SubSeq(q, i + 1, Len(q))
EvWSuspend == /\ Consume /\ Ev.ev = "w.suspend" /\ wst \in {"top", "round"}
              /\ IF wst = "top"
                 THEN /\ tasks # <<>> /\ ~Held
                      /\ \E i \in 1..Len(tasks) : tasks' = MoveToFront(tasks, i)
                 ELSE Held /\ UNCHANGED tasks
              /\ wst' = "s0"
              /\ UNCHANGED <<chainVars, wchain, pend, wmem, memp, wexp, up, status, cursor, faulted, hst, pre>>
\* a round of the second phase that does not finish the removal (more than 20 000 records): no model-level change
RoundMore == tasks # <<>> /\ Head(tasks)[1] = "remove2" /\ UNCHANGED vars
StepWorker == /\ wst = "s0"
              \* the rendezvous on sigSuspend happens at the follower's select: after h.top, before it takes anything
              /\ hst \in {"top", "susp"}
              /\ ImportStep \/ RemoveStepA \/ RemoveStepB \/ RoundMore
              /\ wst' = "s1" /\ pre' = [pre EXCEPT !.w = Durable] /\ UNCHANGED <<l, hst>>
EvCommitW == /\ Consume /\ Ev.ev = "commit" /\ Ev.role = "W" /\ wst = "s1" /\ hst \in {"top", "susp"}
             /\ DigestOK(Ev)
             /\ NoteCommit(wchain)
             /\ wst' = "s2" /\ UNCHANGED <<vars, hst>>
EvRollbackW == /\ Consume /\ Ev.ev = "rollback" /\ Ev.role = "W" /\ wst = "s1" /\ hst \in {"top", "susp"} /\ Durable = pre.w
               /\ wst' = "s2" /\ UNCHANGED <<vars, hst, pre>>
\* a failed update of the worker: the task goes back to the end of the queue (a removal starts over with its first
\* phase), and the worker must still resume the follower
WorkerFaultT ==
    /\ tasks # <<>>
    /\ tasks' = Append(Tail(tasks), <<IF Head(tasks)[1] = "remove2" THEN "remove" ELSE Head(tasks)[1], Head(tasks)[2]>>)
    /\ UNCHANGED <<chainVars, wchain, pend, wmem, memp, wexp, up, status, cursor, faulted>>
EvFaultW == /\ Consume /\ Ev.ev = "fault" /\ Ev.role = "W" /\ hst \in {"top", "susp"}
            /\ \/ wst = "s0" /\ WorkerFaultT /\ wst' = "sF"
               \/ wst \in {"s0", "s1"} /\ UNCHANGED <<vars, wst>>        \* tolerated, see EvFaultH
            /\ UNCHANGED <<hst, pre>>
EvRollbackWF == Consume /\ Ev.ev = "rollback" /\ Ev.role = "W" /\ wst = "sF" /\ UNCHANGED <<vars, hst, wst, pre>>
EvWResume  == Consume /\ Ev.ev = "w.resume"  /\ wst \in {"s2", "sF"} /\ wst' = "r"  /\ UNCHANGED <<vars, hst, pre>>
EvWResumed == Consume /\ Ev.ev = "w.resumed" /\ wst = "r"  /\ wst' = "rd" /\ UNCHANGED <<vars, hst, pre>>
EvWRound   == Consume /\ Ev.ev = "w.round" /\ wst = "rd" /\ Held /\ wst' = "round" /\ UNCHANGED <<vars, hst, pre>>
EvWTop     == Consume /\ Ev.ev = "w.top" /\ wst = "rd" /\ ~Held /\ wst' = "top" /\ UNCHANGED <<vars, hst, pre>>

(* ------------------------------------------------------------------ API calls *)
\* the queue bound is the real channel's business (Stop.tla); here the call is taken as recorded
ImportT(w) ==
    /\ status[w] = "absent"
    /\ status' = [status EXCEPT ![w] = "importing"]
    /\ cursor' = [cursor EXCEPT ![w] = 0]
    /\ tasks' = Append(tasks, <<"import", w>>)
    /\ UNCHANGED <<chainVars, wchain, pend, wmem, memp, wexp, up, faulted>>
RemoveT(w) ==
    /\ status[w] = "ready"
    /\ status' = [status EXCEPT ![w] = "removing"]
    /\ tasks' = Append(tasks, <<"remove", w>>)
    /\ UNCHANGED <<chainVars, wchain, pend, wmem, memp, wexp, up, cursor, faulted>>
(* ------------------------------------------------------------ crash and restart *)
\* "Crash": the harness froze the wallet database at whatever moment that was - also in the middle of a step, whose
\* commit then fails - and logged this line under the mutex of the commit hook, so no commit line of the dead instance
\* follows.  A branch in which TLC had already taken the silent step of an update that never committed carries a
\* state the database does not have; it dies at the next commit line.
EvCrash == /\ Consume /\ Ev.ev = "Crash"
           /\ IF up THEN Crash ELSE UNCHANGED vars     \* a restart that dies during its catch-up: nothing volatile is left
           /\ hst' = "down" /\ wst' = "down"
           /\ pre' = [pre EXCEPT !.rb = wchain, !.qo = FALSE, !.q = {}]
\* Start's catch-up: one processConnectedBlock per height, each its own commit (RestartCrash(k) = the first k of them)
EvRestartCommit ==
    /\ Consume /\ Ev.ev = "commit" /\ Ev.role = "A" /\ Ev.op = "Restart" /\ ~up /\ hst = "down"
    /\ CatchUpSteps(wchain) > 0
    /\ LET r == CatchUp(wchain, pend, 1) IN
         /\ wchain' = r[1] /\ pend' = r[2]
         /\ cursor' = CursorAfter(wchain, r[1])
         /\ DigestIn(Ev, r[1], status, cursor', r[2])
         /\ NoteCommit(r[1])
    /\ UNCHANGED <<chainVars, wmem, memp, wexp, up, status, tasks, faulted, hst, wst>>
\* Start has returned: the catch-up is complete, the goroutines run, unfinished tasks are queued again
EvRestarted ==
    /\ Consume /\ Ev.ev = "restarted" /\ ~up /\ hst = "down" /\ CatchUpSteps(wchain) = 0
    /\ up' = TRUE
    /\ wmem' = (IF wchain = <<>> THEN 0 ELSE Last(wchain))
    /\ wexp' = NewBlocks(pre.rb, wchain)
    /\ tasks' \in Perms(TaskSet)
    /\ hst' = "top" /\ wst' = "top"
    /\ UNCHANGED <<reorg, parent, content, best, pool, ntfB, ntfT, memp, wchain, pend, status, cursor, faulted, pre>>

EvApi == /\ Consume /\ Ev.ev = "commit" /\ Ev.role = "A" /\ Ev.op \in {"Import", "Remove"}
         /\ \/ Ev.op = "Import" /\ Ev.nth = 1 /\ ImportT(Ev.w)
            \/ Ev.op = "Remove" /\ Ev.nth = 1 /\ RemoveT(Ev.w)
            \/ Ev.nth > 1 /\ UNCHANGED vars           \* further commits of the same call change nothing the model sees
         /\ DigestIn(Ev, wchain', status', cursor', pend')
         /\ NoteCommit(wchain')
         /\ UNCHANGED <<hst, wst>>

(* ------------------------------------------------------------------- queries *)
\* A query thread calls WalletBalance / GetUtxo for one ready wallet while everything else runs (C17).  Its answer
\* must be that of ONE committed boundary state between its start and its end: the chain committed last when it
\* started, or one committed while it ran.
QBal(wc, w)  == [total |-> Balance(CC(wc), w), spendable |-> Sum(SpendableSet(CC(wc), w), Amt),
                 wstaking |-> Sum(WdStakingSet(CC(wc), w), Amt), wbinding |-> Sum(WdBindingSet(CC(wc), w), Amt)]
QUtxo(wc, w) == {<<op[1], op[2] - 1>> : op \in Utxo(CC(wc), w)}
EvQBegin == /\ Consume /\ Ev.ev = "q.begin" /\ ~pre.qo
            /\ pre' = [pre EXCEPT !.qo = TRUE, !.q = {pre.c}]
            /\ UNCHANGED <<vars, hst, wst>>
EvQEnd == /\ Consume /\ Ev.ev = "q.end" /\ pre.qo
          /\ \E wc \in pre.q :
                IF Ev.api = "balance"
                THEN QBal(wc, Ev.w) = [total |-> Ev.total, spendable |-> Ev.spendable, wstaking |-> Ev.wstaking, wbinding |-> Ev.wbinding]
                ELSE QUtxo(wc, Ev.w) = {<<u[1], u[2]>> : u \in Range(Ev.utxos)}
          /\ pre' = [pre EXCEPT !.qo = FALSE, !.q = {}]
          /\ UNCHANGED <<vars, hst, wst>>

TraceNext == \/ EvQBegin \/ EvQEnd \/ EvReannounce \/ EvReorgBegin
             \/ EvExtend \/ EvFork \/ EvForkSlow \/ EvReorgStep \/ EvSwitchTo \/ EvAnnounce
             \/ EvHBlock \/ StepBlock \/ EvHTx \/ StepTx \/ EvCommitH \/ EvRollbackH
             \/ EvHSuspended \/ EvHResumed \/ EvHTop \/ EvFaultH \/ EvFaultW \/ EvRollbackWF
             \/ EvWSuspend \/ StepWorker \/ EvCommitW \/ EvRollbackW \/ EvWResume \/ EvWResumed \/ EvWRound \/ EvWTop
             \/ EvApi \/ EvCrash \/ EvRestartCommit \/ EvRestarted
TraceNext2 == TraceNext /\ UNCHANGED <<hist, flags>>
TraceSpec == TraceInit /\ [][TraceNext2]_<<tvars, hist, flags>>

\* "violated" exactly when the whole trace has been consumed: acceptance
NotAccepted == l <= N
ASSUME TLCSet(1, 0)
Progress == TLCSet(1, IF TLCGet(1) < l THEN l ELSE TLCGet(1))
PrintProgress == PrintT(<<"MAXL", TLCGet(1), N>>)
=============================================================================
