-------------------------------- MODULE Api --------------------------------
(***************************************************************************)
(* C19 - No client request or chain event can crash or silently stall the  *)
(* wallet.                                                                 *)
(*                                                                         *)
(* THE PROPERTY.  For every wallet state S the histories of C01-C09 reach, *)
(* every API method m and every request r a client can send:               *)
(*   (A) Call(S, m, r) is ANSWERED: the handler returns a response or an   *)
(*       error within the patience of the caller.  It does not panic, the  *)
(*       process does not end, no goroutine is left holding the request.   *)
(*   (B) the answer is in the CLASS the contract fixes for (S, m, r)       *)
(*       - where it fixes one (below);                                     *)
(*   (C) afterwards the follower and the background worker are alive: a    *)
(*       block delivered next is applied, queued tasks finish.             *)
(* For every block and unconfirmed transaction e a node can deliver        *)
(* (whatever its output scripts):                                          *)
(*   (D) the follower processes e and is not stalled by it: after a block  *)
(*       event the wallet is synced to the node's tip, and it follows the  *)
(*       next block as well.                                               *)
(*                                                                         *)
(* ABSTRACTION.  A wallet state is seen through                            *)
(*   sel    the selected wallet: "none", "w1", "w2", "w3" or "other"       *)
(*   st     w1, w2, w3 -> "absent" | "ready" | "importing" | "removing"    *)
(*   tasks  number of queued background tasks (refusal threshold 3)        *)
(*   coins  what the history did with the coin "s1change" of w1 and with   *)
(*          the transaction pp that spends it: "confirmed" (pp unknown),   *)
(*          "pending" (pp announced), "spent" (pp mined); "odd" = as       *)
(*          "confirmed", and the wallet's own history contains             *)
(*          transactions with non-template output scripts                  *)
(*   extra  number of wallets other than w1..w3                            *)
(* A request is (method, shape): a baseline request that is valid when w1  *)
(* is the selected, ready wallet, with ONE dimension changed               *)
(* ("dimension=value").  The concrete values are chosen by the harness     *)
(* (harness/apilib/shapes.go); their classification below is the contract. *)
(* Every request passes through the protobuf wire format before it reaches *)
(* a handler, as every request of a client does; what that format cannot   *)
(* carry (a nil element of a repeated field, a string that is not UTF-8)   *)
(* is outside the quantifier ("unsendable").                               *)
(*                                                                         *)
(* RESPONSE CLASSES.  "ok" (a response), "e<code>" (an error with the API  *)
(* error code).  Rule(m, sh) names the contract for a case, Allowed(pre,   *)
(* rule) is the set of admissible classes in wallet state pre:             *)
(*   MUST-ACCEPT  {"ok"}           valid request, prerequisites met        *)
(*   MUST-REJECT  {"err"}          any error class; {"e1303"} no wallet in *)
(*                                 use; {"e1306"} wallet unready           *)
(*   DON'T-CARE   {"ok", "err"}    the statement is silent (e.g. spending  *)
(*                                 a pending or already spent coin, numeral*)
(*                                 edge cases of C15, addresses whose      *)
(*                                 decoding is C16's subject)              *)
(* In every class (A), (C) and (D) hold: DON'T-CARE never licenses a       *)
(* panic, a dead process, an unanswered request or a stalled follower.     *)
(* Specific error codes are demanded only where the API's own error table  *)
(* (api/errors.go, convertResponseError) dedicates one to the situation:   *)
(* 1303 no wallet in use, 1306 wallet unready.                             *)
(***************************************************************************)
EXTENDS Integers, Sequences, FiniteSets, TLC

Wal == {"w1", "w2", "w3"}
Status == {"absent", "ready", "importing", "removing"}
CoinsCl == {"confirmed", "pending", "spent", "odd"}
Busy == 3          \* masswallet.MaxWaitingTaskNum: IsBusy refuses a new task from 3 queued ones on

AbsState == [sel : Wal \cup {"none", "other"}, st : [Wal -> Status], tasks : 0..8, coins : CoinsCl, extra : 0..64]

\* the initial state classes reached by scripted C01-C09 histories (harness/apilib/world.go Reach)
\* "afterevents": as "ready", after the wallet has received and sent one confirmed transaction with every
\* output-script shape of ScriptSeq (36 transactions; the node side refuses a few of them)
InitStates == {"none", "ready", "pending", "spent", "importing", "removing", "removingsel", "removed", "afterevents"}
StateOf(c) ==
    LET base == [sel |-> "w1", st |-> [w \in Wal |-> IF w = "w3" THEN "absent" ELSE "ready"], tasks |-> 0,
                 coins |-> "confirmed", extra |-> 0]
    IN CASE c = "ready"       -> base
         [] c = "afterevents" -> [base EXCEPT !.coins = "odd"]
         [] c = "none"        -> [base EXCEPT !.sel = "none"]
         [] c = "pending"     -> [base EXCEPT !.coins = "pending"]
         [] c = "spent"       -> [base EXCEPT !.coins = "spent"]
         [] c = "importing"   -> [base EXCEPT !.st["w3"] = "importing", !.tasks = 1]
         [] c = "removing"    -> [base EXCEPT !.st["w2"] = "removing", !.tasks = 1]
         [] c = "removingsel" -> [base EXCEPT !.st["w1"] = "removing", !.tasks = 1]
         [] c = "removed"     -> [base EXCEPT !.st["w1"] = "absent", !.sel = "none"]

-----------------------------------------------------------------------------
(* Value classes of the shapes                                             *)

AddrShapes == {"own", "own1", "ownstk", "w2", "w2stk", "stranger", "strangerstk", "p2pkh", "target22",
               "target22chia", "target22badtype", "pubkeyhex", "btc", "testnet58", "empty", "long", "long10k",
               "garbage", "badsum", "upper", "spaces", "bech0", "bech1", "bech2", "bechver", "bechext",
               "bechlen20", "nul", "unicode"}
\* std / stk: a well-formed standard / staking address (of w1, of w2, of nobody the wallet knows);
\* target: a well-formed binding target; bad: not an address of this network at all;
\* dontcare: the statement does not settle whether it is one (upper case bech32, surrounding blanks,
\* a binding target of an unassigned type, a hex public key)
AddrClass(a) ==
    CASE a \in {"own", "own1"} -> "std-w1"  [] a = "ownstk" -> "stk-w1"
      [] a = "w2" -> "std-w2"               [] a = "w2stk" -> "stk-w2"
      [] a = "stranger" -> "std-x"          [] a = "strangerstk" -> "stk-x"
      [] a \in {"p2pkh", "target22", "target22chia"} -> "target"
      [] a \in {"upper", "spaces", "target22badtype", "pubkeyhex"} -> "dontcare"
      [] OTHER -> "bad"

OutShapes == {"confirmed", "confirmed2", "staking", "binding", "spent", "s1change", "ppout", "ppbind", "ppoor", "foreign",
              "stranger", "unknown", "voutoor", "voutmax", "nonhex", "short", "long", "empty", "spaces", "upper"}
OutWellFormed == OutShapes \ {"nonhex", "short", "long", "empty", "spaces", "upper"}

AmtShapes == {"one", "frac", "zero", "neg", "huge", "overflow", "nonnum", "empty", "exceeds", "dust", "precise",
              "exp", "long10k"}

WidShapes == {"w1", "w2", "w3", "unknown", "short", "long", "empty", "garbage", "long10k"}
PassBad == {"wrong", "short", "long", "empty", "nonutf8"}

-----------------------------------------------------------------------------
(* Rules: the contract of a case as a function of the wallet state.         *)

OkR == {"ok"}    ErrR == {"err"}    AnyR == {"ok", "err"}
NoWallet == {"e1303"}    Unready == {"e1306"}

\* a valid request about the coins / addresses of wallet w
OwnRule(pre, w) ==
    IF pre.sel = "none" THEN NoWallet
    ELSE IF pre.sel = w THEN (IF pre.st[w] = "ready" THEN OkR ELSE AnyR)
    ELSE ErrR

Allowed(pre, rule) ==
    CASE rule = "ok"  -> OkR
      [] rule = "err" -> ErrR
      [] rule = "any" -> AnyR
      \* valid query on whichever wallet is selected
      [] rule = "sel" -> IF pre.sel = "none" THEN NoWallet ELSE OkR
      \* the same for a handler with an error code of its own
      [] rule = "selerr" -> IF pre.sel = "none" THEN ErrR ELSE OkR
      \* valid when a wallet is selected, unsettled otherwise
      [] rule = "selok" -> IF pre.sel = "none" THEN AnyR ELSE OkR
      \* valid request naming coins or addresses of w1 / w2
      [] rule = "w1" -> OwnRule(pre, "w1")
      [] rule = "w2" -> OwnRule(pre, "w2")
      \* the fee estimate of a manual transaction reads the size of the named outputs; it must know them when w1
      \* is selected, and whether it knows them under another wallet is not settled
      [] rule = "w1fee" -> IF pre.sel \in {"none", "w1"} THEN OwnRule(pre, "w1") ELSE AnyR
      [] rule = "s1fee" -> IF pre.coins \in {"confirmed", "odd"} /\ pre.sel \in {"none", "w1"} THEN OwnRule(pre, "w1") ELSE AnyR
      \* as "w1", while the transaction pp is unknown (the coin it spends is free); unsettled after that
      [] rule = "s1" -> IF pre.coins \in {"confirmed", "odd"} THEN OwnRule(pre, "w1") ELSE AnyR
      \* an output of pp: an unknown transaction before pp is announced; unsettled after that
      [] rule = "pp" -> IF pre.coins \in {"confirmed", "odd"} THEN ErrR ELSE AnyR
      \* a coin of w2: foreign unless w2 is selected
      [] rule = "foreign" -> IF pre.sel = "w2" THEN AnyR ELSE ErrR
      \* spends from the selected wallet by automatic selection: w1 and w2 hold enough free coins in every
      \* scripted history (the harness releases the reservation of every draft it is handed)
      [] rule = "spend" -> IF pre.sel = "none" THEN NoWallet
                           ELSE IF pre.sel \in {"w1", "w2"} /\ pre.st[pre.sel] = "ready" THEN OkR ELSE AnyR
      \* a new address: refused only by the unused-address limits (1307 / 1308), which the abstract state does not count
      \* (without a wallet the handler answers with a code of its own)
      [] rule = "newaddr" -> IF pre.sel = "none" THEN ErrR ELSE {"ok", "e1307", "e1308"}
      \* wallet life cycle
      [] rule \in {"use:w1", "use:w2", "use:w3"} ->
            LET w == SubSeq(rule, 5, 6) IN
            CASE pre.st[w] = "ready" -> OkR
              [] pre.st[w] \in {"importing", "removing"} -> Unready
              [] OTHER -> ErrR
      [] rule \in {"secret:w1", "secret:w2", "secret:w3"} ->
            LET w == SubSeq(rule, 8, 9) IN
            CASE pre.st[w] = "ready" -> OkR
              [] pre.st[w] = "absent" -> ErrR
              [] OTHER -> AnyR
      [] rule \in {"remove:w1", "remove:w2", "remove:w3"} ->
            LET w == SubSeq(rule, 8, 9) IN
            CASE pre.st[w] = "absent" -> ErrR
              [] pre.st[w] = "importing" -> Unready
              [] pre.st[w] = "removing" -> AnyR
              [] OTHER -> IF pre.tasks < Busy THEN OkR ELSE AnyR
      \* restoring a wallet that is in the database (in whatever status) is a duplicate
      [] rule \in {"import:w1", "import:w3"} ->
            LET w == SubSeq(rule, 8, 9) IN
            IF pre.st[w] = "absent" THEN (IF pre.tasks < Busy THEN OkR ELSE AnyR) ELSE ErrR
      \* restoring / creating a wallet nobody has seen
      [] rule = "importnew" -> IF pre.tasks < Busy THEN OkR ELSE AnyR
      [] rule = "create" -> OkR

Rules == {"ok", "err", "any", "sel", "selerr", "selok", "w1", "w2", "w1fee", "s1fee", "s1", "pp", "foreign", "spend", "newaddr",
          "use:w1", "use:w2", "use:w3", "secret:w1", "secret:w2", "secret:w3", "remove:w1", "remove:w2",
          "remove:w3", "import:w1", "import:w3", "importnew", "create"}

\* rule of an outpoint shape used as the input of a manual transaction, a fee estimate or a signature
OutRule(o) ==
    CASE o \in {"confirmed", "confirmed2"} -> "w1"
      [] o \in {"staking", "binding", "spent"} -> "any"      \* locked, or already spent: C02 / C10 settle these
      [] o = "s1change" -> "s1"
      [] o \in {"ppout", "ppbind"} -> "pp"
      [] o = "foreign" -> "foreign"
      [] o \in {"ppoor", "stranger", "unknown", "voutoor", "voutmax", "nonhex", "short", "long", "empty"} -> "err"
      [] o \in {"spaces", "upper"} -> "any"

\* rule of an address shape by the role the address plays; base = rule of the method's baseline
AddrRule(role, a, base) ==
    LET c == AddrClass(a) IN
    IF c = "dontcare" THEN "any" ELSE
    CASE role = "validate" -> IF c \in {"std-w1", "stk-w1", "std-w2", "stk-w2", "std-x", "stk-x"} THEN "selok" ELSE "any"
      [] role = "query"    -> CASE c = "std-w1" -> "w1" [] c = "std-w2" -> "w2"
                                [] c \in {"stk-w1", "stk-w2"} -> "any" [] OTHER -> "err"
      [] role = "payto"    -> IF c \in {"std-w1", "std-w2", "std-x"} THEN base ELSE "err"
      [] role = "change"   -> IF c \in {"std-w1", "std-w2", "std-x"} THEN base ELSE "err"
      \* ("own1" is an address of w1 that holds no free coin in some histories)
      [] role = "from"     -> CASE a = "own1" -> "any" [] c = "std-w1" -> "w1" [] c = "std-w2" -> "w2" [] OTHER -> "err"
      [] role = "staking"  -> IF c \in {"stk-w1", "stk-w2", "stk-x"} THEN base ELSE "err"
      [] role = "holder"   -> IF c \in {"std-w1", "std-w2", "std-x"} THEN base ELSE "err"
      [] role = "target"   -> IF c = "target" THEN base ELSE "err"
      [] role = "poolfrom" -> IF c \in {"std-w1", "std-w2", "std-x"} THEN "any" ELSE "err"
      [] role = "loose"    -> "any"

\* rule of an amount shape; base = rule of the method's baseline
AmtRule(role, v, base) ==
    CASE role = "amount" ->
            CASE v \in {"one", "frac"} -> base
              [] v \in {"empty", "dust"} -> "any"            \* C15: the empty numeral is not settled; dust limits: C02
              [] OTHER -> "err"                              \* zero, negative, beyond the supply, not a numeral,
                                                             \* more than the wallet holds, excess precision
      [] role = "fee" ->
            CASE v \in {"one", "frac", "zero", "empty"} -> base   \* zero / empty: the wallet computes the fee
              [] v = "dust" -> "any"
              [] OTHER -> "err"

-----------------------------------------------------------------------------
(* The case table.  R(m, rule, shapes) contributes the cases (m, sh) for    *)
(* sh in shapes with that rule.                                             *)

R(m, rule, shapes) == {<<m, sh, rule>> : sh \in shapes}
Pre(d, S) == {d \o "=" \o x : x \in S}

WalletCases ==
         R("GetClientStatus", "ok", {"base"}) \cup R("QuitClient", "ok", {"base"}) \cup R("Wallets", "ok", {"base"})
    \cup {<<"UseWallet", "wid=" \o w, "use:" \o w>> : w \in Wal}
    \cup R("UseWallet", "err", Pre("wid", WidShapes \ Wal))
    \cup UNION {{<<m, "wid=" \o w, "secret:" \o w>> : w \in Wal}
                \cup R(m, "err", Pre("wid", WidShapes \ Wal)) \cup R(m, "err", Pre("pass", PassBad))
                : m \in {"ExportWallet", "GetWalletMnemonic"}}
    \cup {<<"RemoveWallet", "wid=" \o w, "remove:" \o w>> : w \in Wal}
    \cup R("RemoveWallet", "err", Pre("wid", WidShapes \ Wal)) \cup R("RemoveWallet", "err", Pre("pass", PassBad))
    \cup R("CreateWallet", "create", {"base", "bits=256"})
    \cup R("CreateWallet", "any", {"bits=0", "remarks=long10k", "remarks=nonutf8", "remarks=empty", "remarks=unicode"})
    \cup R("CreateWallet", "err", {"bits=127", "bits=neg", "bits=huge", "bits=64", "bits=8", "bits=512",
                                   "pass=short", "pass=long", "pass=empty", "pass=pubpass"})
    \cup R("CreateWallet", "any", {"pass=nonutf8"})
    \cup R("ImportMnemonic", "import:w3", {"base"}) \cup R("ImportMnemonic", "import:w1", {"mn=w1"})
    \cup R("ImportMnemonic", "importnew", {"mn=fresh", "ext=0", "ext=1", "ext=100", "ext=big", "int=1", "int=100", "int=big"})
    \cup R("ImportMnemonic", "any", {"remarks=long10k", "mn=upper", "mn=doublespace", "pass=nonutf8"})
    \cup R("ImportMnemonic", "err", {"mn=badsum", "mn=unknownword", "mn=elevenwords", "mn=short", "mn=long", "mn=long10k",
                                     "mn=empty", "mn=nonutf8", "pass=short", "pass=long", "pass=empty"})
    \cup R("ImportWallet", "import:w1", {"ks=w1"}) \cup R("ImportWallet", "importnew", {"ks=fresh", "ks=bigindex"})
    \cup R("ImportWallet", "err", {"ks=empty", "ks=notjson", "ks=emptyobj", "ks=null", "ks=array", "ks=truncated", "ks=huge",
                                   "ks=nested", "ks=nullfields", "ks=emptyfields", "ks=shortfields", "ks=nonhexfields",
                                   "ks=othercoin", "pass=wrong", "pass=short", "pass=long", "pass=empty", "pass=nonutf8"})

QueryCases ==
         R("GetWalletBalance", "sel", {"base", "detail=true", "conf=1", "conf=max"})
    \cup R("GetWalletBalance", "err", {"conf=neg", "conf=min"})
    \cup UNION {R(m, "sel", {"base"})
                \cup {<<m, "addr=" \o a, AddrRule("query", a, "sel")>> : a \in AddrShapes}
                \cup R(m, "w1", {"addr=owndup", "addr=ownall"}) \cup R(m, "any", {"addr=many"})
                : m \in {"GetAddressBalance", "GetUtxo"}}
    \cup R("GetAddressBalance", "sel", {"conf=1", "conf=max"}) \cup R("GetAddressBalance", "err", {"conf=neg"})
    \cup R("CreateAddress", "newaddr", {"ver=0", "ver=1"}) \cup R("CreateAddress", "err", {"ver=2", "ver=neg", "ver=max"})
    \cup R("CreateAddress", "any", {"ver=65536"})            \* the handler reads the low 16 bits
    \cup R("GetAddresses", "sel", {"ver=0", "ver=1"}) \cup R("GetAddresses", "err", {"ver=2", "ver=neg", "ver=max"})
    \cup R("GetAddresses", "any", {"ver=65536"})
    \cup {<<"ValidateAddress", "addr=" \o a, AddrRule("validate", a, "selok")>> : a \in AddrShapes}
    \cup R("TxHistory", "sel", {"base", "count=1", "count=1000"}) \cup R("TxHistory", "err", {"count=1001", "count=max"})
    \cup {<<"TxHistory", "addr=" \o a, IF a = "empty" THEN "sel" ELSE AddrRule("query", a, "sel")>> : a \in AddrShapes}
    \cup R("GetStakingHistory", "selerr", {"type=default", "type=all", "type=garbage", "type=long10k"})
    \cup R("GetBindingHistory", "sel", {"type=default", "type=all", "type=garbage", "type=long10k"})
    \cup R("GetTxStatus", "ok", Pre("txid", {"confirmed", "coinbase", "pending", "unknown", "upper"}))
    \cup R("GetTxStatus", "err", Pre("txid", {"nonhex", "short", "long", "empty", "spaces"}))
    \cup R("GetRawTransaction", "ok", Pre("txid", {"confirmed", "coinbase"}))
    \cup R("GetRawTransaction", "any", Pre("txid", {"pending", "upper"}))   \* the node's pool never saw pp
    \cup R("GetRawTransaction", "err", Pre("txid", {"unknown", "nonhex", "short", "long", "empty", "spaces"}))
    \cup R("GetNetworkBinding", "any", Pre("h", {"0", "1", "tip", "beyond", "max"}))
    \cup R("CheckPoolPkCoinbase", "any", Pre("keys", {"none", "short", "zeros48", "ones48", "many", "empty"}))
    \cup R("CheckPoolPkCoinbase", "err", {"keys=nonhex"})
    \cup {<<"CheckTargetBinding", "target=" \o a, "any">> : a \in AddrShapes \cup {"none", "many"}}

HexOkShapes == {"confirmed", "twoin", "dupin", "upper"}
HexAnyShapes == {"confirmed2", "staking", "binding", "spent", "s1change", "ppout", "ppbind", "ppoor", "foreign", "stranger", "unknown",
                 "voutoor", "voutmax", "mixedin", "opreturn", "emptyscript", "bind22bad", "signed", "noin", "noout", "trailing"}
HexBadShapes == {"nonhex", "odd", "truncated", "garbage", "huge"}
\* the transactions of the "afterevents" history, in the order they were delivered
ScriptSeq == <<"std", "bind20", "opreturn", "opreturnbare", "empty", "multisigbad", "truncpush", "nonstd", "witv1",
               "std31", "huge", "bind22bad", "bind21", "bind22", "stk0", "stkmax", "stk7", "stktrail">>
EvIdx == 0..(2 * Len(ScriptSeq) - 1)
EvName(k) == "ev" \o ToString(k)
EvScript(k) == ScriptSeq[(k % Len(ScriptSeq)) + 1]
EvShapes == {d \o "=" \o EvName(k) : d \in {"txid", "hex"}, k \in EvIdx}

TxCases ==
         R("DecodeRawTransaction", "ok", Pre("hex", HexOkShapes))
    \cup R("DecodeRawTransaction", "any", {"hex=empty"})             \* the empty string: not settled
    \cup R("SendRawTransaction", "err", {"hex=empty"})
    \cup {<<m, "hex=" \o EvName(k), IF m = "DecodeRawTransaction" /\ EvScript(k) \in {"std", "bind20"} THEN "ok" ELSE "any">>
            : m \in {"DecodeRawTransaction", "SendRawTransaction"}, k \in EvIdx}
    \cup {<<"GetTxStatus", "txid=" \o EvName(k), "ok">> : k \in EvIdx}
    \cup {<<"GetRawTransaction", "txid=" \o EvName(k), IF EvScript(k) \in {"std", "bind20"} THEN "ok" ELSE "any">> : k \in EvIdx}
    \cup R("DecodeRawTransaction", "any", Pre("hex", HexAnyShapes))     \* output scripts: C16
    \cup R("DecodeRawTransaction", "err", Pre("hex", HexBadShapes))
    \cup R("SendRawTransaction", "any", Pre("hex", HexOkShapes \cup HexAnyShapes))   \* the node decides
    \cup R("SendRawTransaction", "err", Pre("hex", HexBadShapes))
    \* ---- signing: baseline = unsigned payment of the coin "confirmed" of w1, right passphrase, ALL
    \cup {<<"SignRawTransaction", "tx=" \o o, OutRule(o)>> : o \in OutWellFormed}
    \cup R("SignRawTransaction", "w1", {"tx=twoin", "flags=default", "flags=NONE", "flags=SINGLE", "flags=ALLANY",
                                        "flags=NONEANY", "flags=SINGLEANY", "tx=upper"})
    \cup R("SignRawTransaction", "any", {"tx=noin", "tx=dupin", "tx=noout", "tx=opreturn", "tx=emptyscript", "tx=bind22bad",
                                         "tx=signed", "tx=trailing", "pass=nonutf8"})
    \cup R("SignRawTransaction", "err", {"tx=mixedin", "tx=empty", "tx=nonhex", "tx=odd", "tx=truncated",
                                         "tx=garbage", "tx=huge", "pass=wrong", "pass=short", "pass=long", "pass=empty",
                                         "flags=bogus", "flags=lower", "flags=long10k"})
    \* ---- manual transaction: baseline = input "confirmed", 1 MASS to w2
    \cup R("CreateRawTransaction", "w1", {"base", "in=two", "lock=100", "lock=max63", "subfee=valid"})
    \cup {<<"CreateRawTransaction", "in=" \o o, OutRule(o)>> : o \in OutShapes}
    \cup R("CreateRawTransaction", "err", {"in=none", "in=mixed", "lock=over63", "lock=max", "subfee=unknown", "amt=emptymap"})
    \cup R("CreateRawTransaction", "any", {"in=dup", "in=nil", "subfee=garbage"})
    \cup {<<"CreateRawTransaction", "to=" \o a, AddrRule("payto", a, "w1")>> : a \in AddrShapes}
    \cup {<<"CreateRawTransaction", "change=" \o a, IF a = "empty" THEN "w1" ELSE AddrRule("change", a, "w1")>> : a \in AddrShapes}
    \cup {<<"CreateRawTransaction", "amt=" \o v, AmtRule("amount", v, "w1")>> : v \in AmtShapes}
    \* ---- automatic selection: baseline = 1 MASS to w2 from the selected wallet
    \cup R("AutoCreateTransaction", "spend", {"base", "lock=100"}) \cup R("AutoCreateTransaction", "err", {"lock=over63", "amt=emptymap"})
    \cup {<<"AutoCreateTransaction", "to=" \o a, AddrRule("payto", a, "spend")>> : a \in AddrShapes}
    \cup {<<"AutoCreateTransaction", "from=" \o a, IF a = "empty" THEN "spend" ELSE AddrRule("from", a, "spend")>> : a \in AddrShapes}
    \cup {<<"AutoCreateTransaction", "change=" \o a, IF a = "empty" THEN "spend" ELSE AddrRule("change", a, "spend")>> : a \in AddrShapes}
    \cup {<<"AutoCreateTransaction", "amt=" \o v, AmtRule("amount", v, "spend")>> : v \in AmtShapes}
    \cup {<<"AutoCreateTransaction", "fee=" \o v, AmtRule("fee", v, "spend")>> : v \in AmtShapes}
    \* ---- staking deposit: baseline = smallest legal deposit to w1's staking address
    \cup R("CreateStakingTransaction", "spend", {"base"})
    \cup R("CreateStakingTransaction", "err", {"frozen=0"}) \cup R("CreateStakingTransaction", "any", {"frozen=max", "frozen=65536"})
    \cup {<<"CreateStakingTransaction", "staking=" \o a, AddrRule("staking", a, "spend")>> : a \in AddrShapes}
    \cup {<<"CreateStakingTransaction", "from=" \o a, IF a = "empty" THEN "spend" ELSE AddrRule("from", a, "spend")>> : a \in AddrShapes}
    \cup {<<"CreateStakingTransaction", "amt=" \o v, IF v \in {"one", "frac"} THEN "err" ELSE AmtRule("amount", v, "spend")>> : v \in AmtShapes \ {"empty"}}
    \cup {<<"CreateStakingTransaction", "fee=" \o v, AmtRule("fee", v, "spend")>> : v \in AmtShapes}
    \* ---- binding deposit: baseline = 1 MASS held by w1, bound to an old-style target
    \cup R("CreateBindingTransaction", "spend", {"base", "outs=two"}) \cup R("CreateBindingTransaction", "err", {"outs=none"})
    \cup R("CreateBindingTransaction", "any", {"outs=nil"})
    \cup {<<"CreateBindingTransaction", "holder=" \o a, AddrRule("holder", a, "spend")>> : a \in AddrShapes}
    \cup {<<"CreateBindingTransaction", "target=" \o a, AddrRule("target", a, "spend")>> : a \in AddrShapes}
    \cup {<<"CreateBindingTransaction", "from=" \o a, IF a = "empty" THEN "spend" ELSE AddrRule("from", a, "spend")>> : a \in AddrShapes}
    \cup {<<"CreateBindingTransaction", "amt=" \o v, AmtRule("amount", v, "spend")>> : v \in AmtShapes}
    \cup {<<"CreateBindingTransaction", "fee=" \o v, AmtRule("fee", v, "spend")>> : v \in AmtShapes}
    \* ---- pool coinbase: no valid payload can be built without a BLS key pair, so no MUST-ACCEPT case
    \cup R("CreatePoolPkCoinbaseTransaction", "err", {"base", "payload=empty", "payload=nonhex", "payload=short", "payload=method0", "payload=odd"})
    \cup R("CreatePoolPkCoinbaseTransaction", "any", {"payload=ones", "payload=huge"})
    \cup {<<"CreatePoolPkCoinbaseTransaction", "from=" \o a, AddrRule("poolfrom", a, "any")>> : a \in AddrShapes}
    \* ---- fee estimate
    \cup R("GetTransactionFee", "spend", {"base", "binding"}) \cup R("GetTransactionFee", "err", {"amt=emptymap"})
    \cup R("GetTransactionFee", "any", {"in=nil"})
    \cup {<<"GetTransactionFee", "in=" \o o, CASE o = "foreign" -> "any" [] OutRule(o) = "w1" -> "w1fee"
                                                [] OutRule(o) = "s1" -> "s1fee" [] OTHER -> OutRule(o)>> : o \in OutShapes}
    \cup {<<"GetTransactionFee", "to=" \o a, "any">> : a \in AddrShapes}        \* without has_binding only the amounts are read
    \cup {<<"GetTransactionFee", "bto=" \o a, AddrRule("holder", a, "spend")>> : a \in AddrShapes}
    \cup {<<"GetTransactionFee", "amt=" \o v, AmtRule("amount", v, "spend")>> : v \in AmtShapes}
    \cup {<<"GetTransactionFee", "bamt=" \o v, AmtRule("amount", v, "spend")>> : v \in AmtShapes}

Cases == WalletCases \cup QueryCases \cup TxCases
Methods == {c[1] : c \in Cases}
CaseKeys == {<<c[1], c[2]>> : c \in Cases}
RuleMap == [k \in CaseKeys |-> (CHOOSE c \in Cases : c[1] = k[1] /\ c[2] = k[2])[3]]
RuleOf(m, sh) == IF <<m, sh>> \in CaseKeys THEN RuleMap[<<m, sh>>] ELSE "undefined"

\* calls after which the abstract state may differ (the plan puts them last)
Mutating(m, sh) ==
    \/ m \in {"UseWallet", "RemoveWallet"} /\ sh \in {"wid=w1", "wid=w2", "wid=w3"}
    \/ m = "CreateWallet" /\ RuleOf(m, sh) \in {"create", "any"}
    \/ m \in {"ImportMnemonic", "ImportWallet"} /\ RuleOf(m, sh) \in {"import:w1", "import:w3", "importnew", "any"}
    \/ m = "SendRawTransaction" /\ sh = "hex=signed"       \* leaves a transaction in the node's pool

-----------------------------------------------------------------------------
(* The state machine: Call(pre, m, sh, resp, post).                         *)

\* (the transaction history of a wallet that holds transactions with non-template outputs: whether it
\* can still be listed is not this property's business - it must be answered)
ClassOK(pre, m, sh, class) ==
    LET A == IF m = "TxHistory" /\ pre.coins = "odd" THEN AnyR ELSE Allowed(pre, RuleOf(m, sh)) IN
    \/ class \in A
    \/ "err" \in A /\ class # "ok" /\ class # "nil" /\ class # "unmarshalable"

\* the wallet named by a life-cycle case
Target(sh) == SubSeq(sh, 5, 6)

PostOK(pre, m, sh, class, post) ==
    LET same == post.sel = pre.sel /\ post.st = pre.st /\ post.tasks = pre.tasks /\ post.extra = pre.extra
    IN
    /\ post.coins = pre.coins
    /\ CASE class # "ok" -> same                                             \* a refused request changes nothing
         [] m = "UseWallet" /\ sh \in {"wid=w1", "wid=w2", "wid=w3"} ->
                post = [pre EXCEPT !.sel = Target(sh)]
         [] m = "RemoveWallet" /\ sh \in {"wid=w1", "wid=w2", "wid=w3"} ->
                post = [pre EXCEPT !.st[Target(sh)] = "removing", !.tasks = pre.tasks + 1]
         [] m = "CreateWallet" -> post = [pre EXCEPT !.extra = pre.extra + 1]
         [] m \in {"ImportMnemonic", "ImportWallet"} ->
                LET r == RuleOf(m, sh) IN
                IF r \in {"import:w1", "import:w3"}
                THEN LET w == SubSeq(r, 8, 9) IN
                     \/ post = [pre EXCEPT !.st[w] = "importing", !.tasks = pre.tasks + 1]
                     \/ post = [pre EXCEPT !.st[w] = "ready"]               \* nothing to scan
                ELSE \/ post = [pre EXCEPT !.extra = pre.extra + 1, !.tasks = pre.tasks + 1]
                     \/ post = [pre EXCEPT !.extra = pre.extra + 1]
         [] OTHER -> same

\* background worker and follower, as far as the abstract state sees them (used by the model, ApiMC)
WorkerStep(pre, post) ==
    /\ pre.tasks > 0
    /\ \/ \E w \in Wal : pre.st[w] = "importing" /\ post = [pre EXCEPT !.st[w] = "ready", !.tasks = pre.tasks - 1]
       \/ \E w \in Wal : pre.st[w] = "removing"
             /\ post = [pre EXCEPT !.st[w] = "absent", !.tasks = pre.tasks - 1,
                                   !.sel = IF pre.sel = w THEN "none" ELSE pre.sel]
       \* a task of a wallet outside w1..w3, or a second task for a wallet that has been dealt with
       \/ /\ pre.tasks > Cardinality({w \in Wal : pre.st[w] \in {"importing", "removing"}})
          /\ post = [pre EXCEPT !.tasks = pre.tasks - 1]

-----------------------------------------------------------------------------
(* Chain events                                                             *)

ScriptShapes == {ScriptSeq[k] : k \in DOMAIN ScriptSeq}
EventKinds == {"block", "tx"}
Relevance == {"irrelevant", "credit", "debit"}
EventStates == {"ready", "pending", "importing", "removing"}

\* (D): an event the node could deliver is processed and leaves the wallet on the node's tip;
\* "undeliverable" = the node side of the harness (consensus sanity check, address indexer) refused it
EventOK(e) == \/ e.outcome = "undeliverable"
              \/ e.outcome = "processed" /\ e.synced = e.tip /\ e.aftersynced = e.aftertip

\* start-up with one failing storage read: the wallet either refuses to start or runs with both goroutines
StartShapes == {"worker-read-fails", "first-read-fails", "second-read-fails"}
StartOK(s) == \/ s.outcome = "refused"
              \/ s.outcome = "started" /\ s.alive /\ s.worker

MarkerOK(k) == k.alive /\ k.workerok
=============================================================================
